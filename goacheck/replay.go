package main

import (
	"encoding/json"
	"fmt"
	"os"
	"os/exec"
	"path/filepath"
	"sort"
	"strings"
)

// Sensitivity replay (thorough tier): every seeded change recorded under
// /verif/seeded for this property (sub-agent seeds and reversed repairs of the
// genuine defects) is applied to a scratch copy of the repository outside
// /repo and /verif, the copy is re-analysed statically with the same rules,
// and the scratch copy is removed. A seed that applies and is not reported is
// printed as WARN insensitive; it never changes the verdict on the real tree.

type seedResult struct {
	ID      string   `json:"id"`
	Benign  bool     `json:"benign,omitempty"` // a behaviour-preserving refactoring: the expected outcome is silence
	Fired   bool     `json:"fired"`
	Rules   []string `json:"rules,omitempty"`
	Skipped string   `json:"skipped,omitempty"`
}

func copyTree(src, dst string) error {
	return filepath.Walk(src, func(p string, info os.FileInfo, err error) error {
		if err != nil {
			return err
		}
		rel, _ := filepath.Rel(src, p)
		if rel == ".git" || strings.HasPrefix(rel, ".git"+string(filepath.Separator)) {
			if info.IsDir() {
				return filepath.SkipDir
			}
			return nil
		}
		t := filepath.Join(dst, rel)
		if info.IsDir() {
			return os.MkdirAll(t, 0o755)
		}
		if !info.Mode().IsRegular() {
			return nil
		}
		b, err := os.ReadFile(p)
		if err != nil {
			return err
		}
		return os.WriteFile(t, b, info.Mode().Perm())
	})
}

func replaySeeds(verif, repo, prop string) []seedResult {
	type seed struct {
		id, patch string
		benign    bool
	}
	var seeds []seed
	dirs, _ := filepath.Glob(filepath.Join(verif, "seeded", "*", "meta.json"))
	sort.Strings(dirs)
	for _, m := range dirs {
		b, err := os.ReadFile(m)
		if err != nil {
			continue
		}
		var meta struct {
			ID       string `json:"id"`
			Property string `json:"property"`
		}
		if json.Unmarshal(b, &meta) != nil || meta.Property != prop {
			continue
		}
		seeds = append(seeds, seed{meta.ID, filepath.Join(filepath.Dir(m), "patch.diff"), false})
	}
	if b, err := os.ReadFile(filepath.Join(verif, "seeded", "fixrev", "index.json")); err == nil {
		var idx map[string]struct {
			Properties []string `json:"properties"`
		}
		if json.Unmarshal(b, &idx) == nil {
			var hs []string
			for h := range idx {
				hs = append(hs, h)
			}
			sort.Strings(hs)
			for _, h := range hs {
				for _, p := range idx[h].Properties {
					if p == prop {
						seeds = append(seeds, seed{"fixrev-" + h, filepath.Join(verif, "seeded", "fixrev", h+".diff"), false})
					}
				}
			}
		}
	}
	// specificity: behaviour-preserving refactorings must leave every check silent
	bs, _ := filepath.Glob(filepath.Join(verif, "seeded", "benign", "*.diff"))
	sort.Strings(bs)
	for _, b := range bs {
		seeds = append(seeds, seed{"benign-" + strings.TrimSuffix(filepath.Base(b), ".diff"), b, true})
	}
	self, _ := os.Executable()
	var out []seedResult
	for _, s := range seeds {
		res := seedResult{ID: s.id, Benign: s.benign}
		tmp, err := os.MkdirTemp("", "goacheck-replay-")
		if err != nil {
			res.Skipped = err.Error()
			out = append(out, res)
			continue
		}
		func() {
			defer os.RemoveAll(tmp)
			copyDir := filepath.Join(tmp, "repo")
			if err := copyTree(repo, copyDir); err != nil {
				res.Skipped = "copy failed: " + err.Error()
				return
			}
			apply := exec.Command("git", "apply", "--unsafe-paths", s.patch)
			apply.Dir = copyDir
			apply.Env = append(os.Environ(), "GIT_DIR=/nonexistent", "GIT_CEILING_DIRECTORIES="+tmp)
			if b, err := apply.CombinedOutput(); err != nil {
				res.Skipped = "patch does not apply any more: " + strings.TrimSpace(string(b))
				return
			}
			vdir := filepath.Join(tmp, "verif")
			os.MkdirAll(vdir, 0o755)
			if kb, err := os.ReadFile(filepath.Join(verif, "known_findings.json")); err == nil {
				os.WriteFile(filepath.Join(vdir, "known_findings.json"), kb, 0o644)
			}
			cmd := exec.Command(self, "-prop", prop, "-tier", "quick", "-repo", copyDir, "-verif", vdir)
			cmd.Env = append(os.Environ(), "VERIF_TIER=quick")
			b, _ := cmd.Output()
			rules := map[string]bool{}
			for _, l := range strings.Split(string(b), "\n") {
				f := strings.Fields(l)
				if len(f) >= 3 && (f[0] == "FAIL" || f[0] == "UNDECIDED" || f[0] == "ANCHOR-LOST") {
					rules[f[2]] = true
				}
			}
			for r := range rules {
				res.Rules = append(res.Rules, r)
			}
			sort.Strings(res.Rules)
			code := -1
			if cmd.ProcessState != nil {
				code = cmd.ProcessState.ExitCode()
			}
			res.Fired = code == 1
			if code != 0 && code != 1 {
				// the checker itself failed on this variant (load error, panic): an alarm for a refactoring, not a
				// detection for a seeded change
				res.Rules = append(res.Rules, "BROKEN")
				res.Fired = s.benign
			}
		}()
		out = append(out, res)
		switch {
		case res.Skipped != "":
			fmt.Printf("REPLAY %s %s skipped: %s\n", prop, res.ID, res.Skipped)
		case res.Benign && res.Fired:
			fmt.Printf("WARN false-alarm %s %s: a behaviour-preserving refactoring is reported by %s\n", prop, res.ID, strings.Join(res.Rules, ","))
		case res.Benign:
			fmt.Printf("REPLAY %s %s silent (behaviour-preserving refactoring)\n", prop, res.ID)
		case len(res.Rules) == 1 && res.Rules[0] == "BROKEN":
			fmt.Printf("WARN broken %s %s: the checker failed on this variant (it neither detects nor clears it)\n", prop, res.ID)
		case res.Fired:
			fmt.Printf("REPLAY %s %s detected by %s\n", prop, res.ID, strings.Join(res.Rules, ","))
		default:
			fmt.Printf("WARN insensitive %s %s: the seeded change applies but no rule of %s reports it\n", prop, res.ID, prop)
		}
	}
	return out
}
