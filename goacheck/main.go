// Command goacheck decides the static rules of one property of
// /verif/properties.jsonl on the current working tree of the goa repository.
package main

import (
	"flag"
	"fmt"
	"os"
	"path/filepath"
	"sort"
	"strings"

	"goacheck/an"
	"goacheck/props"
)

func main() {
	prop := flag.String("prop", "", "property id (C01..C20) or 'list'")
	tier := flag.String("tier", "quick", "quick|thorough")
	repo := flag.String("repo", "/repo", "path of the goa working tree")
	verif := flag.String("verif", "/verif", "path of the verification directory")
	replay := flag.String("replay", "", "replay file (re-runs the property; the file names the failing constructs)")
	dump := flag.String("dump", "", "debug: print the path table of dir:Recv.Name (e.g. http:ErrorResponse.StatusCode)")
	loop := flag.Int("loop", 0, "debug: loop bound for -dump")
	shareddbg := flag.Bool("shared", false, "debug: list writes to shared locations")
	mapdbg := flag.Bool("maporder", false, "debug: list all range-over-map sites with their class")
	listsyms := flag.Bool("listsyms", false, "debug: print struct fields and package variables of the module (input of an/refsyms.go)")
	listinits := flag.Bool("listinits", false, "debug: print an/refinits.go (initialisers of package-level variables of the reference tree)")
	listfuncs := flag.Bool("listfuncs", false, "debug: print the full names of all module functions (input of an/reffuncs.go)")
	pairsdbg := flag.Bool("pairs", false, "debug: list struct fields that are always stored together (candidates for the paired-store rule)")
	lintdbg := flag.Bool("lints", false, "debug: run every control-flow lint over every module function")
	paritydbg := flag.String("parity", "", "debug: sibling-word parity, e.g. header,cookie")
	flag.Parse()
	if *listsyms {
		abs, _ := filepath.Abs(*repo)
		ctx, err := an.Load(abs, "dump", "quick")
		if err != nil {
			fmt.Fprintln(os.Stderr, err)
			os.Exit(2)
		}
		for _, l := range ctx.AllSymbols() {
			fmt.Println(l)
		}
		return
	}
	if *listinits {
		abs, _ := filepath.Abs(*repo)
		ctx, err := an.Load(abs, "dump", "quick")
		if err != nil {
			fmt.Fprintln(os.Stderr, err)
			os.Exit(2)
		}
		inits := ctx.GlobalInits()
		var dirs []string
		for d := range inits {
			dirs = append(dirs, d)
		}
		sort.Strings(dirs)
		fmt.Println("package an\n\n// referenceGlobalInits: initialiser text of the package-level variables of the reference tree\n// (generated with `goacheck -listinits > an/refinits.go`); see canonGlobal.\nvar referenceGlobalInits = map[string]map[string]string{")
		for _, d := range dirs {
			var names []string
			for n := range inits[d] {
				names = append(names, n)
			}
			sort.Strings(names)
			fmt.Printf("\t%q: {\n", d)
			for _, n := range names {
				fmt.Printf("\t\t%q: %q,\n", n, inits[d][n])
			}
			fmt.Println("\t},")
		}
		fmt.Println("}")
		return
	}
	if *listfuncs {
		abs, _ := filepath.Abs(*repo)
		ctx, err := an.Load(abs, "dump", "quick")
		if err != nil {
			fmt.Fprintln(os.Stderr, err)
			os.Exit(2)
		}
		for _, n := range ctx.AllSSAFuncNames() {
			fmt.Println(n)
		}
		return
	}
	if *paritydbg != "" {
		abs, _ := filepath.Abs(*repo)
		ctx, err := an.Load(abs, "dump", "quick")
		if err != nil {
			fmt.Fprintln(os.Stderr, err)
			os.Exit(2)
		}
		w := strings.Split(*paritydbg, ",")
		for _, d := range ctx.ModuleDirs() {
			for _, f := range ctx.AllFuncs(d) {
				for _, a := range an.Parity(f, w[0], w[1]) {
					fmt.Printf("ASYM %s %s [%s] %s\n", ctx.Position(a.Pos), f.Name, a.Word, a.Norm)
				}
			}
		}
		return
	}
	if *pairsdbg {
		abs, _ := filepath.Abs(*repo)
		ctx, err := an.Load(abs, "dump", "quick")
		if err != nil {
			fmt.Fprintln(os.Stderr, err)
			os.Exit(2)
		}
		an.DiscoverFieldPairs(ctx)
		return
	}
	if *lintdbg {
		abs, _ := filepath.Abs(*repo)
		ctx, err := an.Load(abs, "dump", "quick")
		if err != nil {
			fmt.Fprintln(os.Stderr, err)
			os.Exit(2)
		}
		for _, d := range ctx.ModuleDirs() {
			for _, f := range ctx.AllFuncs(d) {
				for _, h := range an.AllLints(f) {
					fmt.Printf("LINT %s %s %s\n", ctx.Position(h.Pos), h.Construct, h.Msg)
				}
				for _, se := range an.SwallowedErrors(f) {
					fmt.Printf("SWALLOW %s %s returns nil while %s is non-nil\n", ctx.Position(se.Ret.Pos()), f.Name, se.Err.Name())
				}
				if n, _ := an.CopySlips(f); n > 0 {
					fmt.Printf("COPYFAMILIES %s %d\n", f.Name, n)
				}
				for _, sc := range an.SelfCopies(f) {
					fmt.Printf("SELFCOPY %s %s %s mapped=%d missing=%v\n", ctx.Position(sc.Lit.Pos()), f.Name, sc.Type, sc.Mapped, sc.Missing)
				}
			}
		}
		return
	}
	if *shareddbg {
		abs, _ := filepath.Abs(*repo)
		ctx, err := an.Load(abs, "dump", "quick")
		if err != nil {
			fmt.Fprintln(os.Stderr, err)
			os.Exit(2)
		}
		for _, d := range ctx.ModuleDirs() {
			for _, f := range ctx.AllFuncs(d) {
				sf := ctx.SSAFunc(f)
				if sf == nil {
					continue
				}
				for _, g := range an.AllFunctions(sf) {
					for _, w := range an.SharedWrites(g) {
						fmt.Printf("%-12s %s %s -> %s locked=%q atomic=%v\n", w.Kind, ctx.Position(w.Pos), an.FuncDisplayName(g), w.Target, w.Locked, w.Atomic)
					}
				}
			}
		}
		return
	}
	if *mapdbg {
		abs, _ := filepath.Abs(*repo)
		ctx, err := an.Load(abs, "dump", "quick")
		if err != nil {
			fmt.Fprintln(os.Stderr, err)
			os.Exit(2)
		}
		for _, d := range ctx.ModuleDirs() {
			for _, f := range ctx.AllFuncs(d) {
				for _, mr := range an.MapRanges(f, nil) {
					fmt.Printf("%-22s %s %s range %s :: %s\n", mr.Class, ctx.Position(mr.Stmt.Pos()), f.Name, an.Src(ctx.Fset, mr.Stmt.X), mr.Reason)
				}
				for _, sv := range an.StaleLoopVars(f) {
					fmt.Printf("STALEVAR %s %s var=%s read=%s\n", ctx.Position(sv.Set.Pos()), f.Name, sv.Var.Name(), ctx.Position(sv.Read.Pos()))
				}
				for _, sc := range an.SortComparators(f) {
					fmt.Printf("SORT %s %s %s\n", ctx.Position(sc.Call.Pos()), f.Name, sc.Problem)
				}
			}
		}
		return
	}
	if *dump != "" {
		abs, _ := filepath.Abs(*repo)
		ctx, err := an.Load(abs, "dump", "quick")
		if err != nil {
			fmt.Fprintln(os.Stderr, err)
			os.Exit(2)
		}
		i := strings.Index(*dump, ":")
		fname, anon := (*dump)[i+1:], 0
		if j := strings.Index(fname, "$"); j >= 0 {
			fmt.Sscanf(fname[j+1:], "%d", &anon)
			fname = fname[:j]
		}
		f := ctx.Func((*dump)[:i], fname)
		if f == nil {
			fmt.Fprintln(os.Stderr, "not found")
			os.Exit(2)
		}
		sf := ctx.SSAFunc(f)
		if anon > 0 {
			sf = sf.AnonFuncs[anon-1]
		}
		t := an.BuildPathTable(sf, an.PathOpts{LoopBound: *loop})
		fmt.Print(t.Dump())
		for _, a := range t.AtomSet() {
			fmt.Println("ATOM", a)
		}
		return
	}
	if t := os.Getenv("VERIF_TIER"); t == "quick" || t == "thorough" {
		*tier = t
	}
	if *tier != "quick" && *tier != "thorough" {
		fmt.Fprintln(os.Stderr, "bad tier", *tier)
		os.Exit(2)
	}
	if *prop == "list" {
		var ids []string
		for id := range props.Registry {
			ids = append(ids, id)
		}
		sort.Strings(ids)
		for _, id := range ids {
			fmt.Println(id)
		}
		return
	}
	run, ok := props.Registry[*prop]
	if !ok {
		fmt.Fprintln(os.Stderr, "unknown property", *prop)
		os.Exit(2)
	}
	if *replay != "" {
		fmt.Printf("replaying %s: re-deciding every rule of %s on the current tree\n", *replay, *prop)
	}
	abs, _ := filepath.Abs(*repo)
	ctx, err := an.Load(abs, *prop, *tier)
	if err != nil {
		fmt.Fprintln(os.Stderr, "BROKEN: cannot load", abs, ":", err)
		os.Exit(2)
	}
	props.Current = ctx
	known, err := an.LoadKnown(filepath.Join(*verif, "known_findings.json"))
	if err != nil {
		fmt.Fprintln(os.Stderr, "BROKEN: known_findings.json:", err)
		os.Exit(2)
	}
	code := func() (code int) {
		defer func() {
			if r := recover(); r != nil {
				fmt.Fprintf(os.Stderr, "BROKEN: analysis panicked: %v\n", r)
				panic(r)
			}
		}()
		explanation := run(ctx)
		props.AnchorRules(ctx)
		explanation += props.AnchorExplanation
		if *tier == "thorough" {
			results := replaySeeds(*verif, abs, *prop)
			fired, applied, benign, silent := 0, 0, 0, 0
			for _, r := range results {
				if r.Skipped != "" {
					continue
				}
				if r.Benign {
					benign++
					if !r.Fired {
						silent++
					}
					continue
				}
				applied++
				if r.Fired {
					fired++
				}
			}
			ctx.Extra = map[string]any{"seeded_total": len(results) - benign, "seeded_applied": applied, "seeded_fired": fired, "benign_refactorings": benign, "benign_silent": silent, "seeded_results": results}
			ctx.Stats["benign_refactorings"] = benign
			ctx.Stats["benign_silent"] = silent
			ctx.Stats["seeded_total"] = len(results)
			ctx.Stats["seeded_fired"] = fired
		}
		return ctx.Finish(*verif, explanation, known)
	}()
	os.Exit(code)
}
