package props

import (
	"fmt"
	"go/ast"
	"go/types"
	"regexp"
	"regexp/syntax"
	"sort"
	"strings"

	"goacheck/an"
)

func init() { Registry["C17"] = runC17 }

const explanationC17 = "Decides structural necessary conditions of C17 on pkg/validation.go and the sites that share its vocabulary: (R17.1) one format vocabulary — expr.Format*, goa.Format* constants, ValidateFormat's case labels, IsSupportedValidationFormat's labels and codegen.constant's string→goa.FormatX table agree by constant value (bijective); (R17.2/R17.3) on every SSA path of ValidateFormat the verdict for format F is 'accept' exactly under the predicate the format names (the stdlib parser of that format with the right layout constant succeeded; ip = ParseIP ok; ipv4 = ParseIP ok ∧ dotted-quad; ipv6 = ParseIP ok ∧ ¬dotted-quad, same regexp object with opposite polarity; unknown formats are rejected), and validateUUID = Parse ok ∧ RFC4122 variant; (R17.4) every top-level alternative of the validator regular expressions is anchored at both ends; (R17.5) the pattern cache is read under RLock and written under Lock on every path, stores MustCompile(p) under key p, and the verdict is InvalidPatternError iff !MatchString of that very pattern. (R17.6) the generated validators call the format validator and the pattern validator independently (a declared pattern is enforced even when a format is declared too). (R17.7) package dsl re-exports the format (and every other) name of package expr under the same name. NOT decided: the exact language accepted by the stdlib parsers and by the hostname/ipv4 regular expressions beyond anchoring."

// parser predicate atoms per format (canonical names)
var fmtPredicates = map[string][]string{
	"date":      {`ok:time.Parse("2006-01-02")`},
	"date-time": {`ok:time.Parse("2006-01-02T15:04:05Z07:00")`},
	"rfc1123":   {`ok:time.Parse("Mon, 02 Jan 2006 15:04:05 MST")`},
	"uuid":      {"ok:pkg.validateUUID"},
	"email":     {"ok:net/mail.ParseAddress"},
	"uri":       {"ok:net/url.ParseRequestURI"},
	"mac":       {"ok:net.ParseMAC"},
	"cidr":      {"ok:net.ParseCIDR"},
	"regexp":    {"ok:regexp.Compile"},
	"json":      {"jsonValid"},
	"hostname":  {"match:hostnameRegex"},
	"ip":        {"nil:net.ParseIP"},
	"ipv4":      {"nil:net.ParseIP", "match:ipv4Regex"},
	"ipv6":      {"nil:net.ParseIP", "match:ipv4Regex"},
}

func fmtAccept(format string, e an.Env) bool {
	switch format {
	case "ip":
		return !e["nil:net.ParseIP"]
	case "ipv4":
		return !e["nil:net.ParseIP"] && e["match:ipv4Regex"]
	case "ipv6":
		return !e["nil:net.ParseIP"] && !e["match:ipv4Regex"]
	}
	return e[fmtPredicates[format][0]]
}

func runC17(c *an.Ctx) string {
	r171Vocabulary(c)
	r172ValidateFormat(c)
	r174Regexes(c)
	r175PatternCache(c)
	keywordBlocksIndependent(c, "R17.6")
	dslReexports(c, "R17.7")
	return explanationC17
}

// formatConsts returns name->value of the Format* constants of a package.
func formatConsts(c *an.Ctx, dir string) map[string]string {
	out := map[string]string{}
	p := c.Pkg(dir)
	if p == nil {
		return out
	}
	for _, name := range p.Types.Scope().Names() {
		if !strings.HasPrefix(name, "Format") {
			continue
		}
		if cst, ok := p.Types.Scope().Lookup(name).(*types.Const); ok {
			out[name] = strings.Trim(cst.Val().ExactString(), `"`)
		}
	}
	return out
}

// caseLabelValues returns the constant string labels under which f (or a helper extracted from it) decides on
// a value satisfying pred: the case labels of a switch on that value, and the keys of a package-level map
// literal indexed by it (the table form of the same switch). In a helper, pred holds of a parameter that
// receives such a value at a call.
func caseLabelValues(f *an.Func, pred func(tag ast.Expr) bool) []string {
	group := []*an.Func{f}
	if Current != nil {
		group = Current.WithNewHelpers(f)
	}
	preds := map[*an.Func]func(ast.Expr) bool{f: pred}
	for round := 0; round < 2; round++ {
		for _, h := range group[1:] {
			flagged := map[types.Object]bool{}
			for _, g := range group {
				gp := preds[g]
				if gp == nil {
					continue
				}
				ginfo := g.Pkg.TypesInfo
				for _, call := range an.AllCallsIn(g.Decl.Body) {
					if an.Callee(ginfo, call) != types.Object(h.Obj) {
						continue
					}
					k := 0
					for _, fl := range h.Decl.Type.Params.List {
						for _, nm := range fl.Names {
							if k < len(call.Args) && gp(call.Args[k]) {
								flagged[h.Pkg.TypesInfo.Defs[nm]] = true
							}
							k++
						}
					}
				}
			}
			hinfo := h.Pkg.TypesInfo
			samePkg := h.Pkg == f.Pkg // pred reads f's package type information
			preds[h] = func(tag ast.Expr) bool {
				if flagged[an.ObjOf(hinfo, tag)] {
					return true
				}
				if samePkg {
					local := false
					if id, isID := an.Unparen(tag).(*ast.Ident); isID {
						if o := hinfo.Uses[id]; o != nil && o.Pkg() != nil && o.Parent() != o.Pkg().Scope() {
							local = true
						}
					}
					if !local {
						return pred(tag) // not a local of the helper: the caller's criterion applies as it is
					}
				}
				return false
			}
		}
	}
	var out []string
	for _, g := range group {
		gp := preds[g]
		if gp == nil {
			continue
		}
		info := g.Pkg.TypesInfo
		for _, sw := range findSwitches(g, gp) {
			for _, s := range sw.Body.List {
				for _, e := range s.(*ast.CaseClause).List {
					if v, ok := an.ConstString(info, e); ok {
						out = append(out, v)
					}
				}
			}
		}
		ast.Inspect(g.Decl.Body, func(n ast.Node) bool {
			ix, ok := n.(*ast.IndexExpr)
			if !ok || !gp(ix.Index) {
				return true
			}
			if lit := globalMapLiteral(g, ix.X); lit != nil {
				for _, el := range lit.Elts {
					if kv, ok := el.(*ast.KeyValueExpr); ok {
						if v, ok := an.ConstString(info, kv.Key); ok {
							out = append(out, v)
						}
					}
				}
			}
			return true
		})
	}
	sort.Strings(out)
	// a label decided in the function and again in a helper it delegates to is one label
	var uniq []string
	for i, v := range out {
		if i == 0 || v != out[i-1] {
			uniq = append(uniq, v)
		}
	}
	return uniq
}

// globalMapLiteral returns the composite literal that initialises the package-level map variable e denotes
// (a variable of g's package), nil otherwise.
func globalMapLiteral(g *an.Func, e ast.Expr) *ast.CompositeLit {
	info := g.Pkg.TypesInfo
	mv, ok := an.ObjOf(info, e).(*types.Var)
	if !ok || mv.Pkg() == nil || mv.Parent() != mv.Pkg().Scope() {
		return nil
	}
	if _, isMap := mv.Type().Underlying().(*types.Map); !isMap {
		return nil
	}
	var lit *ast.CompositeLit
	for _, file := range g.Pkg.Syntax {
		ast.Inspect(file, func(x ast.Node) bool {
			vs, ok := x.(*ast.ValueSpec)
			if !ok {
				return true
			}
			for i, nm := range vs.Names {
				if info.Defs[nm] == types.Object(mv) && i < len(vs.Values) {
					lit, _ = an.Unparen(vs.Values[i]).(*ast.CompositeLit)
				}
			}
			return true
		})
	}
	return lit
}

func r171Vocabulary(c *an.Ctx) {
	const rule = "R17.1"
	ec := formatConsts(c, "expr")
	gc := formatConsts(c, "pkg")
	vals := func(m map[string]string) []string {
		var v []string
		for _, x := range m {
			v = append(v, x)
		}
		sort.Strings(v)
		return v
	}
	ev, gv := vals(ec), vals(gc)
	c.Check(len(ev) >= 14 && strings.Join(ev, ",") == strings.Join(gv, ","), rule, "expr.Format*≡goa.Format*", 0,
		fmt.Sprintf("design-time and runtime format constants have the same %d values", len(ev)),
		fmt.Sprintf("design-time formats %v differ from runtime formats %v", ev, gv))
	// like-named constants have equal values
	var diff []string
	for n, v := range ec {
		if g, ok := gc[n]; ok && g != v {
			diff = append(diff, fmt.Sprintf("%s: expr=%q goa=%q", n, v, g))
		}
	}
	sort.Strings(diff)
	c.Check(len(diff) == 0, rule, "expr.FormatX==goa.FormatX", 0, "like-named constants carry the same string", strings.Join(diff, "; "))
	if f := c.MustFunc(rule, "pkg", "ValidateFormat"); f != nil {
		labels := caseLabelValues(f, func(tag ast.Expr) bool { return paramIndex(f, tag) >= 0 })
		c.Check(strings.Join(labels, ",") == strings.Join(gv, ","), rule, f.Name+"#labels", f.Decl.Pos(),
			"ValidateFormat has one case per runtime format constant", fmt.Sprintf("ValidateFormat's case labels %v differ from the format constants %v", labels, gv))
	}
	if f := c.MustFunc(rule, "expr", "AttributeExpr.IsSupportedValidationFormat"); f != nil {
		labels := caseLabelValues(f, func(tag ast.Expr) bool { return paramIndex(f, tag) >= 0 })
		c.Check(strings.Join(labels, ",") == strings.Join(ev, ","), rule, f.Name+"#labels", f.Decl.Pos(),
			"the design accepts exactly the formats the runtime validates", fmt.Sprintf("supported-format labels %v differ from the format constants %v", labels, ev))
	}
	if f := c.MustFunc(rule, "codegen", "constant"); f != nil {
		info := f.Pkg.TypesInfo
		var probs []string
		n := 0
		for _, sw := range findSwitches(f, func(tag ast.Expr) bool { return paramIndex(f, tag) >= 0 }) {
			for _, s := range sw.Body.List {
				cc := s.(*ast.CaseClause)
				if len(cc.List) != 1 || len(cc.Body) != 1 {
					continue
				}
				lbl, ok := an.ConstString(info, cc.List[0])
				ret, isRet := cc.Body[0].(*ast.ReturnStmt)
				if !ok || !isRet || len(ret.Results) != 1 {
					continue
				}
				name, ok := an.ConstString(info, ret.Results[0])
				if !ok {
					continue
				}
				n++
				cn := strings.TrimPrefix(name, "goa.")
				if gc[cn] != lbl {
					probs = append(probs, fmt.Sprintf("format %q is emitted as %s whose value is %q", lbl, name, gc[cn]))
				}
			}
		}
		// the table form of the same switch: the parameter indexes a package-level map literal
		ast.Inspect(f.Decl.Body, func(nd ast.Node) bool {
			ix, ok := nd.(*ast.IndexExpr)
			if !ok || paramIndex(f, ix.Index) < 0 {
				return true
			}
			mv, ok := an.ObjOf(info, ix.X).(*types.Var)
			if !ok || mv.Parent() != mv.Pkg().Scope() {
				return true
			}
			for _, file := range f.Pkg.Syntax {
				ast.Inspect(file, func(x ast.Node) bool {
					vs, ok := x.(*ast.ValueSpec)
					if !ok {
						return true
					}
					for i, nm := range vs.Names {
						if info.Defs[nm] != types.Object(mv) || i >= len(vs.Values) {
							continue
						}
						cl, ok := an.Unparen(vs.Values[i]).(*ast.CompositeLit)
						if !ok {
							continue
						}
						for _, el := range cl.Elts {
							kv, ok := el.(*ast.KeyValueExpr)
							if !ok {
								continue
							}
							lbl, ok1 := an.ConstString(info, kv.Key)
							name, ok2 := an.ConstString(info, kv.Value)
							if !ok1 || !ok2 {
								continue
							}
							n++
							if cn := strings.TrimPrefix(name, "goa."); gc[cn] != lbl {
								probs = append(probs, fmt.Sprintf("format %q is emitted as %s whose value is %q", lbl, name, gc[cn]))
							}
						}
					}
					return true
				})
			}
			return true
		})
		if n < len(gv) {
			probs = append(probs, fmt.Sprintf("only %d of %d formats have a constant name", n, len(gv)))
		}
		c.Check(len(probs) == 0, rule, f.Name+"#table", f.Decl.Pos(), fmt.Sprintf("generated code names the runtime constant whose value is the designed format (%d rows)", n), strings.Join(probs, "; "))
	}
}

func r172ValidateFormat(c *an.Ctx) {
	const rule = "R17.2"
	f := c.MustFunc(rule, "pkg", "ValidateFormat")
	if f == nil {
		return
	}
	t := an.BuildPathTable(c.SSAFunc(f), an.PathOpts{MaxPaths: 20000})
	c.Stats["paths_enumerated"] += len(t.Paths)
	c.Stats["functions_tabled"]++
	if t.Truncated || len(t.Paths) == 0 {
		c.Undecidedf(rule, f.Name, f.Decl.Pos(), "ValidateFormat left the decidable fragment")
		return
	}
	rules := canon(
		`^\(p2 == "([a-z0-9-]+)"\)$`, "fmt==$1",
		`^\(time\.Parse\(("[^"]*"), p1\)#1 == nil\)$`, "ok:time.Parse($1)",
		`^\(pkg\.validateUUID\(p1\) == nil\)$`, "ok:pkg.validateUUID",
		`^\((net/mail\.ParseAddress|net/url\.ParseRequestURI|net\.ParseMAC|regexp\.Compile)\(p1\)#1 == nil\)$`, "ok:$1",
		`^\(net\.ParseCIDR\(p1\)#2 == nil\)$`, "ok:net.ParseCIDR",
		`^\(net\.ParseIP\(p1\) == nil\)$`, "nil:net.ParseIP",
		`^encoding/json\.Valid\(\[\]byte\(p1\)\)$`, "jsonValid",
		`^\(\*regexp\.Regexp\)\.MatchString\(pkg\.(\w+), p1\)$`, "match:$1",
	)
	canonTable(t, rules)
	perFormat := map[string][]string{}
	seen := map[string]int{}
	for i := range t.Paths {
		p := &t.Paths[i]
		format := ""
		env := an.Env{}
		for _, a := range p.Atoms {
			env[a.Term] = a.Val
			if strings.HasPrefix(a.Term, "fmt==") && a.Val {
				format = strings.TrimPrefix(a.Term, "fmt==")
			}
		}
		accept := p.Exit == "return" && len(p.Ret) == 1 && p.Ret[0] == "nil"
		wrapped := p.Exit == "return" && len(p.Ret) == 1 && strings.HasPrefix(p.Ret[0], "pkg.InvalidFormatError(p0, p1, p2, ")
		if format == "" {
			if accept {
				perFormat["<unknown>"] = append(perFormat["<unknown>"], "an unknown format is accepted")
			}
			seen["<unknown>"]++
			continue
		}
		seen[format]++
		rel, known := fmtPredicates[format]
		if !known {
			perFormat[format] = append(perFormat[format], "format not in the reference table")
			continue
		}
		if !accept && !wrapped {
			perFormat[format] = append(perFormat[format], "rejection is not an InvalidFormatError(name, val, format, cause): "+strings.Join(p.Ret, ","))
		}
		relSet := map[string]bool{}
		for _, r := range rel {
			relSet[r] = true
		}
		for _, a := range p.Atoms {
			if strings.HasPrefix(a.Term, "fmt==") {
				continue
			}
			if !relSet[a.Term] {
				perFormat[format] = append(perFormat[format], "verdict depends on "+a.Term+", which is not the parser of this format")
			}
		}
		for m := 0; m < 1<<len(rel); m++ {
			e := an.Env{}
			consistent := true
			for j, r := range rel {
				e[r] = m&(1<<j) != 0
				if v, ok := env[r]; ok && v != e[r] {
					consistent = false
				}
			}
			if !consistent {
				continue
			}
			if want := fmtAccept(format, e); want != accept {
				perFormat[format] = append(perFormat[format], fmt.Sprintf("with %s the value is %s, the format's predicate says %s", envTrue(e), verdict(accept), verdict(want)))
			}
		}
	}
	for _, format := range sortedKeys(fmtPredicates) {
		rl := rule
		if format == "ip" || format == "ipv4" || format == "ipv6" {
			rl = "R17.3"
		}
		probs := dedupStrings(perFormat[format])
		if seen[format] == 0 {
			probs = append(probs, "no path handles this format")
		}
		if len(probs) > 0 {
			c.Failf(rl, f.Name+"#"+format, f.Decl.Pos(), "%s", strings.Join(probs[:min(3, len(probs))], " | "))
		} else {
			c.Okf(rl, f.Name+"#"+format, "accepts exactly when %s (%d paths)", describePred(format), seen[format])
		}
	}
	probs := dedupStrings(perFormat["<unknown>"])
	c.Check(len(probs) == 0 && seen["<unknown>"] > 0, rule, f.Name+"#unknown-format", f.Decl.Pos(), "a format outside the vocabulary is rejected", strings.Join(probs, "; ")+fmt.Sprintf(" (paths: %d)", seen["<unknown>"]))

	// validateUUID: Parse ok ∧ variant RFC4122
	if u := c.MustFunc(rule, "pkg", "validateUUID"); u != nil {
		decision(c, rule, u, an.PathOpts{}, canon(
			`^\(github\.com/google/uuid\.Parse\(p0\)#1 == nil\)$`, "parseOK",
			`^\(\(github\.com/google/uuid\.UUID\)\.Variant\(github\.com/google/uuid\.Parse\(p0\)#0\) == 1\)$`, "rfc4122",
		), []string{"parseOK", "rfc4122"}, nil,
			func(e an.Env) string {
				if e["parseOK"] && e["rfc4122"] {
					return "accept"
				}
				return "reject"
			},
			func(p *an.Path, _ an.Env) string {
				if len(p.Ret) == 1 && p.Ret[0] == "nil" {
					return "accept"
				}
				return "reject"
			}, "uuid = uuid.Parse succeeds ∧ variant is RFC4122")
	}
}

func verdict(accept bool) string {
	if accept {
		return "accepted"
	}
	return "rejected"
}

func describePred(format string) string {
	switch format {
	case "ip":
		return "net.ParseIP succeeds"
	case "ipv4":
		return "net.ParseIP succeeds ∧ dotted-quad"
	case "ipv6":
		return "net.ParseIP succeeds ∧ ¬dotted-quad"
	}
	return fmtPredicates[format][0]
}

func r174Regexes(c *an.Ctx) {
	const rule = "R17.4"
	p := c.Pkg("pkg")
	if p == nil {
		return
	}
	// only the regular expressions the format validator uses
	used := map[types.Object]bool{}
	if vf := c.MustFunc(rule, "pkg", "ValidateFormat"); vf != nil {
		for _, g := range c.WithNewHelpers(vf) {
			ast.Inspect(g.Decl.Body, func(n ast.Node) bool {
				if id, ok := n.(*ast.Ident); ok {
					if o := g.Pkg.TypesInfo.Uses[id]; o != nil && o.Parent() == g.Pkg.Types.Scope() {
						used[o] = true
					}
				}
				return true
			})
		}
	}
	n := 0
	for _, file := range p.Syntax {
		for _, d := range file.Decls {
			gd, ok := d.(*ast.GenDecl)
			if !ok {
				continue
			}
			for _, sp := range gd.Specs {
				vs, ok := sp.(*ast.ValueSpec)
				if !ok {
					continue
				}
				for i, nm := range vs.Names {
					if i >= len(vs.Values) || !used[p.TypesInfo.Defs[nm]] {
						continue
					}
					call, ok := an.Unparen(vs.Values[i]).(*ast.CallExpr)
					if !ok || !an.IsCallTo(p.TypesInfo, call, "regexp.MustCompile") || len(call.Args) != 1 {
						continue
					}
					src, ok := an.ConstString(p.TypesInfo, call.Args[0])
					if !ok {
						continue
					}
					n++
					construct := "pkg." + nm.Name
					if v, ok := p.TypesInfo.Defs[nm].(*types.Var); ok {
						construct = "pkg." + an.CanonGlobalName(v) // the reference name when the variable was renamed
					}
					re, err := syntax.Parse(src, syntax.Perl)
					if err != nil {
						c.Failf(rule, construct, call.Pos(), "regular expression does not parse: %v", err)
						continue
					}
					bad := unanchoredAlternatives(re)
					if len(bad) == 0 {
						c.Okf(rule, construct, "every top-level alternative of %s is anchored at both ends", src)
					} else {
						c.Failf(rule, construct, call.Pos(), "regular expression %s has top-level alternatives that are not anchored at both ends: %s", src, strings.Join(bad, " , "))
					}
				}
			}
		}
	}
	c.Floor(rule, n, 2, "validator regular expressions")
}

func unanchoredAlternatives(re *syntax.Regexp) []string {
	alts := []*syntax.Regexp{re}
	if re.Op == syntax.OpAlternate {
		alts = re.Sub
	}
	var bad []string
	for _, a := range alts {
		parts := []*syntax.Regexp{a}
		if a.Op == syntax.OpConcat {
			parts = a.Sub
		}
		if a.Op == syntax.OpCapture && len(a.Sub) == 1 {
			bad = append(bad, unanchoredAlternatives(a.Sub[0])...)
			continue
		}
		first, last := parts[0], parts[len(parts)-1]
		begins := first.Op == syntax.OpBeginText || first.Op == syntax.OpBeginLine
		ends := last.Op == syntax.OpEndText || last.Op == syntax.OpEndLine
		if !begins || !ends {
			bad = append(bad, a.String())
		}
	}
	return bad
}

func r175PatternCache(c *an.Ctx) {
	const rule = "R17.5"
	f := c.MustFunc(rule, "pkg", "ValidatePattern")
	if f == nil {
		return
	}
	t := an.BuildPathTable(c.SSAFunc(f), an.PathOpts{})
	c.Stats["paths_enumerated"] += len(t.Paths)
	if t.Truncated || len(t.Paths) == 0 {
		c.Undecidedf(rule, f.Name, f.Decl.Pos(), "ValidatePattern left the decidable fragment")
		return
	}
	reEpoch := regexp.MustCompile(`@e\d+`)
	reLock := regexp.MustCompile(`^\(\*sync\.(RW)?Mutex\)\.(RLock|RUnlock|Lock|Unlock)\(pkg\.knownPatternsLock\)$`)
	var lockProbs, keyProbs, verdictProbs []string
	hits, misses := 0, 0
	for i := range t.Paths {
		p := &t.Paths[i]
		held := "" // "", "R", "W"
		var regexTerm string
		for _, e := range p.Effects {
			switch e.Kind {
			case "call":
				if m := reLock.FindStringSubmatch(e.Term); m != nil {
					switch m[2] {
					case "RLock":
						held = "R"
					case "Lock":
						held = "W"
					case "RUnlock", "Unlock":
						held = ""
					}
				}
			case "lookup":
				if strings.HasPrefix(e.Term, "pkg.knownPatterns[") {
					if held == "" {
						lockProbs = append(lockProbs, "the cache is read without holding the lock")
					}
					if reEpoch.ReplaceAllString(e.Term, "") != "pkg.knownPatterns[p2]" {
						keyProbs = append(keyProbs, "the cache is looked up under "+e.Term+", not under the pattern")
					}
				}
			case "mapupdate":
				if strings.HasPrefix(e.Term, "pkg.knownPatterns[") {
					if held != "W" {
						lockProbs = append(lockProbs, "the cache is written without holding the write lock")
					}
					if e.Term != "pkg.knownPatterns[p2] = regexp.MustCompile(p2)" {
						keyProbs = append(keyProbs, "cache store is "+e.Term+", expected knownPatterns[p] = MustCompile(p)")
					}
				}
			}
		}
		if held != "" {
			lockProbs = append(lockProbs, "a path returns with the cache lock held")
		}
		// verdict: the regexp matched is either freshly compiled from p, or the value of a cache
		// lookup that reported a hit on this very path (a lookup made under another lock epoch is
		// another value: the cache may have changed in between)
		matched, mknown := false, false
		for _, a := range p.Atoms {
			if strings.HasPrefix(a.Term, "(*regexp.Regexp).MatchString(") && strings.HasSuffix(a.Term, ", p1)") {
				matched, mknown = a.Val, true
				regexTerm = strings.TrimSuffix(strings.TrimPrefix(a.Term, "(*regexp.Regexp).MatchString("), ", p1)")
			}
		}
		if !mknown {
			verdictProbs = append(verdictProbs, "path ["+p.GuardString()+"] does not test the match")
			continue
		}
		switch {
		case regexTerm == "regexp.MustCompile(p2)":
			misses++
		case strings.HasPrefix(regexTerm, "pkg.knownPatterns[p2]") && strings.HasSuffix(regexTerm, "#0"):
			hitAtom := strings.TrimSuffix(regexTerm, "#0") + "#1"
			isHit := false
			for _, a := range p.Atoms {
				if a.Term == hitAtom && a.Val {
					isHit = true
				}
			}
			if isHit {
				hits++
			} else {
				verdictProbs = append(verdictProbs, "the value is matched against the result of a cache lookup that missed (a nil regexp) on path ["+p.GuardString()+"]")
			}
		default:
			verdictProbs = append(verdictProbs, "the value is matched against "+regexTerm)
		}
		accept := len(p.Ret) == 1 && p.Ret[0] == "nil"
		reject := len(p.Ret) == 1 && strings.HasPrefix(p.Ret[0], "pkg.InvalidPatternError(p0, p1, p2)")
		if matched != accept || (!matched && !reject) {
			verdictProbs = append(verdictProbs, fmt.Sprintf("match=%v but the function returns %s", matched, strings.Join(p.Ret, ",")))
		}
	}
	if hits == 0 || misses == 0 {
		verdictProbs = append(verdictProbs, fmt.Sprintf("cache hit paths=%d miss paths=%d", hits, misses))
	}
	rep := func(sub string, probs []string, ok string) {
		probs = dedupStrings(probs)
		if len(probs) > 0 {
			c.Failf(rule, f.Name+"#"+sub, f.Decl.Pos(), "%s", strings.Join(probs, " | "))
		} else {
			c.Okf(rule, f.Name+"#"+sub, "%s", ok)
		}
	}
	rep("locking", lockProbs, fmt.Sprintf("on all %d paths the cache is read under RLock/Lock, written under Lock, and no lock is held at return", len(t.Paths)))
	rep("keying", keyProbs, "the cache maps the pattern p to MustCompile(p): no cross-pattern poisoning")
	rep("verdict", verdictProbs, "InvalidPatternError iff the compiled pattern (cached or fresh) does not match the value")

	// no other function touches the cache
	var others []string
	pk := c.Pkg("pkg")
	obj := an.LookupGlobal(pk.Types, "knownPatterns")
	owners := map[types.Object]bool{}
	for _, g := range c.WithNewHelpers(f) {
		owners[g.Obj] = true // ValidatePattern and the helpers extracted from it
	}
	// a helper is part of the owner only if nothing else calls it
	for _, g := range c.AllFuncs("pkg") {
		if owners[g.Obj] {
			continue
		}
		ast.Inspect(g.Decl.Body, func(n ast.Node) bool {
			if call, ok := n.(*ast.CallExpr); ok {
				if callee := an.Callee(g.Pkg.TypesInfo, call); callee != nil && owners[callee] && callee != f.Obj {
					delete(owners, callee)
				}
			}
			return true
		})
	}
	for _, g := range c.AllFuncs("pkg") {
		if g.Obj == f.Obj || owners[g.Obj] {
			continue
		}
		ast.Inspect(g.Decl.Body, func(n ast.Node) bool {
			if id, ok := n.(*ast.Ident); ok && obj != nil && g.Pkg.TypesInfo.Uses[id] == obj {
				others = append(others, g.Name)
			}
			return true
		})
	}
	c.Check(len(others) == 0 && obj != nil, rule, "pkg.knownPatterns#owner", 0, "only ValidatePattern accesses the pattern cache", "the pattern cache is also accessed by "+strings.Join(dedupStrings(others), ","))
}
