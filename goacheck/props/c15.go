package props

import (
	"fmt"
	"go/ast"
	"go/types"

	"golang.org/x/tools/go/ssa"
	"regexp"
	"sort"
	"strings"

	"goacheck/an"
)

func init() { Registry["C15"] = runC15 }

const explanationC15 = "Decides structural necessary conditions of C15 on the source of goa's http package: (R15.1) the media-type→codec decision tables of ResponseEncoder (designed content type branch and the Accept negotiation closure), ResponseDecoder and RequestDecoder are each compared row by row with one reference function (json/xml/gob/text families incl. +json/+xml/+gob/+html/+txt suffixes; response default json, request default unsupported), which also makes encoder and decoder agree with each other; (R15.2) every return of ResponseEncoder is preceded by SetContentType with the media type that belongs to the returned encoder (same negotiate call / parsed designed type); (R15.3) no path returns a nil encoder; (R15.4) the unsupported decoder yields the error named by the constant that the status table maps to 415; (R15.5) text codec type tables; (R15.6) SetContentType's composition table against its doc comment; RequestEncoder announces JSON when it encodes JSON; (R15.7) the XML writer and reader of an error response agree field by field (shared R18.4); shared R16.5 (the 404 body is announced with the negotiated type); R15.5 also requires that a text body that cannot be read in full is an error. shared R05.3 (the default error encoder negotiates its encoder, which announces the type, before it writes the status). (R15.8) the debugging wrappers put back as the Body exactly what io.ReadAll read from the Body itself (no capped or filtered view). (R15.9) the content type fixed for a tagged response is set inside the test of its tag (shared with C03/R03.7). NOT decided: byte-level round trips through encoding/json|xml|gob, Accept-header grammar (q-values, lists, wildcards are compared as whole strings by the code), behaviour of mime.ParseMediaType."

var (
	reMTEq     = regexp.MustCompile(`^\((.+) == "([a-z]+/[a-z]+)"\)$`)
	reMTSuffix = regexp.MustCompile(`^strings\.HasSuffix\((.+), "(\+[a-z]+)"\)$`)
)

var mediaAtoms = []string{
	"mt==application/json", "mt==application/xml", "mt==application/gob", "mt==text/html", "mt==text/plain",
	"suffix+json", "suffix+xml", "suffix+gob", "suffix+html", "suffix+txt",
}

func mediaCanon(extra ...string) []canonRule {
	r := canon(extra...)
	r = append(r, canonRule{reMTEq, "mt==$2"}, canonRule{reMTSuffix, "suffix$2"})
	return r
}

func mediaFeasible(e an.Env) bool {
	eq, suf := 0, 0
	for _, a := range mediaAtoms {
		if e[a] {
			if strings.HasPrefix(a, "mt==") {
				eq++
			} else {
				suf++
			}
		}
	}
	if eq > 1 || suf > 1 || (eq == 1 && suf > 0) {
		return false
	}
	return true
}

// respFamily is the reference: which codec family a response media type gets.
func respFamily(e an.Env) string {
	switch {
	case e["mt==application/json"] || e["suffix+json"]:
		return "json"
	case e["mt==application/xml"] || e["suffix+xml"]:
		return "xml"
	case e["mt==application/gob"] || e["suffix+gob"]:
		return "gob"
	case e["mt==text/html"] || e["mt==text/plain"] || e["suffix+html"] || e["suffix+txt"]:
		return "text"
	}
	return "json"
}

func codecFamily(term string) string {
	switch {
	case strings.HasPrefix(term, "encoding/json.New"):
		return "json"
	case strings.HasPrefix(term, "encoding/xml.New"):
		return "xml"
	case strings.HasPrefix(term, "encoding/gob.New"):
		return "gob"
	case strings.HasPrefix(term, "http.newTextDecoder("), strings.HasPrefix(term, "http.newTextEncoder("):
		return "text"
	case strings.HasPrefix(term, "http.newUnsupportedDecoder("):
		return "unsupported"
	case term == "nil" || strings.HasPrefix(term, "zero:"):
		return "nil"
	}
	return term
}

func famOutcome(p *an.Path, _ an.Env) string {
	if p.Exit != "return" || len(p.Ret) == 0 {
		return p.Exit
	}
	return codecFamily(p.Ret[0])
}

// mediaLHSConsistency: on paths where the Content-Type parsed, the media type
// compared must be the parsed one (parameters stripped); where it did not
// parse, the raw header value.
func mediaLHSConsistency(c *an.Ctx, rule string, f *an.Func) {
	if f == nil {
		return
	}
	t := an.BuildPathTable(c.SSAFunc(f), an.PathOpts{})
	c.Stats["paths_enumerated"] += len(t.Paths)
	var probs []string
	n := 0
	for i := range t.Paths {
		p := &t.Paths[i]
		parsed, known := false, false
		for _, a := range p.Atoms {
			if regexp.MustCompile(`^\(mime\.ParseMediaType\(.*\)#2 == nil\)$`).MatchString(a.Term) {
				parsed, known = a.Val, true
			}
		}
		if !known {
			continue
		}
		for _, a := range p.Atoms {
			var lhs string
			if m := reMTEq.FindStringSubmatch(a.Term); m != nil {
				lhs = m[1]
			} else if m := reMTSuffix.FindStringSubmatch(a.Term); m != nil {
				lhs = m[1]
			} else {
				continue
			}
			n++
			isParsed := strings.Contains(lhs, "mime.ParseMediaType(")
			if isParsed != parsed {
				probs = append(probs, fmt.Sprintf("Content-Type parsed=%v but the media type compared is %s", parsed, map[bool]string{true: "the parsed type", false: "the raw header value (parameters such as charset make it match nothing)"}[isParsed]))
			}
		}
	}
	if n == 0 {
		probs = append(probs, "no media-type comparison found")
	}
	report(c, rule, f.Name+"#sanitised", f, probs, "the parsed media type (parameters stripped) is compared when the header parses, the raw value otherwise")
}

func runC15(c *an.Ctx) string {
	const r1 = "R15.1"
	mediaLHSConsistency(c, r1, c.Func("http", "RequestDecoder"))
	r15ResponseDecoder(c)
	r158BodyTee(c, "R15.8")
	r037ArmOrder(c, "R15.9") // shared with C03/R03.7: a content type fixed for one response must not be announced for the others

	// RequestDecoder
	decision(c, r1, c.MustFunc(r1, "http", "RequestDecoder"), an.PathOpts{},
		mediaCanon(`^\(\(net/http\.Header\)\.Get\(p0\.Header, "Content-Type"\) == ""\)$`, "ctEmpty",
			`^\(mime\.ParseMediaType\(.*\)#2 == nil\)$`, "parseOK"),
		[]string{"ctEmpty", "parseOK", "mt==application/json", "mt==application/xml", "mt==application/gob", "mt==text/html", "mt==text/plain"}, mediaFeasible,
		func(e an.Env) string {
			switch {
			case e["ctEmpty"] || e["mt==application/json"]:
				return "json"
			case e["mt==application/xml"]:
				return "xml"
			case e["mt==application/gob"]:
				return "gob"
			case e["mt==text/html"] || e["mt==text/plain"]:
				return "text"
			}
			return "unsupported"
		}, famOutcome, "request decoder: Content-Type→codec (absent→json; json, xml, gob, text; anything else→unsupported decoder (415))")

	r15ResponseEncoder(c)
	r15Unsupported(c)
	r15TextCodecs(c)
	r15SetContentType(c)
	r15RequestEncoder(c)
	r05ErrorEncoder(c)             // shared with C05 (rule id R05.3): the default error encoder obtains its encoder (which sets Content-Type) before the status is written
	r16NotFound(c)                 // shared with C16 (rule id R16.5): the 404 body is announced with the negotiated Content-Type (encoder obtained before the status is written)
	errorFieldFidelity(c, "R15.7") // shared with C18/R18.4: the XML writer of an error response and its reader agree field by field
	return explanationC15
}

// r15ResponseDecoder: the client's Content-Type→codec table (rule id R15.1;
// shared with C03, whose result cannot reach the caller through the wrong codec).
func r15ResponseDecoder(c *an.Ctx) {
	const r1 = "R15.1"
	mediaLHSConsistency(c, r1, c.Func("http", "ResponseDecoder"))
	// ResponseDecoder
	decision(c, r1, c.MustFunc(r1, "http", "ResponseDecoder"), an.PathOpts{},
		mediaCanon(`^\(\(net/http\.Header\)\.Get\(p0\.Header, "Content-Type"\) == ""\)$`, "ctEmpty",
			`^\(mime\.ParseMediaType\(.*\)#2 == nil\)$`, "parseOK"),
		append([]string{"ctEmpty", "parseOK"}, mediaAtoms...), mediaFeasible,
		func(e an.Env) string {
			if e["ctEmpty"] {
				return "json"
			}
			return respFamily(e)
		}, famOutcome, "response decoder: Content-Type→codec (empty→json; json|+json, xml|+xml, gob|+gob, text/html|text/plain|+html|+txt→text; default json)")
}

func r15ResponseEncoder(c *an.Ctx) {
	const r1, r2, r3 = "R15.1", "R15.2", "R15.3"
	f := c.MustFunc(r1, "http", "ResponseEncoder")
	if f == nil {
		return
	}
	fn := c.SSAFunc(f)
	acceptKey, _ := constValue(c, "http", "AcceptTypeKey")
	ctKey, _ := constValue(c, "http", "ContentTypeKey")
	if acceptKey == "" || ctKey == "" {
		c.Add(an.Obligation{Rule: r1, Construct: "http.AcceptTypeKey/ContentTypeKey", Status: an.LOST, Detail: "context key constants not found"})
		return
	}
	// the negotiator: the closure (string)→(Encoder,string) of ResponseEncoder, or a function extracted from it
	// since the reference tree with the same two results whose last parameter is the media type
	var negFn *ssa.Function
	for _, af := range fn.AnonFuncs {
		if len(af.Params) == 1 && af.Signature.Results().Len() == 2 {
			negFn = af
		}
	}
	if negFn == nil {
		// a declared function extracted since the reference tree, called from ResponseEncoder or from another
		// such helper (two levels)
		var search func(g *ssa.Function, depth int)
		seenFn := map[*ssa.Function]bool{}
		search = func(g *ssa.Function, depth int) {
			if seenFn[g] || depth > 2 {
				return
			}
			seenFn[g] = true
			for _, b := range g.Blocks {
				for _, in := range b.Instrs {
					cl, ok := in.(ssa.CallInstruction)
					if !ok {
						continue
					}
					h := cl.Common().StaticCallee()
					if h == nil || h.Object() == nil || h.Pkg != fn.Pkg || an.IsReferenceFunc(h) || len(h.Params) == 0 {
						continue
					}
					res := h.Signature.Results()
					last := h.Params[len(h.Params)-1].Type()
					if res.Len() == 2 && strings.HasSuffix(res.At(0).Type().String(), ".Encoder") && types.Identical(res.At(1).Type(), types.Typ[types.String]) && types.Identical(last, types.Typ[types.String]) {
						// the negotiator is the one that compares its media type with constants and does not
						// call another candidate
						callsCandidate := false
						for _, hb := range h.Blocks {
							for _, hin := range hb.Instrs {
								if hc, ok := hin.(ssa.CallInstruction); ok {
									if k := hc.Common().StaticCallee(); k != nil && k != h && k.Pkg == fn.Pkg && !an.IsReferenceFunc(k) && k.Signature.Results().Len() == 2 && strings.HasSuffix(k.Signature.Results().At(0).Type().String(), ".Encoder") {
										callsCandidate = true
									}
								}
							}
						}
						if !callsCandidate {
							negFn = h
						}
					}
					search(h, depth+1)
				}
			}
		}
		search(fn, 0)
	}
	negName := ""
	if negFn != nil {
		negName = an.FuncDisplayName(negFn)
	}
	t := an.BuildPathTable(fn, an.PathOpts{NoInline: map[string]bool{negName: true}})
	c.Stats["paths_enumerated"] += len(t.Paths)
	c.Stats["functions_tabled"]++
	if t.Truncated || len(t.Paths) == 0 {
		c.Undecidedf(r1, f.Name, f.Decl.Pos(), "ResponseEncoder left the loop-free fragment")
		return
	}
	ctVal := `p0\.Value\(` + regexp.QuoteMeta(ctKey) + `\)`
	acVal := `p0\.Value\(` + regexp.QuoteMeta(acceptKey) + `\)`
	// a call of the negotiator; $1 is the media type argument (the last one)
	negCall := `http\.ResponseEncoder\$\w+\$?\d*\((.*)\)`
	if negFn != nil && negFn.Parent() == nil {
		negCall = regexp.QuoteMeta(negName) + `\((?:[^"]*, )?(.*)\)`
	}
	rules := mediaCanon(
		`^\(`+ctVal+` == nil\)$`, "noCT",
		`^\(`+acVal+` == nil\)$`, "noAccept",
		`^\(`+ctVal+`\.\(string\) == ""\)$`, "ctEmpty",
		`^\(mime\.ParseMediaType\(`+ctVal+`\.\(string\)\)#2 == nil\)$`, "ctParseOK",
		`^\(mime\.ParseMediaType\((`+acVal+`\.\(string\)|"")\)#2 == nil\)$`, "acceptParseOK",
		`^\(`+negCall+`#0 == nil\)$`, "negotiate($1)==nil",
	)
	canonTable(t, rules)
	reCTParsed := regexp.MustCompile(`^mime\.ParseMediaType\(` + ctVal + `\.\(string\)\)#0$`)
	reNeg := regexp.MustCompile(`^` + negCall + `#(\d)$`)
	var tabProbs, setProbs, nilProbs []string
	designed, negotiated := 0, 0
	for i := range t.Paths {
		p := &t.Paths[i]
		if p.Exit != "return" || len(p.Ret) != 1 {
			nilProbs = append(nilProbs, "path ["+p.GuardString()+"] ends in "+p.Exit)
			continue
		}
		env := an.Env{}
		for _, a := range p.Atoms {
			env[a.Term] = a.Val
		}
		ret := p.Ret[0]
		if fam := codecFamily(ret); fam == "nil" {
			nilProbs = append(nilProbs, "path ["+p.GuardString()+"] returns a nil Encoder")
			continue
		}
		// the SetContentType call(s) on the path
		var setArgs []string
		for _, cl := range p.CallEffects() {
			if strings.HasPrefix(cl, "http.SetContentType(p1, ") {
				setArgs = append(setArgs, strings.TrimSuffix(strings.TrimPrefix(cl, "http.SetContentType(p1, "), ")"))
			}
		}
		if len(setArgs) != 1 {
			setProbs = append(setProbs, fmt.Sprintf("path [%s] calls SetContentType %d times before returning the encoder", p.GuardString(), len(setArgs)))
			continue
		}
		if m := reNeg.FindStringSubmatch(ret); m != nil {
			// Accept negotiation: encoder and media type must come from the same negotiate call
			negotiated++
			want := strings.TrimSuffix(ret, "#0") + "#1"
			if m[2] != "0" || setArgs[0] != want {
				setProbs = append(setProbs, fmt.Sprintf("path [%s] returns %s but announces %s", p.GuardString(), ret, setArgs[0]))
			}
			continue
		}
		// designed content type branch
		designed++
		fam := codecFamily(ret)
		parseOK, known := env["ctParseOK"]
		if known && !parseOK {
			// malformed designed content type: JSON fallback announced as JSON
			if fam != "json" || setArgs[0] != `"application/json"` {
				tabProbs = append(tabProbs, fmt.Sprintf("malformed designed content type: encoder %s announced as %s, expected json announced as application/json", fam, setArgs[0]))
			}
			continue
		}
		if !reCTParsed.MatchString(setArgs[0]) {
			setProbs = append(setProbs, fmt.Sprintf("path [%s]: designed-content-type encoder announced as %s, expected the parsed designed media type", p.GuardString(), setArgs[0]))
		}
		// family check over total extensions of the media atoms
		partial := an.Env{}
		unknown := ""
		for _, a := range p.Atoms {
			isMedia := false
			for _, m := range mediaAtoms {
				if a.Term == m {
					isMedia = true
				}
			}
			if isMedia {
				partial[a.Term] = a.Val
			} else if a.Term != "noCT" && a.Term != "noAccept" && a.Term != "ctEmpty" && a.Term != "ctParseOK" {
				unknown = a.Term
			}
		}
		if unknown != "" {
			tabProbs = append(tabProbs, "designed branch tests an atom outside the vocabulary: "+unknown)
			continue
		}
		var free []string
		for _, m := range mediaAtoms {
			if _, ok := partial[m]; !ok {
				free = append(free, m)
			}
		}
		for m := 0; m < 1<<len(free); m++ {
			e := an.Env{}
			for k, v := range partial {
				e[k] = v
			}
			for j, a := range free {
				e[a] = m&(1<<j) != 0
			}
			if !mediaFeasible(e) {
				continue
			}
			if want := respFamily(e); want != fam {
				tabProbs = append(tabProbs, fmt.Sprintf("designed content type with [%s] gets the %s encoder, reference says %s", envTrue(e), fam, want))
				break
			}
		}
	}
	report := func(rule, sub string, probs []string, ok string) {
		probs = dedupStrings(probs)
		if len(probs) > 0 {
			c.Failf(rule, f.Name+"#"+sub, f.Decl.Pos(), "%s", strings.Join(probs[:min(3, len(probs))], " | "))
		} else {
			c.Okf(rule, f.Name+"#"+sub, "%s", ok)
		}
	}
	if designed < 5 {
		tabProbs = append(tabProbs, fmt.Sprintf("only %d designed-content-type paths found (floor 5)", designed))
	}
	if negotiated < 2 {
		setProbs = append(setProbs, fmt.Sprintf("only %d negotiated paths found (floor 2)", negotiated))
	}
	report(r1, "designed-content-type", tabProbs, fmt.Sprintf("%d designed-content-type paths choose the codec family of the reference table; malformed type falls back to JSON", designed))
	report(r2, "announce", setProbs, fmt.Sprintf("every one of the %d returning paths calls SetContentType exactly once with the media type belonging to the returned encoder (%d negotiated, %d designed)", len(t.Paths), negotiated, designed))
	report(r3, "non-nil", nilProbs, fmt.Sprintf("no path of %d returns a nil encoder", len(t.Paths)))

	// the last resort of the negotiation is negotiate("")
	lastResort := false
	for i := range t.Paths {
		p := &t.Paths[i]
		if len(p.Ret) == 1 && reNeg.MatchString(p.Ret[0]) && strings.Contains(p.Ret[0], `("")#0`) {
			lastResort = true
		}
	}
	c.Check(lastResort, r1, f.Name+"#fallback", f.Decl.Pos(), `unrecognised Accept values fall back to negotiate("")`, `no path falls back to negotiate("")`)

	// the negotiator's own table
	if negFn == nil {
		c.Failf(r1, f.Name+"#negotiate", f.Decl.Pos(), "negotiation function (string)→(Encoder,string) not found")
		return
	}
	neg := an.BuildPathTable(negFn, an.PathOpts{})
	mtParam := fmt.Sprintf("p%d", len(negFn.Params)-1)
	c.Stats["paths_enumerated"] += len(neg.Paths)
	canonTable(neg, mediaCanon(`^\(`+mtParam+` == ""\)$`, "empty"))
	atoms := []string{"empty", "mt==application/json", "mt==application/xml", "mt==application/gob", "mt==text/html", "mt==text/plain"}
	_, probs := neg.CheckDecision(atoms, func(e an.Env) bool {
		n := 0
		for _, a := range atoms {
			if e[a] {
				n++
			}
		}
		return n <= 1
	}, func(e an.Env) string {
		switch {
		case e["empty"], e["mt==application/json"]:
			return `json,"application/json"`
		case e["mt==application/xml"]:
			return `xml,"application/xml"`
		case e["mt==application/gob"]:
			return `gob,"application/gob"`
		case e["mt==text/html"], e["mt==text/plain"]:
			return "text," + mtParam
		}
		return "nil,\"\""
	}, func(p *an.Path, _ an.Env) string {
		if len(p.Ret) != 2 {
			return p.Exit
		}
		return codecFamily(p.Ret[0]) + "," + p.Ret[1]
	})
	if len(probs) > 0 {
		c.Failf(r1, f.Name+"#negotiate", f.Decl.Pos(), "%s", strings.Join(probs[:min(3, len(probs))], " | "))
	} else {
		c.Okf(r1, f.Name+"#negotiate", "Accept negotiation table: \"\"|json→json, xml→xml, gob→gob, text/html|text/plain→text with the matching media type; else no match (%d paths)", len(neg.Paths))
	}
}

func envTrue(e an.Env) string {
	var t []string
	for k, v := range e {
		if v {
			t = append(t, k)
		}
	}
	sort.Strings(t)
	if len(t) == 0 {
		return "no media atom true"
	}
	return strings.Join(t, ",")
}

func r15Unsupported(c *an.Ctx) {
	const rule = "R15.4"
	f := c.MustFunc(rule, "http", "unsupportedDecoder.Decode")
	if f != nil {
		t := an.BuildPathTable(c.SSAFunc(f), an.PathOpts{})
		ok := len(t.Paths) == 1 && len(t.Paths[0].Ret) == 1 && strings.HasPrefix(t.Paths[0].Ret[0], "pkg.UnsupportedMediaTypeError(")
		c.Check(ok, rule, f.Name, f.Decl.Pos(), "always returns goa.UnsupportedMediaTypeError", "does not return goa.UnsupportedMediaTypeError on every path: "+t.Dump())
	}
	g := c.MustFunc(rule, "pkg", "UnsupportedMediaTypeError")
	if g != nil {
		umt, _ := constValue(c, "pkg", "UnsupportedMediaType")
		t := an.BuildPathTable(c.SSAFunc(g), an.PathOpts{})
		ok := len(t.Paths) == 1 && len(t.Paths[0].Ret) == 1 && strings.HasPrefix(t.Paths[0].Ret[0], "pkg.PermanentError("+umt+", ")
		c.Check(ok, rule, g.Name, g.Decl.Pos(), "builds the error under the name constant "+umt+" that StatusCode maps to 415 (R05.4 row 1)",
			"the error is not a PermanentError named by goa.UnsupportedMediaType: "+t.Dump())
	}
}

// typeSwitchCases returns the case types of the first type switch in f.
func typeSwitchCases(f *an.Func) (cases []string, hasDefault bool, defaultReturnsErr bool, found bool) {
	ast.Inspect(f.Decl.Body, func(n ast.Node) bool {
		ts, ok := n.(*ast.TypeSwitchStmt)
		if !ok || found {
			return true
		}
		found = true
		for _, s := range ts.Body.List {
			cc := s.(*ast.CaseClause)
			if cc.List == nil {
				hasDefault = true
				for _, call := range an.AllCallsIn(cc) {
					if an.IsCallTo(f.Pkg.TypesInfo, call, "fmt.Errorf", "errors.New") {
						defaultReturnsErr = true
					}
				}
				continue
			}
			for _, e := range cc.List {
				if tv, ok := f.Pkg.TypesInfo.Types[e]; ok {
					cases = append(cases, types.TypeString(tv.Type, nil))
				}
			}
		}
		return false
	})
	sort.Strings(cases)
	return
}

func r15TextCodecs(c *an.Ctx) {
	const rule = "R15.5"
	if f := c.MustFunc(rule, "http", "textEncoder.Encode"); f != nil {
		cases, def, derr, found := typeSwitchCases(f)
		ok := found && strings.Join(cases, ",") == "*string,[]byte,string" && def && derr
		c.Check(ok, rule, f.Name, f.Decl.Pos(), "text encoder writes string, *string and []byte; other types are an error",
			fmt.Sprintf("text encoder type table is %v (default=%v, default errors=%v); expected string,*string,[]byte with an erroring default", cases, def, derr))
	}
	if f := c.MustFunc(rule, "http", "textDecoder.Decode"); f != nil {
		cases, def, derr, found := typeSwitchCases(f)
		ok := found && strings.Join(cases, ",") == "*[]byte,*string" && def && derr
		c.Check(ok, rule, f.Name, f.Decl.Pos(), "text decoder fills *string and *[]byte; other targets are an error",
			fmt.Sprintf("text decoder type table is %v (default=%v, default errors=%v); expected *string,*[]byte with an erroring default", cases, def, derr))
	}
	// a body that could not be read in full is an error, never a (shorter) value
	if f, t := tableOf(c, rule, "http", "textDecoder.Decode", 0); t != nil {
		var probs []string
		const readErr = `(io.ReadAll(p0.r)#1 == nil)`
		okAtoms := map[string]bool{readErr: true, `p1.(*string)?#1`: true, `p1.(*[]byte)?#1`: true}
		for i := range t.Paths {
			p := &t.Paths[i]
			e := pathEnv(p)
			for a := range e {
				if !okAtoms[a] {
					probs = append(probs, "the decoder's verdict depends on "+a+": some read errors are let through")
				}
			}
			if v, known := e[readErr]; known && !v {
				if len(p.Ret) != 1 || p.Ret[0] != "io.ReadAll(p0.r)#1" {
					probs = append(probs, "a failed read of the body does not return the read error")
				}
				for _, ef := range p.Effects {
					if ef.Kind == "store" {
						probs = append(probs, "a failed read of the body still stores a value into the target")
					}
				}
			}
		}
		report(c, rule, f.Name+"#read-error", f, probs, "any error reading the body is returned and nothing is stored")
	}
}

func r15SetContentType(c *an.Ctx) {
	const rule = "R15.6"
	f := c.MustFunc(rule, "http", "SetContentType")
	if f == nil {
		return
	}
	hGet := `\(net/http\.Header\)\.Get\(p0\.Header\(\), "Content-Type"\)`
	rules := canon(
		`^\(`+hGet+` == ""\)$`, "hEmpty",
		`^\(p1 == "application/json"\)$`, "ct==json",
		`^\(p1 == "application/xml"\)$`, "ct==xml",
		`^strings\.Contains\(`+hGet+`, "\+"\)$`, "hHasPlus",
	)
	reSet := regexp.MustCompile(`^\(net/http\.Header\)\.Set\(p0\.Header\(\), "Content-Type", (.*)\)$`)
	reSuffix := regexp.MustCompile(`^\(` + hGet + ` \+ "(\+[a-z]+)"\)$`)
	decision(c, rule, f, an.PathOpts{}, rules, []string{"hEmpty", "ct==json", "ct==xml", "hHasPlus"},
		func(e an.Env) bool { return !(e["ct==json"] && e["ct==xml"]) },
		func(e an.Env) string {
			switch {
			case e["hEmpty"]:
				return "Set(ct)"
			case !e["ct==json"] && !e["ct==xml"]:
				return "Set(ct)"
			case e["hHasPlus"]:
				return "untouched"
			case e["ct==json"]:
				return "Set(h+json)"
			}
			return "Set(h+xml)"
		},
		func(p *an.Path, _ an.Env) string {
			var sets []string
			for _, cl := range p.CallEffects() {
				if m := reSet.FindStringSubmatch(cl); m != nil {
					switch {
					case m[1] == "p1":
						sets = append(sets, "Set(ct)")
					case reSuffix.MatchString(m[1]):
						sets = append(sets, "Set(h"+reSuffix.FindStringSubmatch(m[1])[1]+")")
					default:
						sets = append(sets, "Set("+m[1]+")")
					}
				} else if strings.Contains(cl, ".Set(") || strings.Contains(cl, ".Add(") || strings.Contains(cl, ".Del(") {
					sets = append(sets, cl)
				}
			}
			if len(sets) == 0 {
				return "untouched"
			}
			return strings.Join(sets, ";")
		}, "Content-Type composition (empty→ct; ct∉{json,xml}→ct; existing has '+'→untouched; else existing+\"+json\"|\"+xml\" matching ct)")
}

func r15RequestEncoder(c *an.Ctx) {
	const rule = "R15.2"
	f := c.MustFunc(rule, "http", "RequestEncoder")
	if f == nil {
		return
	}
	t := an.BuildPathTable(c.SSAFunc(f), an.PathOpts{})
	c.Stats["paths_enumerated"] += len(t.Paths)
	var probs []string
	for i := range t.Paths {
		p := &t.Paths[i]
		if len(p.Ret) != 1 || codecFamily(p.Ret[0]) != "json" {
			probs = append(probs, "returns "+strings.Join(p.Ret, ","))
		}
		set := false
		for _, cl := range p.CallEffects() {
			if strings.HasPrefix(cl, `(net/http.Header).Set(p0.Header, "Content-Type", "application/json")`) {
				set = true
			}
		}
		absent := false
		for _, a := range p.Atoms {
			if strings.Contains(a.Term, `.Get(p0.Header, "Content-Type") == ""`) && a.Val {
				absent = true
			}
		}
		if absent != set {
			probs = append(probs, fmt.Sprintf("path [%s]: header absent=%v but JSON announced=%v", p.GuardString(), absent, set))
		}
	}
	if len(t.Paths) != 2 {
		probs = append(probs, fmt.Sprintf("%d paths, expected 2", len(t.Paths)))
	}
	if len(probs) > 0 {
		c.Failf(rule, f.Name, f.Decl.Pos(), "%s", strings.Join(probs, " | "))
	} else {
		c.Okf(rule, f.Name, "request encoder is JSON and announces application/json exactly when no Content-Type was set")
	}
}

// r158BodyTee (R15.8): the debugging wrappers (client debugDoer, server Debug middleware) read a request or response
// body to print it and put the bytes back for the real consumer. They are transparent only if what they put back is
// everything that was there: each io.ReadAll whose result is re-installed as a Body reads the Body itself, not a
// limited, filtered or otherwise wrapped view of it (the decoder would be handed a truncated document under the
// Content-Type and Content-Length of the whole one).
func r158BodyTee(c *an.Ctx, rule string) {
	sites := 0
	for _, dir := range []string{"http", "http/middleware", "middleware", "grpc", "grpc/middleware"} {
		for _, f := range c.AllFuncs(dir) {
			info := f.Pkg.TypesInfo
			reinstalled := map[types.Object]bool{}
			ast.Inspect(f.Decl.Body, func(n ast.Node) bool {
				as, ok := n.(*ast.AssignStmt)
				if !ok || len(as.Lhs) != 1 || len(as.Rhs) != 1 {
					return true
				}
				se, ok := an.Unparen(as.Lhs[0]).(*ast.SelectorExpr)
				if !ok || se.Sel.Name != "Body" {
					return true
				}
				// NopCloser(bytes.NewBuffer(b)) / NopCloser(bytes.NewReader(b)), directly or through a helper that returns it
				outer, ok := an.Unparen(as.Rhs[0]).(*ast.CallExpr)
				if !ok || len(outer.Args) != 1 {
					return true
				}
				if h := c.FuncOfObj(an.Callee(info, outer)); h != nil && c.IsNewFunc(h) && len(h.Decl.Body.List) == 1 {
					// func bodyReader(b []byte) io.ReadCloser { return io.NopCloser(bytes.NewBuffer(b)) }
					if ret, ok := h.Decl.Body.List[0].(*ast.ReturnStmt); ok && len(ret.Results) == 1 {
						if o2, ok := an.Unparen(ret.Results[0]).(*ast.CallExpr); ok && len(o2.Args) == 1 && strings.HasSuffix(an.CalleeName(h.Pkg.TypesInfo, o2), ".NopCloser") {
							if in2, ok := an.Unparen(o2.Args[0]).(*ast.CallExpr); ok && len(in2.Args) == 1 {
								switch an.CalleeName(h.Pkg.TypesInfo, in2) {
								case "bytes.NewBuffer", "bytes.NewReader":
									if paramIndex(h, in2.Args[0]) == 0 {
										if id, ok := an.Unparen(outer.Args[0]).(*ast.Ident); ok {
											if o := an.ObjOf(info, id); o != nil {
												reinstalled[o] = true
											}
										}
									}
								}
							}
						}
					}
					return true
				}
				if !strings.HasSuffix(an.CalleeName(info, outer), ".NopCloser") {
					return true
				}
				inner, ok := an.Unparen(outer.Args[0]).(*ast.CallExpr)
				if !ok || len(inner.Args) != 1 {
					return true
				}
				switch an.CalleeName(info, inner) {
				case "bytes.NewBuffer", "bytes.NewReader":
				default:
					return true
				}
				if id, ok := an.Unparen(inner.Args[0]).(*ast.Ident); ok {
					if o := an.ObjOf(info, id); o != nil {
						reinstalled[o] = true
					}
				}
				return true
			})
			if len(reinstalled) == 0 {
				continue
			}
			ast.Inspect(f.Decl.Body, func(n ast.Node) bool {
				as, ok := n.(*ast.AssignStmt)
				if !ok || len(as.Rhs) != 1 || len(as.Lhs) == 0 {
					return true
				}
				call, ok := an.Unparen(as.Rhs[0]).(*ast.CallExpr)
				if !ok || len(call.Args) != 1 {
					return true
				}
				if cn := an.CalleeName(info, call); cn != "io.ReadAll" && cn != "io/ioutil.ReadAll" {
					return true
				}
				id, ok := as.Lhs[0].(*ast.Ident)
				if !ok || !reinstalled[an.ObjOf(info, id)] {
					return true
				}
				sites++
				src := an.Unparen(an.ResolveLocalOnce(info, f.Decl.Body, call.Args[0]))
				construct := fmt.Sprintf("%s#tee(%s)", c.RefName(f), id.Name)
				if se, ok := src.(*ast.SelectorExpr); ok && se.Sel.Name == "Body" {
					c.Okf(rule, construct, "%s is read whole from %s and put back", id.Name, types.ExprString(src))
				} else {
					c.Failf(rule, construct, call.Pos(), "the bytes put back as the Body for the real consumer are read from `%s`, not from the Body itself: whatever that view leaves out (a size cap, a filter) is lost to the decoder while the headers still announce the whole document", types.ExprString(call.Args[0]))
				}
				return true
			})
		}
	}
	c.Floor(rule, sites, 5, "bodies read and re-installed by the debugging wrappers")
}
