package props

import (
	"fmt"
	"go/ast"
	"go/types"
	"sort"
	"strings"

	"goacheck/an"
)

func init() { Registry["C14"] = runC14 }

const explanationC14 = "Decides structural necessary conditions of C14 — that the published schemas and the generated validators are two translations of the same ValidationExpr that agree keyword by keyword: (R14.1) every validation keyword is consumed by the three schema builders (JSON schema, OpenAPI v3 schemafier, OpenAPI v2 parameter validations) as it is by the validation code generator; (R14.2) keyword fidelity — each schema field is assigned from the like-named keyword (length keywords to minItems/maxItems for arrays and minLength/maxLength otherwise), and the v2 helpers set the inclusive/exclusive flag that belongs to the keyword, identically for parameters, headers and items; (R14.3) the generated guards use the comparison the schema keyword means (inclusive minimum ⇔ `<`, exclusive ⇔ `<=`, …; shared with C04/R04.3); (R14.4) required lists are built from the validation's Required filtered only by MustGenerate, and documented parameters take their required flag and location from the collection being walked (shared with C07/R07.4); (R14.5) the server decoder's must-validate decisions consult every collection and accumulate (shared with C04/R04.9), so that what the schema forbids is actually rejected; (R14.7) the accessors of HTTPEndpointExpr that feed both the server templates and the OpenAPI builders show no deviance lint. shared R13.6 (the copy of a validation carries each keyword to the like-named field, or server and document diverge). shared R16.1/R16.2 (path values reach the validators unescaped exactly once, with url.PathUnescape). (R14.8) codegen.Walk visits the element of an array and the key and element of a map on every path that does not return an error. NOT decided: acceptance equivalence on values (needs execution of generated code and a schema validator)."

func runC14(c *an.Ctx) string {
	r141Consumes(c)
	r142Fidelity(c)
	r04KeywordVariants(c, "R14.3")
	r144Required(c)
	r074Walkers(c)
	r049MustValidate(c)
	r147EndpointAccessors(c)
	r148WalkChildren(c, "R14.8")
	r16Vars(c)        // shared with C16 (rule ids R16.1/R16.2): the path values the generated decoder validates are the request's own, unescaped once with the path variant (a '+' stays a '+'): what the schema documents for a path parameter is what the validator sees
	r136Exhaustive(c) // shared with C13 (rule id R13.6): server validators are generated from copies of the validations the documents are built from
	return explanationC14
}

func r141Consumes(c *an.Ctx) {
	const rule = "R14.1"
	tn := an.P("expr") + ".ValidationExpr"
	var fields []string
	for _, fv := range an.StructFields(an.LookupType(c.Pkg("expr"), "ValidationExpr")) {
		fields = append(fields, fv.Name())
	}
	type tr struct {
		name  string
		entry [2]string
		pkgs  []string
		skip  map[string]string
	}
	trs := []tr{
		{"JSON schema builder", [2]string{"http/codegen/openapi", "initAttributeValidation"}, []string{an.P("http/codegen/openapi")}, nil},
		{"OpenAPI v3 schemafier", [2]string{"http/codegen/openapi/v3", "schemafier.schemafy"}, []string{an.P("http/codegen/openapi/v3")}, nil},
		{"OpenAPI v2 parameter validations", [2]string{"http/codegen/openapi/v2", "initValidations"}, []string{an.P("http/codegen/openapi/v2")}, map[string]string{"Required": "Swagger 2 parameters carry `required` on the parameter, computed by the walkers (R07.4)"}},
		{"validation code generator", [2]string{"codegen", "validationCode"}, []string{an.P("codegen")}, nil},
	}
	for _, t := range trs {
		f := c.MustFunc(rule, t.entry[0], t.entry[1])
		if f == nil {
			continue
		}
		pk := map[string]bool{}
		for _, p := range t.pkgs {
			pk[p] = true
		}
		reads := an.FieldsReadBy(an.Reachable(c.SSAFunc(f)), tn, pk)
		var missing []string
		for _, fld := range fields {
			if _, skip := t.skip[fld]; skip {
				continue
			}
			if !reads[fld] {
				missing = append(missing, fld)
			}
		}
		c.Check(len(missing) == 0, rule, t.name, f.Decl.Pos(), fmt.Sprintf("consumes all %d validation keywords", len(fields)-len(t.skip)), "validation keywords never read: "+strings.Join(missing, ", ")+" — the contract and the server diverge for designs using them")
	}
}

var schemaFieldFor = map[string][]string{
	"Values": {"Enum"}, "Format": {"Format"}, "Pattern": {"Pattern"},
	"ExclusiveMinimum": {"ExclusiveMinimum"}, "Minimum": {"Minimum"}, "ExclusiveMaximum": {"ExclusiveMaximum"}, "Maximum": {"Maximum"},
	"MinLength": {"MinLength", "MinItems"}, "MaxLength": {"MaxLength", "MaxItems"}, "Required": {"Required"},
}

func r142Fidelity(c *an.Ctx) {
	const rule = "R14.2"
	for _, spec := range [][2]string{{"http/codegen/openapi", "initAttributeValidation"}, {"http/codegen/openapi/v3", "schemafier.schemafy"}} {
		f := c.MustFunc(rule, spec[0], spec[1])
		if f == nil {
			continue
		}
		n := 0
		var probs []string
		arrayGuarded := map[string]string{}
		c.InspectAll(f, func(hf *an.Func, nd ast.Node) bool { // the function and the helpers extracted from it
			info := hf.Pkg.TypesInfo
			as, ok := nd.(*ast.AssignStmt)
			if !ok || len(as.Lhs) != 1 || len(as.Rhs) != 1 {
				return true
			}
			lf := an.FieldOf(info, as.Lhs[0])
			if lf == nil || !strings.HasSuffix(an.NamedTypeName(fieldOwner(info, an.Unparen(as.Lhs[0]))), "openapi.Schema") {
				return true
			}
			// the validation field read on the right
			var rf *types.Var
			ast.Inspect(as.Rhs[0], func(x ast.Node) bool {
				if e, ok := x.(ast.Expr); ok {
					if v := an.FieldOf(info, e); v != nil && strings.HasSuffix(an.NamedTypeName(fieldOwner(info, an.Unparen(e))), "expr.ValidationExpr") {
						rf = v
					}
				}
				return true
			})
			if rf == nil {
				// s.Required = append(s.Required, v): handled by R14.4
				return true
			}
			n++
			okPair := false
			for _, want := range schemaFieldFor[rf.Name()] {
				if want == lf.Name() {
					okPair = true
				}
			}
			if !okPair {
				probs = append(probs, fmt.Sprintf("schema field %s is assigned from validation keyword %s", lf.Name(), rf.Name()))
			}
			if lf.Name() == "MinItems" || lf.Name() == "MaxItems" || lf.Name() == "MinLength" || lf.Name() == "MaxLength" {
				arrayGuarded[lf.Name()] = rf.Name()
			}
			return true
		})
		if len(arrayGuarded) != 4 {
			probs = append(probs, fmt.Sprintf("length keywords reach only %v (expected minItems/maxItems for arrays and minLength/maxLength otherwise)", sortedKeys(arrayGuarded)))
		}
		if n < 9 {
			probs = append(probs, fmt.Sprintf("only %d keyword assignments found", n))
		}
		report(c, rule, f.Name, f, probs, fmt.Sprintf("%d schema fields assigned from the like-named validation keyword", n))
	}
	// v2: helper ← keyword pairing, and flag semantics of the helpers
	if f := c.MustFunc(rule, "http/codegen/openapi/v2", "initValidations"); f != nil {
		info := f.Pkg.TypesInfo
		pair := map[string]string{
			"initEnumValidation": "Values", "initFormatValidation": "Format", "initPatternValidation": "Pattern",
			"initExclusiveMinimumValidation": "ExclusiveMinimum", "initMinimumValidation": "Minimum",
			"initExclusiveMaximumValidation": "ExclusiveMaximum", "initMaximumValidation": "Maximum",
			"initMinLengthValidation": "MinLength", "initMaxLengthValidation": "MaxLength",
		}
		var probs []string
		n := 0
		for _, call := range an.CallsIn(f.Decl.Body) {
			o := an.Callee(info, call)
			if o == nil {
				continue
			}
			want, known := pair[o.Name()]
			if !known {
				continue
			}
			n++
			got := ""
			for _, a := range call.Args {
				ast.Inspect(a, func(x ast.Node) bool {
					if e, ok := x.(ast.Expr); ok {
						if v := an.FieldOf(info, e); v != nil && strings.HasSuffix(an.NamedTypeName(fieldOwner(info, an.Unparen(e))), "expr.ValidationExpr") {
							got = v.Name()
						}
					}
					return true
				})
			}
			if got != want {
				probs = append(probs, fmt.Sprintf("%s is given keyword %s", o.Name(), got))
			}
		}
		if n < 9 {
			probs = append(probs, fmt.Sprintf("only %d of 9 keyword helpers are called", n))
		}
		report(c, rule, f.Name, f, probs, "each Swagger 2 helper receives the keyword it is named after")
	}
	flagTable := map[string][2]string{ // helper → (bound field, exclusive flag value)
		"initExclusiveMinimumValidation": {"Minimum", "true"}, "initMinimumValidation": {"Minimum", "false"},
		"initExclusiveMaximumValidation": {"Maximum", "true"}, "initMaximumValidation": {"Maximum", "false"},
	}
	for _, name := range sortedKeys(flagTable) {
		f := c.MustFunc(rule, "http/codegen/openapi/v2", name)
		if f == nil {
			continue
		}
		info := f.Pkg.TypesInfo
		want := flagTable[name]
		arms := 0
		var probs []string
		ast.Inspect(f.Decl.Body, func(nd ast.Node) bool {
			cc, ok := nd.(*ast.CaseClause)
			if !ok || cc.List == nil {
				return true
			}
			arms++
			bound, flag := "", ""
			for _, st := range cc.Body {
				as, ok := st.(*ast.AssignStmt)
				if !ok || len(as.Lhs) != 1 {
					continue
				}
				lf := an.FieldOf(info, as.Lhs[0])
				if lf == nil {
					continue
				}
				if b, isB := an.ConstBool(info, as.Rhs[0]); isB {
					if lf.Name() == "Exclusive"+want[0] {
						flag = fmt.Sprint(b)
					} else {
						probs = append(probs, "sets flag "+lf.Name())
					}
				} else if paramIndex(f, as.Rhs[0]) == 1 {
					bound = lf.Name()
				}
			}
			if bound != want[0] || flag != want[1] {
				probs = append(probs, fmt.Sprintf("an arm sets %s with exclusive=%s, expected %s with exclusive=%s", bound, flag, want[0], want[1]))
			}
			return true
		})
		if arms != 3 {
			probs = append(probs, fmt.Sprintf("%d arms, expected Parameter, Header and Items", arms))
		}
		report(c, rule, f.Name, f, probs, fmt.Sprintf("sets %s with exclusive=%s identically for parameters, headers and items", want[0], want[1]))
	}
}

// r04KeywordVariants is the site-independent keyword rule of C04/R04.3 under another rule id.
func r04KeywordVariants(c *an.Ctx, rule string) {
	for _, tn := range []string{"exclMinMaxValTmpl", "minMaxValTmpl", "lengthValTmpl"} {
		tpl, err := c.TplConst("codegen", tn)
		if err != nil {
			c.Add(an.Obligation{Rule: rule, Construct: "codegen." + tn, Status: an.LOST, Detail: err.Error()})
			continue
		}
		probs, bounds, nv := keywordVariantProblems(c, tpl)
		if len(probs) > 0 {
			c.Failf(rule, "codegen."+tn+"#variants", 0, "%s", strings.Join(probs[:min(3, len(probs))], " | "))
		} else {
			c.Okf(rule, "codegen."+tn+"#variants", "all %d variants: the guard generated for a bound is the comparison the schema keyword of that bound means (%v)", nv, bounds)
		}
	}
}

func r144Required(c *an.Ctx) {
	const rule = "R14.4"
	for _, spec := range [][2]string{{"http/codegen/openapi", "initAttributeValidation"}, {"http/codegen/openapi/v3", "schemafier.schemafy"}} {
		f := c.MustFunc(rule, spec[0], spec[1])
		if f == nil {
			continue
		}
		ok := false
		var why []string
		c.InspectAll(f, func(hf *an.Func, nd ast.Node) bool { // the function and the helpers extracted from it
			info := hf.Pkg.TypesInfo
			rs, isR := nd.(*ast.RangeStmt)
			if !isR {
				return true
			}
			fv := an.FieldOf(info, rs.X)
			if fv == nil || fv.Name() != "Required" || !strings.HasSuffix(an.NamedTypeName(fieldOwner(info, an.Unparen(rs.X))), "expr.ValidationExpr") {
				return true
			}
			// body: only filter allowed is MustGenerate; appends the loop value to s.Required
			appended := false
			var filters []string
			for _, call := range an.CallsIn(rs.Body) {
				name := an.CalleeName(info, call)
				switch {
				case strings.HasSuffix(name, ".MustGenerate"):
				case name == "append" || name == "":
					if id, isId := an.Unparen(call.Fun).(*ast.Ident); isId && id.Name == "append" && len(call.Args) == 2 && an.ObjOf(info, call.Args[1]) == an.ObjOf(info, rs.Value) {
						appended = true
					}
				case strings.HasSuffix(name, "AttributeExpr).Find"):
				default:
					filters = append(filters, name)
				}
			}
			for _, e := range loopExits(rs.Body) {
				filters = append(filters, "early exit: "+an.Src(c.Fset, e))
			}
			sort.Strings(filters)
			ok = appended && len(filters) == 0
			if !appended {
				why = append(why, "the required name is not appended to the schema's required list")
			}
			if len(filters) > 0 {
				why = append(why, "required names are filtered by "+strings.Join(filters, ", "))
			}
			return true
		})
		c.Check(ok, rule, f.Name+"#required", f.Decl.Pos(), "schema.required = validation.Required filtered only by MustGenerate", strings.Join(why, "; ")+" (or no loop over Validation.Required found)")
	}
}

// r147EndpointAccessors (R14.7): the required flags, types and names of params,
// headers and cookies that the server templates enforce and the OpenAPI builders
// document both come from the accessors of expr.HTTPEndpointExpr (QueryParams,
// PathParams, Headers …). None of the deviance lints may fire in them: a lookup
// by the raw "attr:element" pair, a stale flag, an abandoned loop there makes
// the two consumers disagree on what is required.
func r147EndpointAccessors(c *an.Ctx) {
	const rule = "R14.7"
	n := 0
	for _, f := range c.AllFuncs("expr") {
		if !strings.HasPrefix(f.Name, "expr.HTTPEndpointExpr.") {
			continue
		}
		n++
		for _, h := range an.AllLints(f) {
			c.Failf(rule, h.Construct, h.Pos, "%s", h.Msg)
		}
	}
	c.Okf(rule, "expr.HTTPEndpointExpr#accessors", "%d methods: none of the deviance lints fires", n)
	c.Floor(rule, n, 10, "methods of HTTPEndpointExpr")
}

// r148WalkChildren (R14.8): codegen.Walk is how the generators find out whether a type carries validations at all
// (hasValidations) and collect what to validate. It must visit every child attribute: on every path through the
// *Array arm that does not propagate an error the element is walked, on every such path through the *Map arm the key
// and the element are walked. A child that is skipped under some condition loses its validations: the server accepts
// what the schema - built by another traversal - forbids.
func r148WalkChildren(c *an.Ctx, rule string) {
	f := c.MustFunc(rule, "codegen", "walk")
	if f == nil {
		return
	}
	fn := c.SSAFunc(f)
	if fn == nil {
		c.Undecidedf(rule, f.Name, f.Decl.Pos(), "no SSA function")
		return
	}
	t := an.BuildPathTable(fn, an.PathOpts{MaxPaths: 4000})
	c.Stats["paths_enumerated"] += len(t.Paths)
	c.Stats["functions_tabled"]++
	children := map[string][]string{"Array": {"ElemType"}, "Map": {"KeyType", "ElemType"}}
	rows := 0
	for kind, kids := range children {
		atom := "p0.Type.(*expr." + kind + ")?#1"
		for _, p := range t.Paths {
			in, errPath := false, false
			for _, a := range p.Atoms {
				if a.Term == atom && a.Val {
					in = true
				}
				// a child walk (or the walker itself) failed: the error is returned, the rest is rightly skipped
				if !a.Val && strings.HasSuffix(a.Term, " == nil)") && (strings.HasPrefix(a.Term, "(codegen.walk(") || strings.HasPrefix(a.Term, "(dyn:p1(")) {
					errPath = true
				}
			}
			if !in || errPath || p.Exit != "return" {
				continue
			}
			rows++
			calls := strings.Join(p.CallEffects(), " ; ")
			for _, k := range kids {
				if !strings.Contains(calls, "codegen.walk(p0.Type.(*expr."+kind+")?#0."+k+",") {
					c.Failf(rule, f.Name+"#"+kind+"."+k, p.Pos, "on the path [%s] a %s is left without its %s being walked: validations declared there are never seen by the generators", p.GuardString(), strings.ToLower(kind), k)
					return
				}
			}
		}
	}
	if rows == 0 {
		c.Undecidedf(rule, f.Name, f.Decl.Pos(), "no path through the array or map arm found")
		return
	}
	c.Okf(rule, f.Name+"#children", "%d paths through the array and map arms: element (and key) are walked on every path that does not return an error", rows)
}
