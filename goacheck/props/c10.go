package props

import (
	"fmt"
	"go/ast"
	"go/types"
	"regexp"
	"strings"
	"text/template/parse"

	"goacheck/an"
)

func init() { Registry["C10"] = runC10 }

const explanationC10 = "Decides structural necessary conditions of C10: (R10.1) in protoBufMessageDef the field number printed for a field is rpcTag of the very attribute whose name and type are printed (object fields and oneof values); (R10.2) the gRPC validators visit every message/metadata attribute — no early exit from a loop that records errors, no stale search flag, validate* helpers wired with their result consumed; (R10.3) the runtime handlers call the endpoint only after a successful decode, with the decoded request, encode only after a successful endpoint call, and send headers/trailers only after a successful encode; decode failures that are not service errors become InvalidArgument; (R10.4) the streaming keywords of the generated service definition are driven by literals equal to expr's stream-kind constants, request side = client|bidirectional, response side = server|bidirectional; (R10.5) gRPC status mapping tables and ErrorResponse field fidelity (shared with C18); (R10.6) the string⇄typed conversion templates used for metadata use the strconv family, bit size and cast that belong to each primitive type; (R10.7) set/memo maps of the proto generators are tested and filled under the same key (no message emitted twice), and template range bodies use their element; (R10.8) encoders guard fields against nil only; (R10.9) the client invoker attaches the metadata after encoding and before the remote call; (R10.10) the required flag is propagated for every element of a Finalize loop. (R10.11) every metadata accessor of the gRPC encoder and decoder templates is keyed by the mapped key (.Name). NOT decided: proto3 well-formedness of the generated file (no protoc here; parsing generated text is execution of the generator) and the conversion round trip of values."

func runC10(c *an.Ctx) string {
	r101FieldNumbers(c)
	r102Validators(c)
	r103Handlers(c)
	r104Streaming(c)
	grpcCodeTable(c, "R10.5")
	errorFieldFidelity(c, "R10.5")
	r106Conversions(c)
	r107Memo(c)
	encoderNilGuards(c, "R10.8", "grpc/codegen/templates/request_encoder.go.tpl", "grpc/codegen/templates/response_encoder.go.tpl")
	r10InvokeOrder(c)
	requiredPropagationRule(c, "R10.10", "expr")
	r1011MetadataKeys(c, "R10.11")
	return explanationC10
}

func r101FieldNumbers(c *an.Ctx) {
	const rule = "R10.1"
	f := c.MustFunc(rule, "grpc/codegen", "protoBufMessageDef")
	if f == nil {
		return
	}
	n := 0
	c.InspectAll(f, func(hf *an.Func, nd ast.Node) bool { // protoBufMessageDef and the helpers extracted from it
		info := hf.Pkg.TypesInfo
		rs, ok := nd.(*ast.RangeStmt)
		if !ok || rs.Value == nil {
			return true
		}
		rv := an.ObjOf(info, rs.Value)
		// Sprintf with "= %d;" in this loop (not nested loops)
		for _, call := range an.CallsIn(rs.Body) {
			if !an.IsCallTo(info, call, "fmt.Sprintf") || len(call.Args) < 2 {
				continue
			}
			format, ok := an.ConstString(info, call.Args[0])
			if !ok || !strings.Contains(format, "= %d;") {
				continue
			}
			n++
			construct := fmt.Sprintf("%s#field-line(range %s)", f.Name, types.ExprString(rs.X))
			numArg := call.Args[len(call.Args)-1]
			nameArg := call.Args[len(call.Args)-2]
			var probs []string
			// the number variable is assigned from rpcTag(<rv>.Attribute) in this loop body
			okNum, okName := false, false
			// definitions of the printed values in this loop body (assignments, var declarations), or the
			// argument itself when the value is computed in place
			defsOf := func(arg ast.Expr) []ast.Expr {
				o := an.ObjOf(info, arg)
				if o == nil {
					return []ast.Expr{arg}
				}
				var out []ast.Expr
				ast.Inspect(rs.Body, func(x ast.Node) bool {
					switch d := x.(type) {
					case *ast.AssignStmt:
						for i, l := range d.Lhs {
							if i < len(d.Rhs) && an.ObjOf(info, l) == o {
								out = append(out, d.Rhs[i])
							}
						}
					case *ast.ValueSpec:
						for i, nm := range d.Names {
							if i < len(d.Values) && info.Defs[nm] == o {
								out = append(out, d.Values[i])
							}
						}
					}
					return true
				})
				return out
			}
			for _, def := range defsOf(numArg) {
				if rc, isCall := an.Unparen(def).(*ast.CallExpr); isCall && an.CalleeName(info, rc) == an.P("grpc/codegen")+".rpcTag" && len(rc.Args) == 1 {
					if root, path, okp := an.FieldPath(rc.Args[0]); okp && an.ObjOf(info, root) == rv && len(path) == 1 && path[0] == "Attribute" {
						okNum = true
					} else {
						probs = append(probs, "the field number is the tag of "+types.ExprString(rc.Args[0])+", not of the attribute being printed")
					}
				}
			}
			for _, def := range defsOf(nameArg) {
				ast.Inspect(def, func(y ast.Node) bool {
					if se, isSel := y.(*ast.SelectorExpr); isSel && se.Sel.Name == "Name" && an.ObjOf(info, se.X) == rv {
						okName = true
					}
					return true
				})
			}
			if !okNum && len(probs) == 0 {
				probs = append(probs, "the number printed is not assigned from rpcTag(<loop element>.Attribute)")
			}
			if !okName {
				probs = append(probs, "the name printed is not derived from <loop element>.Name")
			}
			if len(probs) > 0 {
				c.Failf(rule, construct, call.Pos(), "%s", strings.Join(probs, "; "))
			} else {
				c.Okf(rule, construct, "name, type and number printed on one line come from the same attribute")
			}
		}
		return true
	})
	c.Floor(rule, n, 2, "field lines with numbers (object fields, oneof values)")
	// rpcTag parses the design's tag
	if g, t := tableOf(c, rule, "grpc/codegen", "rpcTag", 0); t != nil {
		ok := false
		for _, p := range t.Paths {
			if len(p.Ret) == 1 && strings.HasPrefix(p.Ret[0], "strconv.ParseUint((*expr.AttributeExpr).FieldTag(p0)#0, 10, 64)#0") {
				ok = true
			}
		}
		c.Check(ok, rule, g.Name, g.Decl.Pos(), "the number is the attribute's rpc:tag parsed as a base-10 integer", "rpcTag no longer returns ParseUint(att.FieldTag(), 10, 64)")
	}
}

func r102Validators(c *an.Ctx) {
	const rule = "R10.2"
	n := 0
	for _, f := range c.AllFuncs("expr") {
		pos := c.Position(f.Decl.Pos())
		if !strings.HasPrefix(pos, "expr/grpc_") {
			continue
		}
		n++
		info := f.Pkg.TypesInfo
		for _, sf := range an.StaleFlags(f) {
			c.Failf(rule, fmt.Sprintf("%s#flag(%s)", f.Name, sf.Var.Name()), sf.Set.Pos(), "search flag %s is set in an inner loop and tested in the enclosing loop (at %s) without being reset: attributes after the first match escape the field-number checks", sf.Var.Name(), c.Position(sf.Read.Pos()))
		}
		for _, p := range an.SelfRecursionDrops(f) {
			c.Failf(rule, f.Name+"#recursion-guard", f.Decl.Pos(), "%s", p)
		}
		ast.Inspect(f.Decl.Body, func(nd ast.Node) bool {
			rs, ok := nd.(*ast.RangeStmt)
			if !ok {
				return true
			}
			records := false
			for _, call := range an.CallsIn(rs.Body) {
				name := an.CalleeName(info, call)
				if strings.Contains(name, "eval.ValidationErrors).Add") || strings.Contains(name, "eval.ValidationErrors).Merge") {
					records = true
				}
			}
			if !records {
				return true
			}
			construct := fmt.Sprintf("%s#range(%s)", f.Name, types.ExprString(rs.X))
			var exits []string
			for _, e := range loopExits(rs.Body) {
				if br, isBr := e.(*ast.BranchStmt); isBr && br.Tok.String() == "break" && !breakAfterRecording(info, rs.Body, br) {
					exits = append(exits, "break at "+c.Position(e.Pos()))
				}
			}
			if len(exits) > 0 {
				c.Failf(rule, construct, rs.Pos(), "a gRPC validation loop that records errors can stop early (%s): later message attributes are never checked (ghost attributes accepted, duplicate field numbers unseen)", strings.Join(exits, ", "))
			} else {
				c.Okf(rule, construct, "validation loop visits every attribute")
			}
			return true
		})
	}
	c.Floor(rule, n, 10, "functions of expr/grpc_*.go")
}

func r103Handlers(c *an.Ctx) {
	const rule = "R10.3"
	if f, t := tableOf(c, rule, "grpc", "unaryHandler.Handle", 0); t != nil {
		var probs []string
		calledEndpoint := 0
		for i := range t.Paths {
			p := &t.Paths[i]
			e := pathEnv(p)
			dec, ep, enc, hdr, trl := -1, -1, -1, -1, -1
			var epTerm string
			for j, cl := range p.CallEffects() {
				switch {
				case strings.HasPrefix(cl, "dyn:p0.decoder("):
					dec = j
				case strings.HasPrefix(cl, "dyn:p0.endpoint("):
					ep = j
					epTerm = cl
				case strings.HasPrefix(cl, "dyn:p0.encoder("):
					enc = j
				case strings.HasPrefix(cl, "google.golang.org/grpc.SendHeader("):
					hdr = j
				case strings.HasPrefix(cl, "google.golang.org/grpc.SetTrailer("):
					trl = j
				}
			}
			hasDecoder, dk := e["(p0.decoder == nil)"]
			hasDecoder = dk && !hasDecoder
			decOK, decKnown := false, false
			epOK, epKnown := false, false
			encOK, encKnown := false, false
			for k, v := range e {
				switch {
				case strings.HasPrefix(k, "(dyn:p0.decoder(") && strings.HasSuffix(k, ")#1 == nil)"):
					decOK, decKnown = v, true
				case strings.HasPrefix(k, "(dyn:p0.endpoint(") && strings.HasSuffix(k, ")#1 == nil)"):
					epOK, epKnown = v, true
				case strings.HasPrefix(k, "(dyn:p0.encoder(") && strings.HasSuffix(k, ")#1 == nil)"):
					encOK, encKnown = v, true
				}
			}
			if hasDecoder && dec < 0 {
				probs = append(probs, "a configured request decoder is not called")
			}
			if ep >= 0 {
				calledEndpoint++
				if hasDecoder && !(decKnown && decOK) {
					probs = append(probs, "the endpoint runs although decoding failed or its error was not tested: "+p.GuardString())
				}
				if hasDecoder && dec > ep {
					probs = append(probs, "the endpoint runs before the request is decoded")
				}
				if hasDecoder && !strings.Contains(epTerm, "dyn:p0.decoder(") {
					probs = append(probs, "the endpoint does not receive the decoded request: "+epTerm)
				}
			}
			if enc >= 0 && !(ep >= 0 && ep < enc && epKnown && epOK) {
				probs = append(probs, "the response is encoded without a successful endpoint call")
			}
			if (hdr >= 0 || trl >= 0) && !(ep >= 0 && epKnown && epOK && (enc < 0 || (encKnown && encOK))) {
				probs = append(probs, "headers/trailers are sent although the endpoint or the encoder failed")
			}
			if hasDecoder && decKnown && !decOK {
				if ep >= 0 {
					probs = append(probs, "user code runs on a request that failed decoding/validation")
				}
				svc := false
				for k, v := range e {
					if strings.HasPrefix(k, "errors.As(dyn:p0.decoder(") {
						svc = v
					}
				}
				if !svc && (len(p.Ret) != 2 || !strings.HasPrefix(p.Ret[1], "google.golang.org/grpc/status.Error(3, ")) {
					probs = append(probs, "a decoding failure that is not a service error is not reported as InvalidArgument")
				}
				if svc && (len(p.Ret) != 2 || !strings.HasPrefix(p.Ret[1], "dyn:p0.decoder(") || !strings.HasSuffix(p.Ret[1], ")#1")) {
					probs = append(probs, "a service error returned by the request decoder (a validation error) is not returned as it is: the generated error encoder can no longer map it to its response: "+strings.Join(p.Ret, ","))
				}
			}
		}
		if calledEndpoint == 0 {
			probs = append(probs, "no path calls the endpoint")
		}
		report(c, rule, f.Name, f, probs, fmt.Sprintf("decode ≺ endpoint(decoded request) ≺ encode ≺ headers/trailers, each step only after the previous one succeeded (%d paths)", len(t.Paths)))
	}
	if f, t := tableOf(c, rule, "grpc", "streamHandler.Decode", 0); t != nil {
		var probs []string
		for i := range t.Paths {
			p := &t.Paths[i]
			e := pathEnv(p)
			decOK, known := false, false
			for k, v := range e {
				if strings.HasPrefix(k, "(dyn:p0.decoder(") && strings.HasSuffix(k, ")#1 == nil)") {
					decOK, known = v, true
				}
			}
			if known && !decOK && len(p.Ret) == 2 && p.Ret[1] == "nil" {
				probs = append(probs, "a decoding failure is reported as success")
			}
			// the same two rows as the unary handler: a service error travels as it is, anything else becomes
			// InvalidArgument
			if known && !decOK && len(p.Ret) == 2 {
				svc, sk := false, false
				for k, v := range e {
					if strings.HasPrefix(k, "errors.As(dyn:p0.decoder(") {
						svc, sk = v, true
					}
				}
				switch {
				case sk && svc && !(strings.HasPrefix(p.Ret[1], "dyn:p0.decoder(") && strings.HasSuffix(p.Ret[1], ")#1")):
					probs = append(probs, "a service error returned by the request decoder is not returned as it is (the unary handler returns it unchanged): "+p.Ret[1])
				case sk && !svc && !strings.HasPrefix(p.Ret[1], "google.golang.org/grpc/status.Error(3, "):
					probs = append(probs, "a decoding failure that is not a service error is not reported as InvalidArgument: "+p.Ret[1])
				}
			}
			if known && decOK && (len(p.Ret) != 2 || !strings.HasSuffix(p.Ret[0], ")#0") || p.Ret[1] != "nil") {
				probs = append(probs, "a successful decode does not return the decoded request")
			}
		}
		report(c, rule, f.Name, f, probs, "stream decode returns the decoded request or the decoding error")
	}
	if f, t := tableOf(c, rule, "grpc", "streamHandler.Handle", 0); t != nil {
		ok := len(t.Paths) == 1 && len(t.Paths[0].Ret) == 1 && t.Paths[0].Ret[0] == "dyn:p0.endpoint(p1, p2)#1"
		c.Check(ok, rule, f.Name, f.Decl.Pos(), "stream handler returns the endpoint's error", "stream handler does not return the error of endpoint(ctx, stream)")
	}
}

func r104Streaming(c *an.Ctx) {
	const rule = "R10.4"
	tpl, err := c.TplFile("grpc/codegen/templates/grpc_service.go.tpl")
	if err != nil {
		c.Add(an.Obligation{Rule: rule, Construct: "grpc_service.go.tpl", Status: an.LOST, Detail: err.Error()})
		return
	}
	kinds := map[string]string{}
	for _, k := range []string{"ClientStreamKind", "ServerStreamKind", "BidirectionalStreamKind", "NoStreamKind"} {
		v, _ := constValue(c, "expr", k)
		kinds[k] = v
	}
	// variable definitions: $x := or (eq .Method.StreamKind a) (eq .Method.StreamKind b)
	defs := map[string][]string{}
	an.WalkTpl(tpl.Tree.Root, func(n parse.Node) bool {
		a, ok := n.(*parse.ActionNode)
		if !ok || len(a.Pipe.Decl) != 1 {
			return true
		}
		name := a.Pipe.Decl[0].Ident[0]
		var lits []string
		an.WalkTpl(a.Pipe, func(x parse.Node) bool {
			if cmd, ok := x.(*parse.CommandNode); ok && len(cmd.Args) == 3 {
				if id, ok := cmd.Args[0].(*parse.IdentifierNode); ok && id.Ident == "eq" && strings.HasSuffix(cmd.Args[1].String(), ".StreamKind") {
					lits = append(lits, cmd.Args[2].String())
				}
			}
			return true
		})
		defs[name] = lits
		return true
	})
	// which variable guards the request side / the returns side
	var reqVar, respVar string
	sawReturns := false
	var walk func(n parse.Node)
	walk = func(n parse.Node) {
		switch x := n.(type) {
		case *parse.ListNode:
			if x == nil {
				return
			}
			for _, ch := range x.Nodes {
				walk(ch)
			}
		case *parse.RangeNode:
			walk(x.List)
		case *parse.TextNode:
			if strings.Contains(string(x.Text), "returns (") {
				sawReturns = true
			}
		case *parse.IfNode:
			if strings.Contains(an.TplText(x.List), "stream ") && len(x.Pipe.Cmds) == 1 && len(x.Pipe.Cmds[0].Args) == 1 {
				v := x.Pipe.Cmds[0].Args[0].String()
				if !sawReturns {
					reqVar = v
				} else {
					respVar = v
				}
			}
		}
	}
	walk(tpl.Tree.Root)
	sameSet := func(a []string, b ...string) bool {
		if len(a) != len(b) {
			return false
		}
		m := map[string]bool{}
		for _, x := range a {
			m[x] = true
		}
		for _, x := range b {
			if !m[x] {
				return false
			}
		}
		return true
	}
	okReq := reqVar != "" && sameSet(defs[reqVar], kinds["ClientStreamKind"], kinds["BidirectionalStreamKind"])
	okResp := respVar != "" && sameSet(defs[respVar], kinds["ServerStreamKind"], kinds["BidirectionalStreamKind"])
	c.Check(okReq, rule, tpl.Name+"#request-stream", 0, fmt.Sprintf("`stream` before the request message iff the stream kind is client (%s) or bidirectional (%s)", kinds["ClientStreamKind"], kinds["BidirectionalStreamKind"]),
		fmt.Sprintf("the request side is guarded by %s = kinds %v; expected {%s,%s}", reqVar, defs[reqVar], kinds["ClientStreamKind"], kinds["BidirectionalStreamKind"]))
	c.Check(okResp, rule, tpl.Name+"#response-stream", 0, fmt.Sprintf("`stream` before the response message iff the stream kind is server (%s) or bidirectional (%s)", kinds["ServerStreamKind"], kinds["BidirectionalStreamKind"]),
		fmt.Sprintf("the returns side is guarded by %s = kinds %v; expected {%s,%s}", respVar, defs[respVar], kinds["ServerStreamKind"], kinds["BidirectionalStreamKind"]))
}

func r106Conversions(c *an.Ctx) {
	const rule = "R10.6"
	n := 0
	for _, f := range []string{"grpc/codegen/templates/partial/convert_string_to_type.go.tpl", "grpc/codegen/templates/partial/convert_type_to_string.go.tpl"} {
		n += convTemplateRule(c, rule, f)
	}
	c.Floor(rule, n, 20, "strconv conversion branches in the gRPC metadata templates")
}

func r107Memo(c *an.Ctx) {
	const rule = "R10.7"
	n := 0
	for _, f := range c.AllFuncs("grpc/codegen") {
		n++
		for _, m := range an.MemoKeyMismatches(f) {
			c.Failf(rule, fmt.Sprintf("%s#memo(%s)", f.Name, m.Map.Name()), m.Store.Pos(), "set %s is tested under key %s but filled under key %s: the same message/type is processed (and emitted) more than once", m.Map.Name(), types.ExprString(m.Lookup), types.ExprString(m.Store))
		}
	}
	c.Okf(rule, "grpc/codegen#memo-keys", "%d functions: every seen-set is tested and filled under the same key", n)
	tplRangeIndexRule(c, rule, "grpc/codegen/templates")
}

// r10InvokeOrder (R10.9): the client invoker attaches the metadata set to the
// outgoing context after the request encoder has filled it: on every path from
// the encoder call to the remote call, metadata.NewOutgoingContext is called.
// (Attaching before encoding hands the transport the set as it was before the
// encoder replaced or filled it.)
func r10InvokeOrder(c *an.Ctx) {
	const rule = "R10.9"
	f := c.MustFunc(rule, "grpc", "cliInvoker.Invoke")
	if f == nil {
		return
	}
	info := f.Pkg.TypesInfo
	g := an.NewCFG(info, f.Decl.Body)
	fieldCall := func(field string) func(*ast.CallExpr) bool {
		return func(call *ast.CallExpr) bool {
			se, ok := an.Unparen(call.Fun).(*ast.SelectorExpr)
			return ok && se.Sel.Name == field && info.Selections[se] != nil && info.Selections[se].Kind() == types.FieldVal
		}
	}
	encs, _ := g.FindCalls(fieldCall("encoder"))
	fns, _ := g.FindCalls(fieldCall("fn"))
	attach, _ := g.FindCalls(func(call *ast.CallExpr) bool {
		return an.CalleeName(info, call) == "google.golang.org/grpc/metadata.NewOutgoingContext"
	})
	if len(encs) == 0 || len(fns) == 0 || len(attach) == 0 {
		c.Add(an.Obligation{Rule: rule, Construct: f.Name, Status: an.LOST, Detail: fmt.Sprintf("encoder calls %d, remote calls %d, NewOutgoingContext calls %d", len(encs), len(fns), len(attach))})
		return
	}
	isAttach := func(l an.Loc) bool {
		for _, a := range attach {
			if a == l {
				return true
			}
		}
		return false
	}
	ok := true
	for _, e := range encs {
		for _, r := range fns {
			if g.Reaches(e, r, isAttach) {
				ok = false
			}
		}
	}
	c.Check(ok, rule, f.Name+"#encode≺attach≺call", f.Decl.Pos(), "every path from the request encoder to the remote call attaches the metadata to the outgoing context in between", "a path runs from the request encoder to the remote call without attaching the metadata set to the outgoing context afterwards: metadata the encoder produced does not travel")
}

// r1011MetadataKeys (R10.11): gRPC metadata travels under the mapped key of the attribute (MetadataData.Name), on the
// writing side (md.Append) and on the reading side (md.Get) of both directions. Every metadata accessor of the four
// gRPC encoder/decoder templates is keyed by the Name field of the range element (or of its Metadata member), never
// by AttributeName, VarName or FieldName: with a key that differs on the two sides a mapped attribute
// ("ids:x-ids") is written under one name and looked for under another.
func r1011MetadataKeys(c *an.Ctx, rule string) {
	re := regexp.MustCompile(`\.(Append|Get|Set)\((?:ctx, )?\{\{\s*printf "%q" ((?:\.\w+)+)\s*\}\}`)
	sites := 0
	for _, file := range []string{"request_encoder.go.tpl", "request_decoder.go.tpl", "response_encoder.go.tpl", "response_decoder.go.tpl"} {
		t, err := c.TplFile("grpc/codegen/templates/" + file)
		if err != nil {
			c.Add(an.Obligation{Rule: rule, Construct: file, Status: an.LOST, Detail: err.Error()})
			continue
		}
		var probs []string
		// template variables that name a key: {{ $key := printf "%q" .Name }} (the definition in force is the last one
		// above the use)
		reDef := regexp.MustCompile(`\{\{-?\s*(\$\w+)\s*:?=\s*printf "%q" ((?:\.\w+)+)\s*-?\}\}`)
		reUse := regexp.MustCompile(`\.(Append|Get|Set)\((?:ctx, )?\{\{\s*(\$\w+)\s*\}\}`)
		defs := map[string]string{}
		for ln, line := range strings.Split(t.Src, "\n") {
			for _, m := range reDef.FindAllStringSubmatch(line, -1) {
				defs[m[1]] = m[2]
			}
			for _, m := range re.FindAllStringSubmatch(line, -1) {
				sites++
				if m[2] != ".Name" && m[2] != ".Metadata.Name" {
					probs = append(probs, fmt.Sprintf("line %d: metadata %s is keyed by %s instead of the mapped key (.Name)", ln+1, m[1], m[2]))
				}
			}
			for _, m := range reUse.FindAllStringSubmatch(line, -1) {
				field, known := defs[m[2]]
				if !known {
					continue // a variable the rule cannot resolve: not decided
				}
				sites++
				if field != ".Name" && field != ".Metadata.Name" {
					probs = append(probs, fmt.Sprintf("line %d: metadata %s is keyed by %s = %s instead of the mapped key (.Name)", ln+1, m[1], m[2], field))
				}
			}
		}
		if len(probs) > 0 {
			c.Failf(rule, "grpc/codegen/templates/"+file+"#metadata-keys", 0, "%s: writer and reader disagree for an attribute mapped to a differently named metadata key", strings.Join(probs[:min(3, len(probs))], " | "))
		} else {
			c.Okf(rule, "grpc/codegen/templates/"+file+"#metadata-keys", "every metadata accessor is keyed by the mapped key")
		}
	}
	c.Floor(rule, sites, 20, "metadata accessors keyed by a template field")
}
