package props

import (
	"fmt"
	"go/ast"
	"go/types"
	"sort"
	"strings"

	"golang.org/x/tools/go/ssa"

	"goacheck/an"
)

func init() { Registry["C07"] = runC07 }

const explanationC07 = "Decides structural necessary conditions of C07 on the OpenAPI builders and the server data builder: (R07.1) the server route table, the v2 and the v3 path builders all take their paths from RouteExpr.FullPaths and the verb from RouteExpr.Method; (R07.2) every verb the DSL can produce has a case in the path builders' verb switch wherever the document format has a slot for it; (R07.3) every request location of an endpoint (Params, Headers, Cookies, MapQueryParams, Body, Responses, HTTPErrors, MultipartRequest) that the server data builder reads is read by the v3 and v2 operation builders; (R07.4) inside a walk over a mapped-attribute collection the required flag is asked of the collection being walked and the `in` literal belongs to that collection (path|query from Params, header from Headers, cookie from Cookies), path wildcards are required; (R07.5) the v2/v3 builders and the server agree on the predicate 'has a request body' (Body.Type != Empty); (R07.7) the Swagger base-path decision looks at each route (any absolute route), and set/memo maps are keyed consistently; (R07.8) required flags are propagated under the same key they are looked up with; (R07.9) scope lists stored in security requirements are never nil. (R07.10) every store into the paths table of either document is keyed by the request path with wildcards rewritten to {name} (endpoints and file servers, OpenAPI 2 and 3: four sibling sites); (R07.11) every OpenAPI 3 Parameter literal carries a schema or a content. NOT decided: validity of the documents against the OpenAPI schemas and JSON≡YAML (marshal behaviour of third-party encoders)."

func runC07(c *an.Ctx) string {
	r071Routes(c)
	r072Verbs(c)
	r073Consumes(c)
	r074Walkers(c)
	r075Body(c)
	r077AbsoluteAndMemo(c)
	r079ScopeLists(c)
	r0710PathKeys(c, "R07.10")
	r0711ParamSchemas(c, "R07.11")
	r078RequiredKeys(c, "R07.8", []string{"expr", "http/codegen", "http/codegen/openapi", "http/codegen/openapi/v2", "http/codegen/openapi/v3"})
	return explanationC07
}

// callsIn lists the calls of callee in f and in the helpers extracted from it since the reference tree.
func callsIn(f *an.Func, callee string) []*ast.CallExpr {
	group := []*an.Func{f}
	if Current != nil {
		group = Current.WithNewHelpers(f)
	}
	var out []*ast.CallExpr
	for _, g := range group {
		for _, call := range an.AllCallsIn(g.Decl.Body) {
			if an.CalleeName(g.Pkg.TypesInfo, call) == callee {
				out = append(out, call)
			}
		}
	}
	return out
}

func r071Routes(c *an.Ctx) {
	const rule = "R07.1"
	fp := "(*" + an.P("expr") + ".RouteExpr).FullPaths"
	for _, spec := range [][2]string{{"http/codegen", "ServicesData.analyze"}, {"http/codegen/openapi/v2", "buildPathFromExpr"}, {"http/codegen/openapi/v3", "buildPaths"}} {
		f := c.MustFunc(rule, spec[0], spec[1])
		if f == nil {
			continue
		}
		n := len(callsIn(f, fp))
		// the verb comes from RouteExpr.Method
		readsMethod := false
		c.InspectAll(f, func(hf *an.Func, nd ast.Node) bool {
			if fv := an.FieldOf(hf.Pkg.TypesInfo, asExpr(nd)); fv != nil && fv.Name() == "Method" && an.NamedTypeName(fieldOwner(hf.Pkg.TypesInfo, nd)) == an.P("expr")+".RouteExpr" {
				readsMethod = true
			}
			return true
		})
		c.Check(n > 0 && readsMethod, rule, f.Name, f.Decl.Pos(), "paths come from RouteExpr.FullPaths and the verb from RouteExpr.Method",
			fmt.Sprintf("FullPaths calls=%d, reads RouteExpr.Method=%v: the document and the server no longer share one route source", n, readsMethod))
	}
}

func asExpr(n ast.Node) ast.Expr {
	if e, ok := n.(ast.Expr); ok {
		return e
	}
	return nil
}

func fieldOwner(info *types.Info, n ast.Node) types.Type {
	se, ok := n.(*ast.SelectorExpr)
	if !ok {
		return nil
	}
	if tv, ok := info.Types[se.X]; ok {
		return tv.Type
	}
	return nil
}

func r072Verbs(c *an.Ctx) {
	const rule = "R07.2"
	// verbs the DSL can produce: string arguments of route(...) in package dsl
	var verbs []string
	for _, f := range c.AllFuncs("dsl") {
		for _, call := range callsIn(f, an.P("dsl")+".route") {
			if len(call.Args) > 0 {
				if v, ok := an.ConstString(f.Pkg.TypesInfo, call.Args[0]); ok {
					verbs = append(verbs, v)
				}
			}
		}
	}
	sort.Strings(verbs)
	c.Floor(rule, len(verbs), 9, "verbs produced by the DSL route constructors")
	type target struct{ dir, fn, itemType string }
	for _, tg := range []target{{"http/codegen/openapi/v3", "buildPaths", "PathItem"}, {"http/codegen/openapi/v2", "buildPathFromExpr", "Path"}} {
		f := c.MustFunc(rule, tg.dir, tg.fn)
		if f == nil {
			continue
		}
		labels := caseLabelValues(f, func(tag ast.Expr) bool {
			fv := an.FieldOf(f.Pkg.TypesInfo, tag)
			return fv != nil && fv.Name() == "Method"
		})
		have := map[string]bool{}
		for _, l := range labels {
			have[l] = true
		}
		// slots of the document's path item
		slots := map[string]bool{}
		for _, fv := range an.StructFields(an.LookupType(c.Pkg(tg.dir), tg.itemType)) {
			slots[strings.ToUpper(fv.Name())] = true
		}
		for _, v := range verbs {
			construct := fmt.Sprintf("%s#verb(%s)", f.Name, v)
			switch {
			case have[v]:
				c.Okf(rule, construct, "documented")
			case !slots[v]:
				c.Failf(rule, construct, f.Decl.Pos(), "routes using %s are mounted by the server but the %s path item has no slot for the verb: such operations are absent from the document", v, tg.itemType)
			default:
				c.Failf(rule, construct, f.Decl.Pos(), "routes using %s are mounted by the server and %s has a field for the verb, but the builder's switch has no case for it: the operation is silently dropped from the document", v, tg.itemType)
			}
		}
	}
}

func r073Consumes(c *an.Ctx) {
	const rule = "R07.3"
	locs := []string{"Params", "Headers", "Cookies", "MapQueryParams", "Body", "Responses", "HTTPErrors", "MultipartRequest"}
	tn := an.P("expr") + ".HTTPEndpointExpr"
	exprPkg := an.P("expr")
	type tr struct {
		name    string
		entries [][2]string
		pkgs    []string
	}
	trs := []tr{
		{"server/client data builder", [][2]string{{"http/codegen", "ServicesData.analyze"}}, []string{an.P("http/codegen"), exprPkg}},
		{"OpenAPI v3 builder", [][2]string{{"http/codegen/openapi/v3", "buildPaths"}, {"http/codegen/openapi/v3", "buildBodyTypes"}}, []string{an.P("http/codegen/openapi/v3"), an.P("http/codegen/openapi")}},
		{"OpenAPI v2 builder", [][2]string{{"http/codegen/openapi/v2", "buildPathFromExpr"}}, []string{an.P("http/codegen/openapi/v2"), an.P("http/codegen/openapi")}},
	}
	reads := map[string]map[string]bool{}
	for _, t := range trs {
		var entries []*ssa.Function
		for _, e := range t.entries {
			if f := c.Func(e[0], e[1]); f != nil {
				entries = append(entries, c.SSAFunc(f))
			}
		}
		if len(entries) == 0 {
			c.Add(an.Obligation{Rule: rule, Construct: t.name, Status: an.LOST, Detail: "entry points not found"})
			continue
		}
		pk := map[string]bool{}
		for _, p := range t.pkgs {
			pk[p] = true
		}
		reads[t.name] = an.FieldsReadBy(an.Reachable(entries...), tn, pk)
	}
	ref := reads[trs[0].name]
	for _, t := range trs[1:] {
		for _, l := range locs {
			construct := fmt.Sprintf("%s#%s", t.name, l)
			if !ref[l] {
				continue // the server itself does not read it (informational)
			}
			if reads[t.name][l] {
				c.Okf(rule, construct, "read by the builder (and by the server data builder)")
			} else {
				c.Failf(rule, construct, 0, "the server decodes the endpoint's %s but the %s never reads HTTPEndpointExpr.%s: what the server accepts there is absent from the document", l, t.name, l)
			}
		}
	}
	n := 0
	for _, l := range locs {
		if ref[l] {
			n++
		}
	}
	c.Floor(rule, n, 7, "request locations read by the server data builder")
}

// r074Walkers: inside func literals passed to WalkMappedAttr(X, ...), calls of
// IsRequired/IsRequiredNoDefault must be made on X itself, and the `in`
// literal passed to paramFor must belong to X's field.
func r074Walkers(c *an.Ctx) {
	const rule = "R07.4"
	n := 0
	inFor := map[string]map[string]bool{"Headers": {"header": true}, "Cookies": {"cookie": true}, "Params": {"path": true, "query": true}}
	for _, dir := range []string{"http/codegen/openapi/v2", "http/codegen/openapi/v3", "http/codegen", "http/codegen/openapi"} {
		for _, f := range c.AllFuncs(dir) {
			info := f.Pkg.TypesInfo
			for _, call := range an.AllCallsIn(f.Decl.Body) {
				name := an.CalleeName(info, call)
				if !strings.HasSuffix(name, ".WalkMappedAttr") || len(call.Args) != 2 {
					continue
				}
				fl, ok := an.Unparen(call.Args[1]).(*ast.FuncLit)
				if !ok {
					continue
				}
				coll := call.Args[0]
				n++
				construct := fmt.Sprintf("%s#walk(%s)", f.Name, types.ExprString(coll))
				var probs []string
				for _, inner := range an.AllCallsIn(fl.Body) {
					se, ok := an.Unparen(inner.Fun).(*ast.SelectorExpr)
					if !ok {
						continue
					}
					switch se.Sel.Name {
					case "IsRequired", "IsRequiredNoDefault", "IsPrimitivePointer", "HasDefaultValue", "GetDefault":
						tv, ok := info.Types[se.X]
						if !ok || an.NamedTypeName(tv.Type) != an.P("expr")+".MappedAttributeExpr" {
							continue
						}
						if !an.SameExpr(info, se.X, coll) {
							probs = append(probs, fmt.Sprintf("%s is asked of %s while the walk is over %s", se.Sel.Name, types.ExprString(se.X), types.ExprString(coll)))
						}
					case "paramFor":
					}
					if strings.HasSuffix(an.CalleeName(info, inner), ".paramFor") && len(inner.Args) >= 3 {
						if _, path, okp := an.FieldPath(coll); okp && len(path) > 0 {
							if allowed, known := inFor[path[len(path)-1]]; known {
								if lit, isConst := an.ConstString(info, inner.Args[2]); isConst && !allowed[lit] {
									probs = append(probs, fmt.Sprintf("parameters of %s are documented with in=%q", path[len(path)-1], lit))
								}
							}
						}
					}
				}
				if len(probs) > 0 {
					c.Failf(rule, construct, call.Pos(), "%s: the required flag / location in the document is taken from a sibling collection", strings.Join(dedupStrings(probs), "; "))
				} else {
					c.Okf(rule, construct, "required flags and location belong to the collection being walked")
				}
			}
		}
	}
	c.Floor(rule, n, 8, "walks over mapped-attribute collections in the HTTP generators")
	// path wildcards are required in both path builders
	for _, spec := range [][2]string{{"http/codegen/openapi/v3", "paramsFromPath"}, {"http/codegen/openapi/v2", "paramsFromExpr"}} {
		f := c.MustFunc(rule, spec[0], spec[1])
		if f == nil {
			continue
		}
		ok := false
		ast.Inspect(f.Decl.Body, func(nd ast.Node) bool {
			as, isAs := nd.(*ast.AssignStmt)
			if !isAs || len(as.Lhs) != 1 || len(as.Rhs) != 1 {
				return true
			}
			if id, isId := as.Lhs[0].(*ast.Ident); isId && id.Name == "required" {
				if b, isB := an.ConstBool(f.Pkg.TypesInfo, as.Rhs[0]); isB && b {
					ok = true
				}
			}
			return true
		})
		usesWild := len(callsIn(f, an.P("expr")+".ExtractHTTPWildcards")) > 0
		c.Check(ok && usesWild, rule, f.Name+"#wildcards-required", f.Decl.Pos(), "parameters named by a path wildcard are documented in=path and required", "path wildcards are no longer forced to required=true (or are not extracted from the route)")
	}
}

func r075Body(c *an.Ctx) {
	const rule = "R07.5"
	// each builder tests <endpoint>.Body.Type != expr.Empty
	for _, spec := range [][2]string{{"http/codegen/openapi/v3", "buildOperation"}, {"http/codegen/openapi/v2", "buildPathFromExpr"}, {"http/codegen", "buildPayloadData"}} {
		f := c.MustFunc(rule, spec[0], spec[1])
		if f == nil {
			continue
		}
		found := false
		c.InspectAll(f, func(hf *an.Func, nd ast.Node) bool { // the builder and the helpers extracted from it
			info := hf.Pkg.TypesInfo
			be, ok := nd.(*ast.BinaryExpr)
			if !ok {
				return true
			}
			for _, pair := range [][2]ast.Expr{{be.X, be.Y}, {be.Y, be.X}} {
				_, path, okp := an.FieldPath(pair[0])
				if !okp || len(path) < 2 || path[len(path)-1] != "Type" || path[len(path)-2] != "Body" {
					continue
				}
				if o := an.ObjOf(info, selName(pair[1])); o != nil && o.Name() == "Empty" && o.Pkg() != nil && o.Pkg().Path() == an.P("expr") {
					found = true
				}
			}
			return true
		})
		c.Check(found, rule, f.Name+"#has-body", f.Decl.Pos(), "request body present iff endpoint.Body.Type != expr.Empty", "the builder no longer decides 'has a request body' by comparing Body.Type with expr.Empty")
	}
}

func selName(e ast.Expr) ast.Expr {
	if se, ok := an.Unparen(e).(*ast.SelectorExpr); ok {
		return se.Sel
	}
	return e
}

func r076Summary(c *an.Ctx) {
	const rule = "R07.6"
	n := 0
	for _, dir := range []string{"http/codegen/openapi", "http/codegen/openapi/v2", "http/codegen/openapi/v3"} {
		for _, f := range c.AllFuncs(dir) {
			for _, mr := range an.MapRanges(f, nil) {
				n++
				if mr.Class != "order-sensitive" {
					continue
				}
				for _, key := range c.SiteKeys(f, mr.Stmt.X) {
					if allowed, reviewed := reviewedMapRanges[key]; reviewed {
						extra := 0
						for _, r := range mr.Reasons {
							ok := false
							for _, a := range allowed {
								if a == r {
									ok = true
								}
							}
							if !ok {
								extra++
							}
						}
						if extra == 0 {
							continue
						}
					}
					c.Failf(rule, strings.Replace(key, "#", "#range(", 1)+")", mr.Stmt.Pos(), "the document content depends on map iteration order: %s", mr.Reason)
				}
			}
		}
	}
	c.Okf(rule, "openapi#map-ranges", "%d range-over-map sites classified", n)
}

func r077AbsoluteAndMemo(c *an.Ctx) {
	const rule = "R07.7"
	if f := c.MustFunc(rule, "http/codegen/openapi/v2", "hasAbsoluteRoutes"); f != nil {
		perRoute := len(callsIn(f, "(*"+an.P("expr")+".RouteExpr).IsAbsolute")) > 0
		all := len(callsIn(f, "(*"+an.P("expr")+".HTTPEndpointExpr).HasAbsoluteRoutes")) > 0
		c.Check(perRoute && !all, rule, f.Name, f.Decl.Pos(), "the base path is dropped as soon as ANY route is absolute (each route is asked)",
			"the decision no longer asks each route (RouteExpr.IsAbsolute): HTTPEndpointExpr.HasAbsoluteRoutes means ALL routes absolute, so mixed endpoints keep a base path the server does not use")
	}
	n := 0
	for _, dir := range []string{"http/codegen/openapi", "http/codegen/openapi/v2", "http/codegen/openapi/v3", "http/codegen"} {
		for _, f := range c.AllFuncs(dir) {
			n++
			for _, m := range an.MemoKeyMismatches(f) {
				c.Failf(rule, fmt.Sprintf("%s#memo(%s)", f.Name, m.Map.Name()), m.Store.Pos(), "set %s is tested under key %s but filled under key %s", m.Map.Name(), types.ExprString(m.Lookup), types.ExprString(m.Store))
			}
			for _, sf := range an.StaleFlags(f) {
				c.Failf(rule, fmt.Sprintf("%s#flag(%s)", f.Name, sf.Var.Name()), sf.Set.Pos(), "stale search flag %s (set in an inner loop, tested at %s, never reset)", sf.Var.Name(), c.Position(sf.Read.Pos()))
			}
		}
	}
	c.Okf(rule, "http/codegen#memo-and-flags", "%d functions: seen-sets keyed consistently, no stale search flag", n)
}

// r078RequiredKeys: `if X.IsRequired(k) { Y.AddRequired(k') }` must use the
// same key expression.
func r078RequiredKeys(c *an.Ctx, rule string, dirs []string) {
	n := 0
	for _, dir := range dirs {
		for _, f := range c.AllFuncs(dir) {
			info := f.Pkg.TypesInfo
			ast.Inspect(f.Decl.Body, func(nd ast.Node) bool {
				is, ok := nd.(*ast.IfStmt)
				if !ok {
					return true
				}
				var key ast.Expr
				for _, call := range an.CallsIn(is.Cond) {
					if se, ok := an.Unparen(call.Fun).(*ast.SelectorExpr); ok && (se.Sel.Name == "IsRequired" || se.Sel.Name == "IsRequiredNoDefault") && len(call.Args) == 1 {
						key = call.Args[0]
					}
				}
				if key == nil {
					return true
				}
				for _, call := range an.CallsIn(is.Body) {
					se, ok := an.Unparen(call.Fun).(*ast.SelectorExpr)
					if !ok || se.Sel.Name != "AddRequired" || len(call.Args) != 1 {
						continue
					}
					n++
					construct := fmt.Sprintf("%s#required(%s)", f.Name, types.ExprString(key))
					if an.SameExpr(info, key, call.Args[0]) {
						c.Okf(rule, construct, "required flag looked up and propagated under the same key")
					} else {
						c.Failf(rule, construct, call.Pos(), "the required flag is looked up under %s but propagated under %s: for name-mapped attributes (attr:wire) the lookup misses and the parameter silently becomes optional", types.ExprString(key), types.ExprString(call.Args[0]))
					}
				}
				return true
			})
		}
	}
	c.Floor(rule, n, 1, "required-flag propagation sites")
}

// r079ScopeLists (R07.9): an OpenAPI security requirement maps each scheme to
// the list of scopes it requires; the list must be an array, possibly empty. A
// nil Go slice is rendered `null` by encoding/json (an invalid document) and
// `[]` by the YAML encoder (so the two renderings differ). In the v2 and v3
// builders every value stored into a map[string][]string is therefore a fresh
// slice (make / literal) or a slice assigned under a dominating len(x) > 0 test
// of that very slice.
func r079ScopeLists(c *an.Ctx) {
	const rule = "R07.9"
	n := 0
	for _, dir := range []string{"http/codegen/openapi/v2", "http/codegen/openapi/v3"} {
		for _, f := range c.AllFuncs(dir) {
			info := f.Pkg.TypesInfo
			// nonNil: expression is a fresh slice, or a field/var guarded by len(e) > 0
			var g *an.CFG
			guarded := func(at ast.Node, e ast.Expr) bool {
				if g == nil {
					g = an.NewCFG(info, f.Decl.Body)
				}
				loc, found := g.LocOf(at)
				if !found {
					return false
				}
				for _, fct := range g.AtomicFacts(loc) {
					if an.NonEmptyFact(info, fct, e) {
						return true
					}
				}
				return false
			}
			fresh := func(e ast.Expr) bool {
				switch x := an.Unparen(e).(type) {
				case *ast.CompositeLit:
					return true
				case *ast.CallExpr:
					if id, ok := x.Fun.(*ast.Ident); ok && id.Name == "make" {
						return true
					}
				}
				return false
			}
			var nonNil func(at ast.Node, e ast.Expr, depth int) bool
			nonNil = func(at ast.Node, e ast.Expr, depth int) bool {
				if fresh(e) || guarded(at, e) {
					return true
				}
				id, ok := an.Unparen(e).(*ast.Ident)
				if !ok || depth > 2 {
					return false
				}
				o := info.Uses[id]
				defs := 0
				all := true
				ast.Inspect(f.Decl.Body, func(nd ast.Node) bool {
					as, ok := nd.(*ast.AssignStmt)
					if !ok || len(as.Lhs) != len(as.Rhs) {
						return true
					}
					for i, l := range as.Lhs {
						if an.ObjOf(info, l) == o && o != nil {
							defs++
							if !nonNil(as, as.Rhs[i], depth+1) {
								all = false
							}
						}
					}
					return true
				})
				return defs > 0 && all
			}
			ast.Inspect(f.Decl.Body, func(nd ast.Node) bool {
				as, ok := nd.(*ast.AssignStmt)
				if !ok || len(as.Lhs) != 1 || len(as.Rhs) != 1 {
					return true
				}
				ix, ok := as.Lhs[0].(*ast.IndexExpr)
				if !ok {
					return true
				}
				t := info.TypeOf(ix.X)
				if t == nil || t.Underlying().String() != "map[string][]string" {
					return true
				}
				n++
				c.Check(nonNil(as, as.Rhs[0], 0), rule, fmt.Sprintf("%s#%s", f.Name, an.Src(c.Fset, as)), as.Pos(), "the scope list stored is never nil", "the scope list stored into the security requirement can be a nil slice ("+an.Src(c.Fset, as.Rhs[0])+" is not a fresh slice and not guarded by a len() > 0 test): it is rendered null in openapi.json and [] in openapi.yaml")
				return true
			})
		}
	}
	c.Floor(rule, n, 3, "scope lists stored into security requirements")
}

// r0710PathKeys (R07.10): goa writes wildcards as /{*name}; OpenAPI has no such syntax, so every path key of either
// document is the request path with each wildcard rewritten to /{name} (HTTPWildcardRegex.ReplaceAllString(key,
// "/{$1}")). Endpoints and file servers, OpenAPI 2 and 3 are four sibling sites that must agree: at each store into
// the paths table the key was assigned from that rewrite on every path to the store (CFG dominance).
func r0710PathKeys(c *an.Ctx, rule string) {
	sites := 0
	for _, dir := range []string{"http/codegen/openapi/v2", "http/codegen/openapi/v3"} {
		for _, f := range c.AllFuncs(dir) {
			info := f.Pkg.TypesInfo
			var g *an.CFG
			ast.Inspect(f.Decl.Body, func(n ast.Node) bool {
				as, ok := n.(*ast.AssignStmt)
				if !ok {
					return true
				}
				for _, l := range as.Lhs {
					ix, ok := an.Unparen(l).(*ast.IndexExpr)
					if !ok {
						continue
					}
					tv, ok := info.Types[ix.X]
					if !ok {
						continue
					}
					mt, ok := tv.Type.Underlying().(*types.Map)
					if !ok {
						continue
					}
					// the paths table: map[string]*PathItem (v3) or the Paths field of the v2 document
					isPaths := strings.HasSuffix(mt.Elem().String(), ".PathItem")
					if se, ok := an.Unparen(ix.X).(*ast.SelectorExpr); ok && se.Sel.Name == "Paths" {
						isPaths = true
					}
					if !isPaths {
						continue
					}
					sites++
					construct := fmt.Sprintf("%s#store(%s)", c.RefName(f), types.ExprString(ix.X))
					// the innermost loop around the store tells endpoints and file servers apart
					var inner *ast.RangeStmt
					ast.Inspect(f.Decl.Body, func(m ast.Node) bool {
						if r, ok := m.(*ast.RangeStmt); ok && r.Pos() <= as.Pos() && as.End() <= r.End() {
							inner = r
						}
						return true
					})
					if inner != nil {
						construct += "@range(" + an.CanonExpr(info, f.Decl, inner.X, nil) + ")"
					}
					kid, ok := an.Unparen(ix.Index).(*ast.Ident)
					if !ok {
						c.Undecidedf(rule, construct, as.Pos(), "the path key %s is not a variable", types.ExprString(ix.Index))
						continue
					}
					ko := an.ObjOf(info, kid)
					// entries copied from another table under their own key (the x- extensions of a service) are not
					// path items built from a request path
					copied := false
					ast.Inspect(f.Decl.Body, func(m ast.Node) bool {
						if r, ok := m.(*ast.RangeStmt); ok && r.Key != nil && an.ObjOf(info, r.Key) == ko {
							if _, isMap := info.Types[r.X].Type.Underlying().(*types.Map); isMap {
								copied = true
							}
						}
						return true
					})
					if copied {
						sites--
						continue
					}
					if g == nil {
						g = an.NewCFG(info, f.Decl.Body)
					}
					rewritten := keyRewrittenAt(c, f, g, kid, as, 0)
					if rewritten {
						c.Okf(rule, construct, "the key is the request path with wildcards rewritten to {name}")
					} else {
						c.Failf(rule, construct, as.Pos(), "the path item is stored under %s, which is not the result of HTTPWildcardRegex.ReplaceAllString on every path to the store: a request path with a wildcard keeps goa's /{*name} syntax in the document, which OpenAPI does not know (its sibling builders rewrite it to /{name})", kid.Name)
					}
				}
				return true
			})
		}
	}
	c.Floor(rule, sites, 4, "stores into the paths table of the OpenAPI documents")
}

// keyRewrittenAt reports whether the variable key holds, at statement at of f, a request path whose wildcards were
// rewritten: an assignment key = HTTPWildcardRegex.ReplaceAllString(…) dominates at, or - when f is a helper
// introduced since the reference tree and key is one of its parameters - every caller passes such a variable.
func keyRewrittenAt(c *an.Ctx, f *an.Func, g *an.CFG, kid *ast.Ident, at ast.Node, depth int) bool {
	info := f.Pkg.TypesInfo
	ko := an.ObjOf(info, kid)
	if g == nil {
		g = an.NewCFG(info, f.Decl.Body)
	}
	atLoc, okS := g.LocOf(at)
	rewritten := false
	ast.Inspect(f.Decl.Body, func(m ast.Node) bool {
		a2, ok := m.(*ast.AssignStmt)
		if !ok || len(a2.Lhs) != 1 || len(a2.Rhs) != 1 {
			return true
		}
		id, ok := a2.Lhs[0].(*ast.Ident)
		if !ok || an.ObjOf(info, id) != ko {
			return true
		}
		call, ok := an.Unparen(a2.Rhs[0]).(*ast.CallExpr)
		if !ok || !strings.HasSuffix(an.CalleeName(info, call), "Regexp).ReplaceAllString") {
			return true
		}
		se, ok := an.Unparen(call.Fun).(*ast.SelectorExpr)
		if !ok {
			return true
		}
		if v, _ := an.ObjOf(info, selName(se.X)).(*types.Var); v == nil || an.CanonGlobalName(v) != "HTTPWildcardRegex" {
			return true
		}
		if loc, ok := g.LocOf(a2); ok && okS && g.LocDominates(loc, atLoc) {
			rewritten = true
		}
		return true
	})
	if rewritten || depth >= 2 || !c.IsNewFunc(f) {
		return rewritten
	}
	pi := paramIndex(f, kid)
	if pi < 0 {
		return false
	}
	callers := c.CallersOf(f)
	if len(callers) == 0 {
		return false
	}
	for _, cs := range callers {
		if pi >= len(cs.Call.Args) {
			return false
		}
		aid, ok := an.Unparen(cs.Call.Args[pi]).(*ast.Ident)
		if !ok || !keyRewrittenAt(c, cs.In, nil, aid, cs.Call, depth+1) {
			return false
		}
	}
	return true
}

// r0711ParamSchemas (R07.11): an OpenAPI 3 parameter object must have exactly one of schema and content. Every
// Parameter literal of the OpenAPI 3 builder sets one of them.
func r0711ParamSchemas(c *an.Ctx, rule string) {
	sites := 0
	for _, f := range c.AllFuncs("http/codegen/openapi/v3") {
		for _, cl := range compositeLits(f, an.P("http/codegen/openapi/v3")+".Parameter") {
			fields := litFields(cl)
			if len(fields) == 0 {
				continue // zero value or positional: not a parameter being described
			}
			sites++
			name := "?"
			if e, ok := fields["Name"]; ok {
				name = types.ExprString(e)
			}
			construct := fmt.Sprintf("%s#Parameter(%s)", c.RefName(f), name)
			_, hasSchema := fields["Schema"]
			_, hasContent := fields["Content"]
			if hasSchema != hasContent {
				c.Okf(rule, construct, "the parameter object carries a schema (or a content)")
			} else {
				c.Failf(rule, construct, cl.Pos(), "the OpenAPI 3 parameter object is built without schema and without content (or with both): the specification requires exactly one, validators reject the document")
			}
		}
	}
	c.Floor(rule, sites, 2, "Parameter literals of the OpenAPI 3 builder")
}
