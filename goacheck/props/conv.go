package props

import (
	"fmt"
	"regexp"
	"sort"
	"strings"
	"text/template/parse"

	"goacheck/an"
)

// String<->typed conversion templates (R02.3 / R10.6): every branch of an
// `if eq X.Name "T" ... else if ...` chain that converts with strconv must use
// the function family, bit size and cast that belong to T.

type convBranch struct {
	typ   string
	text  string
	chain string
}

// typeNameBranches returns the (type literal, branch text) pairs of every
// if/else-if chain whose conditions are `eq <field chain ending in .Name> "lit"`.
func typeNameBranches(t *an.Tpl) []convBranch {
	var out []convBranch
	var visitIf func(n *parse.IfNode)
	litOf := func(p *parse.PipeNode) (string, string, bool) {
		if p == nil || len(p.Cmds) != 1 {
			return "", "", false
		}
		cmd := p.Cmds[0]
		if len(cmd.Args) != 3 {
			return "", "", false
		}
		id, ok := cmd.Args[0].(*parse.IdentifierNode)
		if !ok || id.Ident != "eq" {
			return "", "", false
		}
		s, ok := cmd.Args[2].(*parse.StringNode)
		if !ok {
			return "", "", false
		}
		chain := cmd.Args[1].String()
		if !strings.HasSuffix(chain, ".Name") {
			return "", "", false
		}
		return chain, s.Text, true
	}
	visitIf = func(n *parse.IfNode) {
		if chain, lit, ok := litOf(n.Pipe); ok {
			out = append(out, convBranch{typ: lit, text: branchText(n.List), chain: chain})
		}
		if n.ElseList != nil && len(n.ElseList.Nodes) == 1 {
			if e, ok := n.ElseList.Nodes[0].(*parse.IfNode); ok {
				visitIf(e)
				return
			}
		}
	}
	seen := map[*parse.IfNode]bool{}
	for _, tree := range t.All {
		an.WalkTpl(tree.Root, func(x parse.Node) bool {
			if in, ok := x.(*parse.IfNode); ok && !seen[in] {
				// mark the whole else-if chain as seen
				for e := in; e != nil; {
					seen[e] = true
					if e.ElseList != nil && len(e.ElseList.Nodes) == 1 {
						if nx, ok := e.ElseList.Nodes[0].(*parse.IfNode); ok {
							e = nx
							continue
						}
					}
					break
				}
				visitIf(in)
			}
			return true
		})
	}
	return out
}

// branchText renders the text of a branch, with actions replaced by `§`.
func branchText(l *parse.ListNode) string {
	var b strings.Builder
	var walk func(n parse.Node)
	walk = func(n parse.Node) {
		switch x := n.(type) {
		case *parse.ListNode:
			if x == nil {
				return
			}
			for _, c := range x.Nodes {
				walk(c)
			}
		case *parse.TextNode:
			b.Write(x.Text)
		case *parse.ActionNode:
			b.WriteString("§")
		case *parse.IfNode:
			// nested conditionals (pointer/alias variants) belong to the same type branch,
			// unless they dispatch on a type name themselves
			if _, _, isType := func() (string, string, bool) {
				if x.Pipe == nil || len(x.Pipe.Cmds) != 1 || len(x.Pipe.Cmds[0].Args) != 3 {
					return "", "", false
				}
				s, ok := x.Pipe.Cmds[0].Args[2].(*parse.StringNode)
				if !ok || !strings.HasSuffix(x.Pipe.Cmds[0].Args[1].String(), ".Name") {
					return "", "", false
				}
				return "", s.Text, true
			}(); isType {
				return
			}
			walk(x.List)
			if x.ElseList != nil {
				walk(x.ElseList)
			}
		case *parse.WithNode:
			walk(x.List)
		case *parse.RangeNode:
			walk(x.List)
		}
	}
	walk(l)
	return b.String()
}

var (
	reStrconv = regexp.MustCompile(`strconv\.(ParseInt|ParseUint|ParseFloat|ParseBool|FormatInt|FormatUint|FormatFloat|FormatBool|Itoa|Atoi)\(([^\n]*)`)
	reCastV   = regexp.MustCompile(`\b(u?int(?:32|64)?|float(?:32|64))\((v|\*?[a-z]+)\)`)
)

type convSpec struct {
	parse, format []string // accepted strconv functions
	bits          string   // bit-size argument ("" = none)
	cast          string   // cast applied to the parsed value ("" = none needed)
}

var convTable = map[string]convSpec{
	"int":     {[]string{"ParseInt", "Atoi"}, []string{"Itoa", "FormatInt"}, "strconv.IntSize", "int"},
	"int32":   {[]string{"ParseInt"}, []string{"FormatInt"}, "32", "int32"},
	"int64":   {[]string{"ParseInt"}, []string{"FormatInt"}, "64", ""},
	"uint":    {[]string{"ParseUint"}, []string{"FormatUint"}, "strconv.IntSize", "uint"},
	"uint32":  {[]string{"ParseUint"}, []string{"FormatUint"}, "32", "uint32"},
	"uint64":  {[]string{"ParseUint"}, []string{"FormatUint"}, "64", ""},
	"float32": {[]string{"ParseFloat"}, []string{"FormatFloat"}, "32", "float32"},
	"float64": {[]string{"ParseFloat"}, []string{"FormatFloat"}, "64", ""},
	"boolean": {[]string{"ParseBool"}, []string{"FormatBool"}, "", ""},
}

func inList(s string, l []string) bool {
	for _, x := range l {
		if x == s {
			return true
		}
	}
	return false
}

// convTemplateRule checks one template file; it returns the number of
// conversion branches checked.
func convTemplateRule(c *an.Ctx, rule, file string) int {
	t, err := c.TplFile(file)
	if err != nil {
		c.Add(an.Obligation{Rule: rule, Construct: file, Status: an.LOST, Detail: err.Error()})
		return 0
	}
	n := 0
	perType := map[string][]string{}
	seenTypes := map[string]bool{}
	for _, br := range typeNameBranches(t) {
		spec, known := convTable[br.typ]
		if !known {
			continue
		}
		calls := reStrconv.FindAllStringSubmatch(br.text, -1)
		if len(calls) == 0 {
			continue
		}
		seenTypes[br.typ] = true
		for _, m := range calls {
			n++
			fn, args := m[1], m[2]
			isParse := strings.HasPrefix(fn, "Parse") || fn == "Atoi"
			if isParse && !inList(fn, spec.parse) || !isParse && !inList(fn, spec.format) {
				perType[br.typ] = append(perType[br.typ], fmt.Sprintf("uses strconv.%s", fn))
				continue
			}
			if spec.bits != "" && fn != "Itoa" && fn != "Atoi" && !strings.HasPrefix(fn, "FormatInt") && !strings.HasPrefix(fn, "FormatUint") {
				// bit size is the last argument of ParseInt/ParseUint/ParseFloat/FormatFloat
				// cut at the parenthesis closing the strconv call, split its top-level arguments
				depth, end := 0, len(args)
				var parts []string
				start := 0
				for i := 0; i < len(args); i++ {
					switch args[i] {
					case '(':
						depth++
					case ')':
						if depth == 0 {
							end = i
							i = len(args)
							continue
						}
						depth--
					case ',':
						if depth == 0 {
							parts = append(parts, args[start:i])
							start = i + 1
						}
					}
				}
				parts = append(parts, args[start:end])
				last := strings.TrimSpace(parts[len(parts)-1])
				if last != spec.bits {
					perType[br.typ] = append(perType[br.typ], fmt.Sprintf("strconv.%s is given bit size %s, expected %s", fn, last, spec.bits))
				}
			}
		}
		if spec.cast != "" {
			for _, m := range reCastV.FindAllStringSubmatch(br.text, -1) {
				// casts applied to the parsed value v
				if m[2] != "v" {
					continue
				}
				if m[1] != spec.cast {
					perType[br.typ] = append(perType[br.typ], fmt.Sprintf("the parsed value is cast with %s(v), expected %s(v)", m[1], spec.cast))
				}
			}
		}
	}
	var types []string
	for ty := range seenTypes {
		types = append(types, ty)
	}
	sort.Strings(types)
	for _, ty := range types {
		construct := file + "#" + ty
		if probs := dedupStrings(perType[ty]); len(probs) > 0 {
			c.Failf(rule, construct, 0, "conversion of %s: %s — the value changes (or the generated code does not compile) when it crosses the wire as a string", ty, strings.Join(probs, "; "))
		} else {
			c.Okf(rule, construct, "strconv family, bit size and cast belong to %s", ty)
		}
	}
	return n
}
