package props

import (
	"fmt"
	"go/ast"
	"go/token"
	"go/types"
	"sort"
	"strings"

	"goacheck/an"
)

func init() { Registry["C12"] = runC12 }

const explanationC12 = "Decides the crash and acceptance shapes named by C12's anchors over every function of package dsl and the validators of package expr: (R12.1) every type assertion in dsl on the evaluation context, on `any` arguments or on data types is comma-ok, a type-switch arm, or dominated by a successful test of the same value; (R12.2) every constant index or slice of a variadic DSL argument list is covered by a dominating bound on its length; (R12.3) results of nil-returning lookups (Find, Attribute, View, Error, Service, UserType, …, computed as pointer/interface-returning functions of expr with an explicit `return nil`) are not dereferenced in dsl or in expr's Validate/Prepare code without a dominating nil test, and pointer variables that a function compares with nil are not dereferenced where no such test dominates; (R12.4) validators are wired and complete — unexported validate* helpers are called with their result consumed, validation results are never dropped, validation loops that record errors have no early exit, search flags set in an inner loop are reset in the enclosing loop (no stale found flag), and self-recursive walkers pass their recursion guard through every recursive call; (R12.5) the validator looks API keys up under the scheme-qualified tag the consumers use; (R12.6) it validates the requirements the finalizer will hand to the generators. shared R06.3 (requirement inheritance in MethodExpr.Finalize: method, else service, else API). (R12.8) package dsl re-exports the names of package expr under their own names. (R12.9) the parallel slices of ValidationErrors (Errors/Expressions) grow together on every path, so every reported error keeps its expression; (R12.10) the type-switch arms that check transport mappings against the payload (Payload.Find) cover the payload given as an object and as a user type alike. NOT decided: termination and absence of all panics for all DSL programs (whole-program nil/bounds proof), semantic completeness of the validators."

func runC12(c *an.Ctx) string {
	r121Assertions(c)
	r122Variadic(c)
	r123Lookups(c)
	r124Validators(c)
	r1210PayloadLookups(c, "R12.10")
	pairedStoresRule(c, "R12.9", "verrs") // every reported error keeps its location: the two parallel slices grow together
	r067InheritanceAgreement(c, "R12.6") // the validator checks the requirements the generators will use
	r06SchemeKeyed(c, "R12.5")           // validator and consumers look API keys up under the same scheme-qualified key
	r127LinkRecursion(c)
	r063Inheritance(c) // shared with C06 (rule id R06.3): the finalizer must inherit the requirements the validator checked, or Finalize works on schemes the payload was never validated for
	dslReexports(c, "R12.8")
	return explanationC12
}

// reviewedIndexes: constant indexes whose bound follows from reasoning the
// length dataflow cannot do.
var reviewedIndexes = map[string]string{
	"dsl.ErrorName#args[1]":  "args is non-empty and a closure was appended or found last, so an int first argument implies at least two elements",
	"dsl.ErrorName#args[2:]": "same as args[1]; moreover len(args)==2 returned just above",
}

func r121Assertions(c *an.Ctx) {
	const rule = "R12.1"
	n, guarded := 0, 0
	for _, f := range c.AllFuncs("dsl") {
		info := f.Pkg.TypesInfo
		var g *an.CFG
		// collect assertions that are the X of an assignment with two lhs (comma-ok) or in type switches
		commaOK := map[*ast.TypeAssertExpr]bool{}
		ast.Inspect(f.Decl.Body, func(nd ast.Node) bool {
			switch s := nd.(type) {
			case *ast.AssignStmt:
				if len(s.Lhs) == 2 && len(s.Rhs) == 1 {
					if ta, ok := an.Unparen(s.Rhs[0]).(*ast.TypeAssertExpr); ok {
						commaOK[ta] = true
					}
				}
			case *ast.ValueSpec:
				if len(s.Names) == 2 && len(s.Values) == 1 {
					if ta, ok := an.Unparen(s.Values[0]).(*ast.TypeAssertExpr); ok {
						commaOK[ta] = true
					}
				}
			}
			return true
		})
		ast.Inspect(f.Decl.Body, func(nd ast.Node) bool {
			ta, ok := nd.(*ast.TypeAssertExpr)
			if !ok || ta.Type == nil {
				return true // x.(type) of a type switch
			}
			n++
			if commaOK[ta] {
				return true
			}
			// single-value assertion: must be dominated by a successful comma-ok test or type-switch arm of the same operand and type
			if g == nil {
				g = an.NewCFG(info, f.Decl.Body)
			}
			construct := fmt.Sprintf("%s#%s", f.Name, types.ExprString(ta))
			loc, found := g.LocOf(ta)
			ok2 := false
			if found {
				ok2 = assertionGuarded(g, info, ta, loc)
			}
			if !ok2 {
				// inside a type switch clause on the same operand
				ok2 = inTypeSwitchArm(f.Decl.Body, info, ta)
			}
			witness := ""
			if !ok2 && found {
				// path-sensitive proof over the comma-ok tests of the same operand
				ok2, witness = g.AssertionProved(ta)
			}
			_ = witness
			if ok2 {
				guarded++
				c.Okf(rule, construct, "single-value assertion dominated by a successful test of the same value")
			} else {
				c.Failf(rule, construct, ta.Pos(), "single-value type assertion with no dominating comma-ok test or type-switch arm: a misplaced or ill-typed DSL call panics here instead of reporting an error")
			}
			return true
		})
	}
	c.Stats["dsl_assertions"] = n
	c.Stats["dsl_single_value_assertions_guarded"] = guarded
	c.Floor(rule, n, 100, "type assertions in package dsl")
}

// assertionGuarded: some dominating fact is `_, ok := X.(T)` success, i.e. a
// variable ok assigned from a comma-ok assertion of the same operand and type
// is known true at loc.
func assertionGuarded(g *an.CFG, info *types.Info, ta *ast.TypeAssertExpr, loc an.Loc) bool {
	wantT := info.Types[ta.Type].Type
	okVars := map[types.Object]bool{}
	ast.Inspect(g.Body, func(nd ast.Node) bool {
		as, ok := nd.(*ast.AssignStmt)
		if !ok || len(as.Lhs) != 2 || len(as.Rhs) != 1 {
			return true
		}
		ta2, ok := an.Unparen(as.Rhs[0]).(*ast.TypeAssertExpr)
		if !ok || ta2.Type == nil {
			return true
		}
		if !an.SameExpr(info, ta2.X, ta.X) || !types.Identical(info.Types[ta2.Type].Type, wantT) {
			return true
		}
		if o := an.ObjOf(info, as.Lhs[1]); o != nil {
			okVars[o] = true
		}
		return true
	})
	if len(okVars) == 0 {
		return false
	}
	facts, _ := g.FactsFor(ta) // dominating branch facts (conjuncts) and short-circuit facts around the assertion
	for _, f := range facts {
		e := an.Unparen(f.Cond)
		holds := f.Holds
		for {
			u, isNot := e.(*ast.UnaryExpr)
			if !isNot || u.Op != token.NOT {
				break
			}
			e = an.Unparen(u.X)
			holds = !holds
		}
		if o := an.ObjOf(info, e); o != nil && okVars[o] && holds {
			return true
		}
	}
	return false
}

func inTypeSwitchArm(body *ast.BlockStmt, info *types.Info, ta *ast.TypeAssertExpr) bool {
	wantT := info.Types[ta.Type].Type
	found := false
	ast.Inspect(body, func(nd ast.Node) bool {
		ts, ok := nd.(*ast.TypeSwitchStmt)
		if !ok {
			return true
		}
		var operand ast.Expr
		switch a := ts.Assign.(type) {
		case *ast.AssignStmt:
			operand = a.Rhs[0].(*ast.TypeAssertExpr).X
		case *ast.ExprStmt:
			operand = a.X.(*ast.TypeAssertExpr).X
		}
		if operand == nil || !an.SameExpr(info, operand, ta.X) {
			return true
		}
		for _, s := range ts.Body.List {
			cc := s.(*ast.CaseClause)
			if !(cc.Pos() <= ta.Pos() && ta.End() <= cc.End()) {
				continue
			}
			for _, e := range cc.List {
				if tv, ok := info.Types[e]; ok && types.Identical(tv.Type, wantT) && len(cc.List) == 1 {
					found = true
				}
			}
		}
		return true
	})
	return found
}

func r122Variadic(c *an.Ctx) {
	const rule = "R12.2"
	n := 0
	for _, f := range c.AllFuncs("dsl") {
		sig := f.Obj.Type().(*types.Signature)
		if !sig.Variadic() {
			continue
		}
		v := sig.Params().At(sig.Params().Len() - 1)
		needs := an.ConstIndexNeeds(f.Pkg.TypesInfo, f.Decl.Body, v)
		if len(needs) == 0 {
			continue
		}
		g := an.NewCFG(f.Pkg.TypesInfo, f.Decl.Body)
		for _, nd := range needs {
			n++
			construct := fmt.Sprintf("%s#%s", f.Name, nd.What)
			lb, ok := g.LenLowerBoundAt(v, nd.Expr)
			if !ok {
				lb = 0
				// inside a function literal: facts established inside the literal, plus the
				// bound at the point where the literal is created when the list is never reassigned
				var lit *ast.FuncLit
				for _, fl := range an.FuncLits(f.Decl.Body) {
					if fl.Pos() <= nd.Expr.Pos() && nd.Expr.End() <= fl.End() {
						if lit == nil || fl.Pos() >= lit.Pos() {
							lit = fl
						}
					}
				}
				if lit == nil {
					c.Undecidedf(rule, construct, nd.Expr.Pos(), "cannot locate the index expression")
					continue
				}
				lg := an.NewCFG(f.Pkg.TypesInfo, lit.Body)
				if b2, ok2 := lg.LenLowerBoundAt(v, nd.Expr); ok2 {
					lb = b2
				}
				reassigned := false
				ast.Inspect(f.Decl.Body, func(x ast.Node) bool {
					if as, isAs := x.(*ast.AssignStmt); isAs {
						for _, l := range as.Lhs {
							if an.ObjOf(f.Pkg.TypesInfo, l) == v {
								reassigned = true
							}
						}
					}
					return true
				})
				if !reassigned {
					if l3, ok3 := g.LocOf(lit); ok3 {
						if b := g.LenLowerBound(v, l3); b > lb && b < 1<<20 {
							lb = b
						}
					}
				}
			}
			if why, ok := reviewedIndexes[construct]; ok && lb < nd.Need {
				c.Okf(rule, construct, "reviewed: %s", why)
				continue
			}
			if lb >= nd.Need {
				c.Okf(rule, construct, "needs len(%s) >= %d; dominating tests give >= %d", v.Name(), nd.Need, lb)
			} else {
				c.Failf(rule, construct, nd.Expr.Pos(), "%s needs len(%s) >= %d but the dominating tests only give >= %d: calling %s with fewer arguments panics", nd.What, v.Name(), nd.Need, lb, f.Obj.Name())
			}
		}
	}
	c.Floor(rule, n, 20, "constant index/slice sites on variadic DSL arguments")
}

// nilReturningFinders computes the pointer/interface-returning functions of
// package expr that contain an explicit `return nil`.
func nilReturningFinders(c *an.Ctx) map[types.Object]string {
	out := map[types.Object]string{}
	for _, f := range c.AllFuncs("expr") {
		sig := f.Obj.Type().(*types.Signature)
		if sig.Results().Len() != 1 {
			continue
		}
		switch sig.Results().At(0).Type().Underlying().(type) {
		case *types.Pointer, *types.Interface:
		default:
			continue
		}
		if isErrorResult(sig) {
			continue
		}
		hasNil := false
		ast.Inspect(f.Decl.Body, func(n ast.Node) bool {
			if _, isLit := n.(*ast.FuncLit); isLit {
				return false
			}
			if rs, ok := n.(*ast.ReturnStmt); ok && len(rs.Results) == 1 && an.IsNilIdent(f.Pkg.TypesInfo, rs.Results[0]) {
				hasNil = true
			}
			return true
		})
		base := f.Obj.Name()
		if strings.HasPrefix(base, "As") && len(base) > 2 && sig.Recv() == nil {
			continue // AsObject/AsArray/AsMap/AsUnion: conversions guarded by the matching Is* predicate at their call sites
		}
		if hasNil {
			out[f.Obj] = f.Name
		}
	}
	return out
}

func isErrorResult(sig *types.Signature) bool {
	t := sig.Results().At(0).Type()
	if types.Identical(t, types.Universe.Lookup("error").Type()) {
		return true
	}
	return strings.HasSuffix(an.NamedTypeName(t), "eval.ValidationErrors")
}

// reviewedDerefs: lookup results dereferenced without a test, read one by one.
var reviewedDerefs = map[string]string{}

func r123Lookups(c *an.Ctx) {
	const rule = "R12.3"
	finders := nilReturningFinders(c)
	c.Stats["nil_returning_finders"] = len(finders)
	scope := c.AllFuncs("dsl")
	for _, f := range c.AllFuncs("expr") {
		base := f.Name[strings.LastIndex(f.Name, ".")+1:]
		if base == "Validate" || base == "Prepare" || strings.HasPrefix(base, "validate") || strings.HasPrefix(base, "Validate") {
			scope = append(scope, f)
		}
	}
	nCalls, nVars := 0, 0
	for _, f := range scope {
		info := f.Pkg.TypesInfo
		var g *an.CFG
		cfgOf := func() *an.CFG {
			if g == nil {
				g = an.NewCFG(info, f.Decl.Body)
			}
			return g
		}
		// (b) immediate dereference of a finder result, and variables assigned from finders
		finderVars := map[types.Object]string{}
		ast.Inspect(f.Decl.Body, func(nd ast.Node) bool {
			switch x := nd.(type) {
			case *ast.SelectorExpr:
				call, ok := an.Unparen(x.X).(*ast.CallExpr)
				if !ok {
					return true
				}
				name, isFinder := finders[an.Callee(info, call)]
				if !isFinder {
					return true
				}
				// method value/call on the result dereferences it only if it selects a field or a method through an embedded pointer
				if sel, ok := info.Selections[x]; ok && (sel.Kind() == types.FieldVal || sel.Indirect() || len(sel.Index()) > 1) {
					nCalls++
					construct := fmt.Sprintf("%s#%s", f.Name, types.ExprString(x))
					if _, ok := reviewedDerefs[construct]; ok {
						c.Okf(rule, construct, "reviewed")
						return true
					}
					c.Failf(rule, construct, x.Pos(), "the result of %s (which can be nil) is dereferenced immediately: a dangling name crashes evaluation instead of producing an error", name)
				}
			case *ast.AssignStmt:
				if len(x.Rhs) != 1 {
					return true
				}
				call, ok := an.Unparen(x.Rhs[0]).(*ast.CallExpr)
				if !ok {
					return true
				}
				if name, isFinder := finders[an.Callee(info, call)]; isFinder && len(x.Lhs) == 1 {
					if o := an.ObjOf(info, x.Lhs[0]); o != nil {
						finderVars[o] = name
					}
				}
			}
			return true
		})
		// (a/e) variables compared with nil somewhere, or assigned from a finder: every field dereference needs a dominating non-nil fact
		nilTested := map[types.Object]bool{}
		ast.Inspect(f.Decl.Body, func(nd ast.Node) bool {
			if be, ok := nd.(*ast.BinaryExpr); ok {
				if x, _, ok := an.NilCompare(info, be); ok {
					if o := an.ObjOf(info, x); o != nil {
						if _, isVar := o.(*types.Var); isVar {
							nilTested[o] = true
						}
					}
				}
			}
			return true
		})
		cands := map[types.Object]string{}
		for o, nme := range finderVars {
			cands[o] = "assigned from " + nme
		}
		for o := range nilTested {
			if _, ok := o.Type().Underlying().(*types.Pointer); ok {
				if _, dup := cands[o]; !dup {
					cands[o] = "compared with nil elsewhere in the function"
				}
			}
		}
		if len(cands) == 0 {
			continue
		}
		reported := map[string]bool{}
		ast.Inspect(f.Decl.Body, func(nd ast.Node) bool {
			if _, isLit := nd.(*ast.FuncLit); isLit {
				return false
			}
			se, ok := nd.(*ast.SelectorExpr)
			if !ok {
				return true
			}
			o := an.ObjOf(info, se.X)
			why, isCand := cands[o]
			if !isCand {
				return true
			}
			sel, ok := info.Selections[se]
			if !ok || !(sel.Kind() == types.FieldVal || sel.Indirect() && len(sel.Index()) > 1) {
				return true
			}
			if _, isPtr := o.Type().Underlying().(*types.Pointer); !isPtr {
				return true
			}
			construct := fmt.Sprintf("%s#%s", f.Name, o.Name())
			if reported[construct] {
				return true
			}
			loc, found := cfgOf().LocOf(se)
			if !found {
				return true
			}
			nVars++
			if cfgOf().NonNilAtNode(o, se) || definitelyNonNilDef(cfgOf(), info, o, loc, finders) {
				return true
			}
			if _, ok := reviewedDerefs[construct]; ok {
				return true
			}
			reported[construct] = true
			c.Failf(rule, construct, se.Pos(), "%s (%s) is dereferenced as %s where no nil test dominates", o.Name(), why, types.ExprString(se))
			return true
		})
	}
	c.Stats["finder_immediate_derefs"] = nCalls
	c.Stats["nil_candidate_derefs_checked"] = nVars
	c.Okf(rule, "scope", "%d functions of dsl and expr validators scanned: %d dereferences of nil-candidate variables checked against dominating tests", len(scope), nVars)
	c.Floor(rule, nVars, 40, "dereferences of nil-candidate variables")
}

// definitelyNonNilDef: every assignment of v that can reach loc assigns a
// value that cannot be nil (address of a literal, new, make, a constructor
// call that is not a nil-returning finder), and v is a local (not a parameter).
func definitelyNonNilDef(g *an.CFG, info *types.Info, v types.Object, loc an.Loc, finders map[types.Object]string) bool {
	defs := 0
	ok := true
	for _, b := range g.Live() {
		for i, n := range b.Nodes {
			var rhs ast.Expr
			switch s := n.(type) {
			case *ast.AssignStmt:
				for j, l := range s.Lhs {
					if an.ObjOf(info, l) == v {
						if len(s.Rhs) == len(s.Lhs) {
							rhs = s.Rhs[j]
						} else {
							ok = false // multi-value (comma-ok) assignment: may be nil
							defs++
						}
					}
				}
			case *ast.DeclStmt:
				if gd, isGen := s.Decl.(*ast.GenDecl); isGen {
					for _, sp := range gd.Specs {
						vs, isV := sp.(*ast.ValueSpec)
						if !isV {
							continue
						}
						for j, nm := range vs.Names {
							if info.Defs[nm] == v {
								if j < len(vs.Values) {
									rhs = vs.Values[j]
								} else {
									ok = false // zero value
									defs++
								}
							}
						}
					}
				}
			case *ast.RangeStmt:
				if s.Value != nil && an.ObjOf(info, s.Value) == v || s.Key != nil && an.ObjOf(info, s.Key) == v {
					defs++ // elements of collections are trusted non-nil (documented assumption)
				}
			}
			if rhs == nil {
				continue
			}
			l := an.Loc{Block: b, Idx: i}
			killed := func(x an.Loc) bool {
				if x == l || x.Idx < 0 || x.Idx >= len(x.Block.Nodes) {
					return false
				}
				return an.AssignsTo(info, x.Block.Nodes[x.Idx], v)
			}
			if l != loc && !g.Reaches(l, loc, killed) {
				continue // this definition is overwritten before loc on every path (or cannot reach it)
			}
			defs++
			switch x := an.Unparen(rhs).(type) {
			case *ast.UnaryExpr:
				if x.Op != token.AND {
					ok = false
				}
			case *ast.CallExpr:
				if _, isFinder := finders[an.Callee(info, x)]; isFinder {
					ok = false
				}
				if id, isId := an.Unparen(x.Fun).(*ast.Ident); isId && (id.Name == "new" || id.Name == "make") {
					break
				}
			case *ast.CompositeLit:
			default:
				ok = false
			}
		}
	}
	return ok && defs > 0
}

func r124Validators(c *an.Ctx) {
	const rule = "R12.4"
	// (a) unexported validate* helpers are called and their result consumed; (b) validation results never dropped
	type use struct{ consumed, dropped int }
	uses := map[types.Object]*use{}
	var helpers []*an.Func
	for _, f := range c.AllFuncs("expr") {
		base := f.Name[strings.LastIndex(f.Name, ".")+1:]
		if strings.HasPrefix(base, "validate") {
			helpers = append(helpers, f)
			uses[f.Obj] = &use{}
		}
	}
	returnsVerr := func(o types.Object) bool {
		fn, ok := o.(*types.Func)
		if !ok {
			return false
		}
		sig := fn.Type().(*types.Signature)
		if sig.Results().Len() != 1 {
			return false
		}
		return strings.HasSuffix(an.NamedTypeName(sig.Results().At(0).Type()), "eval.ValidationErrors") ||
			(types.Identical(sig.Results().At(0).Type(), types.Universe.Lookup("error").Type()) && (fn.Name() == "Validate" || strings.HasPrefix(fn.Name(), "validate")))
	}
	var dropped []string
	for _, dir := range []string{"expr", "dsl", "eval"} {
		for _, f := range c.AllFuncs(dir) {
			info := f.Pkg.TypesInfo
			ast.Inspect(f.Decl.Body, func(nd ast.Node) bool {
				switch s := nd.(type) {
				case *ast.ExprStmt:
					if call, ok := an.Unparen(s.X).(*ast.CallExpr); ok {
						o := an.Callee(info, call)
						if o != nil && returnsVerr(o) {
							dropped = append(dropped, fmt.Sprintf("%s drops the result of %s (%s)", f.Name, o.Name(), c.Position(call.Pos())))
							if u := uses[o]; u != nil {
								u.dropped++
							}
						}
					}
				case *ast.CallExpr:
					if o := an.Callee(info, s); o != nil {
						if u := uses[o]; u != nil {
							u.consumed++
						}
					}
				}
				return true
			})
		}
	}
	sort.Strings(dropped)
	c.Check(len(dropped) == 0, rule, "expr#validation-results", 0, "no validation result (ValidationErrors / validate* error) is dropped", strings.Join(dropped, "; "))
	for _, h := range helpers {
		u := uses[h.Obj]
		c.Check(u.consumed-u.dropped > 0, rule, h.Name+"#wired", h.Decl.Pos(), fmt.Sprintf("helper is called %d times with its result consumed", u.consumed-u.dropped), "validation helper is never called with its result consumed: the checks it implements are dead")
	}
	c.Floor(rule, len(helpers), 5, "validate* helpers in expr")

	// (c) validation loops that record errors have no early exit at their own level
	nLoops := 0
	for _, f := range c.AllFuncs("expr") {
		base := f.Name[strings.LastIndex(f.Name, ".")+1:]
		if !(base == "Validate" || strings.HasPrefix(base, "validate") || strings.HasPrefix(base, "Validate")) {
			continue
		}
		info := f.Pkg.TypesInfo
		ast.Inspect(f.Decl.Body, func(nd ast.Node) bool {
			rs, ok := nd.(*ast.RangeStmt)
			if !ok {
				return true
			}
			records := false
			for _, call := range an.CallsIn(rs.Body) {
				name := an.CalleeName(info, call)
				if strings.HasSuffix(name, "eval.ValidationErrors).Add") || strings.HasSuffix(name, "eval.ValidationErrors).Merge") || strings.HasSuffix(name, "eval.ValidationErrors).AddError") {
					records = true
				}
			}
			if !records {
				return true
			}
			nLoops++
			var exits []string
			for _, e := range loopExits(rs.Body) {
				if br, isBr := e.(*ast.BranchStmt); isBr && br.Tok == token.BREAK {
					if breakAfterRecording(info, rs.Body, br) {
						continue // the error was recorded just before leaving: nothing is accepted silently
					}
					exits = append(exits, "break at "+c.Position(e.Pos()))
				}
			}
			construct := fmt.Sprintf("%s#range(%s)", f.Name, types.ExprString(rs.X))
			if len(exits) > 0 {
				c.Failf(rule, construct, rs.Pos(), "a validation loop that records errors can stop early (%s): later elements are never validated", strings.Join(exits, ", "))
			} else {
				c.Okf(rule, construct, "validation loop visits every element")
			}
			return true
		})
	}
	c.Floor(rule, nLoops, 20, "validation loops that record errors")

	// (d) stale search flags, (e) dropped recursion guards
	nFuncs := 0
	for _, dir := range []string{"expr", "dsl", "eval", "codegen", "codegen/service", "http/codegen", "grpc/codegen", "http/codegen/openapi", "http/codegen/openapi/v2", "http/codegen/openapi/v3"} {
		for _, f := range c.AllFuncs(dir) {
			nFuncs++
			for _, sf := range an.StaleFlags(f) {
				construct := fmt.Sprintf("%s#flag(%s)", f.Name, sf.Var.Name())
				c.Failf(rule, construct, sf.Set.Pos(), "search flag %s is set inside an inner loop and tested in the enclosing loop (at %s) but never reset there: once one element matches, every later element is treated as matching", sf.Var.Name(), c.Position(sf.Read.Pos()))
			}
			for _, p := range an.SelfRecursionDrops(f) {
				c.Failf(rule, f.Name+"#recursion-guard", f.Decl.Pos(), "%s: a cyclic type makes the walk recurse without bound", p)
			}
		}
	}
	c.Okf(rule, "flags-and-guards", "%d functions scanned: no stale search flag, every self-recursive walker passes its seen-set through", nFuncs)
}

// breakAfterRecording reports whether the statement right before br in its
// block records a validation error.
func breakAfterRecording(info *types.Info, body *ast.BlockStmt, br *ast.BranchStmt) bool {
	ok := false
	ast.Inspect(body, func(n ast.Node) bool {
		blk, isBlk := n.(*ast.BlockStmt)
		var list []ast.Stmt
		if isBlk {
			list = blk.List
		} else if cc, isCC := n.(*ast.CaseClause); isCC {
			list = cc.Body
		}
		for i, s := range list {
			if s == ast.Stmt(br) && i > 0 {
				if es, isExpr := list[i-1].(*ast.ExprStmt); isExpr {
					if call, isCall := es.X.(*ast.CallExpr); isCall {
						name := an.CalleeName(info, call)
						if strings.Contains(name, "eval.ValidationErrors).Add") || strings.Contains(name, "eval.ValidationErrors).Merge") {
							ok = true
						}
					}
				}
			}
		}
		return true
	})
	return ok
}

// r127LinkRecursion (R12.7): a recursive group of expr functions that steps from an expression to the one it names
// (parent service, canonical endpoint …) must carry a visited set or a visited flag: the DSL lets those names
// form a cycle, and an unguarded recursion then overflows the stack - a fatal error - instead of yielding a
// located validation error.
func r127LinkRecursion(c *an.Ctx) {
	const rule = "R12.7"
	groups, hits := c.LinkRecursions("expr")
	for _, h := range hits {
		var names []string
		for _, f := range h.Funcs {
			names = append(names, c.RefName(f))
		}
		c.Failf(rule, strings.Join(names, "↔")+"#link-recursion", h.Pos, "these functions call each other while following a reference the design gives by name (%s) and carry neither a visited set nor a visited flag: a design whose references form a cycle overflows the stack during evaluation instead of being rejected with an error", h.Via)
	}
	if len(hits) == 0 {
		c.Okf(rule, "expr#link-recursion", "%d recursive groups in package expr; every one that follows a by-name reference carries a visited set or flag", groups)
	}
	c.Floor(rule, groups, 10, "recursive function groups in package expr")
}

// r1210PayloadLookups (R12.10): the validators that check a transport mapping against the method payload
// (`Payload.Find(name) == nil` → error) sit in a type switch over the payload's type. Find resolves user types, so
// the arm that performs the lookups must cover the payload given as an object and given as a user type alike; an
// arm that lists *Object alone accepts every dangling mapping of a design whose payload is a named type (the usual
// case). Sibling agreement: every such arm of package expr is compared with the others.
func r1210PayloadLookups(c *an.Ctx, rule string) {
	sites := 0
	for _, f := range c.AllFuncs("expr") {
		info := f.Pkg.TypesInfo
		ast.Inspect(f.Decl.Body, func(n ast.Node) bool {
			ts, ok := n.(*ast.TypeSwitchStmt)
			if !ok {
				return true
			}
			// the switched expression: x.Type.(type) where x is an attribute
			var ta *ast.TypeAssertExpr
			switch a := ts.Assign.(type) {
			case *ast.ExprStmt:
				ta, _ = an.Unparen(a.X).(*ast.TypeAssertExpr)
			case *ast.AssignStmt:
				if len(a.Rhs) == 1 {
					ta, _ = an.Unparen(a.Rhs[0]).(*ast.TypeAssertExpr)
				}
			}
			if ta == nil {
				return true
			}
			se, ok := an.Unparen(ta.X).(*ast.SelectorExpr)
			if !ok || se.Sel.Name != "Type" {
				return true
			}
			owner := types.ExprString(se.X)
			for _, cl := range ts.Body.List {
				cc := cl.(*ast.CaseClause)
				hasObj, hasUT := false, false
				for _, e := range cc.List {
					switch types.ExprString(e) {
					case "*Object", "*expr.Object":
						hasObj = true
					case "UserType", "expr.UserType":
						hasUT = true
					}
				}
				if !hasObj {
					continue
				}
				// does the arm look names up in the switched attribute?
				finds := false
				for _, s := range cc.Body {
					ast.Inspect(s, func(m ast.Node) bool {
						if call, ok := m.(*ast.CallExpr); ok {
							if fs, ok := an.Unparen(call.Fun).(*ast.SelectorExpr); ok && fs.Sel.Name == "Find" && types.ExprString(fs.X) == owner {
								if fn, _ := an.Callee(info, call).(*types.Func); fn != nil && strings.HasSuffix(fn.FullName(), "AttributeExpr).Find") {
									finds = true
								}
							}
						}
						return true
					})
				}
				if !finds {
					continue
				}
				sites++
				construct := fmt.Sprintf("%s#switch(%s.Type)", c.RefName(f), an.CanonExpr(f.Pkg.TypesInfo, f.Decl, se.X, nil))
				if hasUT {
					c.Okf(rule, construct, "the arm that looks names up in %s covers *Object and UserType", owner)
				} else {
					c.Failf(rule, construct, cc.Pos(), "the arm that checks names against %s (%s.Find) is entered for *Object only: when the attribute is given as a user type - which Find resolves - no mapping is checked and dangling names are accepted", owner, owner)
				}
			}
			return true
		})
	}
	c.Floor(rule, sites, 3, "payload-lookup arms of type switches in package expr")
}
