package props

import (
	"fmt"
	"go/ast"
	"go/token"
	"go/types"
	"sort"
	"strings"

	"goacheck/an"
)

func init() { Registry["C12"] = runC12 }

const explanationC12 = "Decides the crash and acceptance shapes named by C12's anchors over every function of package dsl and the validators of package expr: (R12.1) every type assertion in dsl on the evaluation context, on `any` arguments or on data types is comma-ok, a type-switch arm, or dominated by a successful test of the same value; (R12.2) every constant index or slice of a variadic DSL argument list is covered by a dominating bound on its length; (R12.3) results of nil-returning lookups (Find, Attribute, View, Error, Service, UserType, …, computed as pointer/interface-returning functions of expr with an explicit `return nil`) are not dereferenced in dsl or in expr's Validate/Prepare code without a dominating nil test, and pointer variables that a function compares with nil are not dereferenced where no such test dominates; (R12.4) validators are wired and complete — unexported validate* helpers are called with their result consumed, validation results are never dropped, validation loops that record errors have no early exit, search flags set in an inner loop are reset in the enclosing loop (no stale found flag), and self-recursive walkers pass their recursion guard through every recursive call; (R12.5) the validator looks API keys up under the scheme-qualified tag the consumers use; (R12.6) it validates the requirements the finalizer will hand to the generators. shared R06.3 (requirement inheritance in MethodExpr.Finalize: method, else service, else API). (R12.8) package dsl re-exports the names of package expr under their own names. (R12.9) the parallel slices of ValidationErrors (Errors/Expressions) grow together on every path, so every reported error keeps its expression; (R12.10) the type-switch arms that check transport mappings against the payload (Payload.Find) cover the payload given as an object and as a user type alike. (R12.11) a value obtained from a comma-ok assertion to a pointer type in package dsl is only dereferenced where the assertion succeeded; (R12.12) methods of one expression type that type-switch on the same receiver field list the same types; (R12.13) fields that a Prepare method defaults are nil-tested by the Dup method of the same type; (R12.14) an As* kind conversion dereferenced on the spot is preceded by a reason for the kind (matching Is*/nil test, type-switch arm, mapped attribute, kind predicate, all callers) or reviewed with the assignment sites that establish it; (R12.15) an attribute that a DSL function creates for the user's function and keeps has a Type or is tested for one. NOT decided: termination and absence of all panics for all DSL programs (whole-program nil/bounds proof), semantic completeness of the validators."

func runC12(c *an.Ctx) string {
	r121Assertions(c)
	r122Variadic(c)
	r123Lookups(c)
	r124Validators(c)
	r1210PayloadLookups(c, "R12.10")
	r1211CommaOKUses(c, "R12.11")
	r1212SiblingSwitches(c, "R12.12")
	r1213DupBeforePrepare(c, "R12.13")
	r1214Conversions(c, "R12.14")
	r1215UntypedAttributes(c, "R12.15")
	pairedStoresRule(c, "R12.9", "verrs") // every reported error keeps its location: the two parallel slices grow together
	r067InheritanceAgreement(c, "R12.6")  // the validator checks the requirements the generators will use
	r06SchemeKeyed(c, "R12.5")            // validator and consumers look API keys up under the same scheme-qualified key
	r127LinkRecursion(c)
	r063Inheritance(c) // shared with C06 (rule id R06.3): the finalizer must inherit the requirements the validator checked, or Finalize works on schemes the payload was never validated for
	dslReexports(c, "R12.8")
	return explanationC12
}

// reviewedIndexes: constant indexes whose bound follows from reasoning the
// length dataflow cannot do.
var reviewedIndexes = map[string]string{
	"dsl.ErrorName#args[1]":  "args is non-empty and a closure was appended or found last, so an int first argument implies at least two elements",
	"dsl.ErrorName#args[2:]": "same as args[1]; moreover len(args)==2 returned just above",
}

func r121Assertions(c *an.Ctx) {
	const rule = "R12.1"
	n, guarded := 0, 0
	for _, f := range c.AllFuncs("dsl") {
		info := f.Pkg.TypesInfo
		var g *an.CFG
		// collect assertions that are the X of an assignment with two lhs (comma-ok) or in type switches
		commaOK := map[*ast.TypeAssertExpr]bool{}
		ast.Inspect(f.Decl.Body, func(nd ast.Node) bool {
			switch s := nd.(type) {
			case *ast.AssignStmt:
				if len(s.Lhs) == 2 && len(s.Rhs) == 1 {
					if ta, ok := an.Unparen(s.Rhs[0]).(*ast.TypeAssertExpr); ok {
						commaOK[ta] = true
					}
				}
			case *ast.ValueSpec:
				if len(s.Names) == 2 && len(s.Values) == 1 {
					if ta, ok := an.Unparen(s.Values[0]).(*ast.TypeAssertExpr); ok {
						commaOK[ta] = true
					}
				}
			}
			return true
		})
		ast.Inspect(f.Decl.Body, func(nd ast.Node) bool {
			ta, ok := nd.(*ast.TypeAssertExpr)
			if !ok || ta.Type == nil {
				return true // x.(type) of a type switch
			}
			n++
			if commaOK[ta] {
				return true
			}
			// single-value assertion: must be dominated by a successful comma-ok test or type-switch arm of the same operand and type
			if g == nil {
				g = an.NewCFG(info, f.Decl.Body)
			}
			construct := fmt.Sprintf("%s#%s", f.Name, types.ExprString(ta))
			loc, found := g.LocOf(ta)
			ok2 := false
			if found {
				ok2 = assertionGuarded(g, info, ta, loc)
			}
			if !ok2 {
				// inside a type switch clause on the same operand
				ok2 = inTypeSwitchArm(f.Decl.Body, info, ta)
			}
			witness := ""
			if !ok2 && found {
				// path-sensitive proof over the comma-ok tests of the same operand
				ok2, witness = g.AssertionProved(ta)
			}
			if ok2 {
				guarded++
				c.Okf(rule, construct, "single-value assertion dominated by a successful test of the same value")
			} else {
				c.Failf(rule, construct, ta.Pos(), "single-value type assertion with no dominating comma-ok test or type-switch arm: a misplaced or ill-typed DSL call panics here instead of reporting an error%s", map[bool]string{true: " (" + witness + ")", false: ""}[witness != ""])
			}
			return true
		})
	}
	c.Stats["dsl_assertions"] = n
	c.Stats["dsl_single_value_assertions_guarded"] = guarded
	c.Floor(rule, n, 100, "type assertions in package dsl")
}

// assertionGuarded: some dominating fact is `_, ok := X.(T)` success, i.e. a
// variable ok assigned from a comma-ok assertion of the same operand and type
// is known true at loc.
func assertionGuarded(g *an.CFG, info *types.Info, ta *ast.TypeAssertExpr, loc an.Loc) bool {
	wantT := info.Types[ta.Type].Type
	okVars := map[types.Object]bool{}
	ast.Inspect(g.Body, func(nd ast.Node) bool {
		as, ok := nd.(*ast.AssignStmt)
		if !ok || len(as.Lhs) != 2 || len(as.Rhs) != 1 {
			return true
		}
		ta2, ok := an.Unparen(as.Rhs[0]).(*ast.TypeAssertExpr)
		if !ok || ta2.Type == nil {
			return true
		}
		if !an.SameExpr(info, ta2.X, ta.X) || !types.Identical(info.Types[ta2.Type].Type, wantT) {
			return true
		}
		if o := an.ObjOf(info, as.Lhs[1]); o != nil {
			okVars[o] = true
		}
		return true
	})
	if len(okVars) == 0 {
		return false
	}
	facts, _ := g.FactsFor(ta) // dominating branch facts (conjuncts) and short-circuit facts around the assertion
	for _, f := range facts {
		e := an.Unparen(f.Cond)
		holds := f.Holds
		for {
			u, isNot := e.(*ast.UnaryExpr)
			if !isNot || u.Op != token.NOT {
				break
			}
			e = an.Unparen(u.X)
			holds = !holds
		}
		if o := an.ObjOf(info, e); o != nil && okVars[o] && holds {
			return true
		}
	}
	return false
}

func inTypeSwitchArm(body *ast.BlockStmt, info *types.Info, ta *ast.TypeAssertExpr) bool {
	wantT := info.Types[ta.Type].Type
	found := false
	ast.Inspect(body, func(nd ast.Node) bool {
		ts, ok := nd.(*ast.TypeSwitchStmt)
		if !ok {
			return true
		}
		var operand ast.Expr
		switch a := ts.Assign.(type) {
		case *ast.AssignStmt:
			operand = a.Rhs[0].(*ast.TypeAssertExpr).X
		case *ast.ExprStmt:
			operand = a.X.(*ast.TypeAssertExpr).X
		}
		if operand == nil || !an.SameExpr(info, operand, ta.X) {
			return true
		}
		for _, s := range ts.Body.List {
			cc := s.(*ast.CaseClause)
			if !(cc.Pos() <= ta.Pos() && ta.End() <= cc.End()) {
				continue
			}
			for _, e := range cc.List {
				if tv, ok := info.Types[e]; ok && types.Identical(tv.Type, wantT) && len(cc.List) == 1 {
					found = true
				}
			}
		}
		return true
	})
	return found
}

func r122Variadic(c *an.Ctx) {
	const rule = "R12.2"
	n := 0
	for _, f := range c.AllFuncs("dsl") {
		sig := f.Obj.Type().(*types.Signature)
		if !sig.Variadic() {
			continue
		}
		v := sig.Params().At(sig.Params().Len() - 1)
		needs := an.ConstIndexNeeds(f.Pkg.TypesInfo, f.Decl.Body, v)
		if len(needs) == 0 {
			continue
		}
		g := an.NewCFG(f.Pkg.TypesInfo, f.Decl.Body)
		for _, nd := range needs {
			n++
			construct := fmt.Sprintf("%s#%s", f.Name, nd.What)
			lb, ok := g.LenLowerBoundAt(v, nd.Expr)
			if !ok {
				lb = 0
				// inside a function literal: facts established inside the literal, plus the
				// bound at the point where the literal is created when the list is never reassigned
				var lit *ast.FuncLit
				for _, fl := range an.FuncLits(f.Decl.Body) {
					if fl.Pos() <= nd.Expr.Pos() && nd.Expr.End() <= fl.End() {
						if lit == nil || fl.Pos() >= lit.Pos() {
							lit = fl
						}
					}
				}
				if lit == nil {
					c.Undecidedf(rule, construct, nd.Expr.Pos(), "cannot locate the index expression")
					continue
				}
				lg := an.NewCFG(f.Pkg.TypesInfo, lit.Body)
				if b2, ok2 := lg.LenLowerBoundAt(v, nd.Expr); ok2 {
					lb = b2
				}
				reassigned := false
				ast.Inspect(f.Decl.Body, func(x ast.Node) bool {
					if as, isAs := x.(*ast.AssignStmt); isAs {
						for _, l := range as.Lhs {
							if an.ObjOf(f.Pkg.TypesInfo, l) == v {
								reassigned = true
							}
						}
					}
					return true
				})
				if !reassigned {
					if l3, ok3 := g.LocOf(lit); ok3 {
						if b := g.LenLowerBound(v, l3); b > lb && b < 1<<20 {
							lb = b
						}
					}
				}
			}
			if why, ok := reviewedIndexes[construct]; ok && lb < nd.Need {
				c.Okf(rule, construct, "reviewed: %s", why)
				continue
			}
			if lb >= nd.Need {
				c.Okf(rule, construct, "needs len(%s) >= %d; dominating tests give >= %d", v.Name(), nd.Need, lb)
			} else {
				c.Failf(rule, construct, nd.Expr.Pos(), "%s needs len(%s) >= %d but the dominating tests only give >= %d: calling %s with fewer arguments panics", nd.What, v.Name(), nd.Need, lb, f.Obj.Name())
			}
		}
	}
	c.Floor(rule, n, 20, "constant index/slice sites on variadic DSL arguments")
}

// nilReturningFinders computes the pointer/interface-returning functions of
// package expr that contain an explicit `return nil`.
func nilReturningFinders(c *an.Ctx) map[types.Object]string {
	out := map[types.Object]string{}
	for _, f := range c.AllFuncs("expr") {
		sig := f.Obj.Type().(*types.Signature)
		if sig.Results().Len() != 1 {
			continue
		}
		switch sig.Results().At(0).Type().Underlying().(type) {
		case *types.Pointer, *types.Interface:
		default:
			continue
		}
		if isErrorResult(sig) {
			continue
		}
		hasNil := false
		ast.Inspect(f.Decl.Body, func(n ast.Node) bool {
			if _, isLit := n.(*ast.FuncLit); isLit {
				return false
			}
			if rs, ok := n.(*ast.ReturnStmt); ok && len(rs.Results) == 1 && an.IsNilIdent(f.Pkg.TypesInfo, rs.Results[0]) {
				hasNil = true
			}
			return true
		})
		base := f.Obj.Name()
		if strings.HasPrefix(base, "As") && len(base) > 2 && sig.Recv() == nil {
			continue // AsObject/AsArray/AsMap/AsUnion: conversions guarded by the matching Is* predicate at their call sites
		}
		if hasNil {
			out[f.Obj] = f.Name
		}
	}
	return out
}

func isErrorResult(sig *types.Signature) bool {
	t := sig.Results().At(0).Type()
	if types.Identical(t, types.Universe.Lookup("error").Type()) {
		return true
	}
	return strings.HasSuffix(an.NamedTypeName(t), "eval.ValidationErrors")
}

// reviewedDerefs: lookup results dereferenced without a test, read one by one.
var reviewedDerefs = map[string]string{}

func r123Lookups(c *an.Ctx) {
	const rule = "R12.3"
	finders := nilReturningFinders(c)
	c.Stats["nil_returning_finders"] = len(finders)
	scope := c.AllFuncs("dsl")
	for _, f := range c.AllFuncs("expr") {
		base := f.Name[strings.LastIndex(f.Name, ".")+1:]
		if base == "Validate" || base == "Prepare" || strings.HasPrefix(base, "validate") || strings.HasPrefix(base, "Validate") {
			scope = append(scope, f)
		}
	}
	nCalls, nVars := 0, 0
	for _, f := range scope {
		info := f.Pkg.TypesInfo
		var g *an.CFG
		cfgOf := func() *an.CFG {
			if g == nil {
				g = an.NewCFG(info, f.Decl.Body)
			}
			return g
		}
		// (b) immediate dereference of a finder result, and variables assigned from finders
		finderVars := map[types.Object]string{}
		ast.Inspect(f.Decl.Body, func(nd ast.Node) bool {
			switch x := nd.(type) {
			case *ast.SelectorExpr:
				call, ok := an.Unparen(x.X).(*ast.CallExpr)
				if !ok {
					return true
				}
				name, isFinder := finders[an.Callee(info, call)]
				if !isFinder {
					return true
				}
				// method value/call on the result dereferences it only if it selects a field or a method through an embedded pointer
				if sel, ok := info.Selections[x]; ok && (sel.Kind() == types.FieldVal || sel.Indirect() || len(sel.Index()) > 1) {
					nCalls++
					construct := fmt.Sprintf("%s#%s", f.Name, types.ExprString(x))
					if _, ok := reviewedDerefs[construct]; ok {
						c.Okf(rule, construct, "reviewed")
						return true
					}
					c.Failf(rule, construct, x.Pos(), "the result of %s (which can be nil) is dereferenced immediately: a dangling name crashes evaluation instead of producing an error", name)
				}
			case *ast.AssignStmt:
				if len(x.Rhs) != 1 {
					return true
				}
				call, ok := an.Unparen(x.Rhs[0]).(*ast.CallExpr)
				if !ok {
					return true
				}
				if name, isFinder := finders[an.Callee(info, call)]; isFinder && len(x.Lhs) == 1 {
					if o := an.ObjOf(info, x.Lhs[0]); o != nil {
						finderVars[o] = name
					}
				}
			}
			return true
		})
		// (a/e) variables compared with nil somewhere, or assigned from a finder: every field dereference needs a dominating non-nil fact
		nilTested := map[types.Object]bool{}
		ast.Inspect(f.Decl.Body, func(nd ast.Node) bool {
			if be, ok := nd.(*ast.BinaryExpr); ok {
				if x, _, ok := an.NilCompare(info, be); ok {
					if o := an.ObjOf(info, x); o != nil {
						if _, isVar := o.(*types.Var); isVar {
							nilTested[o] = true
						}
					}
				}
			}
			return true
		})
		cands := map[types.Object]string{}
		for o, nme := range finderVars {
			cands[o] = "assigned from " + nme
		}
		for o := range nilTested {
			if _, ok := o.Type().Underlying().(*types.Pointer); ok {
				if _, dup := cands[o]; !dup {
					cands[o] = "compared with nil elsewhere in the function"
				}
			}
		}
		if len(cands) == 0 {
			continue
		}
		reported := map[string]bool{}
		ast.Inspect(f.Decl.Body, func(nd ast.Node) bool {
			if _, isLit := nd.(*ast.FuncLit); isLit {
				return false
			}
			se, ok := nd.(*ast.SelectorExpr)
			if !ok {
				return true
			}
			o := an.ObjOf(info, se.X)
			why, isCand := cands[o]
			if !isCand {
				return true
			}
			sel, ok := info.Selections[se]
			if !ok || !(sel.Kind() == types.FieldVal || sel.Indirect() && len(sel.Index()) > 1) {
				return true
			}
			if _, isPtr := o.Type().Underlying().(*types.Pointer); !isPtr {
				return true
			}
			construct := fmt.Sprintf("%s#%s", f.Name, o.Name())
			if reported[construct] {
				return true
			}
			loc, found := cfgOf().LocOf(se)
			if !found {
				return true
			}
			nVars++
			if cfgOf().NonNilAtNode(o, se) || definitelyNonNilDef(cfgOf(), info, o, loc, finders) {
				return true
			}
			if _, ok := reviewedDerefs[construct]; ok {
				return true
			}
			reported[construct] = true
			c.Failf(rule, construct, se.Pos(), "%s (%s) is dereferenced as %s where no nil test dominates", o.Name(), why, types.ExprString(se))
			return true
		})
	}
	c.Stats["finder_immediate_derefs"] = nCalls
	c.Stats["nil_candidate_derefs_checked"] = nVars
	c.Okf(rule, "scope", "%d functions of dsl and expr validators scanned: %d dereferences of nil-candidate variables checked against dominating tests", len(scope), nVars)
	c.Floor(rule, nVars, 40, "dereferences of nil-candidate variables")
}

// definitelyNonNilDef: every assignment of v that can reach loc assigns a
// value that cannot be nil (address of a literal, new, make, a constructor
// call that is not a nil-returning finder), and v is a local (not a parameter).
func definitelyNonNilDef(g *an.CFG, info *types.Info, v types.Object, loc an.Loc, finders map[types.Object]string) bool {
	defs := 0
	ok := true
	for _, b := range g.Live() {
		for i, n := range b.Nodes {
			var rhs ast.Expr
			switch s := n.(type) {
			case *ast.AssignStmt:
				for j, l := range s.Lhs {
					if an.ObjOf(info, l) == v {
						if len(s.Rhs) == len(s.Lhs) {
							rhs = s.Rhs[j]
						} else {
							ok = false // multi-value (comma-ok) assignment: may be nil
							defs++
						}
					}
				}
			case *ast.DeclStmt:
				if gd, isGen := s.Decl.(*ast.GenDecl); isGen {
					for _, sp := range gd.Specs {
						vs, isV := sp.(*ast.ValueSpec)
						if !isV {
							continue
						}
						for j, nm := range vs.Names {
							if info.Defs[nm] == v {
								if j < len(vs.Values) {
									rhs = vs.Values[j]
								} else {
									ok = false // zero value
									defs++
								}
							}
						}
					}
				}
			case *ast.RangeStmt:
				if s.Value != nil && an.ObjOf(info, s.Value) == v || s.Key != nil && an.ObjOf(info, s.Key) == v {
					defs++ // elements of collections are trusted non-nil (documented assumption)
				}
			}
			if rhs == nil {
				continue
			}
			l := an.Loc{Block: b, Idx: i}
			killed := func(x an.Loc) bool {
				if x == l || x.Idx < 0 || x.Idx >= len(x.Block.Nodes) {
					return false
				}
				return an.AssignsTo(info, x.Block.Nodes[x.Idx], v)
			}
			if l != loc && !g.Reaches(l, loc, killed) {
				continue // this definition is overwritten before loc on every path (or cannot reach it)
			}
			defs++
			switch x := an.Unparen(rhs).(type) {
			case *ast.UnaryExpr:
				if x.Op != token.AND {
					ok = false
				}
			case *ast.CallExpr:
				if _, isFinder := finders[an.Callee(info, x)]; isFinder {
					ok = false
				}
				if id, isId := an.Unparen(x.Fun).(*ast.Ident); isId && (id.Name == "new" || id.Name == "make") {
					break
				}
			case *ast.CompositeLit:
			default:
				ok = false
			}
		}
	}
	return ok && defs > 0
}

func r124Validators(c *an.Ctx) {
	const rule = "R12.4"
	// (a) unexported validate* helpers are called and their result consumed; (b) validation results never dropped
	type use struct{ consumed, dropped int }
	uses := map[types.Object]*use{}
	var helpers []*an.Func
	for _, f := range c.AllFuncs("expr") {
		base := f.Name[strings.LastIndex(f.Name, ".")+1:]
		if strings.HasPrefix(base, "validate") {
			helpers = append(helpers, f)
			uses[f.Obj] = &use{}
		}
	}
	returnsVerr := func(o types.Object) bool {
		fn, ok := o.(*types.Func)
		if !ok {
			return false
		}
		sig := fn.Type().(*types.Signature)
		if sig.Results().Len() != 1 {
			return false
		}
		return strings.HasSuffix(an.NamedTypeName(sig.Results().At(0).Type()), "eval.ValidationErrors") ||
			(types.Identical(sig.Results().At(0).Type(), types.Universe.Lookup("error").Type()) && (fn.Name() == "Validate" || strings.HasPrefix(fn.Name(), "validate")))
	}
	var dropped []string
	for _, dir := range []string{"expr", "dsl", "eval"} {
		for _, f := range c.AllFuncs(dir) {
			info := f.Pkg.TypesInfo
			ast.Inspect(f.Decl.Body, func(nd ast.Node) bool {
				switch s := nd.(type) {
				case *ast.ExprStmt:
					if call, ok := an.Unparen(s.X).(*ast.CallExpr); ok {
						o := an.Callee(info, call)
						if o != nil && returnsVerr(o) {
							dropped = append(dropped, fmt.Sprintf("%s drops the result of %s (%s)", f.Name, o.Name(), c.Position(call.Pos())))
							if u := uses[o]; u != nil {
								u.dropped++
							}
						}
					}
				case *ast.CallExpr:
					if o := an.Callee(info, s); o != nil {
						if u := uses[o]; u != nil {
							u.consumed++
						}
					}
				}
				return true
			})
		}
	}
	sort.Strings(dropped)
	c.Check(len(dropped) == 0, rule, "expr#validation-results", 0, "no validation result (ValidationErrors / validate* error) is dropped", strings.Join(dropped, "; "))
	for _, h := range helpers {
		u := uses[h.Obj]
		c.Check(u.consumed-u.dropped > 0, rule, h.Name+"#wired", h.Decl.Pos(), fmt.Sprintf("helper is called %d times with its result consumed", u.consumed-u.dropped), "validation helper is never called with its result consumed: the checks it implements are dead")
	}
	c.Floor(rule, len(helpers), 5, "validate* helpers in expr")

	// (c) validation loops that record errors have no early exit at their own level
	nLoops := 0
	for _, f := range c.AllFuncs("expr") {
		base := f.Name[strings.LastIndex(f.Name, ".")+1:]
		if !(base == "Validate" || strings.HasPrefix(base, "validate") || strings.HasPrefix(base, "Validate")) {
			continue
		}
		info := f.Pkg.TypesInfo
		ast.Inspect(f.Decl.Body, func(nd ast.Node) bool {
			rs, ok := nd.(*ast.RangeStmt)
			if !ok {
				return true
			}
			records := false
			for _, call := range an.CallsIn(rs.Body) {
				name := an.CalleeName(info, call)
				if strings.HasSuffix(name, "eval.ValidationErrors).Add") || strings.HasSuffix(name, "eval.ValidationErrors).Merge") || strings.HasSuffix(name, "eval.ValidationErrors).AddError") {
					records = true
				}
			}
			if !records {
				return true
			}
			nLoops++
			var exits []string
			for _, e := range loopExits(rs.Body) {
				if br, isBr := e.(*ast.BranchStmt); isBr && br.Tok == token.BREAK {
					if breakAfterRecording(info, rs.Body, br) {
						continue // the error was recorded just before leaving: nothing is accepted silently
					}
					exits = append(exits, "break at "+c.Position(e.Pos()))
				}
			}
			construct := fmt.Sprintf("%s#range(%s)", f.Name, types.ExprString(rs.X))
			if len(exits) > 0 {
				c.Failf(rule, construct, rs.Pos(), "a validation loop that records errors can stop early (%s): later elements are never validated", strings.Join(exits, ", "))
			} else {
				c.Okf(rule, construct, "validation loop visits every element")
			}
			return true
		})
	}
	c.Floor(rule, nLoops, 20, "validation loops that record errors")

	// (d) stale search flags, (e) dropped recursion guards
	nFuncs := 0
	for _, dir := range []string{"expr", "dsl", "eval", "codegen", "codegen/service", "http/codegen", "grpc/codegen", "http/codegen/openapi", "http/codegen/openapi/v2", "http/codegen/openapi/v3"} {
		for _, f := range c.AllFuncs(dir) {
			nFuncs++
			for _, sf := range an.StaleFlags(f) {
				construct := fmt.Sprintf("%s#flag(%s)", f.Name, sf.Var.Name())
				c.Failf(rule, construct, sf.Set.Pos(), "search flag %s is set inside an inner loop and tested in the enclosing loop (at %s) but never reset there: once one element matches, every later element is treated as matching", sf.Var.Name(), c.Position(sf.Read.Pos()))
			}
			for _, p := range an.SelfRecursionDrops(f) {
				c.Failf(rule, f.Name+"#recursion-guard", f.Decl.Pos(), "%s: a cyclic type makes the walk recurse without bound", p)
			}
		}
	}
	c.Okf(rule, "flags-and-guards", "%d functions scanned: no stale search flag, every self-recursive walker passes its seen-set through", nFuncs)
}

// breakAfterRecording reports whether the statement right before br in its
// block records a validation error.
func breakAfterRecording(info *types.Info, body *ast.BlockStmt, br *ast.BranchStmt) bool {
	ok := false
	ast.Inspect(body, func(n ast.Node) bool {
		blk, isBlk := n.(*ast.BlockStmt)
		var list []ast.Stmt
		if isBlk {
			list = blk.List
		} else if cc, isCC := n.(*ast.CaseClause); isCC {
			list = cc.Body
		}
		for i, s := range list {
			if s == ast.Stmt(br) && i > 0 {
				if es, isExpr := list[i-1].(*ast.ExprStmt); isExpr {
					if call, isCall := es.X.(*ast.CallExpr); isCall {
						name := an.CalleeName(info, call)
						if strings.Contains(name, "eval.ValidationErrors).Add") || strings.Contains(name, "eval.ValidationErrors).Merge") {
							ok = true
						}
					}
				}
			}
		}
		return true
	})
	return ok
}

// r127LinkRecursion (R12.7): a recursive group of expr functions that steps from an expression to the one it names
// (parent service, canonical endpoint …) must carry a visited set or a visited flag: the DSL lets those names
// form a cycle, and an unguarded recursion then overflows the stack - a fatal error - instead of yielding a
// located validation error.
func r127LinkRecursion(c *an.Ctx) {
	const rule = "R12.7"
	groups, hits := c.LinkRecursions("expr")
	for _, h := range hits {
		var names []string
		for _, f := range h.Funcs {
			names = append(names, c.RefName(f))
		}
		c.Failf(rule, strings.Join(names, "↔")+"#link-recursion", h.Pos, "these functions call each other while following a reference the design gives by name (%s) and carry neither a visited set nor a visited flag: a design whose references form a cycle overflows the stack during evaluation instead of being rejected with an error", h.Via)
	}
	if len(hits) == 0 {
		c.Okf(rule, "expr#link-recursion", "%d recursive groups in package expr; every one that follows a by-name reference carries a visited set or flag", groups)
	}
	c.Floor(rule, groups, 10, "recursive function groups in package expr")
}

// r1210PayloadLookups (R12.10): the validators that check a transport mapping against the method payload
// (`Payload.Find(name) == nil` → error) sit in a type switch over the payload's type. Find resolves user types, so
// the arm that performs the lookups must cover the payload given as an object and given as a user type alike; an
// arm that lists *Object alone accepts every dangling mapping of a design whose payload is a named type (the usual
// case). Sibling agreement: every such arm of package expr is compared with the others.
func r1210PayloadLookups(c *an.Ctx, rule string) {
	sites := 0
	for _, f := range c.AllFuncs("expr") {
		info := f.Pkg.TypesInfo
		ast.Inspect(f.Decl.Body, func(n ast.Node) bool {
			ts, ok := n.(*ast.TypeSwitchStmt)
			if !ok {
				return true
			}
			// the switched expression: x.Type.(type) where x is an attribute
			var ta *ast.TypeAssertExpr
			switch a := ts.Assign.(type) {
			case *ast.ExprStmt:
				ta, _ = an.Unparen(a.X).(*ast.TypeAssertExpr)
			case *ast.AssignStmt:
				if len(a.Rhs) == 1 {
					ta, _ = an.Unparen(a.Rhs[0]).(*ast.TypeAssertExpr)
				}
			}
			if ta == nil {
				return true
			}
			se, ok := an.Unparen(ta.X).(*ast.SelectorExpr)
			if !ok || se.Sel.Name != "Type" {
				return true
			}
			owner := types.ExprString(se.X)
			for _, cl := range ts.Body.List {
				cc := cl.(*ast.CaseClause)
				hasObj, hasUT := false, false
				for _, e := range cc.List {
					switch types.ExprString(e) {
					case "*Object", "*expr.Object":
						hasObj = true
					case "UserType", "expr.UserType":
						hasUT = true
					}
				}
				if !hasObj {
					continue
				}
				// does the arm look names up in the switched attribute?
				finds := false
				for _, s := range cc.Body {
					ast.Inspect(s, func(m ast.Node) bool {
						if call, ok := m.(*ast.CallExpr); ok {
							if fs, ok := an.Unparen(call.Fun).(*ast.SelectorExpr); ok && fs.Sel.Name == "Find" && types.ExprString(fs.X) == owner {
								if fn, _ := an.Callee(info, call).(*types.Func); fn != nil && strings.HasSuffix(fn.FullName(), "AttributeExpr).Find") {
									finds = true
								}
							}
						}
						return true
					})
				}
				if !finds {
					continue
				}
				sites++
				construct := fmt.Sprintf("%s#switch(%s.Type)", c.RefName(f), an.CanonExpr(f.Pkg.TypesInfo, f.Decl, se.X, nil))
				if hasUT {
					c.Okf(rule, construct, "the arm that looks names up in %s covers *Object and UserType", owner)
				} else {
					c.Failf(rule, construct, cc.Pos(), "the arm that checks names against %s (%s.Find) is entered for *Object only: when the attribute is given as a user type - which Find resolves - no mapping is checked and dangling names are accepted", owner, owner)
				}
			}
			return true
		})
	}
	c.Floor(rule, sites, 3, "payload-lookup arms of type switches in package expr")
}

// r1211CommaOKUses (R12.11): `v, ok := eval.Current().(*expr.T)` gives a nil v when the DSL function is called in the
// wrong place. Reporting the misuse (eval.IncompatibleDSL) is not enough: the function must also stop, or every field
// access through v panics instead of the error being returned. Every field selection through the value of a
// comma-ok assertion to a pointer type in package dsl happens where ok is known to hold (or v is known non-nil).
func r1211CommaOKUses(c *an.Ctx, rule string) {
	uses := 0
	for _, f := range c.AllFuncs("dsl") {
		info := f.Pkg.TypesInfo
		type pair struct{ v, ok types.Object }
		var pairs []pair
		ast.Inspect(f.Decl.Body, func(n ast.Node) bool {
			as, isAs := n.(*ast.AssignStmt)
			if !isAs || len(as.Lhs) != 2 || len(as.Rhs) != 1 {
				return true
			}
			ta, isTA := an.Unparen(as.Rhs[0]).(*ast.TypeAssertExpr)
			if !isTA || ta.Type == nil {
				return true
			}
			if _, isPtr := info.Types[ta.Type].Type.Underlying().(*types.Pointer); !isPtr {
				return true
			}
			v, okv := an.ObjOf(info, as.Lhs[0]), an.ObjOf(info, as.Lhs[1])
			if v != nil && okv != nil {
				pairs = append(pairs, pair{v, okv})
			}
			return true
		})
		if len(pairs) == 0 {
			continue
		}
		var g *an.CFG
		for _, p := range pairs {
			reported := false
			c.InspectAll(f, func(hf *an.Func, n ast.Node) bool {
				if hf != f || reported {
					return true
				}
				se, isSel := n.(*ast.SelectorExpr)
				if !isSel {
					return true
				}
				id, isId := an.Unparen(se.X).(*ast.Ident)
				if !isId || an.ObjOf(info, id) != p.v {
					return true
				}
				sel := info.Selections[se]
				if sel == nil || sel.Kind() != types.FieldVal {
					return true // a method call on a nil pointer reaches the method; only field access dereferences here
				}
				uses++
				if g == nil {
					g = an.NewCFG(info, f.Decl.Body)
				}
				facts, found := g.FactsFor(se)
				if !found {
					return true // inside a function literal: evaluated later, not decided here
				}
				safe := false
				for _, fc := range facts {
					cond, holds := an.Unparen(fc.Cond), fc.Holds
					for {
						if u, isNot := cond.(*ast.UnaryExpr); isNot && u.Op == token.NOT {
							cond, holds = an.Unparen(u.X), !holds
							continue
						}
						break
					}
					if cid, isCid := cond.(*ast.Ident); isCid && an.ObjOf(info, cid) == p.ok && holds {
						safe = true
					}
					if x, notNil, isCmp := an.NilCompare(info, cond); isCmp && an.ObjOf(info, x) == p.v && notNil == holds {
						safe = true
					}
				}
				if !safe {
					reported = true
					c.Failf(rule, fmt.Sprintf("%s#%s.%s", c.RefName(f), p.v.Name(), se.Sel.Name), se.Pos(),
						"%s comes from a comma-ok type assertion and is nil when %s is false, yet %s.%s is evaluated on a path where %s has not been established: a DSL function called in the wrong place panics here instead of reporting an error", p.v.Name(), p.ok.Name(), p.v.Name(), se.Sel.Name, p.ok.Name())
				}
				return true
			})
		}
	}
	if uses > 0 {
		c.Okf(rule, "dsl#comma-ok values", "%d field accesses through values of comma-ok assertions examined: each is reached only where the assertion succeeded (violations listed separately)", uses)
	}
	c.Floor(rule, uses, 60, "field accesses through comma-ok assertion values in package dsl")
}

// r1212SiblingSwitches (R12.12): the methods of one expression type that dispatch on the dynamic type of the same
// operand (`switch p := e.Response.Parent.(type)` in Validate and in Finalize) are siblings: they must list the same
// types. A type one of them handles and the other does not is validated but not finalized (or the reverse): the
// design is accepted and a later phase dereferences what the skipped arm would have set.
func r1212SiblingSwitches(c *an.Ctx, rule string) {
	type sw struct {
		f       *an.Func
		stmt    *ast.TypeSwitchStmt
		cases   map[string]bool
		lookups map[string]map[string]bool // case type -> lookups made in the arm
	}
	groups := map[string][]sw{} // receiver type | operand -> switches
	for _, f := range c.AllFuncs("expr") {
		if f.Decl.Recv == nil || len(f.Decl.Recv.List) == 0 {
			continue
		}
		recvT := types.ExprString(f.Decl.Recv.List[0].Type)
		info := f.Pkg.TypesInfo
		ast.Inspect(f.Decl.Body, func(n ast.Node) bool {
			ts, ok := n.(*ast.TypeSwitchStmt)
			if !ok {
				return true
			}
			var ta *ast.TypeAssertExpr
			switch a := ts.Assign.(type) {
			case *ast.ExprStmt:
				ta, _ = an.Unparen(a.X).(*ast.TypeAssertExpr)
			case *ast.AssignStmt:
				if len(a.Rhs) == 1 {
					ta, _ = an.Unparen(a.Rhs[0]).(*ast.TypeAssertExpr)
				}
			}
			if ta == nil {
				return true
			}
			root := an.RootIdent(ta.X)
			if root == nil || !isReceiver(f, root) {
				return true // only operands reached from the receiver are comparable between methods
			}
			if _, isSel := an.Unparen(ta.X).(*ast.SelectorExpr); !isSel {
				return true
			}
			cases := map[string]bool{}
			lookups := map[string]map[string]bool{}
			var bound types.Object
			if a, ok := ts.Assign.(*ast.AssignStmt); ok && len(a.Lhs) == 1 {
				if id, ok := a.Lhs[0].(*ast.Ident); ok {
					bound = info.Defs[id] // nil: the variable is declared per clause (Implicits)
					_ = bound
				}
			}
			for _, cl := range ts.Body.List {
				cc := cl.(*ast.CaseClause)
				for _, e := range cc.List {
					cases[types.ExprString(e)] = true
				}
				if len(cc.List) != 1 {
					continue
				}
				// the lookups the arm makes through the value it switched on (or through the design root)
				implicit := info.Implicits[cc]
				set := map[string]bool{}
				for _, st := range cc.Body {
					ast.Inspect(st, func(m ast.Node) bool {
						call, ok := m.(*ast.CallExpr)
						if !ok {
							return true
						}
						se, ok := an.Unparen(call.Fun).(*ast.SelectorExpr)
						if !ok {
							return true
						}
						root := an.RootIdent(se.X)
						if root == nil {
							return true
						}
						ro := an.ObjOf(info, root)
						if ro == nil || (ro != implicit && root.Name != "Root") {
							return true
						}
						path := types.ExprString(se)
						path = path[strings.Index(path, ".")+1:]
						if ro == implicit {
							path = "‹switched value›." + path
						} else {
							path = "Root." + path
						}
						set[path] = true
						return true
					})
				}
				lookups[types.ExprString(cc.List[0])] = set
			}
			key := recvT + "|" + an.CanonExpr(info, f.Decl, ta.X, nil)
			groups[key] = append(groups[key], sw{f, ts, cases, lookups})
			return true
		})
	}
	n := 0
	for _, key := range sortedKeys(groups) {
		g := groups[key]
		if len(g) < 2 {
			continue
		}
		union := map[string]bool{}
		for _, s := range g {
			for t := range s.cases {
				union[t] = true
			}
		}
		for _, s := range g {
			n++
			var missing []string
			for t := range union {
				if !s.cases[t] && t != "nil" {
					missing = append(missing, t)
				}
			}
			sort.Strings(missing)
			operand := key[strings.Index(key, "|")+1:]
			construct := fmt.Sprintf("%s#typeswitch(%s)", c.RefName(s.f), operand)
			// arms for one type look the name up the same way in every sibling
			var deviating []string
			for t, mine := range s.lookups {
				if len(mine) == 0 {
					continue
				}
				for _, o := range g {
					theirs := o.lookups[t]
					if o.stmt == s.stmt || len(theirs) == 0 {
						continue
					}
					common := false
					for l := range mine {
						if theirs[l] {
							common = true
						}
					}
					if !common {
						deviating = append(deviating, fmt.Sprintf("%s: %s here, %s in %s", t, strings.Join(sortedKeys(mine), "/"), strings.Join(sortedKeys(theirs), "/"), c.RefName(o.f)))
					}
				}
			}
			sort.Strings(deviating)
			if len(deviating) > 0 {
				c.Failf(rule, construct+"#lookups", s.stmt.Pos(), "the arm for one parent type consults a different table than the same arm of a sibling method (%s): what one method checks is not what the other uses", deviating[0])
			}
			if len(missing) == 0 {
				c.Okf(rule, construct, "lists the same types as its %d sibling switch(es) over %s", len(g)-1, operand)
			} else {
				c.Failf(rule, construct, s.stmt.Pos(), "no arm for %s although a sibling method of the same type dispatching on %s has one: what that arm validates (or sets) is skipped here, and a later phase works on a value nobody checked (or prepared)", strings.Join(missing, ", "), operand)
			}
		}
	}
	c.Floor(rule, n, 2, "sibling type switches over a receiver field in package expr")
}

// r1213DupBeforePrepare (R12.13): a Prepare method that gives nil fields their defaults (`if r.F == nil { r.F = … }`)
// documents that those fields may be nil until it ran. Copies are taken while designs are still being prepared
// (an endpoint's Prepare dups the error responses of its service and of the API, and the API-level ones are prepared
// by nobody), so the Dup method of the same type must tolerate them: every use of such a field as a call argument or
// method receiver in Dup is guarded by a nil test of the field.
func r1213DupBeforePrepare(c *an.Ctx, rule string) {
	byRecv := map[string]map[string]*an.Func{}
	for _, f := range c.AllFuncs("expr") {
		if f.Decl.Recv == nil || len(f.Decl.Recv.List) == 0 {
			continue
		}
		if n := f.Decl.Name.Name; n == "Prepare" || n == "Dup" {
			rt := types.ExprString(f.Decl.Recv.List[0].Type)
			if byRecv[rt] == nil {
				byRecv[rt] = map[string]*an.Func{}
			}
			byRecv[rt][n] = f
		}
	}
	pairs := 0
	for _, rt := range sortedKeys(byRecv) {
		prep, dup := byRecv[rt]["Prepare"], byRecv[rt]["Dup"]
		if prep == nil || dup == nil {
			continue
		}
		// fields defaulted in Prepare
		pinfo := prep.Pkg.TypesInfo
		lazy := map[string]bool{}
		ast.Inspect(prep.Decl.Body, func(n ast.Node) bool {
			is, ok := n.(*ast.IfStmt)
			if !ok {
				return true
			}
			x, notNil, isCmp := an.NilCompare(pinfo, is.Cond)
			if !isCmp || notNil {
				return true
			}
			se, ok := an.Unparen(x).(*ast.SelectorExpr)
			if !ok {
				return true
			}
			if id, ok := an.Unparen(se.X).(*ast.Ident); !ok || !isReceiver(prep, id) {
				return true
			}
			for _, s := range is.Body.List {
				if as, ok := s.(*ast.AssignStmt); ok && len(as.Lhs) == 1 && types.ExprString(as.Lhs[0]) == types.ExprString(x) {
					if fv := an.FieldOf(pinfo, se); fv != nil {
						lazy[an.CanonFieldName(fv)] = true
					}
				}
			}
			return true
		})
		if len(lazy) == 0 {
			continue
		}
		pairs++
		dinfo := dup.Pkg.TypesInfo
		g := an.NewCFG(dinfo, dup.Decl.Body)
		bad := 0
		ast.Inspect(dup.Decl.Body, func(n ast.Node) bool {
			call, ok := n.(*ast.CallExpr)
			if !ok {
				return true
			}
			var used []*ast.SelectorExpr
			for _, a := range call.Args {
				if se, ok := an.Unparen(a).(*ast.SelectorExpr); ok {
					used = append(used, se)
				}
			}
			if fs, ok := an.Unparen(call.Fun).(*ast.SelectorExpr); ok {
				if se, ok := an.Unparen(fs.X).(*ast.SelectorExpr); ok {
					used = append(used, se)
				}
			}
			for _, se := range used {
				id, ok := an.Unparen(se.X).(*ast.Ident)
				if !ok || !isReceiver(dup, id) {
					continue
				}
				fv := an.FieldOf(dinfo, se)
				if fv == nil || !lazy[an.CanonFieldName(fv)] {
					continue
				}
				if _, isPtr := fv.Type().Underlying().(*types.Pointer); !isPtr {
					continue
				}
				// guarded by a nil test of the same field?
				guarded := false
				if facts, found := g.FactsFor(se); found {
					for _, fc := range facts {
						if x, notNil, isCmp := an.NilCompare(dinfo, fc.Cond); isCmp && notNil == fc.Holds && types.ExprString(x) == types.ExprString(se) {
							guarded = true
						}
					}
				}
				// or handed to a function that accepts nil (tests its parameter against nil before using it)
				if !guarded && acceptsNil(c, dup, call, se) {
					guarded = true
				}
				if !guarded {
					bad++
					c.Failf(rule, fmt.Sprintf("%s#%s", c.RefName(dup), types.ExprString(se)), se.Pos(),
						"%s is nil until %s.Prepare ran (Prepare gives it its default), yet Dup passes it to %s without a nil test: copying a value that has not been prepared yet - the API-level error responses an endpoint inherits - panics during evaluation", types.ExprString(se), rt, types.ExprString(call.Fun))
				}
			}
			return true
		})
		if bad == 0 {
			c.Okf(rule, c.RefName(dup), "every field that Prepare defaults is nil-tested in Dup before it is copied (%d fields)", len(lazy))
		}
	}
	c.Floor(rule, pairs, 2, "expression types with a defaulting Prepare and a Dup")
}

// acceptsNil: the argument se of call is a parameter the callee compares with nil before any other use (first
// statement `if p == nil { return … }`).
func acceptsNil(c *an.Ctx, f *an.Func, call *ast.CallExpr, se *ast.SelectorExpr) bool {
	callee := c.FuncOfObj(an.Callee(f.Pkg.TypesInfo, call))
	if callee == nil || len(callee.Decl.Body.List) == 0 {
		return false
	}
	pi := -1
	for i, a := range call.Args {
		if an.Unparen(a) == ast.Expr(se) {
			pi = i
		}
	}
	if pi < 0 {
		return false
	}
	sig := callee.Obj.Type().(*types.Signature)
	if pi >= sig.Params().Len() {
		return false
	}
	is, ok := callee.Decl.Body.List[0].(*ast.IfStmt)
	if !ok {
		return false
	}
	x, notNil, isCmp := an.NilCompare(callee.Pkg.TypesInfo, is.Cond)
	return isCmp && !notNil && an.ObjOf(callee.Pkg.TypesInfo, x) == sig.Params().At(pi)
}

// r1214Conversions (R12.14): expr.AsObject / AsArray / AsMap / AsUnion return nil when the type is of another kind.
// A result that is dereferenced on the spot (`*AsObject(x.Type)`, `AsArray(t).ElemType`) needs a reason to be
// non-nil at that point; anything a user's DSL can make of another kind (an empty Message(func(){}), a primitive
// payload) otherwise crashes evaluation. Accepted reasons, each structural:
//
//	(a) a dominating test of the same operand with the matching Is* predicate, a nil test of the same conversion, or
//	    the arm of a type switch over the operand that lists the kind;
//	(b) the operand is the Type of a *MappedAttributeExpr (its constructor only accepts objects);
//	(c) the operand was assigned from a composite literal of the kind, or from the matching conversion tested non-nil.
//
// Sites none of these covers are listed in reviewedConversions with the invariant that makes them safe, read one
// by one; a site that is neither proved nor reviewed fails.
var reviewedConversions = map[string]string{
	"expr.AttributeExpr.debug#AsObject(‹*expr.ViewExpr›.AttributeExpr.Type)": "debugging printer (AttributeExpr.Debug), not part of evaluation; a view's attribute is an object by construction (dsl buildView rejects anything else)",
	"expr.GRPCEndpointExpr.Finalize#AsObject(recv.Request.Type)":             "Request is assigned in two places only: Prepare (Type Empty, an object) and dsl.Message, which creates it as an object (R12.15)",
	"expr.GRPCResponseExpr.Finalize#AsObject(recv.Message.Type)":             "Message is assigned by Prepare (Empty) and by dsl.Message, which creates it as an object (R12.15)",
	"expr.GRPCResponseExpr.Validate#AsObject(recv.Message.Type)":             "Message is assigned by Prepare (Empty) and by dsl.Message, which creates it as an object (R12.15)",
	"expr.validateMessage#AsObject(p0.Type)":                                 "both callers pass a request/response message: Request and Message are assigned by Prepare (Empty) and by dsl.Message, which creates them as objects (R12.15)",
	"expr.HostExpr.URIString#AsObject(recv.Variables.Type)":                  "Variables is created as &AttributeExpr{Type: &Object{}} at its three assignment sites (dsl.Host, HostExpr.Finalize twice)",
}

func r1214Conversions(c *an.Ctx, rule string) {
	kindOf := map[string]string{"AsObject": "Object", "AsArray": "Array", "AsMap": "Map", "AsUnion": "Union"}
	sites, proved := 0, 0
	for _, dir := range []string{"expr", "dsl"} {
		for _, f := range c.AllFuncs(dir) {
			info := f.Pkg.TypesInfo
			parents := an.ParentMap(f.Decl.Body)
			ast.Inspect(f.Decl.Body, func(n ast.Node) bool {
				call, ok := n.(*ast.CallExpr)
				if !ok || len(call.Args) != 1 {
					return true
				}
				cn := an.CalleeName(info, call)
				short := cn[strings.LastIndex(cn, ".")+1:]
				kind, isConv := kindOf[short]
				if !isConv || !strings.HasSuffix(cn, "expr."+short) {
					return true
				}
				// dereferenced on the spot?
				p := parents[call]
				for {
					if pe, ok := p.(*ast.ParenExpr); ok {
						p = parents[pe]
						continue
					}
					break
				}
				deref := false
				switch x := p.(type) {
				case *ast.StarExpr:
					deref = true
				case *ast.SelectorExpr:
					if x.X == ast.Expr(call) || an.Unparen(x.X) == ast.Expr(call) {
						if sel := info.Selections[x]; sel != nil && sel.Kind() == types.FieldVal {
							deref = true
						}
					}
				}
				if !deref {
					return true
				}
				sites++
				arg := an.Unparen(call.Args[0])
				argText := types.ExprString(arg)
				construct := fmt.Sprintf("%s#%s(%s)", c.RefName(f), short, an.CanonExpr(info, f.Decl, arg, nil))
				why := ""
				// (b) Type of a mapped attribute
				if se, ok := arg.(*ast.SelectorExpr); ok && se.Sel.Name == "Type" {
					if tv, ok := info.Types[se.X]; ok && strings.HasSuffix(an.NamedTypeName(derefType(tv.Type)), "expr.MappedAttributeExpr") {
						why = "operand is the type of a mapped attribute, always an object"
					}
				}
				if why == "" {
					why = kindEstablished(c, f, call, argText, kind, cn, 0)
				}
				if why != "" {
					proved++
					c.Okf(rule, construct, "%s", why)
					return true
				}
				for _, root := range c.RootNames(f) {
					if r, ok := reviewedConversions[root+"#"+short+"("+an.CanonExpr(info, f.Decl, arg, nil)+")"]; ok {
						c.Okf(rule, construct, "reviewed: %s", r)
						return true
					}
				}
				c.Failf(rule, construct, call.Pos(), "%s(%s) is dereferenced on the spot, and nothing on the way here shows that %s is of that kind: when a design makes it something else the conversion returns nil and evaluation panics instead of reporting an error", short, argText, argText)
				return true
			})
		}
	}
	c.Stats["conversions_dereferenced"] = sites
	c.Stats["conversions_proved"] = proved
	c.Floor(rule, sites, 30, "kind conversions dereferenced on the spot in packages expr and dsl")
}

// kindEstablished returns the reason why, where node is evaluated in f, the type expression written operand is
// known to be of the given kind ("" if none): a dominating Is<kind>(operand) or non-nil As<kind>(operand) test, the
// *<kind> arm of a type switch over operand, a dominating call of a predicate whose body is one conjunction that
// contains such a test of its receiver or parameter, or - when operand is P.Type for a parameter P of f - the same
// at every call site of f for the argument passed as P.
func kindEstablished(c *an.Ctx, f *an.Func, node ast.Node, operand, kind, conv string, depth int) string {
	info := f.Pkg.TypesInfo
	g := an.NewCFG(info, f.Decl.Body)
	isTest := func(cond ast.Expr, holds bool, text string) bool {
		cond = an.Unparen(cond)
		if pc, ok := cond.(*ast.CallExpr); ok && holds && len(pc.Args) == 1 && types.ExprString(an.Unparen(pc.Args[0])) == text {
			if pn := an.CalleeName(info, pc); strings.HasSuffix(pn, "expr.Is"+kind) {
				return true
			}
		}
		if x, notNil, isCmp := an.NilCompare(info, cond); isCmp && notNil == holds {
			if xc, ok := an.Unparen(x).(*ast.CallExpr); ok && strings.HasSuffix(an.CalleeName(info, xc), "expr.As"+kind) && len(xc.Args) == 1 && types.ExprString(an.Unparen(xc.Args[0])) == text {
				return true
			}
		}
		return false
	}
	if facts, found := g.FactsFor(node); found {
		for _, fc := range facts {
			cond, holds := an.Unparen(fc.Cond), fc.Holds
			for {
				if u, isNot := cond.(*ast.UnaryExpr); isNot && u.Op == token.NOT {
					cond, holds = an.Unparen(u.X), !holds
					continue
				}
				break
			}
			if isTest(cond, holds, operand) {
				return "dominated by a test of the same operand (Is" + kind + " / non-nil As" + kind + ")"
			}
			// a predicate of the module: `x.shouldInherit(y)` whose body is `return … && AsObject(recv.Type) != nil && …`
			if pc, ok := cond.(*ast.CallExpr); ok && holds {
				if callee := c.FuncOfObj(an.Callee(info, pc)); callee != nil && len(callee.Decl.Body.List) == 1 {
					if ret, ok := callee.Decl.Body.List[0].(*ast.ReturnStmt); ok && len(ret.Results) == 1 {
						subst := map[string]string{}
						if callee.Decl.Recv != nil && len(callee.Decl.Recv.List) == 1 && len(callee.Decl.Recv.List[0].Names) == 1 {
							if se, ok := an.Unparen(pc.Fun).(*ast.SelectorExpr); ok {
								subst[callee.Decl.Recv.List[0].Names[0].Name] = types.ExprString(se.X)
							}
						}
						k := 0
						for _, fl := range callee.Decl.Type.Params.List {
							for _, nm := range fl.Names {
								if k < len(pc.Args) {
									subst[nm.Name] = types.ExprString(pc.Args[k])
								}
								k++
							}
						}
						var conj func(e ast.Expr) bool
						conj = func(e ast.Expr) bool {
							e = an.Unparen(e)
							if b, ok := e.(*ast.BinaryExpr); ok && b.Op == token.LAND {
								return conj(b.X) || conj(b.Y)
							}
							cinfo := callee.Pkg.TypesInfo
							var inner ast.Expr
							if x, notNil, isCmp := an.NilCompare(cinfo, e); isCmp && notNil {
								if xc, ok := an.Unparen(x).(*ast.CallExpr); ok && strings.HasSuffix(an.CalleeName(cinfo, xc), "expr.As"+kind) && len(xc.Args) == 1 {
									inner = xc.Args[0]
								}
							}
							if xc, ok := e.(*ast.CallExpr); ok && strings.HasSuffix(an.CalleeName(cinfo, xc), "expr.Is"+kind) && len(xc.Args) == 1 {
								inner = xc.Args[0]
							}
							if inner == nil {
								return false
							}
							if se, ok := an.Unparen(inner).(*ast.SelectorExpr); ok {
								if id, ok := an.Unparen(se.X).(*ast.Ident); ok {
									if actual, ok := subst[id.Name]; ok && actual+"."+se.Sel.Name == operand {
										return true
									}
								}
							}
							return false
						}
						if conj(ret.Results[0]) {
							return "dominated by " + types.ExprString(pc.Fun) + ", which holds only for that kind"
						}
					}
				}
			}
		}
	}
	parents := an.ParentMap(f.Decl.Body)
	for q := parents[node]; q != nil; q = parents[q] {
		cc, ok := q.(*ast.CaseClause)
		if !ok {
			continue
		}
		ts, ok := parents[parents[cc]].(*ast.TypeSwitchStmt)
		if !ok {
			continue
		}
		var ta *ast.TypeAssertExpr
		switch a := ts.Assign.(type) {
		case *ast.ExprStmt:
			ta, _ = an.Unparen(a.X).(*ast.TypeAssertExpr)
		case *ast.AssignStmt:
			if len(a.Rhs) == 1 {
				ta, _ = an.Unparen(a.Rhs[0]).(*ast.TypeAssertExpr)
			}
		}
		if ta == nil || types.ExprString(an.Unparen(ta.X)) != operand || len(cc.List) == 0 {
			continue
		}
		all := true
		for _, e := range cc.List {
			if t := types.ExprString(e); t != "*"+kind && t != "*expr."+kind {
				all = false
			}
		}
		if all {
			return "inside the *" + kind + " arm of a type switch over the operand"
		}
	}
	// every caller establishes it for the argument
	if depth < 1 && strings.HasSuffix(operand, ".Type") {
		pname := strings.TrimSuffix(operand, ".Type")
		pi, k := -1, 0
		for _, fl := range f.Decl.Type.Params.List {
			for _, nm := range fl.Names {
				if nm.Name == pname {
					pi = k
				}
				k++
			}
		}
		if callers := c.CallersOf(f); pi >= 0 && len(callers) > 0 {
			for _, cs := range callers {
				if pi >= len(cs.Call.Args) {
					return ""
				}
				if kindEstablished(c, cs.In, cs.Call, types.ExprString(an.Unparen(cs.Call.Args[pi]))+".Type", kind, conv, depth+1) == "" {
					return ""
				}
			}
			return fmt.Sprintf("every one of the %d call sites establishes the kind of its argument", len(callers))
		}
	}
	return ""
}

func derefType(t types.Type) types.Type {
	if p, ok := t.(*types.Pointer); ok {
		return p.Elem()
	}
	return t
}

// r1215UntypedAttributes (R12.15): DSL functions that let the user describe an attribute create it, hand it to the
// user's function with eval.Execute and then keep it. A literal `&expr.AttributeExpr{}` has no Type, and it still has
// none when the user's function adds nothing (`Message(func() {})`): every consumer that takes the type for an object
// then panics. Where such an attribute leaves the function - into expr.NewMappedAttributeExpr, through a setter
// closure, into a field - either the literal gave it a Type, or a test of its Type dominates the hand-over, or the
// function that receives it starts by testing the Type itself.
func r1215UntypedAttributes(c *an.Ctx, rule string) {
	sites := 0
	for _, f := range c.AllFuncs("dsl") {
		info := f.Pkg.TypesInfo
		type made struct {
			v     types.Object
			typed bool
			lit   *ast.CompositeLit
		}
		var attrs []made
		ast.Inspect(f.Decl.Body, func(n ast.Node) bool {
			as, ok := n.(*ast.AssignStmt)
			if !ok || len(as.Lhs) != 1 || len(as.Rhs) != 1 {
				return true
			}
			u, ok := an.Unparen(as.Rhs[0]).(*ast.UnaryExpr)
			if !ok || u.Op != token.AND {
				return true
			}
			cl, ok := u.X.(*ast.CompositeLit)
			if !ok || !strings.HasSuffix(an.NamedTypeName(info.Types[cl].Type), "expr.AttributeExpr") {
				return true
			}
			_, typed := litFields(cl)["Type"]
			if v := an.ObjOf(info, as.Lhs[0]); v != nil {
				attrs = append(attrs, made{v, typed, cl})
			}
			return true
		})
		if len(attrs) == 0 {
			continue
		}
		var g *an.CFG
		for _, m := range attrs {
			// handed to the user's function?
			var exec *ast.CallExpr
			ast.Inspect(f.Decl.Body, func(n ast.Node) bool {
				call, ok := n.(*ast.CallExpr)
				if ok && strings.HasSuffix(an.CalleeName(info, call), "eval.Execute") && len(call.Args) == 2 && an.ObjOf(info, call.Args[1]) == m.v && call.Pos() > m.lit.Pos() {
					if exec == nil {
						exec = call
					}
				}
				return true
			})
			if exec == nil {
				continue
			}
			ast.Inspect(f.Decl.Body, func(n ast.Node) bool {
				var at ast.Node
				what := ""
				switch x := n.(type) {
				case *ast.CallExpr:
					if x == exec || x.Pos() < m.lit.Pos() {
						return true
					}
					passed := false
					for _, a := range x.Args {
						if an.ObjOf(info, an.Unparen(a)) == m.v {
							passed = true
						}
					}
					if !passed || strings.HasSuffix(an.CalleeName(info, x), "eval.Execute") {
						return true
					}
					callee := c.FuncOfObj(an.Callee(info, x))
					if callee != nil && !strings.HasSuffix(callee.Name, ".NewMappedAttributeExpr") {
						// a module function: fine when it starts by testing the Type of what it receives
						if testsTypeFirst(callee, x, m.v, info) {
							return true
						}
					}
					at, what = x, "passed to "+types.ExprString(x.Fun)
				case *ast.AssignStmt:
					if x.Pos() < exec.Pos() {
						return true
					}
					for i, r := range x.Rhs {
						if an.ObjOf(info, an.Unparen(r)) == m.v && i < len(x.Lhs) {
							if _, isSel := an.Unparen(x.Lhs[i]).(*ast.SelectorExpr); isSel {
								at, what = x, "stored in "+types.ExprString(x.Lhs[i])
							}
						}
					}
				case *ast.ReturnStmt:
					if x.Pos() < exec.Pos() {
						return true
					}
					for _, r := range x.Results {
						if an.ObjOf(info, an.Unparen(r)) == m.v {
							at, what = x, "returned to the caller"
						}
					}
				}
				if at == nil {
					return true
				}
				sites++
				var keys []string
				for k := range litFields(m.lit) {
					keys = append(keys, k)
				}
				sort.Strings(keys)
				construct := fmt.Sprintf("%s#%s{%s}:%s", c.RefName(f), m.v.Name(), strings.Join(keys, ","), what)
				if m.typed {
					c.Okf(rule, construct, "the attribute is created with a Type")
					return true
				}
				if g == nil {
					g = an.NewCFG(info, f.Decl.Body)
				}
				guarded := false
				if facts, found := g.FactsFor(at); found {
					for _, fc := range facts {
						if x, notNil, isCmp := an.NilCompare(info, fc.Cond); isCmp && notNil == fc.Holds {
							if se, ok := an.Unparen(x).(*ast.SelectorExpr); ok && se.Sel.Name == "Type" && an.ObjOf(info, an.Unparen(se.X)) == m.v {
								guarded = true
							}
						}
					}
				}
				if guarded {
					c.Okf(rule, construct, "a test of the attribute's Type dominates the hand-over")
				} else {
					c.Failf(rule, construct, at.Pos(), "%s is created without a Type, filled by the user's function and then %s: when that function defines nothing (an empty func() {}) the Type is still nil and the consumers that take it for an object panic during evaluation", m.v.Name(), what)
				}
				return true
			})
		}
	}
	c.Floor(rule, sites, 5, "attributes created for a user DSL function and kept, in package dsl")
}

// testsTypeFirst: the callee's first statement compares the Type of the parameter that receives v with nil.
func testsTypeFirst(callee *an.Func, call *ast.CallExpr, v types.Object, info *types.Info) bool {
	pi := -1
	for i, a := range call.Args {
		if an.ObjOf(info, an.Unparen(a)) == v {
			pi = i
		}
	}
	sig := callee.Obj.Type().(*types.Signature)
	if pi < 0 || pi >= sig.Params().Len() || len(callee.Decl.Body.List) == 0 {
		return false
	}
	is, ok := callee.Decl.Body.List[0].(*ast.IfStmt)
	if !ok {
		return false
	}
	x, notNil, isCmp := an.NilCompare(callee.Pkg.TypesInfo, is.Cond)
	if !isCmp || notNil {
		return false
	}
	se, ok := an.Unparen(x).(*ast.SelectorExpr)
	return ok && se.Sel.Name == "Type" && an.ObjOf(callee.Pkg.TypesInfo, an.Unparen(se.X)) == sig.Params().At(pi)
}
