package props

import (
	"fmt"
	"go/ast"
	"go/token"
	"go/types"
	"sort"
	"strings"

	"goacheck/an"
)

func init() { Registry["C11"] = runC11 }

const explanationC11 = "Decides structural necessary conditions of C11 on eval.RunDSL and its helpers: (R11.1) phase barrier — in RunDSL's CFG no call of a later phase (prepare/validate/finalize, by resolved callee or by the function value passed to WalkSets) can reach a call of an earlier phase, each later phase calls both the root-level set and WalkSets, and ranges over the whole root list obtained from Context.Roots; (R11.2) the Context.Errors gates sit between phases (everything that reaches a gate is of a strictly earlier phase than everything its nil branch reaches), execute→prepare and validate→finalize are separated by such a gate, and the error of Roots() is returned before any phase call; (R11.3) the four set runners have no break/return inside their range loops, validateSet records after its loop, Context.Record appends; (R11.4) each runner asserts its own interface and calls that interface's method; (R11.5) the execute loop re-reads Context.Roots() so that roots registered during execution are picked up and the later phases range over that re-read list; (R11.6) the dependency callbacks passed to sortDependencies depend on their argument; (R11.7) sortDependenciesR appends a root after recursing into its dependencies; (R11.8) every dependency flattening gets a visited set of its own (none shared across the loop over the roots); (R11.9) the cycle check skips only the pair of a root with itself; (R11.10) sortDependenciesR tests the dependency it descends into; (R11.11) runSet counts every element its inner loop consumes. (R11.12) every package-level variable of package eval that is written during evaluation is re-initialised by Reset. (R11.13) every DependsOn returns its list unconditionally (the roots are ordered before anything is evaluated). NOT decided: that Roots() returns a topological order and detects every cycle for every graph (a semantic claim about an algorithm over all graphs), termination, and what DSL functions do."

var phaseRunners = map[string]int{"runSet": 0, "prepareSet": 1, "validateSet": 2, "finalizeSet": 3}
var phaseNames = []string{"execute", "prepare", "validate", "finalize"}

// phaseOfCall classifies a call in RunDSL: direct call of a runner, or
// X.WalkSets(runner).
func phaseOfCall(info *types.Info, call *ast.CallExpr) (phase int, form string, ok bool) {
	evalPkg := an.P("eval")
	if o := an.Callee(info, call); o != nil && o.Pkg() != nil && o.Pkg().Path() == evalPkg {
		if p, is := phaseRunners[o.Name()]; is {
			if _, isFunc := o.(*types.Func); isFunc && o.Parent() == o.Pkg().Scope() {
				return p, "direct", true
			}
		}
	}
	if sel, isSel := an.Unparen(call.Fun).(*ast.SelectorExpr); isSel && sel.Sel.Name == "WalkSets" && len(call.Args) == 1 {
		if o := an.ObjOf(info, call.Args[0]); o != nil && o.Pkg() != nil && o.Pkg().Path() == evalPkg {
			if p, is := phaseRunners[o.Name()]; is {
				return p, "walk", true
			}
		}
	}
	return 0, "", false
}

func runC11(c *an.Ctx) string {
	r11RunDSL(c)
	r11Runners(c)
	r11Record(c)
	r11Roots(c)
	r11RootsLoops(c)
	r11Progress(c)
	r11ResetState(c)
	r11StaticDependencies(c, "R11.13")
	r11RootIdentity(c, "R11.14")
	return explanationC11
}

func r11RunDSL(c *an.Ctx) {
	f := c.MustFunc("R11.1", "eval", "RunDSL")
	if f == nil {
		return
	}
	info := f.Pkg.TypesInfo
	g := an.NewCFG(info, f.Decl.Body)
	type pc struct {
		loc   an.Loc
		call  *ast.CallExpr
		phase int
		form  string
		via   bool // the call is a call of a helper that contains the phase call
	}
	var calls []pc
	// a helper extracted from RunDSL since the reference tree stands for the phase calls it contains
	helperPhases := func(call *ast.CallExpr) [][2]string {
		h := c.FuncOfObj(an.Callee(info, call))
		if h == nil || !c.IsNewFunc(h) {
			return nil
		}
		var out [][2]string
		seen := map[string]bool{}
		c.InspectAll(h, func(hf *an.Func, n ast.Node) bool {
			if hc, ok := n.(*ast.CallExpr); ok {
				if p, form, ok := phaseOfCall(hf.Pkg.TypesInfo, hc); ok {
					k := fmt.Sprintf("%d/%s", p, form)
					if !seen[k] {
						seen[k] = true
						out = append(out, [2]string{fmt.Sprint(p), form})
					}
				}
			}
			return true
		})
		// a helper that takes the phase as an argument (walkRoots(roots, prepareSet)): the phase is the one named at
		// the call, the forms are those in which the helper uses its parameter
		hinfo := h.Pkg.TypesInfo
		sig := h.Obj.Type().(*types.Signature)
		for k, a := range call.Args {
			o := an.ObjOf(info, an.Unparen(a))
			if o == nil || o.Pkg() == nil || o.Pkg().Path() != an.P("eval") || k >= sig.Params().Len() {
				continue
			}
			ph, isPhase := phaseRunners[o.Name()]
			if _, isFunc := o.(*types.Func); !isPhase || !isFunc {
				continue
			}
			param := sig.Params().At(k)
			ast.Inspect(h.Decl.Body, func(n ast.Node) bool {
				hc, ok := n.(*ast.CallExpr)
				if !ok {
					return true
				}
				form := ""
				if an.ObjOf(hinfo, an.Unparen(hc.Fun)) == param {
					form = "direct"
				}
				if sel, isSel := an.Unparen(hc.Fun).(*ast.SelectorExpr); isSel && sel.Sel.Name == "WalkSets" && len(hc.Args) == 1 && an.ObjOf(hinfo, an.Unparen(hc.Args[0])) == param {
					form = "walk"
				}
				if form != "" {
					key := fmt.Sprintf("%d/%s", ph, form)
					if !seen[key] {
						seen[key] = true
						out = append(out, [2]string{fmt.Sprint(ph), form})
					}
				}
				return true
			})
		}
		return out
	}
	// wholeListVia: the helper called here ranges over one of its parameters, the call passes rootsVar for it, and what
	// the helper does with its function parameter it does to the loop's root
	wholeListVia := func(call *ast.CallExpr, rootsVar types.Object) bool {
		h := c.FuncOfObj(an.Callee(info, call))
		if h == nil {
			return false
		}
		hinfo := h.Pkg.TypesInfo
		sig := h.Obj.Type().(*types.Signature)
		ok := false
		ast.Inspect(h.Decl.Body, func(n ast.Node) bool {
			r, isR := n.(*ast.RangeStmt)
			if !isR {
				return true
			}
			for k := 0; k < sig.Params().Len() && k < len(call.Args); k++ {
				if an.ObjOf(hinfo, an.Unparen(r.X)) == sig.Params().At(k) && an.ObjOf(info, an.Unparen(call.Args[k])) == rootsVar {
					rv := an.ObjOf(hinfo, r.Value)
					usesRoot := false
					ast.Inspect(r.Body, func(m ast.Node) bool {
						if id, isId := m.(*ast.Ident); isId && rv != nil && hinfo.Uses[id] == rv {
							usesRoot = true
						}
						return true
					})
					if usesRoot {
						ok = true
					}
				}
			}
			return true
		})
		return ok
	}
	locs, cs := g.FindCalls(func(call *ast.CallExpr) bool {
		_, _, ok := phaseOfCall(info, call)
		return ok || len(helperPhases(call)) > 0
	})
	for i, l := range locs {
		if p, form, ok := phaseOfCall(info, cs[i]); ok {
			calls = append(calls, pc{l, cs[i], p, form, false})
			continue
		}
		for _, hp := range helperPhases(cs[i]) {
			ph := 0
			fmt.Sscan(hp[0], &ph)
			calls = append(calls, pc{l, cs[i], ph, hp[1], true})
		}
	}
	// R11.1 ORDER
	var orderProbs []string
	for _, a := range calls {
		for _, b := range calls {
			if a.phase > b.phase && g.Reaches(a.loc, b.loc, nil) {
				orderProbs = append(orderProbs, fmt.Sprintf("%s call at %s can be followed by %s call at %s", phaseNames[a.phase], c.Position(a.call.Pos()), phaseNames[b.phase], c.Position(b.call.Pos())))
			}
		}
	}
	if len(orderProbs) > 0 {
		c.Failf("R11.1", f.Name+"#order", f.Decl.Pos(), "%s", strings.Join(dedupStrings(orderProbs)[:min(3, len(dedupStrings(orderProbs)))], " | "))
	} else {
		c.Okf("R11.1", f.Name+"#order", "%d phase calls: no later-phase call can reach an earlier-phase call", len(calls))
	}
	// both forms per later phase, execute has walk form
	forms := map[string]bool{}
	for _, pcall := range calls {
		forms[fmt.Sprintf("%d/%s", pcall.phase, pcall.form)] = true
	}
	for ph := 0; ph < 4; ph++ {
		need := []string{"walk"}
		if ph > 0 {
			need = []string{"direct", "walk"}
		}
		for _, fm := range need {
			c.Check(forms[fmt.Sprintf("%d/%s", ph, fm)], "R11.1", fmt.Sprintf("%s#%s-%s", f.Name, phaseNames[ph], fm), f.Decl.Pos(),
				fmt.Sprintf("%s phase runs on %s", phaseNames[ph], map[string]string{"direct": "the root itself (ExpressionSet{root})", "walk": "every expression set of the root (WalkSets)"}[fm]),
				fmt.Sprintf("RunDSL has no %s-form call for the %s phase", fm, phaseNames[ph]))
		}
	}
	// the roots variable: assigned from Context.Roots()
	rootsCalls := 0
	var rootsVar types.Object
	var rootsDefs []struct {
		loc an.Loc
		err types.Object
	}
	for _, b := range g.Live() {
		for i, n := range b.Nodes {
			as, ok := n.(*ast.AssignStmt)
			if !ok || len(as.Rhs) != 1 || len(as.Lhs) != 2 {
				continue
			}
			call, ok := an.Unparen(as.Rhs[0]).(*ast.CallExpr)
			if !ok || an.CalleeName(info, call) != "(*"+an.P("eval")+".DSLContext).Roots" {
				continue
			}
			rootsCalls++
			v := an.ObjOf(info, as.Lhs[0])
			if rootsVar == nil {
				rootsVar = v
			} else if v != rootsVar {
				c.Failf("R11.5", f.Name+"#roots-var", as.Pos(), "Context.Roots() results are stored in different variables")
			}
			rootsDefs = append(rootsDefs, struct {
				loc an.Loc
				err types.Object
			}{an.Loc{Block: b, Idx: i}, an.ObjOf(info, as.Lhs[1])})
		}
	}
	if rootsVar == nil {
		c.Failf("R11.1", f.Name+"#roots", f.Decl.Pos(), "no `roots, err := Context.Roots()` assignment found")
		return
	}
	// whole-list loops: each later-phase call sits in a range over rootsVar
	var loopProbs []string
	for _, pcall := range calls {
		var rng *ast.RangeStmt
		for n := ast.Node(pcall.call); n != nil; n = g.Parent[n] {
			if r, ok := n.(*ast.RangeStmt); ok {
				rng = r
				break
			}
		}
		if rng == nil && pcall.via && pcall.phase == 0 {
			continue // the execute loop lives in the helper (R11.5 looks at it there)
		}
		if rng == nil && pcall.via && wholeListVia(pcall.call, rootsVar) {
			continue // the loop over the whole root list lives in the helper, which is handed the list
		}
		if rng == nil {
			loopProbs = append(loopProbs, fmt.Sprintf("%s call at %s is not inside a range over the roots", phaseNames[pcall.phase], c.Position(pcall.call.Pos())))
			continue
		}
		if pcall.phase == 0 {
			continue // the execute loop ranges over the pending roots
		}
		if an.ObjOf(info, rng.X) != rootsVar {
			loopProbs = append(loopProbs, fmt.Sprintf("%s loop ranges over %s, not over the whole root list", phaseNames[pcall.phase], an.Src(c.Fset, rng.X)))
		}
		// receiver / argument is the range variable
		rv := an.ObjOf(info, rng.Value)
		uses := false
		ast.Inspect(pcall.call, func(n ast.Node) bool {
			if id, ok := n.(*ast.Ident); ok && rv != nil && info.Uses[id] == rv {
				uses = true
			}
			return true
		})
		if !uses {
			loopProbs = append(loopProbs, fmt.Sprintf("%s call at %s does not use the loop's root", phaseNames[pcall.phase], c.Position(pcall.call.Pos())))
		}
	}
	if len(loopProbs) > 0 {
		c.Failf("R11.1", f.Name+"#whole-list", f.Decl.Pos(), "%s", strings.Join(loopProbs[:min(3, len(loopProbs))], " | "))
	} else {
		c.Okf("R11.1", f.Name+"#whole-list", "prepare/validate/finalize loops range over the whole root list and act on the loop's root")
	}

	// R11.2 gates on Context.Errors
	type gate struct {
		block            an.Loc
		nonNil, nilBlock an.Loc
	}
	var gates []gate
	for _, b := range g.Live() {
		br, ok := g.BranchOf(b)
		if !ok || br.Tag != nil {
			continue
		}
		x, notNil, ok := an.NilCompare(info, br.Cond)
		if !ok {
			continue
		}
		fv := an.FieldOf(info, x)
		if fv == nil || fv.Name() != "Errors" || fv.Pkg().Path() != an.P("eval") {
			continue
		}
		gt := gate{block: an.Loc{Block: b, Idx: len(b.Nodes) - 1}}
		if notNil {
			gt.nonNil, gt.nilBlock = an.Loc{Block: br.True, Idx: -1}, an.Loc{Block: br.Else, Idx: -1}
		} else {
			gt.nonNil, gt.nilBlock = an.Loc{Block: br.Else, Idx: -1}, an.Loc{Block: br.True, Idx: -1}
		}
		gates = append(gates, gt)
	}
	c.Floor("R11.2", len(gates), 2, "Context.Errors gates in RunDSL")
	isGate := func(l an.Loc) bool {
		for _, gt := range gates {
			if l == gt.block {
				return true
			}
		}
		return false
	}
	// each gate sits between phases and its non-nil branch runs no phase call
	for gi, gt := range gates {
		before, after := -1, 4
		for _, pcall := range calls {
			if g.Reaches(pcall.loc, gt.block, nil) && pcall.phase > before {
				before = pcall.phase
			}
			if g.Reaches(gt.nilBlock, pcall.loc, nil) && pcall.phase < after {
				after = pcall.phase
			}
		}
		name := fmt.Sprintf("%s#errors-gate-%d", f.Name, gi+1)
		pos := g.PosLoc(gt.block)
		if before >= after {
			c.Failf("R11.2", name, pos, "the gate is tested while the %s phase is still running (its nil branch reaches a %s call): errors of a phase are not collected for all roots before they are tested", phaseNames[before], phaseNames[after])
			continue
		}
		leak := ""
		for _, pcall := range calls {
			if g.Reaches(gt.nonNil, pcall.loc, nil) {
				leak = phaseNames[pcall.phase]
			}
		}
		if leak != "" {
			c.Failf("R11.2", name, pos, "a %s call is reachable from the branch taken when errors were recorded", leak)
			continue
		}
		bs := "start"
		if before >= 0 {
			bs = phaseNames[before]
		}
		as := "end"
		if after < 4 {
			as = phaseNames[after]
		}
		c.Okf("R11.2", name, "gate sits between %s and %s; its error branch reaches no phase call", bs, as)
	}
	// execute→prepare and validate→finalize cannot bypass a gate
	for _, pair := range [][2]int{{0, 1}, {2, 3}} {
		bypass := ""
		for _, a := range calls {
			if a.phase != pair[0] {
				continue
			}
			for _, b := range calls {
				if b.phase != pair[1] {
					continue
				}
				if g.Reaches(a.loc, b.loc, isGate) {
					bypass = fmt.Sprintf("%s → %s", c.Position(a.call.Pos()), c.Position(b.call.Pos()))
				}
			}
		}
		name := fmt.Sprintf("%s#gate-%s-%s", f.Name, phaseNames[pair[0]], phaseNames[pair[1]])
		c.Check(bypass == "", "R11.2", name, f.Decl.Pos(),
			fmt.Sprintf("every path from %s to %s tests Context.Errors", phaseNames[pair[0]], phaseNames[pair[1]]),
			fmt.Sprintf("%s can follow %s without testing Context.Errors (%s)", phaseNames[pair[1]], phaseNames[pair[0]], bypass))
	}
	// Roots() error gated before any phase call
	var targets []an.Loc
	for _, pcall := range calls {
		targets = append(targets, pcall.loc)
	}
	for i, d := range rootsDefs {
		bad := g.ErrGated(d.loc, d.err, targets)
		name := fmt.Sprintf("%s#roots-error-%d", f.Name, i+1)
		if d.err == nil {
			c.Failf("R11.2", name, g.PosLoc(d.loc), "the error of Context.Roots() is discarded")
			continue
		}
		c.Check(len(bad) == 0, "R11.2", name, g.PosLoc(d.loc), "the error of Context.Roots() (dependency cycle) is returned before any phase call",
			"a phase call is reachable without testing the error of Context.Roots()")
	}
	// R11.5 re-read inside the execute loop
	reread := false
	for _, d := range rootsDefs {
		for _, a := range calls {
			if a.phase == 0 && g.Reaches(a.loc, d.loc, nil) && g.Reaches(d.loc, a.loc, nil) {
				reread = true
			}
		}
	}
	if !reread {
		// the execute loop may have moved into a helper: the same test in the helper's own graph, and the list
		// the helper returns must be the one RunDSL goes on with
		for _, h := range c.WithNewHelpers(f)[1:] {
			hinfo := h.Pkg.TypesInfo
			hg := an.NewCFG(hinfo, h.Decl.Body)
			var defs, execs []an.Loc
			for _, b := range hg.Live() {
				for i, n := range b.Nodes {
					if as, ok := n.(*ast.AssignStmt); ok && len(as.Rhs) == 1 {
						if call, ok := an.Unparen(as.Rhs[0]).(*ast.CallExpr); ok && an.CalleeName(hinfo, call) == "(*"+an.P("eval")+".DSLContext).Roots" {
							defs = append(defs, an.Loc{Block: b, Idx: i})
						}
					}
					for _, call := range an.CallsIn(n) {
						if p, _, ok := phaseOfCall(hinfo, call); ok && p == 0 {
							execs = append(execs, an.Loc{Block: b, Idx: i})
						}
					}
				}
			}
			inLoop := false
			for _, d := range defs {
				for _, a := range execs {
					if hg.Reaches(a, d, nil) && hg.Reaches(d, a, nil) {
						inLoop = true
					}
				}
			}
			// RunDSL assigns the helper's result to its roots variable
			assigned := false
			ast.Inspect(f.Decl.Body, func(n ast.Node) bool {
				if as, ok := n.(*ast.AssignStmt); ok && len(as.Rhs) == 1 && len(as.Lhs) >= 1 {
					if call, ok := an.Unparen(as.Rhs[0]).(*ast.CallExpr); ok && an.Callee(info, call) == types.Object(h.Obj) && an.ObjOf(info, as.Lhs[0]) == rootsVar {
						assigned = true
					}
				}
				return true
			})
			if inLoop && assigned {
				reread = true
			}
		}
	}
	c.Check(reread, "R11.5", f.Name+"#re-read-roots", f.Decl.Pos(),
		"the execute loop re-reads Context.Roots() after running DSLs, so roots registered during execution are executed and reach the later phases",
		"Context.Roots() is never re-read inside the execute loop: roots registered while the DSL runs are ignored by every phase")
}

// loopExits returns break/return/goto statements that leave the given range
// loop body.
func loopExits(body *ast.BlockStmt) []ast.Node {
	var out []ast.Node
	var walk func(n ast.Node, breakable bool)
	walk = func(n ast.Node, breakable bool) {
		ast.Inspect(n, func(x ast.Node) bool {
			switch s := x.(type) {
			case *ast.FuncLit:
				return false
			case *ast.ReturnStmt:
				out = append(out, s)
			case *ast.BranchStmt:
				if s.Tok == token.GOTO || (s.Tok == token.BREAK && (s.Label != nil || !breakable)) {
					out = append(out, s)
				}
			case *ast.ForStmt:
				if x != n {
					walk(s.Body, true)
					return false
				}
			case *ast.RangeStmt:
				if x != n {
					walk(s.Body, true)
					return false
				}
			case *ast.SwitchStmt:
				if x != n {
					walk(s.Body, true)
					return false
				}
			case *ast.TypeSwitchStmt:
				if x != n {
					walk(s.Body, true)
					return false
				}
			case *ast.SelectStmt:
				if x != n {
					walk(s.Body, true)
					return false
				}
			}
			return true
		})
	}
	walk(body, false)
	return out
}

func r11Runners(c *an.Ctx) {
	table := []struct{ fn, iface, method string }{
		{"runSet", "Source", "DSL"}, {"prepareSet", "Preparer", "Prepare"},
		{"validateSet", "Validator", "Validate"}, {"finalizeSet", "Finalizer", "Finalize"},
	}
	for _, row := range table {
		f := c.MustFunc("R11.3", "eval", row.fn)
		if f == nil {
			continue
		}
		info := f.Pkg.TypesInfo
		// R11.3 no early exit from range loops over the set
		nLoops := 0
		var exits []string
		for _, l := range setLoops(c, f) {
			nLoops++
			for _, e := range loopExits(l.body) {
				exits = append(exits, fmt.Sprintf("%s at %s", an.Src(c.Fset, e), c.Position(e.Pos())))
			}
		}
		if nLoops == 0 {
			c.Failf("R11.3", "eval."+row.fn+"#loop", f.Decl.Pos(), "no range loop over the set found")
		} else if len(exits) > 0 {
			c.Failf("R11.3", "eval."+row.fn+"#loop", f.Decl.Pos(), "the loop over the expression set can be left early (%s): later expressions of the set skip the %s phase", strings.Join(exits, ", "), row.method)
		} else {
			c.Okf("R11.3", "eval."+row.fn+"#loop", "the range over the expression set has no break/return/goto: every expression of the set is visited")
		}
		// R11.4 interface/method pairing
		var asserted []string
		var methods []string
		// a runner written as eachOf(set, Preparer.Prepare): a generic helper asserts its type parameter and calls
		// the function it is given; the method expression names both the interface and the method
		assertsTypeParam, callsFuncParam := false, false
		var methodExprs [][2]string
		c.InspectAll(f, func(hf *an.Func, n ast.Node) bool {
			hinfo := hf.Pkg.TypesInfo
			switch x := n.(type) {
			case *ast.TypeAssertExpr:
				if x.Type != nil && hf != f {
					if tv, ok := hinfo.Types[x.Type]; ok {
						if _, isTP := tv.Type.(*types.TypeParam); isTP {
							assertsTypeParam = true
						}
					}
				}
			case *ast.CallExpr:
				if hf != f {
					if v, ok := an.ObjOf(hinfo, an.Unparen(x.Fun)).(*types.Var); ok && paramIndex(hf, x.Fun) >= 0 {
						if _, isSig := v.Type().Underlying().(*types.Signature); isSig {
							callsFuncParam = true
						}
					}
				}
			case *ast.SelectorExpr:
				if hf == f {
					if sel, ok := hinfo.Selections[x]; ok && sel.Kind() == types.MethodExpr {
						if recv := an.NamedTypeName(sel.Recv()); strings.HasPrefix(recv, an.P("eval")+".") {
							methodExprs = append(methodExprs, [2]string{recv, x.Sel.Name})
						}
					}
				}
			}
			return true
		})
		if assertsTypeParam && callsFuncParam {
			for _, me := range methodExprs {
				asserted = append(asserted, me[0])
				methods = append(methods, strings.TrimPrefix(me[0], an.P("eval")+".")+"."+me[1])
			}
		}
		ast.Inspect(f.Decl.Body, func(n ast.Node) bool {
			switch x := n.(type) {
			case *ast.TypeAssertExpr:
				if x.Type != nil {
					if tv, ok := info.Types[x.Type]; ok {
						asserted = append(asserted, an.NamedTypeName(tv.Type))
					}
				}
			case *ast.CallExpr:
				if sel, ok := an.Unparen(x.Fun).(*ast.SelectorExpr); ok {
					if s, ok := info.Selections[sel]; ok && s.Kind() == types.MethodVal {
						if recv := an.NamedTypeName(s.Recv()); strings.HasPrefix(recv, an.P("eval")+".") {
							if _, isIface := s.Recv().Underlying().(*types.Interface); isIface {
								methods = append(methods, strings.TrimPrefix(recv, an.P("eval")+".")+"."+sel.Sel.Name)
							}
						}
					}
				}
			}
			return true
		})
		sort.Strings(methods)
		wantA := an.P("eval") + "." + row.iface
		okA := len(asserted) == 1 && asserted[0] == wantA
		okM := false
		for _, m := range methods {
			if m == row.iface+"."+row.method {
				okM = true
			}
		}
		c.Check(okA && okM, "R11.4", "eval."+row.fn+"#dispatch", f.Decl.Pos(),
			fmt.Sprintf("asserts eval.%s and calls %s on it", row.iface, row.method),
			fmt.Sprintf("expected assertion to eval.%s and a call of %s.%s; found assertions %v and interface calls %v", row.iface, row.iface, row.method, asserted, methods))
	}
	// validateSet: AddError inside the loop, Record after it
	if f := c.Func("eval", "validateSet"); f != nil {
		info := f.Pkg.TypesInfo
		var rng *ast.RangeStmt
		ast.Inspect(f.Decl.Body, func(n ast.Node) bool {
			if r, ok := n.(*ast.RangeStmt); ok && rng == nil {
				rng = r
			}
			return true
		})
		addIn, recAfter, recIn := false, false, false
		for _, call := range an.AllCallsIn(f.Decl.Body) {
			name := an.CalleeName(info, call)
			in := rng != nil && rng.Body.Pos() <= call.Pos() && call.End() <= rng.Body.End()
			switch name {
			case "(*" + an.P("eval") + ".ValidationErrors).AddError", "(*" + an.P("eval") + ".ValidationErrors).Add", "(*" + an.P("eval") + ".ValidationErrors).Merge":
				if in {
					addIn = true
				}
			case "(*" + an.P("eval") + ".DSLContext).Record":
				if in {
					recIn = true
				} else if rng != nil && call.Pos() > rng.End() {
					recAfter = true
				}
			}
		}
		c.Check(addIn && recAfter && !recIn, "R11.3", "eval.validateSet#collect", f.Decl.Pos(),
			"validation errors are accumulated inside the loop and recorded once after it",
			fmt.Sprintf("accumulate-in-loop=%v record-after-loop=%v record-in-loop=%v", addIn, recAfter, recIn))
	}
}

func r11Record(c *an.Ctx) {
	f := c.MustFunc("R11.3", "eval", "DSLContext.Record")
	if f == nil {
		return
	}
	t := an.BuildPathTable(c.SSAFunc(f), an.PathOpts{})
	c.Stats["paths_enumerated"] += len(t.Paths)
	var probs []string
	for i := range t.Paths {
		p := &t.Paths[i]
		var stores []string
		for _, e := range p.Effects {
			if e.Kind == "store" && strings.HasPrefix(e.Term, "p0.Errors = ") {
				stores = append(stores, strings.TrimPrefix(e.Term, "p0.Errors = "))
			}
		}
		if len(stores) != 1 {
			probs = append(probs, fmt.Sprintf("path [%s] stores Errors %d times", p.GuardString(), len(stores)))
			continue
		}
		isNil, known := false, false
		for _, a := range p.Atoms {
			if a.Term == "(p0.Errors == nil)" {
				isNil, known = a.Val, true
			}
		}
		v := stores[0]
		if v == "append(p0.Errors, [p1]...)" || v == "append(p0.Errors, p1)" {
			continue // appending is right whatever the list holds
		}
		if !(known && isNil) {
			probs = append(probs, fmt.Sprintf("path [%s] overwrites the recorded errors with %s", p.GuardString(), v))
		}
	}
	if len(t.Paths) == 0 || t.Truncated {
		probs = append(probs, "cannot table Record")
	}
	if len(probs) > 0 {
		c.Failf("R11.3", f.Name, f.Decl.Pos(), "%s", strings.Join(probs, " | "))
	} else {
		c.Okf("R11.3", f.Name, "Record appends to the error list; it assigns a fresh list only when none exists (%d paths)", len(t.Paths))
	}
}

func r11Roots(c *an.Ctx) {
	f := c.MustFunc("R11.6", "eval", "DSLContext.Roots")
	if f != nil {
		_ = f.Pkg.TypesInfo
		n := 0
		var depCalls []*ast.CallExpr
		var depFuncs []*an.Func
		for _, hf := range c.WithNewHelpers(f) { // Roots and the helpers extracted from it (flattenDependencies …)
			for _, call := range an.AllCallsIn(hf.Decl.Body) {
				if an.CalleeName(hf.Pkg.TypesInfo, call) == an.P("eval")+".sortDependencies" {
					depCalls = append(depCalls, call)
					depFuncs = append(depFuncs, hf)
				}
			}
		}
		for ci, call := range depCalls {
			f, info := depFuncs[ci], depFuncs[ci].Pkg.TypesInfo
			for _, a := range call.Args {
				a = an.Unparen(an.ResolveLocalOnce(info, f.Decl.Body, a)) // a closure held in a local variable
				if se, isSel := a.(*ast.SelectorExpr); isSel {
					// a method expression of the Root interface (Root.DependsOn): its argument is the root it is asked about
					if sel, ok := info.Selections[se]; ok && sel.Kind() == types.MethodExpr {
						n++
						c.Okf("R11.6", fmt.Sprintf("%s#depfunc-%d", f.Name, n), "the dependency callback is the method %s of its argument", types.ExprString(se))
					}
					continue
				}
				fl, ok := a.(*ast.FuncLit)
				if !ok {
					continue
				}
				n++
				var unused []string
				for _, fld := range fl.Type.Params.List {
					for _, nm := range fld.Names {
						obj := info.Defs[nm]
						used := false
						ast.Inspect(fl.Body, func(x ast.Node) bool {
							if id, ok := x.(*ast.Ident); ok && info.Uses[id] == obj {
								used = true
							}
							return true
						})
						if !used {
							unused = append(unused, nm.Name)
						}
					}
					if len(fld.Names) == 0 {
						unused = append(unused, "_")
					}
				}
				name := fmt.Sprintf("%s#depfunc-%d", f.Name, n)
				c.Check(len(unused) == 0, "R11.6", name, fl.Pos(), "the dependency callback computes the dependencies of its argument",
					fmt.Sprintf("the dependency callback ignores its argument (%s): every root is given the same dependency list", strings.Join(unused, ",")))
			}
		}
		c.Floor("R11.6", n, 2, "dependency callbacks passed to sortDependencies")
	}
	g := recursiveSorter(c, "R11.7")
	if g != nil {
		info := g.Pkg.TypesInfo
		cg := an.NewCFG(info, g.Decl.Body)
		recLocs, _ := cg.FindCalls(func(call *ast.CallExpr) bool { return an.Callee(info, call) == types.Object(g.Obj) })
		appLocs, appCalls := cg.FindCalls(func(call *ast.CallExpr) bool {
			id, ok := an.Unparen(call.Fun).(*ast.Ident)
			if !ok || id.Name != "append" {
				return false
			}
			// appends the function's own root parameter
			for _, a := range call.Args[1:] {
				if paramIndex(g, a) == 0 {
					return true
				}
			}
			return false
		})
		bad := false
		for _, a := range appLocs {
			for _, r := range recLocs {
				if cg.Reaches(a, r, nil) {
					bad = true
				}
			}
		}
		switch {
		case len(recLocs) == 0 || len(appCalls) == 0:
			c.Failf("R11.7", g.Name, g.Decl.Pos(), "recursive call (%d) or append of the root (%d) not found", len(recLocs), len(appCalls))
		case bad:
			c.Failf("R11.7", g.Name, g.Decl.Pos(), "the root is appended before recursing into its dependencies: dependencies would come after the root")
		default:
			c.Okf("R11.7", g.Name, "the root is appended only after the recursion over its dependencies (dependencies first)")
		}
	}
}

// r11RootsLoops (R11.8, R11.9): (R11.8) every dependency flattening starts from
// its own visited set - a map handed to sortDependencies/sortDependenciesR from
// inside a loop is created inside that loop's body (or by the callee); a set
// shared by the iterations makes the order, and what each root's list contains,
// depend on which roots were flattened before. (R11.9) the cycle check examines
// every ordered pair of distinct roots: in the loop that returns the
// dependency-cycle error the only `continue` skips the pair of a root with
// itself (an equality of two EvalName() calls) and there is no break out of the
// pair loops.
func r11RootsLoops(c *an.Ctx) {
	f := c.MustFunc("R11.8", "eval", "DSLContext.Roots")
	if f == nil {
		return
	}
	info := f.Pkg.TypesInfo
	parent := an.ParentMap(f.Decl.Body)
	enclosingLoop := func(n ast.Node) ast.Node {
		for p := parent[n]; p != nil; p = parent[p] {
			switch p.(type) {
			case *ast.ForStmt, *ast.RangeStmt:
				return p
			case *ast.FuncLit:
				return nil
			}
		}
		return nil
	}
	n := 0
	for _, fn := range []*an.Func{f, c.Func("eval", "sortDependencies")} {
		if fn == nil {
			continue
		}
		finfo := fn.Pkg.TypesInfo
		par := parent
		if fn != f {
			par = an.ParentMap(fn.Decl.Body)
		}
		_ = par
		ast.Inspect(fn.Decl.Body, func(nd ast.Node) bool {
			call, ok := nd.(*ast.CallExpr)
			if !ok {
				return true
			}
			name := an.CalleeName(finfo, call)
			if name != an.P("eval")+".sortDependencies" && name != an.P("eval")+".sortDependenciesR" {
				return true
			}
			for _, a := range call.Args {
				t := finfo.TypeOf(a)
				if t == nil {
					continue
				}
				if _, isMap := t.Underlying().(*types.Map); !isMap {
					continue
				}
				n++
				construct := fmt.Sprintf("%s#visited(%s)", fn.Name, an.Src(c.Fset, a))
				fresh := false
				switch x := an.Unparen(a).(type) {
				case *ast.CallExpr, *ast.CompositeLit:
					fresh = true
				case *ast.Ident:
					o := finfo.Uses[x]
					var loop ast.Node
					if fn == f {
						loop = enclosingLoop(call)
					}
					if loop == nil {
						fresh = fn != f || o != nil // not in a loop: one flattening per call of the function
						if fn == f {
							fresh = true
						}
					} else if o != nil && o.Pos() >= loop.Pos() && o.Pos() <= loop.End() {
						fresh = true // declared inside the loop
					}
				}
				c.Check(fresh, "R11.8", construct, call.Pos(), "the flattening gets a visited set of its own", "the visited set passed to the dependency flattening is created outside the loop over the roots: roots visited while flattening one root are skipped when flattening the next, whose dependency list is then truncated and ordered before its dependencies")
			}
			return true
		})
	}
	_ = info
	// R11.9
	// the loop that returns the dependency-cycle error: in Roots itself, or in a helper extracted from it
	var cycleLoop *ast.RangeStmt
	for _, lf := range c.WithNewHelpers(f) {
		linfo := lf.Pkg.TypesInfo
		ast.Inspect(lf.Decl.Body, func(nd ast.Node) bool {
			rs, ok := nd.(*ast.RangeStmt)
			if !ok || cycleLoop != nil {
				return true
			}
			hasErr := false
			ast.Inspect(rs.Body, func(m ast.Node) bool {
				if ret, ok := m.(*ast.ReturnStmt); ok {
					for _, r := range ret.Results {
						if call, ok := an.Unparen(r).(*ast.CallExpr); ok {
							if cn := an.CalleeName(linfo, call); cn == "fmt.Errorf" || cn == "errors.New" {
								hasErr = true
							}
						}
					}
				}
				return true
			})
			if hasErr {
				cycleLoop = rs
				if lf != f {
					f = lf
					info = linfo
					parent = an.ParentMap(lf.Decl.Body)
				}
				return false
			}
			return true
		})
		if cycleLoop != nil {
			break
		}
	}
	if cycleLoop == nil {
		c.Add(an.Obligation{Rule: "R11.9", Construct: f.Name + "#cycle-check", Status: an.LOST, Detail: "no loop returning the dependency-cycle error found"})
		return
	}
	var probs []string
	// variables of the outer root (loop variables of the outer loop and locals derived from them before
	// the inner loop) and of the inner root (likewise for the first nested range)
	outerVars, innerVars := map[types.Object]bool{}, map[types.Object]bool{}
	addLoopVars := func(rs *ast.RangeStmt, set map[types.Object]bool) {
		for _, e := range []ast.Expr{rs.Key, rs.Value} {
			if o := an.ObjOf(info, e); o != nil {
				set[o] = true
			}
		}
	}
	derive := func(list []ast.Stmt, set map[types.Object]bool) {
		for _, st := range list {
			as, ok := st.(*ast.AssignStmt)
			if !ok || as.Tok != token.DEFINE {
				continue
			}
			uses := false
			for _, r := range as.Rhs {
				ast.Inspect(r, func(k ast.Node) bool {
					if id, ok := k.(*ast.Ident); ok && set[info.Uses[id]] {
						uses = true
					}
					return true
				})
			}
			if uses {
				for _, l := range as.Lhs {
					if o := an.ObjOf(info, l); o != nil {
						set[o] = true
					}
				}
			}
		}
	}
	addLoopVars(cycleLoop, outerVars)
	derive(cycleLoop.Body.List, outerVars)
	for _, st := range cycleLoop.Body.List {
		if inner, ok := st.(*ast.RangeStmt); ok {
			addLoopVars(inner, innerVars)
			derive(inner.Body.List, innerVars)
			break
		}
	}
	ast.Inspect(cycleLoop.Body, func(m ast.Node) bool {
		br, ok := m.(*ast.BranchStmt)
		if !ok {
			return true
		}
		is, _ := parent[parent[br]].(*ast.IfStmt)
		switch br.Tok {
		case token.CONTINUE:
			// a pair may be skipped on a condition about the PAIR - it mentions something of the outer
			// root (its name or its dependency list) and something of the inner one: the pair of a root
			// with itself, a root that does not depend on the other. A condition on one side only
			// (len(deps) <= 2) removes a root from the check altogether.
			okCond := false
			if is != nil && outerVars != nil {
				usesOuter, usesInner := false, false
				ast.Inspect(is.Cond, func(k ast.Node) bool {
					if id, ok := k.(*ast.Ident); ok {
						if o := info.Uses[id]; o != nil {
							if outerVars[o] {
								usesOuter = true
							}
							if innerVars[o] {
								usesInner = true
							}
						}
					}
					return true
				})
				okCond = usesOuter && usesInner
			}
			if !okCond {
				cond := "unconditionally"
				if is != nil {
					cond = "if " + an.Src(c.Fset, is.Cond)
				}
				probs = append(probs, "the cycle check skips a pair of roots "+cond+": pairs it skips are never tested for mutual dependency, and a cycle among them is accepted")
			}
		case token.BREAK:
			// a break is only the end of a membership search: it follows the assignment of the search flag
			blk, _ := parent[br].(*ast.BlockStmt)
			okBreak := false
			if blk != nil && len(blk.List) == 2 {
				if as, ok := blk.List[0].(*ast.AssignStmt); ok && len(as.Rhs) == 1 {
					if v, isConst := an.ConstBool(f.Pkg.TypesInfo, as.Rhs[0]); isConst && v {
						okBreak = true
					}
				}
			}
			if !okBreak {
				probs = append(probs, "the cycle check leaves a pair loop early (break not ending a membership search)")
			}
		}
		return true
	})
	report(c, "R11.9", f.Name+"#cycle-check", f, probs, "every ordered pair of distinct roots is tested for mutual dependency: the only skip is the pair of a root with itself")
}

// r11Progress (R11.10, R11.11). (R11.10) in sortDependenciesR the visited test
// is made on the dependency about to be descended into - the key of the lookup
// mentions the variable handed to the recursive call: testing anything else
// follows only the first dependency of each root, the others and the cycles
// through them are never seen. (R11.11) runSet resumes its outer loop at
// set[executed:], so executed must count every element the inner loop consumes:
// the increment comes before any statement that can leave the iteration, or elements are executed twice / the loop never
// ends when a set holds a nil entry.
func r11Progress(c *an.Ctx) {
	if f := recursiveSorter(c, "R11.10"); f != nil {
		info := f.Pkg.TypesInfo
		n := 0
		g := an.NewCFG(info, f.Decl.Body)
		ast.Inspect(f.Decl.Body, func(nd ast.Node) bool {
			// the recursive call and the visited test that guards it, whichever way it is written (`if !seen[k] { rec }` or
			// `if seen[k] { continue }; rec`): the facts that hold at the call
			call, ok := nd.(*ast.CallExpr)
			if !ok || an.Callee(info, call) != f.Obj || len(call.Args) == 0 {
				return true
			}
			visited := an.ObjOf(info, call.Args[0])
			if visited == nil {
				return true
			}
			facts, found := g.FactsFor(call)
			if !found {
				return true
			}
			guarded, mentions := false, false
			var guardSrc string
			for _, fc := range facts {
				ast.Inspect(fc.Cond, func(m ast.Node) bool {
					ix, ok := m.(*ast.IndexExpr)
					if !ok {
						return true
					}
					if _, isMap := info.Types[ix.X].Type.Underlying().(*types.Map); !isMap {
						return true
					}
					guarded = true
					guardSrc = an.Src(c.Fset, fc.Cond)
					ast.Inspect(an.ResolveLocal(info, f.Decl.Body, ix.Index), func(k ast.Node) bool {
						if id, ok := k.(*ast.Ident); ok && info.Uses[id] == visited {
							mentions = true
						}
						return true
					})
					return true
				})
			}
			if !guarded {
				return true
			}
			n++
			c.Check(mentions, "R11.10", f.Name+"#visited-test", call.Pos(), "the visited test is made on the dependency that is descended into", "the visited test `"+guardSrc+"` does not look at "+visited.Name()+", the dependency the guarded recursive call descends into: only the first dependency of every root is followed")
			return true
		})
		c.Floor("R11.10", n, 1, "guarded recursive descents in sortDependenciesR")
	}
	if f := c.MustFunc("R11.11", "eval", "runSet"); f != nil {
		info := f.Pkg.TypesInfo
		n := 0
		for _, l := range setLoops(c, f) {
			if l.counter == nil || l.f != f {
				continue
			}
			counter := l.counter
			n++
			first := false
			for _, st := range l.body.List {
				if inc, ok := st.(*ast.IncDecStmt); ok && inc.Tok == token.INC && an.ObjOf(info, inc.X) == counter {
					first = true
					break
				}
				// anything that can leave the iteration before the increment
				leaves := false
				ast.Inspect(st, func(m ast.Node) bool {
					switch m.(type) {
					case *ast.BranchStmt, *ast.ReturnStmt:
						leaves = true
					case *ast.FuncLit:
						return false
					}
					return true
				})
				if leaves {
					break
				}
			}
			c.Check(first, "R11.11", f.Name+"#progress("+counter.Name()+")", l.node.Pos(), "every element consumed by the inner loop is counted before anything can skip it", "the loop goes over the part of the set after "+counter.Name()+" but does not increment "+counter.Name()+" before the first statement that can leave the iteration: an element that is skipped before the increment is consumed without being counted, so later elements run twice or the outer loop never ends")
		}
		c.Floor("R11.11", n, 1, "resumable loops in runSet")
	}
}

// r11ResetState (R11.12): one evaluation must not see the state of the previous one. Every package-level variable
// of package eval that some function writes (assigns, indexes into, appends to) is re-initialised by eval.Reset:
// a table that is filled during RunDSL and survives Reset makes the phases of a later evaluation skip or repeat
// work ("already finalized").
func r11ResetState(c *an.Ctx) {
	const rule = "R11.12"
	p := c.Pkg("eval")
	reset := c.MustFunc(rule, "eval", "Reset")
	if p == nil || reset == nil {
		return
	}
	info := p.TypesInfo
	isGlobal := func(e ast.Expr) *types.Var {
		id := an.RootIdent(e)
		if id == nil {
			return nil
		}
		v, ok := an.ObjOf(info, id).(*types.Var)
		if !ok || v.Pkg() != p.Types || v.Parent() != p.Types.Scope() {
			return nil
		}
		return v
	}
	resetVars := map[*types.Var]bool{}
	ast.Inspect(reset.Decl.Body, func(n ast.Node) bool {
		if as, ok := n.(*ast.AssignStmt); ok {
			for _, l := range as.Lhs {
				if id, ok := an.Unparen(l).(*ast.Ident); ok {
					if v := isGlobal(id); v != nil {
						resetVars[v] = true
					}
				}
			}
		}
		return true
	})
	written := map[*types.Var]string{}
	for _, f := range c.AllFuncs("eval") {
		if f == reset || f.Obj.Name() == "init" {
			continue
		}
		ast.Inspect(f.Decl.Body, func(n ast.Node) bool {
			switch x := n.(type) {
			case *ast.AssignStmt:
				for _, l := range x.Lhs {
					if v := isGlobal(l); v != nil {
						if _, seen := written[v]; !seen {
							written[v] = c.Position(x.Pos())
						}
					}
				}
			case *ast.IncDecStmt:
				if v := isGlobal(x.X); v != nil {
					written[v] = c.Position(x.Pos())
				}
			case *ast.CallExpr:
				if id, ok := an.Unparen(x.Fun).(*ast.Ident); ok && (id.Name == "delete" || id.Name == "clear") && len(x.Args) > 0 {
					if v := isGlobal(x.Args[0]); v != nil {
						written[v] = c.Position(x.Pos())
					}
				}
			}
			return true
		})
	}
	n := 0
	for v, where := range written {
		n++
		// state reached through a variable that Reset replaces (Context.roots …) is reset with it
		c.Check(resetVars[v], rule, "eval."+v.Name(), v.Pos(), "written during evaluation and re-initialised by Reset", "package-level variable "+v.Name()+" is written at "+where+" but eval.Reset does not re-initialise it: its contents survive into the next evaluation of the same process")
	}
	c.Floor(rule, n, 1, "package-level variables of package eval written during evaluation")
}

// r11StaticDependencies (R11.13): the order of the roots is computed from DependsOn while nothing has been evaluated
// yet (eval.Context.Roots sorts on registration and before the first phase). A DependsOn that consults the state
// of its root answers for the empty state and the dependency is lost exactly when it matters. Every DependsOn of the
// module therefore has one path, without a condition: it returns the same list whatever has been evaluated.
func r11StaticDependencies(c *an.Ctx, rule string) {
	n := 0
	for _, d := range c.ModuleDirs() {
		for _, f := range c.AllFuncs(d) {
			if f.Decl.Recv == nil || f.Decl.Name.Name != "DependsOn" || f.Decl.Type.Params.NumFields() != 0 {
				continue
			}
			fn := c.SSAFunc(f)
			if fn == nil {
				continue
			}
			if res := fn.Signature.Results(); res.Len() != 1 || !strings.HasSuffix(res.At(0).Type().String(), "eval.Root") {
				continue
			}
			n++
			t := an.BuildPathTable(fn, an.PathOpts{})
			c.Stats["paths_enumerated"] += len(t.Paths)
			c.Stats["functions_tabled"]++
			if len(t.Paths) == 1 && len(t.Paths[0].Atoms) == 0 {
				c.Okf(rule, c.RefName(f), "one unconditional path: the dependencies do not depend on what has been evaluated (returns %s)", strings.Join(t.Paths[0].Ret, ","))
				continue
			}
			cond := ""
			for _, p := range t.Paths {
				if len(p.Atoms) > 0 {
					cond = p.GuardString()
					break
				}
			}
			c.Failf(rule, c.RefName(f), f.Decl.Pos(), "DependsOn decides under a condition [%s]: the roots are ordered before anything is evaluated, so the answer given for the empty state is the one that orders every run", cond)
		}
	}
	c.Floor(rule, n, 2, "DependsOn implementations")
}

// r11RootIdentity (R11.14): roots are told apart by name everywhere (RunDSL and Roots() key their tables by
// EvalName). Register must refuse a second root under a name already taken by comparing names too: two distinct
// root values that share a name would otherwise both be accepted, and the phases that look roots up by name process
// one of them twice and the other never. The duplicate test of Register compares the EvalName() of both roots.
func r11RootIdentity(c *an.Ctx, rule string) {
	f := c.MustFunc(rule, "eval", "Register")
	if f == nil {
		return
	}
	found := false
	c.InspectAll(f, func(hf *an.Func, n ast.Node) bool {
		be, ok := n.(*ast.BinaryExpr)
		if !ok || (be.Op != token.EQL && be.Op != token.NEQ) {
			return true
		}
		isName := func(e ast.Expr) bool {
			call, ok := an.Unparen(e).(*ast.CallExpr)
			if !ok {
				return false
			}
			se, ok := an.Unparen(call.Fun).(*ast.SelectorExpr)
			return ok && se.Sel.Name == "EvalName"
		}
		if isName(be.X) && isName(be.Y) {
			found = true
		}
		return true
	})
	c.Check(found, rule, c.RefName(f)+"#duplicate", f.Decl.Pos(), "a root is refused when another root of the same EvalName is registered", "Register no longer compares the EvalName of the new root with the names of the registered ones: two roots with one name are both accepted while every phase looks roots up by name")
}

// setLoop is a loop over (a part of) an expression set: `for _, def := range set[from:]` or the index form
// `for i := from; i < len(set); i++ { def := set[i] … }`, in the runner itself or in a helper extracted from it.
type setLoop struct {
	f       *an.Func
	node    ast.Node
	body    *ast.BlockStmt
	counter types.Object // the variable the loop resumes from (set[counter:] / i := counter), nil if it starts at 0
}

func setLoops(c *an.Ctx, f *an.Func) []setLoop {
	var out []setLoop
	c.InspectAll(f, func(hf *an.Func, n ast.Node) bool {
		info := hf.Pkg.TypesInfo
		switch x := n.(type) {
		case *ast.RangeStmt:
			l := setLoop{f: hf, node: x, body: x.Body}
			if sl, ok := an.Unparen(x.X).(*ast.SliceExpr); ok && sl.Low != nil {
				l.counter = an.ObjOf(info, sl.Low)
			}
			out = append(out, l)
		case *ast.ForStmt:
			// for i := from; i < hi; i++ with an element read set[i] in the body
			inc, ok := x.Post.(*ast.IncDecStmt)
			if !ok || inc.Tok != token.INC || x.Init == nil {
				return true
			}
			iv := an.ObjOf(info, inc.X)
			if iv == nil {
				return true
			}
			reads := false
			ast.Inspect(x.Body, func(m ast.Node) bool {
				if ix, ok := m.(*ast.IndexExpr); ok && an.ObjOf(info, an.Unparen(ix.Index)) == iv {
					if _, isSlice := info.TypeOf(ix.X).Underlying().(*types.Slice); isSlice {
						reads = true
					}
				}
				return true
			})
			if !reads {
				return true
			}
			l := setLoop{f: hf, node: x, body: x.Body}
			if as, ok := x.Init.(*ast.AssignStmt); ok {
				for k, lhs := range as.Lhs {
					if an.ObjOf(info, lhs) == iv && k < len(as.Rhs) {
						if id, ok := an.Unparen(as.Rhs[k]).(*ast.Ident); ok {
							if v, isVar := an.ObjOf(info, id).(*types.Var); isVar {
								l.counter = v
							}
						}
					}
				}
			}
			out = append(out, l)
		}
		return true
	})
	return out
}

// recursiveSorter returns the depth-first step of the dependency sort: sortDependenciesR, or - when it was renamed
// or turned into a method - the one self-recursive function of package eval that sortDependencies calls.
func recursiveSorter(c *an.Ctx, rule string) *an.Func {
	if f := c.Func("eval", "sortDependenciesR"); f != nil {
		return f
	}
	sd := c.Func("eval", "sortDependencies")
	var cands []*an.Func
	if sd != nil {
		for _, call := range an.AllCallsIn(sd.Decl.Body) {
			h := c.FuncOfObj(an.Callee(sd.Pkg.TypesInfo, call))
			if h == nil {
				continue
			}
			self := false
			for _, c2 := range an.AllCallsIn(h.Decl.Body) {
				if an.Callee(h.Pkg.TypesInfo, c2) == types.Object(h.Obj) {
					self = true
				}
			}
			if self {
				cands = append(cands, h)
			}
		}
	}
	if len(cands) == 1 {
		return cands[0]
	}
	c.Add(an.Obligation{Rule: rule, Construct: "eval.sortDependenciesR", Status: an.LOST,
		Detail: "anchor function not found in the module (no unique successor)"})
	return nil
}
