package props

import (
	"fmt"
	"go/ast"
	"go/token"
	"go/types"
	"os"
	"path/filepath"
	"regexp"
	"sort"
	"strings"

	"goacheck/an"
)

// canonRule maps atom terms (by regular expression) to canonical atom names so
// that decision tables do not depend on the names of locals or receivers.
type canonRule struct {
	re   *regexp.Regexp
	name string
}

func canon(pairs ...string) []canonRule {
	var out []canonRule
	for i := 0; i+1 < len(pairs); i += 2 {
		out = append(out, canonRule{regexp.MustCompile(pairs[i]), pairs[i+1]})
	}
	return out
}

// canonTable rewrites the atoms of a table; atoms that match no rule are kept
// (and will be reported as outside the vocabulary by CheckDecision).
func canonTable(t *an.PathTable, rules []canonRule) {
	for i := range t.Paths {
		for j := range t.Paths[i].Atoms {
			a := &t.Paths[i].Atoms[j]
			for _, r := range rules {
				if r.re.MatchString(a.Term) {
					a.Term = r.re.ReplaceAllString(a.Term, r.name)
					break
				}
			}
		}
	}
}

// decision runs a DECISION rule: path table of fn against a reference.
func decision(c *an.Ctx, rule string, f *an.Func, opts an.PathOpts, rules []canonRule, atoms []string,
	feasible func(an.Env) bool, spec func(an.Env) string, outcome func(*an.Path, an.Env) string, what string) {
	if f == nil {
		return
	}
	fn := c.SSAFunc(f)
	if fn == nil {
		c.Undecidedf(rule, f.Name, f.Decl.Pos(), "no SSA function")
		return
	}
	t := an.BuildPathTable(fn, opts)
	canonTable(t, rules)
	c.Stats["paths_enumerated"] += len(t.Paths)
	c.Stats["functions_tabled"]++
	rows, problems := t.CheckDecision(atoms, feasible, spec, outcome)
	if len(problems) == 0 {
		c.Okf(rule, f.Name, "%s: %d paths, %d rows agree with the reference table", what, len(t.Paths), rows)
		return
	}
	st := an.FAIL
	for _, p := range problems {
		if strings.Contains(p, "truncated") {
			st = an.UNDECIDED
		}
	}
	c.Add(an.Obligation{Rule: rule, Construct: f.Name, Status: st, Nontrivial: true, Pos: c.Position(f.Decl.Pos()),
		Detail: what + ": " + strings.Join(problems[:min(len(problems), 4)], " | ")})
}

// retOutcome returns the first returned term of a path.
func retOutcome(p *an.Path, _ an.Env) string {
	if p.Exit != "return" {
		return p.Exit
	}
	return strings.Join(p.Ret, ",")
}

// lastStore returns the value of the last store on the path whose target
// matches re, "" if none.
func lastStore(p *an.Path, re *regexp.Regexp) (string, bool) {
	val, ok := "", false
	for _, e := range p.Effects {
		if e.Kind != "store" {
			continue
		}
		i := strings.Index(e.Term, " = ")
		if i < 0 {
			continue
		}
		if re.MatchString(e.Term[:i]) {
			val, ok = e.Term[i+3:], true
		}
	}
	return val, ok
}

// flattenConcat splits a term of nested string additions into its operands.
func flattenConcat(t string) []string {
	t = strings.TrimSpace(t)
	if strings.HasPrefix(t, "(") && strings.HasSuffix(t, ")") {
		in := t[1 : len(t)-1]
		depth, inStr := 0, false
		for i := 0; i < len(in); i++ {
			ch := in[i]
			if inStr {
				if ch == '\\' {
					i++
				} else if ch == '"' {
					inStr = false
				}
				continue
			}
			switch ch {
			case '"':
				inStr = true
			case '(':
				depth++
			case ')':
				depth--
				if depth < 0 {
					return []string{t}
				}
			}
			if depth == 0 && strings.HasPrefix(in[i:], " + ") {
				return append(flattenConcat(in[:i]), flattenConcat(in[i+3:])...)
			}
		}
	}
	return []string{t}
}

// compositeLits returns the composite literals in f whose type is the named
// type (full name "pkgpath.Name"), including &T{...}.
func compositeLits(f *an.Func, typeName string) []*ast.CompositeLit {
	var out []*ast.CompositeLit
	ast.Inspect(f.Decl.Body, func(n ast.Node) bool {
		cl, ok := n.(*ast.CompositeLit)
		if !ok {
			return true
		}
		tv, ok := f.Pkg.TypesInfo.Types[cl]
		if !ok {
			return true
		}
		if typeName == "" || an.NamedTypeName(tv.Type) == typeName {
			out = append(out, cl)
		}
		return true
	})
	return out
}

// litFields returns field name -> value expression of a keyed struct literal.
func litFields(cl *ast.CompositeLit) map[string]ast.Expr {
	m := map[string]ast.Expr{}
	for _, e := range cl.Elts {
		kv, ok := e.(*ast.KeyValueExpr)
		if !ok {
			continue
		}
		if id, ok := kv.Key.(*ast.Ident); ok {
			m[id.Name] = kv.Value
		}
	}
	return m
}

// paramIndex returns the index of the parameter object denoted by e (-1 if e
// is not a parameter of f). The receiver is not counted.
func paramIndex(f *an.Func, e ast.Expr) int {
	obj := an.ObjOf(f.Pkg.TypesInfo, e)
	if obj == nil {
		return -1
	}
	sig := f.Obj.Type().(*types.Signature)
	for i := 0; i < sig.Params().Len(); i++ {
		if sig.Params().At(i) == obj {
			return i
		}
	}
	return -1
}

// selField decomposes value expression `x.F` into the type name of x and F.
func selField(info *types.Info, e ast.Expr) (rootType string, field string, root types.Object, ok bool) {
	se, isSel := an.Unparen(e).(*ast.SelectorExpr)
	if !isSel {
		return "", "", nil, false
	}
	if an.FieldOf(info, se) == nil {
		return "", "", nil, false
	}
	tv, has := info.Types[se.X]
	if !has {
		return "", "", nil, false
	}
	return an.NamedTypeName(tv.Type), se.Sel.Name, an.ObjOf(info, se.X), true
}

// copyFidelity checks a struct literal of type dst built from one value of
// type src: every listed pair dstField<-srcField must be initialised from
// exactly that field of a src-typed value, and every field of dst outside
// `exempt` must be set.
func copyFidelity(c *an.Ctx, rule string, f *an.Func, dstType, srcType string, pairs map[string]string, exempt map[string]string) int {
	if f == nil {
		return 0
	}
	lits := compositeLits(f, dstType)
	n := 0
	info := f.Pkg.TypesInfo
	for _, cl := range lits {
		fields := litFields(cl)
		if len(fields) == 0 {
			continue
		}
		hasSrc := false
		for _, v := range fields {
			if rt, _, _, ok := selField(info, v); ok && rt == srcType {
				hasSrc = true
			}
		}
		if !hasSrc {
			continue
		}
		n++
		construct := fmt.Sprintf("%s{%s<-%s}", f.Name, shortType(dstType), shortType(srcType))
		var probs []string
		keys := make([]string, 0, len(pairs))
		for k := range pairs {
			keys = append(keys, k)
		}
		sort.Strings(keys)
		for _, df := range keys {
			sf := pairs[df]
			v, ok := fields[df]
			if !ok {
				probs = append(probs, fmt.Sprintf("field %s is not set", df))
				continue
			}
			rt, fld, _, ok := selField(info, v)
			if !ok || rt != srcType {
				probs = append(probs, fmt.Sprintf("field %s is set from %s, not from a %s field", df, an.Src(c.Fset, v), shortType(srcType)))
				continue
			}
			if fld != sf {
				probs = append(probs, fmt.Sprintf("field %s is set from .%s, expected .%s", df, fld, sf))
			}
		}
		// exhaustiveness
		tv := info.Types[cl]
		var named *types.Named
		if nn, ok := tv.Type.(*types.Named); ok {
			named = nn
		}
		for _, fv := range an.StructFields(named) {
			if _, set := fields[fv.Name()]; set {
				continue
			}
			if _, ex := exempt[fv.Name()]; ex {
				continue
			}
			if !fv.Exported() && fv.Pkg() != nil && fv.Pkg().Path() != f.Pkg.PkgPath {
				continue
			}
			probs = append(probs, fmt.Sprintf("field %s of %s is never set (not in the reviewed exception table)", fv.Name(), shortType(dstType)))
		}
		if len(probs) == 0 {
			c.Okf(rule, construct, "%d field pairs connected like-named, literal exhaustive", len(pairs))
		} else {
			c.Failf(rule, construct, cl.Pos(), "%s", strings.Join(probs, "; "))
		}
	}
	return n
}

func shortType(t string) string {
	if i := strings.LastIndex(t, "/"); i >= 0 {
		return t[i+1:]
	}
	return t
}

// constArgs returns the constant argument values (as strings) of a call; ""
// for non-constant arguments.
func constArgs(info *types.Info, call *ast.CallExpr) []string {
	var out []string
	for _, a := range call.Args {
		tv, ok := info.Types[a]
		if ok && tv.Value != nil {
			out = append(out, tv.Value.ExactString())
		} else {
			out = append(out, "")
		}
	}
	return out
}

// switchCases returns, for a switch statement, the constant case values per
// clause in order (nil entry = default clause).
func switchCaseStrings(info *types.Info, sw *ast.SwitchStmt) (cases [][]string, hasDefault bool) {
	for _, s := range sw.Body.List {
		cc := s.(*ast.CaseClause)
		if cc.List == nil {
			hasDefault = true
			cases = append(cases, nil)
			continue
		}
		var vals []string
		for _, e := range cc.List {
			if v, ok := an.ConstString(info, e); ok {
				vals = append(vals, v)
			} else {
				vals = append(vals, "?"+types.ExprString(e))
			}
		}
		cases = append(cases, vals)
	}
	return
}

// findSwitches returns the switch statements of f (not in nested literals
// unless deep) whose tag satisfies pred.
func findSwitches(f *an.Func, pred func(tag ast.Expr) bool) []*ast.SwitchStmt {
	var out []*ast.SwitchStmt
	ast.Inspect(f.Decl.Body, func(n ast.Node) bool {
		if sw, ok := n.(*ast.SwitchStmt); ok && sw.Tag != nil && pred(sw.Tag) {
			out = append(out, sw)
		}
		return true
	})
	return out
}

// constValue returns the value of package-level constant name in package dir.
func constValue(c *an.Ctx, dir, name string) (string, bool) {
	p := c.Pkg(dir)
	if p == nil {
		return "", false
	}
	o, ok := p.Types.Scope().Lookup(name).(*types.Const)
	if !ok {
		return "", false
	}
	return o.Val().ExactString(), true
}

func posOf(n ast.Node) token.Pos {
	if n == nil {
		return token.NoPos
	}
	return n.Pos()
}

func sortedKeys[V any](m map[string]V) []string {
	out := make([]string, 0, len(m))
	for k := range m {
		out = append(out, k)
	}
	sort.Strings(out)
	return out
}

// tplRangeIndexRule applies the "range body must use its element" rule to all
// templates under the given repo-relative directories.
func tplRangeIndexRule(c *an.Ctx, rule string, dirs ...string) {
	n := 0
	for _, d := range dirs {
		for _, file := range c.TplDir(d) {
			t, err := c.TplFile(file)
			if err != nil {
				c.Failf(rule, file, 0, "template does not parse: %v", err)
				continue
			}
			n++
			hits := an.RangeConstIndexHits(t)
			if len(hits) == 0 {
				continue
			}
			var where []string
			for _, h := range hits {
				where = append(where, fmt.Sprintf("`%s` inside range %s", h.Node.String(), h.Path))
			}
			c.Failf(rule, file+"#range-element", 0, "a range body indexes the very collection it iterates with a constant (%s): every element is rendered like that fixed one", strings.Join(where, "; "))
		}
	}
	c.Okf(rule, "templates#range-element", "%d templates: no range body replaces its element by a constant index into the ranged collection", n)
	c.Floor(rule, n, 10, "templates parsed")
}

var reEncIf = regexp.MustCompile(`(?m)^\s*(?:\}\s*else\s+)?if\s+([^\n]*?)\s*\{\s*$`)
var reEncCmp = regexp.MustCompile(`((?:\*\s*)?\b(?:p|payload|res|result|body|v)\b(?:\.[A-Za-z_]\w*|\.?‹[^›]*›)+)\s*(!=|==)\s*("[^"]*"|[\w.]+)`)

// encoderNilGuards: an encoder writes a field of the value it encodes unless the
// field is a nil pointer (the attribute is absent). A guard that compares the
// field with a zero VALUE ("", 0, false) drops a legal value: the receiving side
// then reports a required element missing or applies a default. Every `if` of
// the encoder templates that compares a field of the encoded value must compare
// it with nil.
func encoderNilGuards(c *an.Ctx, rule string, files ...string) {
	n := 0
	for _, rel := range files {
		b, err := os.ReadFile(filepath.Join(c.Repo, rel))
		if err != nil {
			c.Add(an.Obligation{Rule: rule, Construct: rel, Status: an.LOST, Detail: err.Error()})
			continue
		}
		flat := flattenActions(string(b))
		for _, m := range reEncIf.FindAllStringSubmatchIndex(flat, -1) {
			cond := flat[m[2]:m[3]]
			line := 1 + strings.Count(flat[:m[0]+1], "\n")
			for _, cm := range reEncCmp.FindAllStringSubmatch(cond, -1) {
				if !strings.Contains(cm[1], "‹") {
					continue
				}
				n++
				if cm[3] != "nil" {
					c.Failf(rule, fmt.Sprintf("%s#if(%s)", rel, strings.TrimSpace(cond)), 0, "%s:%d: the encoder emits the field only `if %s`: a legal zero value (%s) is never sent, and the receiver sees the element as absent", rel, line, strings.TrimSpace(cond), cm[3])
				}
			}
		}
	}
	c.Okf(rule, "encoder templates#field guards", "%d field guards in %d encoder templates all test for nil (absence), never for a zero value", n, len(files))
	c.Floor(rule, n, 1, "field guards in the encoder templates")
}

var reAction = regexp.MustCompile(`(?s)\{\{-?\s*(.*?)\s*-?\}\}`)
var reControl = regexp.MustCompile(`^(if|else|end|range|with|define|template|block|break|continue)\b`)

// flattenActions keeps template text verbatim, drops control actions and
// comments, and turns every output action into one ‹…› token (line structure
// is preserved).
func flattenActions(src string) string {
	return reAction.ReplaceAllStringFunc(src, func(m string) string {
		body := reAction.FindStringSubmatch(m)[1]
		nl := strings.Repeat("\n", strings.Count(m, "\n"))
		if reControl.MatchString(body) || strings.HasPrefix(body, "/*") {
			return nl
		}
		return "‹" + strings.ReplaceAll(body, "\n", " ") + "›" + nl
	})
}

var reInlineIf = regexp.MustCompile(`\{\{-?\s*if [^}]*\}\}([^{}]*)\{\{-?\s*else\s*-?\}\}([^{}]*)\{\{-?\s*end\s*-?\}\}`)
var rePlainErrAssign = regexp.MustCompile(`(?:^|[\s,(])err\s*=[^=]`)

// errAccumulatorRule: generated decoders collect every violation of a request
// in one error variable (`err = goa.MergeErrors(err, …)`) and test it once at the
// end. From the first merge on, in document order of a template, the variable
// may hold violations already found; a plain assignment to it (`err = f()`,
// `x, err = f()`) discards them, and the request is then judged on the last
// source of errors alone.
func errAccumulatorRule(c *an.Ctx, rule string, files ...string) {
	merges, plain := 0, 0
	for _, rel := range files {
		b, err := os.ReadFile(filepath.Join(c.Repo, rel))
		if err != nil {
			c.Add(an.Obligation{Rule: rule, Construct: rel, Status: an.LOST, Detail: err.Error()})
			continue
		}
		seenMerge := false
		for ln, line := range strings.Split(string(b), "\n") {
			alts := []string{line}
			if m := reInlineIf.FindStringSubmatchIndex(line); m != nil {
				alts = []string{line[:m[0]] + line[m[2]:m[3]] + line[m[1]:], line[:m[0]] + line[m[4]:m[5]] + line[m[1]:]}
			}
			for _, alt := range alts {
				flat := flattenActions(alt)
				if strings.Contains(flat, "err = goa.MergeErrors(err,") {
					seenMerge = true
					merges++
					continue
				}
				if !rePlainErrAssign.MatchString(flat) || strings.Contains(flat, ":=") {
					continue
				}
				plain++
				if seenMerge {
					c.Failf(rule, fmt.Sprintf("%s#%s", rel, strings.TrimSpace(flat)), 0, "%s:%d: `%s` assigns the error accumulator after violations may already have been merged into it: when this call succeeds the earlier violations are forgotten and the request reaches the service method", rel, ln+1, strings.TrimSpace(flat))
				}
			}
		}
	}
	c.Okf(rule, "decoder templates#error accumulator", "%d merges into the accumulator; %d plain assignments, none after a merge (other than reported)", merges, plain)
	c.Floor(rule, merges, 10, "merges into the error accumulator in the decoder templates")
}

var reConvCall = regexp.MustCompile(`\(\s*(\w+ConversionData)\s+([^()]*(?:\([^()]*\)[^()]*)*)\)`)
var reTplArg = regexp.MustCompile(`"[^"]*"|\(printf "[^"]*" [.\w$]+\)|\((?:[^()]|\([^()]*\))*\)(?:\.\w+)*|[.$\w]+`)

// convArgText renders a template argument as the text it produces in the
// flattened template ("lit" -> lit, .VarName -> ‹.VarName›, (printf "%sraw"
// .VarName) -> ‹.VarName›raw); "" when the argument is not a name.
func convArgText(a string) string {
	a = strings.TrimSpace(a)
	switch {
	case strings.HasPrefix(a, `"`):
		return strings.Trim(a, `"`)
	case strings.HasPrefix(a, "(printf "):
		m := regexp.MustCompile(`^\(printf "([^"]*)" ([.\w$]+)\)$`).FindStringSubmatch(a)
		if m == nil || strings.Count(m[1], "%") != 1 {
			return ""
		}
		return strings.Replace(m[1], "%s", "‹"+m[2]+"›", 1)
	case strings.HasPrefix(a, ".") || strings.HasPrefix(a, "$"):
		return "‹" + a + "›"
	}
	return ""
}

// conversionRolesRule: the conversion partials emit `<VarName> := conv(<Target>)`:
// VarName is the variable they DEFINE, Target the value they READ. The helper
// functions that build their data (typeConversionData, headerConversionData)
// take the two names as parameters `varName` and `target`. At every call site in
// the templates the name passed as varName must be used by the template text
// that follows the call (it is the result), and the name passed as target must
// have been bound by the text before it (`name :=`, a range variable, or the
// payload/result variable): passing them in each other's position defines the
// source a second time and leaves the result undefined, which does not compile.
func conversionRolesRule(c *an.Ctx, rule string, dirs ...string) {
	roles := map[string][2]int{} // helper -> (index of varName, index of target)
	for _, f := range c.AllFuncs("http/codegen") {
		if !strings.HasSuffix(f.Decl.Name.Name, "ConversionData") {
			continue
		}
		sig := f.Obj.Type().(*types.Signature)
		vi, ti := -1, -1
		for i := 0; i < sig.Params().Len(); i++ {
			switch sig.Params().At(i).Name() {
			case "varName":
				vi = i
			case "target":
				ti = i
			}
		}
		if vi >= 0 && ti >= 0 {
			roles[f.Decl.Name.Name] = [2]int{vi, ti}
		}
	}
	n := 0
	for _, dir := range dirs {
		for _, rel := range c.TplDir(dir) {
			b, err := os.ReadFile(filepath.Join(c.Repo, rel))
			if err != nil {
				continue
			}
			src := string(b)
			for _, m := range reConvCall.FindAllStringSubmatchIndex(src, -1) {
				helper := src[m[2]:m[3]]
				r, ok := roles[helper]
				if !ok {
					continue
				}
				args := reTplArg.FindAllString(src[m[4]:m[5]], -1)
				if len(args) <= r[0] || len(args) <= r[1] {
					continue
				}
				res, tgt := convArgText(args[r[0]]), convArgText(args[r[1]])
				if res == "" || tgt == "" {
					continue
				}
				n++
				// the enclosing action ends at the next "}}"
				end := m[1] + strings.Index(src[m[1]:], "}}") + 2
				before, after := flattenActions(src[:m[0]]), flattenActions(src[end:])
				// the partial itself recurses with fixed names; its own text before/after is the definition site
				word := func(s, name string) bool {
					return regexp.MustCompile(`(^|[^\w›‹.])` + regexp.QuoteMeta(name) + `([^\w‹]|$)`).MatchString(s)
				}
				bound := regexp.MustCompile(`(^|[^\w›‹.])`+regexp.QuoteMeta(tgt)+`\s*(,\s*[\w‹›.$]+\s*)?:?=|,\s*`+regexp.QuoteMeta(tgt)+`\s*:?=`).MatchString(before) || tgt == "p" || tgt == "res" || tgt == "v" && strings.Contains(before, "range")
				line := 1 + strings.Count(src[:m[0]], "\n")
				construct := fmt.Sprintf("%s#%s(%s,%s)", rel, helper, res, tgt)
				var probs []string
				if !word(after, res) {
					probs = append(probs, fmt.Sprintf("the name passed as varName (%s, the variable the partial defines) is never used by the template text after the call", res))
				}
				if !bound && word(after, tgt) && !word(before, tgt) {
					probs = append(probs, fmt.Sprintf("the name passed as target (%s, the value the partial reads) is not bound before the call but used after it", tgt))
				}
				if len(probs) > 0 {
					c.Failf(rule, construct, 0, "%s:%d: %s: the two names are in each other's position — the generated code defines the source twice and never defines the result (does not compile)", rel, line, strings.Join(probs, "; "))
				} else {
					c.Okf(rule, construct, "result name used after the call, source name bound before it")
				}
			}
		}
	}
	c.Floor(rule, n, 10, "conversion-data call sites in the templates")
}

// metaSelectionAgreement: a Meta key can hold several values (a later
// declaration, or a view-level override, appends to the list); the value in
// force is the last one, which is what Meta.Last returns. Every reader of one of
// the given keys must select the value the same way: a reader that takes the
// first value (Meta[k][0], or v := Meta[k] … v[0]) disagrees with the
// Last-readers as soon as a key is declared twice - the validator checks one
// view while the renderer uses another, the proto emitter numbers fields with
// one tag while the validator checked another.
func metaSelectionAgreement(c *an.Ctx, rule string, keys ...string) {
	want := map[string]bool{}
	for _, k := range keys {
		want[k] = true
	}
	type site struct {
		pos  token.Pos
		fn   string
		form string
	}
	sites := map[string][]site{}
	keyOf := func(info *types.Info, e ast.Expr) string {
		if s, ok := an.ConstString(info, e); ok {
			return s
		}
		return ""
	}
	isMeta := func(info *types.Info, e ast.Expr) bool {
		t := info.TypeOf(e)
		return t != nil && strings.HasSuffix(t.String(), "/expr.MetaExpr")
	}
	for _, d := range c.ModuleDirs() {
		for _, f := range c.AllFuncs(d) {
			info := f.Pkg.TypesInfo
			vars := map[types.Object]string{} // v := X.Meta[k]
			ast.Inspect(f.Decl.Body, func(nd ast.Node) bool {
				switch x := nd.(type) {
				case *ast.CallExpr:
					if se, ok := x.Fun.(*ast.SelectorExpr); ok && se.Sel.Name == "Last" && len(x.Args) == 1 && isMeta(info, se.X) {
						if k := keyOf(info, x.Args[0]); want[k] {
							sites[k] = append(sites[k], site{x.Pos(), f.Name, "last"})
						}
					}
				case *ast.AssignStmt:
					if len(x.Rhs) == 1 {
						if ix, ok := an.Unparen(x.Rhs[0]).(*ast.IndexExpr); ok && isMeta(info, ix.X) {
							if k := keyOf(info, ix.Index); want[k] {
								if o := an.ObjOf(info, x.Lhs[0]); o != nil {
									vars[o] = k
								}
							}
						}
					}
				case *ast.IndexExpr:
					if v, isConst := an.ConstInt(info, x.Index); isConst && v == 0 {
						if inner, ok := an.Unparen(x.X).(*ast.IndexExpr); ok && isMeta(info, inner.X) {
							if k := keyOf(info, inner.Index); want[k] {
								sites[k] = append(sites[k], site{x.Pos(), f.Name, "first"})
							}
						}
						if o := an.ObjOf(info, x.X); o != nil && vars[o] != "" {
							sites[vars[o]] = append(sites[vars[o]], site{x.Pos(), f.Name, "first"})
						}
					}
				}
				return true
			})
		}
	}
	n := 0
	for _, k := range keys {
		last, first := 0, 0
		for _, s := range sites[k] {
			n++
			if s.form == "last" {
				last++
			} else {
				first++
			}
		}
		if last > 0 && first > 0 {
			for _, s := range sites[k] {
				if s.form == "first" {
					c.Failf(rule, fmt.Sprintf("%s#meta(%s)[0]", s.fn, k), s.pos, "this reader takes the FIRST value of Meta key %q while %d other readers take the last one (Meta.Last): when the key is declared more than once (an override) the two disagree on the value in force", k, last)
				}
			}
		} else {
			c.Okf(rule, "meta("+k+")", "%d readers all select the value of the key the same way", last+first)
		}
	}
	c.Floor(rule, n, 2, "readers of the given Meta keys")
}

// requiredPropagationRule: the Finalize methods copy the "required" flag of
// every attribute they map to a transport element
// (`if X.IsRequired(name) { Y.Validation.AddRequired(name) }`, once per element of
// a loop). The statement must be reached for every element: no statement before
// it in the loop body may `continue` (or break) - an element skipped there keeps
// its place in the message/headers but silently becomes optional, and the
// generated validation no longer rejects a request or response without it.
func requiredPropagationRule(c *an.Ctx, rule string, dirs ...string) {
	n := 0
	for _, dir := range dirs {
		for _, f := range c.AllFuncs(dir) {
			info := f.Pkg.TypesInfo
			ast.Inspect(f.Decl.Body, func(nd ast.Node) bool {
				var body *ast.BlockStmt
				switch x := nd.(type) {
				case *ast.RangeStmt:
					body = x.Body
				case *ast.ForStmt:
					body = x.Body
				default:
					return true
				}
				for i, st := range body.List {
					is, ok := st.(*ast.IfStmt)
					if !ok || is.Else != nil || len(is.Body.List) != 1 {
						continue
					}
					cond, ok := an.Unparen(is.Cond).(*ast.CallExpr)
					if !ok || !strings.HasSuffix(an.CalleeName(info, cond), "AttributeExpr).IsRequired") {
						continue
					}
					es, ok := is.Body.List[0].(*ast.ExprStmt)
					if !ok {
						continue
					}
					call, ok := es.X.(*ast.CallExpr)
					if !ok || !strings.HasSuffix(an.CalleeName(info, call), "ValidationExpr).AddRequired") {
						continue
					}
					n++
					// the collections this loop stores its element into: receivers of X.Set(…) in the body
					targets := map[types.Object]bool{}
					var firstStore token.Pos
					ast.Inspect(body, func(m ast.Node) bool {
						if sc, ok := m.(*ast.CallExpr); ok {
							if sel, ok := sc.Fun.(*ast.SelectorExpr); ok && sel.Sel.Name == "Set" {
								if root := an.RootIdent(sel.X); root != nil {
									if o := an.ObjOf(info, root); o != nil {
										targets[o] = true
										if firstStore == token.NoPos || sc.Pos() < firstStore {
											firstStore = sc.Pos()
										}
									}
								}
							}
						}
						return true
					})
					mentionsTarget := func(e ast.Node) bool {
						hit := false
						ast.Inspect(e, func(m ast.Node) bool {
							if id, ok := m.(*ast.Ident); ok && targets[an.ObjOf(info, id)] {
								hit = true
							}
							return true
						})
						return hit
					}
					skipped := ""
					for _, before := range body.List[:i] {
						// `if x == nil { continue }`: the element does not exist, there is nothing to propagate
						bis, isIf := before.(*ast.IfStmt)
						if isIf && bis.Else == nil {
							if cmp, ok := an.Unparen(bis.Cond).(*ast.BinaryExpr); ok && cmp.Op == token.EQL && an.IsNilIdent(info, cmp.Y) {
								continue
							}
						}
						// a guard that consults another collection before the element is stored filters the element out
						// of the mapping altogether: nothing stays behind without its flag
						if isIf && len(targets) > 0 && before.End() < firstStore && !mentionsTarget(bis.Cond) && (bis.Init == nil || !mentionsTarget(bis.Init)) {
							continue
						}
						ast.Inspect(before, func(m ast.Node) bool {
							switch y := m.(type) {
							case *ast.BranchStmt:
								if y.Tok == token.CONTINUE || y.Tok == token.BREAK {
									skipped = c.Position(y.Pos())
								}
							case *ast.FuncLit, *ast.RangeStmt, *ast.ForStmt:
								return false
							}
							return true
						})
					}
					c.Check(skipped == "", rule, fmt.Sprintf("%s#%s", f.Name, an.Src(c.Fset, call)), is.Pos(), "the required flag is propagated for every element of the loop", "an element can leave the iteration (at "+skipped+") before its required flag is propagated by `"+an.Src(c.Fset, call)+"`: it stays in the transport mapping but becomes optional")
				}
				return true
			})
		}
	}
	c.Floor(rule, n, 4, "required-flag propagations in loops")
}

// dslReexports: package dsl re-exports the constants and values of package expr under the same names
// (`FormatIP = expr.FormatIP`, `StatusOK = expr.StatusOK`, `String = expr.String`). A declaration whose right-hand
// side is a selector into package expr must select the name it declares: `FormatIP = expr.FormatIPv4` compiles,
// and every design that says FormatIP then means something else.
func dslReexports(c *an.Ctx, rule string) {
	p := c.Pkg("dsl")
	if p == nil {
		return
	}
	n := 0
	for _, file := range p.Syntax {
		if strings.HasSuffix(c.Position(file.Pos()), "_test.go") {
			continue
		}
		for _, d := range file.Decls {
			gd, ok := d.(*ast.GenDecl)
			if !ok || (gd.Tok != token.CONST && gd.Tok != token.VAR) {
				continue
			}
			for _, sp := range gd.Specs {
				vs := sp.(*ast.ValueSpec)
				if len(vs.Names) != len(vs.Values) {
					continue
				}
				for i, nm := range vs.Names {
					se, ok := an.Unparen(vs.Values[i]).(*ast.SelectorExpr)
					if !ok {
						continue
					}
					pk, ok := se.X.(*ast.Ident)
					if !ok {
						continue
					}
					pn, ok := p.TypesInfo.Uses[pk].(*types.PkgName)
					if !ok || pn.Imported().Path() != an.P("expr") {
						continue
					}
					n++
					if se.Sel.Name != nm.Name {
						c.Failf(rule, "dsl."+nm.Name, vs.Pos(), "dsl.%s re-exports expr.%s: a design that uses %s gets the meaning of %s", nm.Name, se.Sel.Name, nm.Name, se.Sel.Name)
					}
				}
			}
		}
	}
	c.Okf(rule, "dsl#re-exports", "%d names of package expr are re-exported by package dsl under their own name", n)
	c.Floor(rule, n, 60, "re-exports of package expr in package dsl")
}

// pairedFields are the confirmed instances of the paired-store rule (an.PairedStores): two fields of one struct
// that describe one fact and are read together, so that whoever stores one stores the other before the value is
// looked at by anyone else. Candidates were listed by `goacheck -pairs` (fields never stored apart anywhere in the
// module), each instance below was confirmed by reading the readers.
var pairedFields = map[string]struct {
	typ, a, b string
	dirs      []string
	floor     int
	why       string
}{
	"scheme": {"expr.SchemeExpr", "Name", "In", []string{"expr"}, 5,
		"the transport element that carries the credential and the place (header, query, body, metadata) it is read from: generators, the OpenAPI documents and the client read both, a name without its location is looked for in the wrong place"},
	"verrs": {"eval.ValidationErrors", "Errors", "Expressions", []string{"eval"}, 3,
		"parallel slices: Error() indexes Expressions with the index of Errors, an error appended without its expression shifts every later location or panics"},
	"reqid": {"middleware.RequestIDOptions", "requestIDHeader", "useRequestID", []string{"middleware"}, 2,
		"the option that turns the incoming request-ID header on also names the header that is read"},
}

func pairedStoresRule(c *an.Ctx, rule, instance string) {
	pi, ok := pairedFields[instance]
	if !ok {
		panic("unknown paired-store instance " + instance)
	}
	sites := 0
	for _, d := range pi.dirs {
		for _, f := range c.AllFuncs(d) {
			opaque := func(call *ast.CallExpr) bool {
				h := c.FuncOfObj(an.Callee(f.Pkg.TypesInfo, call))
				return h != nil && c.IsNewFunc(h)
			}
			n, bad := an.PairedStores(f, pi.typ, pi.a, pi.b, opaque)
			sites += n
			for _, u := range bad {
				c.Failf(rule, fmt.Sprintf("%s#unpaired(%s.%s)", c.RefName(f), u.Base, u.Has), u.Store.Pos(),
					"%s.%s is stored on a path on which %s.%s is not: %s", u.Base, u.Has, u.Base, u.Lacks, pi.why)
			}
		}
	}
	c.Floor(rule, sites, pi.floor, "stores to "+shortType(pi.typ)+"."+pi.a+"/"+pi.b)
	if sites > 0 {
		c.Okf(rule, pi.typ+"#paired stores", "%d stores to %s.%s/%s: each is accompanied by a store to the other field of the same variable before the variable leaves the function or the loop iteration", sites, shortType(pi.typ), pi.a, pi.b)
	}
}
