package props

import (
	"fmt"
	"go/ast"
	"go/token"
	"golang.org/x/tools/go/ssa"
	"regexp"
	"regexp/syntax"
	"sort"
	"strings"

	"goacheck/an"
)

func init() { Registry["C16"] = runC16 }

const explanationC16 = "Decides structural necessary conditions of C16 on http/mux.go through SSA path tables (loops unrolled once): (R16.1) the wildcard table is keyed method+\"::\"+pattern with the same separator and operand order at its store (Handle) and both loads (Vars, resolveWildcard), and the stored pattern is the rewritten one that is also registered with the router; (R16.2) every value placed in the map returned by Vars is unescape(params.Values[i]) when the URL has a RawPath (the router matched the escaped path) and the router's value itself otherwise, and unescape falls back to its input on error; (R16.3) resolveWildcard re-inserts \"/{*name}\" after trimming exactly the length of the \"/*\" replacement; (R16.4) Handle and Use mutate the muxer only under the mutex (Lock first, deferred Unlock); (R16.5) the not-found handler negotiates an encoder, writes 404, then encodes an error response, and is installed with the first Handle; (R16.6) route probes (Routes.Match) outside ensureContext use a fresh routing context so that the recorded pattern and parameters of the request are not disturbed; (R16.7) Use appends to the pending list when one exists and otherwise forwards to the router, Handle flushes every pending middleware into the router and clears the list before registering the route, and every returning path of Handle registers the route exactly once; (R16.8) the constructor gives Handle's first-registration sentinel a non-nil value; (R16.9) the pre-routing probe matches the bare request path. shared R15.1–R15.3 (the encoder that writes the 404 body announces the media type it encodes). (R16.10) the error body written for unmatched requests carries each field of the error under its own name in every encoding (shared with C18/R18.4). (R16.11) the design side and the muxer recognise wildcard names with the same regular expression (compared in regexp/syntax canonical form). NOT decided: chi's matching algorithm, whether capture is the inverse of URL construction for all strings (double percent-decoding depends on chi's RawPath/Path choice), client-side path building (delegated to net/url)."

const reRewritten = `\(\*regexp\.Regexp\)\.ReplaceAllString\(http\.wildPath, p2, "(/\*)"\)`

func runC16(c *an.Ctx) string {
	handleRepl := r16Handle(c)
	r16Vars(c)
	r16Resolve(c, handleRepl)
	r16Use(c)
	r16NotFound(c)
	r16Probe(c)
	r16Sentinels(c)
	r1611WildcardNames(c, "R16.11")
	r15ResponseEncoder(c)           // shared with C15 (rule ids R15.1-R15.3): the 404 body is written by the encoder ResponseEncoder negotiates and must be announced with that encoder's media type
	errorFieldFidelity(c, "R16.10") // shared with C18/R18.4: the 404 body carries the fields of the error it reports in every encoding (the XML writer included)
	return explanationC16
}

func tableOf(c *an.Ctx, rule, dir, name string, loop int) (*an.Func, *an.PathTable) {
	f := c.MustFunc(rule, dir, name)
	if f == nil {
		return nil, nil
	}
	fn := c.SSAFunc(f)
	if fn == nil {
		c.Undecidedf(rule, f.Name, f.Decl.Pos(), "no SSA function")
		return f, nil
	}
	t := an.BuildPathTable(fn, an.PathOpts{LoopBound: loop})
	c.Stats["paths_enumerated"] += len(t.Paths)
	c.Stats["functions_tabled"]++
	if t.Truncated || len(t.Paths) == 0 {
		c.Undecidedf(rule, f.Name, f.Decl.Pos(), "function left the decidable fragment (path limit or no path)")
		return f, nil
	}
	return f, t
}

func lockedThroughout(p *an.Path, lockTerm string) (bool, string) {
	// Lock must be the first effect touching state and Unlock must be deferred
	locked, deferred := false, false
	for _, e := range p.Effects {
		switch {
		case e.Kind == "call" && e.Term == "(*sync.Mutex).Lock("+lockTerm+")":
			locked = true
		case e.Kind == "defer" && e.Term == "(*sync.Mutex).Unlock("+lockTerm+")":
			deferred = true
		case e.Kind == "call" && e.Term == "(*sync.Mutex).Unlock("+lockTerm+")":
			locked = false
		case e.Kind == "store" || e.Kind == "mapupdate" || (e.Kind == "call" && strings.HasPrefix(e.Term, "p0.Router.")):
			if !locked {
				return false, e.Kind + " " + e.Term + " happens without the muxer lock"
			}
		}
	}
	if locked && !deferred {
		return false, "the lock is taken but its release is not deferred"
	}
	return true, ""
}

func r16Handle(c *an.Ctx) string {
	f, t := tableOf(c, "R16.1", "http", "mux.Handle", 1)
	if t == nil {
		return ""
	}
	reUpd := regexp.MustCompile(`^p0\.wildcards\[\(\(p1 \+ "([^"]*)"\) \+ ` + reRewritten + `\)\] = \(\*regexp\.Regexp\)\.FindStringSubmatch\(http\.wildPath, p2\)\[1\]$`)
	reMethodRewr := regexp.MustCompile(`^p0\.Router\.Method\(p1, ` + reRewritten + `, p3\)$`)
	var keyProbs, regProbs, lockProbs, flushProbs []string
	wild, plain, flushed := 0, 0, 0
	sep, repl := "", ""
	for i := range t.Paths {
		p := &t.Paths[i]
		if ok, why := lockedThroughout(p, "&p0.mu"); !ok {
			lockProbs = append(lockProbs, why)
		}
		if p.Exit != "return" {
			continue
		}
		env := an.Env{}
		for _, a := range p.Atoms {
			env[a.Term] = a.Val
		}
		isWild := false
		for k, v := range env {
			// canonical form of len(x) > 0 is !(len(x) == 0)
			if strings.HasPrefix(k, "(len((*regexp.Regexp).FindStringSubmatch(http.wildPath, p2)) == 0)") && !v {
				isWild = true
			}
		}
		var methods, updates []string
		useIdx, nilIdx, methodIdx, notFoundIdx := -1, -1, -1, -1
		for j, e := range p.Effects {
			switch {
			case e.Kind == "call" && strings.HasPrefix(e.Term, "p0.Router.Method("):
				methods = append(methods, e.Term)
				methodIdx = j
			case e.Kind == "mapupdate" && strings.HasPrefix(e.Term, "p0.wildcards["):
				updates = append(updates, e.Term)
			case e.Kind == "call" && strings.HasPrefix(e.Term, "p0.Router.Use(["):
				useIdx = j
				if !strings.HasPrefix(e.Term, "p0.Router.Use([p0.middlewares[") {
					flushProbs = append(flushProbs, "Handle passes "+e.Term+" to the router instead of a pending middleware")
				}
			case e.Kind == "call" && strings.HasPrefix(e.Term, "p0.Router.NotFound("):
				notFoundIdx = j
			case e.Kind == "store" && e.Term == "p0.middlewares = nil":
				nilIdx = j
			}
		}
		if len(methods) != 1 {
			regProbs = append(regProbs, fmt.Sprintf("path [%s] registers the route %d times", p.GuardString(), len(methods)))
			continue
		}
		pending, known := env["(p0.middlewares == nil)"]
		if known && !pending {
			// pending list present: flushed (when non-empty), cleared, 404 installed, all before registration
			if p.Looped {
				flushed++
				if useIdx < 0 || useIdx > methodIdx {
					flushProbs = append(flushProbs, "a pending middleware is not handed to the router before the route is registered")
				}
			}
			if nilIdx < 0 || nilIdx > methodIdx {
				flushProbs = append(flushProbs, "the pending list is not cleared before the route is registered")
			}
			if notFoundIdx < 0 {
				flushProbs = append(flushProbs, "the not-found handler is not installed with the first Handle")
			}
		} else if known && pending {
			if useIdx >= 0 || nilIdx >= 0 {
				flushProbs = append(flushProbs, "middlewares are flushed although no pending list exists")
			}
		}
		if isWild {
			wild++
			if len(updates) != 1 {
				keyProbs = append(keyProbs, fmt.Sprintf("wildcard path records %d table entries", len(updates)))
				continue
			}
			m := reUpd.FindStringSubmatch(updates[0])
			if m == nil {
				keyProbs = append(keyProbs, "wildcard table store is "+updates[0]+"; expected wildcards[method+sep+rewrittenPattern] = captured name")
				continue
			}
			sep, repl = m[1], m[2]
			if !reMethodRewr.MatchString(methods[0]) {
				regProbs = append(regProbs, "the router is given "+methods[0]+" while the table is keyed by the rewritten pattern")
			}
		} else {
			plain++
			if len(updates) != 0 {
				keyProbs = append(keyProbs, "a pattern without wildcard records a table entry")
			}
			if methods[0] != "p0.Router.Method(p1, p2, p3)" {
				regProbs = append(regProbs, "plain pattern registered as "+methods[0])
			}
		}
	}
	if wild == 0 || plain == 0 {
		regProbs = append(regProbs, fmt.Sprintf("wildcard paths=%d plain paths=%d", wild, plain))
	}
	if flushed == 0 {
		flushProbs = append(flushProbs, "no path flushes a pending middleware")
	}
	rep := func(rule, sub string, probs []string, ok string) {
		probs = dedupStrings(probs)
		if len(probs) > 0 {
			c.Failf(rule, f.Name+"#"+sub, f.Decl.Pos(), "%s", strings.Join(probs[:min(3, len(probs))], " | "))
		} else {
			c.Okf(rule, f.Name+"#"+sub, "%s", ok)
		}
	}
	rep("R16.1", "table-key", keyProbs, fmt.Sprintf("wildcards[method+%q+rewritten pattern] = captured name on all %d wildcard paths", sep, wild))
	rep("R16.1", "registration", regProbs, "every returning path registers the route once, with the same (rewritten) pattern the table is keyed by")
	rep("R16.4", "locked", lockProbs, fmt.Sprintf("all %d paths mutate the muxer under m.mu with a deferred unlock", len(t.Paths)))
	rep("R16.7", "flush", flushProbs, "pending middlewares are handed to the router, the list cleared and the 404 handler installed before the first registration")
	return sep + "|" + repl
}

func r16Vars(c *an.Ctx) {
	f, t := tableOf(c, "R16.2", "http", "mux.Vars", 1)
	if t != nil {
		var probs, keyProbs []string
		stores, wildStores := 0, 0
		for i := range t.Paths {
			p := &t.Paths[i]
			for _, e := range p.Effects {
				switch {
				case e.Kind == "mapupdate":
					stores++
					k := strings.Index(e.Term, " = ")
					val := e.Term[k+3:]
					// the router matched the escaped path iff the URL has a RawPath: the value is decoded in that case
					// and is the router's (already decoded) value otherwise
					escaped, known := false, false
					for _, a := range p.Atoms {
						switch a.Term {
						case `(p1.URL.RawPath == "")`:
							escaped, known = !a.Val, true
						case `(p1.URL.RawPath != "")`:
							escaped, known = a.Val, true
						}
					}
					isDecoded := regexp.MustCompile(`^http\.unescape\(.*\.Values\[.*\]\)$`).MatchString(val)
					isRaw := regexp.MustCompile(`^(zero:)?(local:)?[\w.]*\.?Values\[.*\]$`).MatchString(val)
					switch {
					case !known && isDecoded:
						probs = append(probs, "a path variable is stored as "+val+" whether or not the URL has a RawPath: when it has none the router matched the decoded path and the value is decoded a second time (\"%2541\" arrives as \"A\")")
					case !known:
						probs = append(probs, "a path variable is stored as "+val+", not as unescape(params.Values[i])")
					case escaped && !isDecoded:
						probs = append(probs, "with a RawPath the router's value is still escaped, yet the variable is stored as "+val)
					case !escaped && !isRaw:
						probs = append(probs, "without a RawPath the router's value is already decoded, yet the variable is stored as "+val)
					}
					if strings.Contains(e.Term[:k], "p0.wildcards[") {
						wildStores++
					}
				case e.Kind == "lookup" && strings.HasPrefix(e.Term, "p0.wildcards["):
					if !regexp.MustCompile(`^p0\.wildcards\[\(\(p1\.Method \+ "::"\) \+ \(\*github\.com/go-chi/chi/v5\.Context\)\.RoutePattern\(.*\)\)\]$`).MatchString(e.Term) {
						keyProbs = append(keyProbs, "Vars looks the wildcard name up under "+e.Term)
					}
				case e.Kind == "store" && strings.HasPrefix(e.Term, "p0."):
					probs = append(probs, "Vars writes muxer state at request time: "+e.Term)
				}
			}
		}
		if stores < 2 || wildStores < 1 {
			probs = append(probs, fmt.Sprintf("only %d variable stores (%d through the wildcard table) found", stores, wildStores))
		}
		probs = dedupStrings(probs)
		c.Check(len(probs) == 0, "R16.2", f.Name+"#unescape-once", f.Decl.Pos(), fmt.Sprintf("all %d stores into the result are unescape(params.Values[i]) when the URL has a RawPath and params.Values[i] otherwise (named and wildcard variables alike)", stores), strings.Join(probs, " | "))
		keyProbs = dedupStrings(keyProbs)
		c.Check(len(keyProbs) == 0, "R16.1", f.Name+"#table-key", f.Decl.Pos(), `wildcard name looked up under r.Method+"::"+ctx.RoutePattern()`, strings.Join(keyProbs, " | "))
	}
	if g, ut := tableOf(c, "R16.2", "http", "unescape", 0); ut != nil {
		ok := len(ut.Paths) == 2
		for _, p := range ut.Paths {
			if len(p.Atoms) != 1 || len(p.Ret) != 1 {
				ok = false
				continue
			}
			succeeded := (p.Atoms[0].Term == "(net/url.PathUnescape(p0)#1 == nil)") == p.Atoms[0].Val
			if p.Atoms[0].Term != "(net/url.PathUnescape(p0)#1 == nil)" {
				ok = false
			}
			if succeeded && p.Ret[0] != "net/url.PathUnescape(p0)#0" || !succeeded && p.Ret[0] != "p0" {
				ok = false
			}
		}
		c.Check(ok, "R16.2", g.Name, g.Decl.Pos(), "unescape = url.PathUnescape, falling back to the raw value on error", "unescape is no longer PathUnescape-or-identity: "+strings.ReplaceAll(ut.Dump(), "\n", " "))
	}
}

func r16Resolve(c *an.Ctx, handleInfo string) {
	f, t := tableOf(c, "R16.3", "http", "mux.resolveWildcard", 0)
	if t == nil {
		return
	}
	parts := strings.SplitN(handleInfo, "|", 2)
	sep, repl := "", ""
	if len(parts) == 2 {
		sep, repl = parts[0], parts[1]
	}
	key := `p0.wildcards[((p1 + "` + sep + `") + p2)]`
	var probs []string
	for i := range t.Paths {
		p := &t.Paths[i]
		if len(p.Atoms) != 1 || p.Atoms[0].Term != key+"#1" {
			probs = append(probs, "resolveWildcard tests "+p.GuardString()+", expected a lookup under method+"+fmt.Sprintf("%q", sep)+"+pattern (the key Handle stores)")
			continue
		}
		if p.Atoms[0].Val {
			want := fmt.Sprintf(`(((p2[:(len(p2) - %d)] + "/{*") + %s#0) + "}")`, len(repl), key)
			if len(p.Ret) != 1 || p.Ret[0] != want {
				probs = append(probs, fmt.Sprintf("a registered wildcard pattern is reported as %s; expected the pattern minus the %d characters of %q followed by \"/{*\"+name+\"}\"", strings.Join(p.Ret, ","), len(repl), repl))
			}
		} else if len(p.Ret) != 1 || p.Ret[0] != "p2" {
			probs = append(probs, "a pattern without wildcard is reported as "+strings.Join(p.Ret, ","))
		}
	}
	if len(t.Paths) != 2 {
		probs = append(probs, fmt.Sprintf("%d paths, expected 2", len(t.Paths)))
	}
	c.Check(len(probs) == 0, "R16.3", f.Name, f.Decl.Pos(), `pattern reported = pattern registered: "/*" is replaced back by "/{*name}", other patterns are returned unchanged`, strings.Join(dedupStrings(probs), " | "))
	if g, rt := tableOf(c, "R16.3", "http", "mux.ResolvePattern", 0); rt != nil {
		ok := false
		for _, p := range rt.Paths {
			if len(p.Ret) == 1 && regexp.MustCompile(`^\(\*http\.mux\)\.resolveWildcard\(p0, p1\.Method, \(\*github\.com/go-chi/chi/v5\.Context\)\.RoutePattern\(.*\)\)$`).MatchString(p.Ret[0]) {
				ok = true
			}
		}
		c.Check(ok, "R16.3", g.Name, g.Decl.Pos(), "ResolvePattern resolves (r.Method, chi's route pattern) through the wildcard table", "ResolvePattern does not return resolveWildcard(r.Method, ctx.RoutePattern())")
	}
}

func r16Use(c *an.Ctx) {
	f, t := tableOf(c, "R16.7", "http", "mux.Use", 0)
	if t == nil {
		return
	}
	var probs, lockProbs []string
	for i := range t.Paths {
		p := &t.Paths[i]
		if ok, why := lockedThroughout(p, "&p0.mu"); !ok {
			lockProbs = append(lockProbs, why)
		}
		if len(p.Atoms) != 1 || p.Atoms[0].Term != "(p0.middlewares == nil)" {
			probs = append(probs, "Use decides on ["+p.GuardString()+"], expected the presence of the pending list")
			continue
		}
		appended, forwarded := false, false
		for _, e := range p.Effects {
			if e.Kind == "store" && e.Term == "p0.middlewares = append(p0.middlewares, [p1]...)" {
				appended = true
			}
			if e.Kind == "call" && e.Term == "p0.Router.Use([p1]...)" {
				forwarded = true
			}
		}
		noList := p.Atoms[0].Val
		if noList && (!forwarded || appended) {
			probs = append(probs, "after the first Handle a middleware is not forwarded to the router")
		}
		if !noList && (!appended || forwarded) {
			probs = append(probs, "before the first Handle a middleware is not appended to the pending list (or is registered twice)")
		}
	}
	if len(t.Paths) != 2 {
		probs = append(probs, fmt.Sprintf("%d paths, expected 2", len(t.Paths)))
	}
	c.Check(len(probs) == 0, "R16.7", f.Name, f.Decl.Pos(), "no middleware is dropped: pending list present → appended; otherwise → Router.Use", strings.Join(dedupStrings(probs), " | "))
	c.Check(len(lockProbs) == 0, "R16.4", f.Name+"#locked", f.Decl.Pos(), "Use mutates the muxer under m.mu with a deferred unlock", strings.Join(dedupStrings(lockProbs), " | "))
}

func r16NotFound(c *an.Ctx) {
	const rule = "R16.5"
	f := c.MustFunc(rule, "http", "mux.Handle")
	if f == nil {
		return
	}
	// the handler given to the router's NotFound: a function literal, a named function or a local
	var nf *ssa.Function
	var fns []*ssa.Function
	for _, g := range c.WithNewHelpers(f) {
		if sg := c.SSAFunc(g); sg != nil {
			fns = append(fns, sg)
		}
	}
	for _, fn := range fns {
		for _, b := range fn.Blocks {
			for _, in := range b.Instrs {
				call, ok := in.(ssa.CallInstruction)
				if !ok {
					continue
				}
				cc := call.Common()
				name := ""
				if cc.IsInvoke() {
					name = cc.Method.Name()
				} else if sc := cc.StaticCallee(); sc != nil {
					name = sc.Name()
				}
				if name != "NotFound" || len(cc.Args) == 0 {
					continue
				}
				nf = an.FuncValueOf(cc.Args[len(cc.Args)-1])
			}
		}
	}
	if nf == nil {
		c.Failf(rule, f.Name+"$notfound", f.Decl.Pos(), "no function handed to the router's NotFound in Handle")
		return
	}
	t := an.BuildPathTable(nf, an.PathOpts{})
	c.Stats["paths_enumerated"] += len(t.Paths)
	var probs []string
	for i := range t.Paths {
		p := &t.Paths[i]
		encIdx, whIdx, encodeIdx := -1, -1, -1
		for j, e := range p.Effects {
			if e.Kind != "call" {
				continue
			}
			switch {
			case strings.HasPrefix(e.Term, "http.ResponseEncoder(") && !strings.Contains(e.Term, ").Encode("):
				encIdx = j
				if ak, _ := constValue(c, "http", "AcceptTypeKey"); !strings.Contains(e.Term, "context.WithValue((*net/http.Request).Context(p1), "+ak+`, (net/http.Header).Get(p1.Header, "Accept"))`) {
					probs = append(probs, "the encoder is not negotiated from the request's Accept header stored under AcceptTypeKey: "+e.Term)
				}
			case strings.HasPrefix(e.Term, "p0.WriteHeader("):
				if whIdx >= 0 {
					probs = append(probs, "WriteHeader is called twice")
				}
				whIdx = j
				if e.Term != "p0.WriteHeader(404)" {
					probs = append(probs, "the not-found handler writes "+e.Term)
				}
			case strings.Contains(e.Term, ".Encode(") && strings.HasPrefix(e.Term, "http.ResponseEncoder("):
				encodeIdx = j
				if !strings.Contains(e.Term, "http.NewErrorResponse(") {
					probs = append(probs, "the 404 body is not an error response: "+e.Term)
				}
			}
		}
		if !(encIdx >= 0 && encIdx < whIdx && whIdx < encodeIdx) {
			probs = append(probs, fmt.Sprintf("order negotiate-encoder(%d) ≺ WriteHeader(%d) ≺ Encode(%d) violated", encIdx, whIdx, encodeIdx))
		}
	}
	if len(t.Paths) == 0 {
		probs = append(probs, "no path")
	}
	c.Check(len(probs) == 0, rule, f.Name+"$notfound", f.Decl.Pos(), "404 handler: negotiate encoder (sets Content-Type) ≺ WriteHeader(404) ≺ Encode(error response)", strings.Join(dedupStrings(probs), " | "))
}

// r16Probe: route probing (Routes.Match) records the matched pattern in the
// context it is given. Only mux.ensureContext may hand it the request's own
// routing context (that is its documented purpose); every other probe must
// use a fresh chi.NewRouteContext(), otherwise the pattern reported to
// middlewares and the wildcard values are corrupted.
func r16Probe(c *an.Ctx) {
	const rule = "R16.6"
	n := 0
	for _, dir := range []string{"http", "http/middleware"} {
		for _, f := range c.AllFuncs(dir) {
			info := f.Pkg.TypesInfo
			for _, call := range an.AllCallsIn(f.Decl.Body) {
				name := an.CalleeName(info, call)
				if !strings.HasSuffix(name, "go-chi/chi/v5.Routes).Match") && !strings.HasSuffix(name, "go-chi/chi/v5.Mux).Match") {
					continue
				}
				n++
				construct := fmt.Sprintf("%s#Match@%s", f.Name, c.Position(call.Pos()))
				if c.RefName(f) == "http.mux.ensureContext" { // also under a new name
					c.Okf(rule, construct, "ensureContext initialises the request's own routing context (reviewed: this is its purpose)")
					continue
				}
				fresh := false
				if len(call.Args) > 0 {
					if inner, ok := an.Unparen(call.Args[0]).(*ast.CallExpr); ok && strings.HasSuffix(an.CalleeName(info, inner), "go-chi/chi/v5.NewRouteContext") {
						fresh = true
					}
				}
				c.Check(fresh, rule, construct, call.Pos(), "route probe uses a fresh routing context", "route probe is given "+an.Src(c.Fset, call.Args[0])+" instead of a fresh chi.NewRouteContext(): the probe appends to the request's recorded route patterns and URL parameters")
			}
		}
	}
	c.Floor(rule, n, 3, "Routes.Match probes")
}

// r16Sentinels (R16.8, R16.9). (R16.8) Handle installs the not-found handler
// and flushes the pending middlewares when a "first registration" sentinel field
// is non-nil, and sets it to nil afterwards; the constructor must therefore give
// that field a non-nil value, or the not-found handler is never installed and
// unmatched requests get the router's plain-text 404. (R16.9) the pre-routing
// probe in ensureContext matches the request's PATH (URL.Path, URL.RawPath or
// EscapedPath()): anything that carries the query string (RequestURI(), String())
// pollutes the last path value and the resolved pattern.
func r16Sentinels(c *an.Ctx) {
	h := c.MustFunc("R16.8", "http", "mux.Handle")
	nm := c.MustFunc("R16.8", "http", "NewMuxer")
	if h != nil && nm != nil {
		var sentinels []string
		// a sentinel is a field of the muxer that Handle (or a helper extracted from it) both compares
		// with nil and sets to nil: the first-registration work is done while it is non-nil
		compared, cleared := map[string]bool{}, map[string]bool{}
		c.InspectAll(h, func(hf *an.Func, nd ast.Node) bool {
			info := hf.Pkg.TypesInfo
			switch x := nd.(type) {
			case *ast.BinaryExpr:
				if (x.Op == token.NEQ || x.Op == token.EQL) && an.IsNilIdent(info, x.Y) {
					if fv := an.FieldOf(info, x.X); fv != nil {
						compared[fv.Name()] = true
					}
				}
			case *ast.AssignStmt:
				if len(x.Lhs) == 1 && len(x.Rhs) == 1 && an.IsNilIdent(info, x.Rhs[0]) {
					if fv := an.FieldOf(info, x.Lhs[0]); fv != nil {
						cleared[fv.Name()] = true
					}
				}
			}
			return true
		})
		for name := range compared {
			if cleared[name] {
				sentinels = append(sentinels, name)
			}
		}
		sort.Strings(sentinels)
		if len(sentinels) == 0 {
			c.Add(an.Obligation{Rule: "R16.8", Construct: h.Name + "#sentinel", Status: an.LOST, Detail: "no first-registration sentinel found in Handle"})
		}
		ninfo := nm.Pkg.TypesInfo
		for _, s := range sentinels {
			set := false
			ast.Inspect(nm.Decl.Body, func(nd ast.Node) bool {
				switch x := nd.(type) {
				case *ast.KeyValueExpr:
					if id, ok := x.Key.(*ast.Ident); ok && id.Name == s && !an.IsNilIdent(ninfo, x.Value) {
						set = true
					}
				case *ast.AssignStmt:
					if len(x.Lhs) == 1 && len(x.Rhs) == 1 && !an.IsNilIdent(ninfo, x.Rhs[0]) {
						if fv := an.FieldOf(ninfo, x.Lhs[0]); fv != nil && fv.Name() == s {
							set = true
						}
					}
				}
				return true
			})
			c.Check(set, "R16.8", nm.Name+"#sentinel", nm.Decl.Pos(), "the constructor gives the first-registration sentinel a non-nil value", "Handle runs its first-registration setup (not-found handler, pending middlewares) only while field "+s+" is non-nil, but NewMuxer leaves it nil: the goa not-found handler is never installed")
		}
	}
	if f := c.MustFunc("R16.9", "http", "mux.ensureContext"); f != nil {
		info := f.Pkg.TypesInfo
		n := 0
		ast.Inspect(f.Decl.Body, func(nd ast.Node) bool {
			call, ok := nd.(*ast.CallExpr)
			if !ok || len(call.Args) != 3 {
				return true
			}
			se, ok := call.Fun.(*ast.SelectorExpr)
			if !ok || se.Sel.Name != "Match" {
				return true
			}
			n++
			arg := an.Src(c.Fset, an.ResolveLocal(info, f.Decl.Body, call.Args[2]))
			good := strings.HasSuffix(arg, ".URL.Path") || strings.HasSuffix(arg, ".URL.RawPath") || strings.HasSuffix(arg, ".URL.EscapedPath()")
			_ = info
			c.Check(good, "R16.9", f.Name+"#Match("+arg+")", call.Pos(), "the routing probe matches the request path", "the routing probe matches "+arg+", which is not the bare path of the request (a query string becomes part of the last path value and literal-ending patterns stop matching)")
			return true
		})
		c.Floor("R16.9", n, 1, "routing probes in ensureContext")
	}
}

// r1611WildcardNames (R16.11): the design side (expr: route validation, path parameters, generated path builders)
// and the runtime muxer recognise wildcards with two separate regular expressions. They must accept the same
// names: the capture group of the design-side `/{\*?(…)}` and of the muxer's `/{\*(…)}` is the same expression. A
// name only one of them accepts is a wildcard for the router and plain text for the generated code (or the
// reverse), and the value captured is not the one the design declared.
func r1611WildcardNames(c *an.Ctx, rule string) {
	re := regexp.MustCompile("regexp\\.MustCompile\\(`([^`]*)`\\)")
	find := func(dir, marker string) (name, group string) {
		for v, init := range c.GlobalInits()[dir] {
			m := re.FindStringSubmatch(init)
			if m == nil || !strings.Contains(m[1], marker) {
				continue
			}
			rest := m[1][strings.Index(m[1], marker)+len(marker):]
			if i := strings.LastIndex(rest, ")"); i >= 0 && strings.HasPrefix(rest, "(") {
				return v, rest[1:i]
			}
		}
		return "", ""
	}
	dn, dg := find("expr", `/{\*?`)
	mn, mg := find("http", `/{\*`)
	if dn == "" || mn == "" {
		c.Add(an.Obligation{Rule: rule, Construct: "wildcard patterns", Status: an.LOST, Nontrivial: true,
			Detail: fmt.Sprintf("wildcard regular expressions not found (design side %q, muxer %q)", dn, mn)})
		return
	}
	norm := func(g string) string {
		// character classes and repetitions in the canonical form of regexp/syntax: [a-z0-9_]+ = [0-9_a-z]+ = \w+ (ASCII)
		r, err := syntax.Parse(g, syntax.Perl)
		if err != nil {
			return g
		}
		return r.Simplify().String()
	}
	if norm(dg) == norm(mg) {
		c.Okf(rule, "expr."+dn+"/http."+mn, "design side and muxer capture wildcard names with the same expression (%s)", dg)
		return
	}
	c.Failf(rule, "expr."+dn+"/http."+mn, token.NoPos, "the design side recognises wildcard names with (%s), the muxer with (%s): a name only one of them accepts is routed as a wildcard but generated as plain text, or the reverse", dg, mg)
}
