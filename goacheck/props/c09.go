package props

import (
	"fmt"
	"go/ast"
	"go/constant"
	"go/types"
	"regexp"
	"sort"
	"strings"
	"text/template/parse"

	"golang.org/x/tools/go/ssa"

	"goacheck/an"
)

func init() { Registry["C09"] = runC09 }

const explanationC09 = "Decides structural necessary conditions of C09 on the generator packages (codegen/**, expr, eval, dsl, http/codegen/**, grpc/codegen/**, cmd/goa): (R09.1) no order-sensitive iteration over a map — every range-over-map statement is classified (commutative, collected-then-sorted, single-entry, key pinned to one constant) and an order-sensitive site must be in the reviewed table with exactly the reviewed reasons; (R09.2) every sort.Slice comparator indexes the slice it sorts; (R09.3) no ambient nondeterminism (time, package-level math/rand, crypto/rand, pid, hostname, uuid) is called from generator packages and the example randomizer is seeded from its seed parameter only, which is the API name; (R09.4) File.Render never opens an existing SkipExist file (the Stat path is the path it would open, the open flags are create|append|write-only without truncation) and every codegen.File built by a function reachable from generator.Example sets SkipExist; (R09.5) the generated main removes the gen sub-directories before generator.Generate runs and cleanupDirs returns every sub-directory; (R09.6) Generate sorts the list of written files; (R09.7) errors of the write pipeline are tested with the right polarity or returned; (R09.8) a temporary file created in the output tree is removed on every exit after its creation. (R09.9) the type switches that turn primitive values into text (JSON example keys, server variables) handle the same set of basic types. NOT decided: byte equality across processes (the rules remove the known sources of variation; they cannot prove there is no other), behaviour of go/format and imports.Process."

var genDirs = []string{"codegen", "codegen/cli", "codegen/example", "codegen/generator", "codegen/service", "expr", "eval", "dsl",
	"http/codegen", "http/codegen/openapi", "http/codegen/openapi/v2", "http/codegen/openapi/v3", "grpc/codegen", "cmd/goa"}

// reviewedMapRanges: sites whose order-sensitivity findings were read one by
// one; key = function + "#" + ranged expression in the canonical vocabulary of an.CanonExpr (receiver recv, parameters pN, opaque locals ‹type›); value = the accepted findings
// (exact strings) with the reason in the comment.
var reviewedMapRanges = map[string][]string{
	// single-entry package map (one replacement pair); keys cannot overlap
	"codegen.SnakeCase#toLower": {"assignment of an element-dependent value to name (last or first match wins)"},
	// import lists: their order is erased by finalizeGoSource (ast.SortImports + imports.Process)
	"codegen.safelyGetMetaTypeImports#‹map[codegen.ImportSpec]struct{}›":        {"slice imports is filled in map order and not sorted afterwards"},
	"codegen/service.ConvertFile#‹map[string]string›":                           {"slice pkgs is filled in map order and not sorted afterwards"},
	"codegen/service.Data.initUserTypeImports#‹map[string]*codegen.ImportSpec›": {"slice imports is filled in map order and not sorted afterwards"},
	"codegen/service.Data.initUserTypeImports#‹*service.MethodData›.ErrorLocs":  {"call with unknown effects: goa.design/goa/v3/codegen/service.initLoc"}, // stores into a map keyed by path
	// error text only: which pair of a dependency cycle is named
	"eval.DSLContext.Roots#‹map[string][]eval.Root›": {"call with unknown effects: (goa.design/goa/v3/eval.Expression).EvalName", `returns a value that depends on the element visited: fmt.Errorf("dependency cycle: %s and %s depend on each other (directly or not)", root.EvalName(), other.EvalName())`},
	// search of the reverse name table by value: the two name tables are kept inverse of each other (R02.1), so at
	// most one key carries a given attribute name and "the first match" is the only match
	"expr.MappedAttributeExpr.Delete#recv.reverseMap": {"returns a value that depends on the element visited: k"},
	// debug printer, not reachable from Generate
	"expr.AttributeExpr.debug#recv.Meta": {"call with unknown effects: fmt.Printf"},
	// value conversion into a fresh map (map stores), recursion on values
	"expr.MapVal.ToMap#recv": {"call with unknown effects: (goa.design/goa/v3/expr.ArrayVal).ToSlice", "call with unknown effects: (goa.design/goa/v3/expr.MapVal).ToMap"},
	// deletes attributes by name from the body object: commutative
	"expr.httpRequestBody#defaultRequestHeaderAttributes(p0)": {"call with unknown effects: goa.design/goa/v3/expr.removeAttribute"},
	// map-to-map copies through helper calls
	"http/codegen/openapi.Schema.Dup#recv.Properties":      {"call with unknown effects: (*goa.design/goa/v3/http/codegen/openapi.Schema).Dup"},
	"http/codegen/openapi.Schema.Dup#recv.Definitions":     {"call with unknown effects: (*goa.design/goa/v3/http/codegen/openapi.Schema).Dup"},
	"http/codegen/openapi.ToStringMap#actual":              {"call with unknown effects: goa.design/goa/v3/http/codegen/openapi.ToStringMap", "call with unknown effects: goa.design/goa/v3/http/codegen/openapi.ToString"},
	"http/codegen/openapi/v3.toStringMap#actual":           {"call with unknown effects: goa.design/goa/v3/http/codegen/openapi/v3.toStringMap", "call with unknown effects: goa.design/goa/v3/http/codegen/openapi/v3.toString"},
	"http/codegen/openapi.extensionsFromExprWithPrefix#p0": {"call with unknown effects: encoding/json.Unmarshal"},
	"http/codegen/openapi.propertiesFromDefs#p0":           {"call with unknown effects: goa.design/goa/v3/http/codegen/openapi.NewSchema"},
}

func runC09(c *an.Ctx) string {
	r091MapOrder(c)
	r092Sort(c)
	r093Ambient(c)
	r094Render(c)
	r094Example(c)
	r095Cleanup(c)
	r096Sorted(c)
	r097ErrGates(c)
	r098TempFiles(c)
	r099KeyStrings(c, "R09.9")
	return explanationC09
}

func r091MapOrder(c *an.Ctx) {
	const rule = "R09.1"
	n := 0
	counts := map[string]int{}
	for _, dir := range genDirs {
		for _, f := range c.AllFuncs(dir) {
			for _, mr := range an.MapRanges(f, nil) {
				n++
				counts[mr.Class]++
				if mr.Class != "order-sensitive" {
					c.Add(an.Obligation{Rule: rule, Construct: f.Name + "#range(" + types.ExprString(mr.Stmt.X) + ")", Status: an.OK, Detail: mr.Class, Nontrivial: true})
					continue
				}
				// an order-sensitive site is named in the reference vocabulary (parameters by position, locals by
				// definition, code of extracted helpers attributed to the functions it came from), so that the
				// reviewed table and the known findings follow renames and extractions
				for _, key := range c.SiteKeys(f, mr.Stmt.X) {
					construct := strings.Replace(key, "#", "#range(", 1) + ")"
					allowed, reviewed := reviewedMapRanges[key]
					var extra []string
					for _, r := range mr.Reasons {
						ok := false
						for _, a := range allowed {
							if a == r {
								ok = true
							}
						}
						if !ok {
							extra = append(extra, r)
						}
					}
					if reviewed && len(extra) == 0 {
						c.Okf(rule, construct, "order-sensitive shape reviewed and accepted (%d findings, see the table's reason)", len(mr.Reasons))
						continue
					}
					c.Failf(rule, construct, mr.Stmt.Pos(), "generated output can depend on map iteration order: %s", strings.Join(extra, "; "))
				}
			}
		}
	}
	c.Stats["map_ranges_classified"] = n
	for k, v := range counts {
		c.Stats["map_ranges_"+k] = v
	}
	c.Floor(rule, n, 40, "range-over-map sites in generator packages")
}

func r092Sort(c *an.Ctx) {
	const rule = "R09.2"
	n := 0
	for _, dir := range genDirs {
		for _, f := range c.AllFuncs(dir) {
			for _, sc := range an.SortComparators(f) {
				n++
				construct := fmt.Sprintf("%s#sort(%s)", f.Name, types.ExprString(sc.Call.Args[0]))
				if sc.Problem == "" {
					c.Okf(rule, construct, "comparator indexes the slice it sorts")
				} else {
					c.Failf(rule, construct, sc.Call.Pos(), "%s: the resulting order depends on the input order", sc.Problem)
				}
			}
		}
	}
	c.Floor(rule, n, 5, "sort.Slice comparators in generator packages")
}

var ambientFuncs = map[string]bool{
	"time.Now": true, "time.Since": true, "time.Until": true, "os.Getpid": true, "os.Getppid": true, "os.Hostname": true,
	"crypto/rand.Read": true, "crypto/rand.Int": true,
	"github.com/google/uuid.New": true, "github.com/google/uuid.NewString": true, "github.com/google/uuid.NewRandom": true, "github.com/google/uuid.NewUUID": true,
	"os.Environ": true,
}

func r093Ambient(c *an.Ctx) {
	const rule = "R09.3"
	// reviewed environment reads: command-line environment, not content
	okEnv := map[string]bool{"codegen/service.ConvertFile": true, "codegen/service.getPkgImport": true, "cmd/goa.Generator.Write": true, "cmd/goa.Generator.Compile": true, "cmd/goa.findGoaVersion": true, "cmd/goa.Generator.goaPackage": true,
		"http/codegen.makeGolden": true /* test support: golden-file switch */}
	scanned := 0
	var bad []string
	for _, dir := range genDirs {
		for _, f := range c.AllFuncs(dir) {
			scanned++
			info := f.Pkg.TypesInfo
			for _, call := range an.AllCallsIn(f.Decl.Body) {
				name := an.CalleeName(info, call)
				switch {
				case ambientFuncs[name]:
					bad = append(bad, fmt.Sprintf("%s calls %s (%s)", f.Name, name, c.Position(call.Pos())))
				case strings.HasPrefix(name, "math/rand.") && !strings.HasPrefix(name, "math/rand.New"):
					// package-level math/rand functions use the shared, randomly seeded source
					bad = append(bad, fmt.Sprintf("%s calls %s (%s)", f.Name, name, c.Position(call.Pos())))
				case name == "os.Getenv" && !okEnv[f.Name] && dir != "cmd/goa":
					bad = append(bad, fmt.Sprintf("%s reads the environment (%s)", f.Name, c.Position(call.Pos())))
				}
			}
		}
	}
	sort.Strings(bad)
	c.Check(len(bad) == 0, rule, "generator-packages#ambient", 0, fmt.Sprintf("%d generator functions call no clock, pid, hostname, uuid, crypto/rand or shared math/rand source", scanned), strings.Join(bad, "; "))
	c.Floor(rule, scanned, 900, "generator functions scanned")
	// the local time zone is ambient input too: a time rendered or decomposed in generator code is first put in UTC
	zoned := map[string]bool{"Format": true, "String": true, "AppendFormat": true, "Date": true, "Clock": true, "Year": true, "Month": true, "Day": true,
		"Hour": true, "Weekday": true, "YearDay": true, "ISOWeek": true, "MarshalJSON": true, "MarshalText": true, "GoString": true}
	nTimes := 0
	for _, dir := range genDirs {
		for _, f := range c.AllFuncs(dir) {
			info := f.Pkg.TypesInfo
			for _, call := range an.AllCallsIn(f.Decl.Body) {
				se, ok := an.Unparen(call.Fun).(*ast.SelectorExpr)
				if !ok || !zoned[se.Sel.Name] {
					continue
				}
				if tv, ok := info.Types[se.X]; !ok || an.NamedTypeName(tv.Type) != "time.Time" {
					continue
				}
				nTimes++
				recv := an.Unparen(an.ResolveLocal(info, f.Decl.Body, se.X))
				inUTC := false
				if rc, ok := recv.(*ast.CallExpr); ok {
					if rs, ok := an.Unparen(rc.Fun).(*ast.SelectorExpr); ok {
						switch rs.Sel.Name {
						case "UTC":
							inUTC = true
						case "In":
							if len(rc.Args) == 1 {
								if o := an.ObjOf(info, selName(rc.Args[0])); o != nil && o.Name() == "UTC" && o.Pkg() != nil && o.Pkg().Path() == "time" {
									inUTC = true
								}
							}
						}
					}
				}
				c.Check(inUTC, rule, fmt.Sprintf("%s#%s", f.Name, an.Src(c.Fset, call.Fun)), call.Pos(), "the time is put in UTC before it is rendered", "a time value is rendered in the local time zone of the machine that runs the generator ("+an.Src(c.Fset, call)+"): the generated text differs between machines and between runs under different TZ settings")
			}
		}
	}
	c.Floor(rule, nTimes, 2, "renderings of time values in generator packages")
	// the example randomizer is seeded from its parameter
	if f, t := tableOf(c, rule, "expr", "NewFakerRandomizer", 0); t != nil {
		var probs []string
		for i := range t.Paths {
			p := &t.Paths[i]
			seedWritten, srcOK := false, false
			for _, cl := range p.CallEffects() {
				if strings.HasSuffix(cl, ".Write([]byte(p0))") {
					seedWritten = true
				}
				if strings.HasPrefix(cl, "math/rand.NewSource(") {
					srcOK = strings.Contains(cl, ".Sum(nil)") && !strings.Contains(cl, "time.")
				}
			}
			if !seedWritten || !srcOK {
				probs = append(probs, fmt.Sprintf("seed hashed=%v, source derived from the hash only=%v", seedWritten, srcOK))
			}
		}
		report(c, rule, f.Name, f, probs, "the random source is derived from a hash of the seed parameter and nothing else")
	}
	if f, t := tableOf(c, rule, "expr", "NewAPIExpr", 0); t != nil {
		ok := false
		for i := range t.Paths {
			p := &t.Paths[i]
			if len(p.Ret) == 1 {
				if v, has := p.Field(p.Ret[0], "ExampleGenerator"); has && v == "expr.NewRandom(p0)" {
					ok = true
				}
			}
		}
		c.Check(ok, rule, f.Name, f.Decl.Pos(), "the example generator is seeded with the API name", "NewAPIExpr does not seed the example generator with the API name")
	}
}

func intConst(c *an.Ctx, pkgPath, name string) (int64, bool) {
	for _, p := range c.Pkgs {
		for _, imp := range p.Imports {
			if imp.PkgPath == pkgPath && imp.Types != nil {
				if o, ok := imp.Types.Scope().Lookup(name).(*types.Const); ok {
					v, exact := constant.Int64Val(constant.ToInt(o.Val()))
					return v, exact
				}
			}
		}
	}
	return 0, false
}

func r094Render(c *an.Ctx) {
	const rule = "R09.4"
	f, t := tableOf(c, rule, "codegen", "File.Render", 1)
	if t == nil {
		return
	}
	create, _ := intConst(c, "os", "O_CREATE")
	appendF, _ := intConst(c, "os", "O_APPEND")
	wronly, _ := intConst(c, "os", "O_WRONLY")
	trunc, _ := intConst(c, "os", "O_TRUNC")
	reOpen := regexp.MustCompile(`^os\.OpenFile\((.*), (\d+), (\d+)\)$`)
	reStat := regexp.MustCompile(`^os\.Stat\((.*)\)$`)
	var probs, flagProbs []string
	skipped, opened := 0, 0
	for i := range t.Paths {
		p := &t.Paths[i]
		e := pathEnv(p)
		var statArg, openArg string
		var flags int64
		for _, cl := range p.CallEffects() {
			if m := reStat.FindStringSubmatch(cl); m != nil {
				statArg = m[1]
			}
			if m := reOpen.FindStringSubmatch(cl); m != nil {
				openArg = m[1]
				fmt.Sscanf(m[2], "%d", &flags)
			}
		}
		skip, sk := e["p0.SkipExist"]
		if !sk {
			if openArg != "" {
				probs = append(probs, "path ["+p.GuardString()+"] opens the file without consulting SkipExist")
			}
			continue
		}
		exists := false
		for k, v := range e {
			if strings.HasPrefix(k, "(os.Stat(") && strings.HasSuffix(k, ")#1 == nil)") {
				exists = v
			}
		}
		if skip && statArg == "" {
			probs = append(probs, "a SkipExist file is not checked for existence")
		}
		if skip && exists {
			skipped++
			if openArg != "" {
				probs = append(probs, "an existing SkipExist file is opened for writing")
			}
			if len(p.Ret) != 2 || p.Ret[0] != `""` || p.Ret[1] != "nil" {
				probs = append(probs, "an existing SkipExist file does not make Render return (\"\", nil): "+strings.Join(p.Ret, ","))
			}
			continue
		}
		if openArg != "" {
			opened++
			if statArg != "" && statArg != openArg {
				probs = append(probs, "existence is tested on "+statArg+" but the file written is "+openArg)
			}
			if !strings.HasPrefix(openArg, "path/filepath.Join([path/filepath.Abs(p1)#0, p0.Path]...)") {
				probs = append(probs, "the file written is "+openArg+", expected Join(Abs(dir), f.Path)")
			}
			if flags != create|appendF|wronly || flags&trunc != 0 {
				flagProbs = append(flagProbs, fmt.Sprintf("OpenFile flags are %#x, expected O_CREATE|O_APPEND|O_WRONLY (%#x) without O_TRUNC", flags, create|appendF|wronly))
			}
		}
	}
	if skipped == 0 || opened == 0 {
		probs = append(probs, fmt.Sprintf("skip paths=%d open paths=%d", skipped, opened))
	}
	report(c, rule, f.Name+"#skip-exist", f, probs, fmt.Sprintf("an existing SkipExist file is never opened (%d skip paths); the path tested is the path written (%d writing paths)", skipped, opened))
	report(c, rule, f.Name+"#open-flags", f, flagProbs, "files are opened create|append|write-only, never truncated (multi-section files rely on append; regeneration relies on the wipe)")
	// R01.4 / R09.7: .go files are parsed (finalizeGoSource) before success and its error returned
	var finProbs []string
	goPaths := 0
	for i := range t.Paths {
		p := &t.Paths[i]
		isGo, known := false, false
		for _, a := range p.Atoms {
			if strings.HasPrefix(a.Term, "(path/filepath.Ext(") && strings.HasSuffix(a.Term, `) == ".go")`) {
				isGo, known = a.Val, true
			}
		}
		if !known || !isGo {
			continue
		}
		fin := false
		for _, cl := range p.CallEffects() {
			if strings.HasPrefix(cl, "codegen.finalizeGoSource(") {
				fin = true
			}
		}
		success := len(p.Ret) == 2 && p.Ret[1] == "nil" && p.Ret[0] != `""`
		if success {
			goPaths++
			if !fin {
				finProbs = append(finProbs, "a .go file is reported written without being parsed and formatted")
			}
			finOK := false
			for _, a := range p.Atoms {
				if strings.HasPrefix(a.Term, "(codegen.finalizeGoSource(") && strings.HasSuffix(a.Term, " == nil)") && a.Val {
					finOK = true
				}
			}
			if fin && !finOK {
				finProbs = append(finProbs, "Render reports success although finalizeGoSource's error was not tested as nil")
			}
		}
	}
	if goPaths == 0 {
		finProbs = append(finProbs, "no successful path for .go files found")
	}
	report(c, "R09.7", f.Name+"#finalize", f, finProbs, "every successful path for a .go file passes finalizeGoSource with a nil error")
}

func r094Example(c *an.Ctx) {
	const rule = "R09.4"
	ex := c.MustFunc(rule, "codegen/generator", "Example")
	if ex == nil {
		return
	}
	entry := c.SSAFunc(ex)
	reach := an.Reachable(entry)
	c.Stats["functions_reachable_from_Example"] = len(reach)
	// source functions by SSA function
	byObj := map[types.Object]*an.Func{}
	for _, d := range c.ModuleDirs() {
		for _, f := range c.AllFuncs(d) {
			byObj[f.Obj] = f
		}
	}
	// functions also reachable from the gen command must not be required to skip: restrict to functions only the example command reaches
	var genReach map[*ssa.Function]bool
	var genEntries []*ssa.Function
	for _, name := range []string{"Service", "Transport", "OpenAPI"} {
		if g := c.Func("codegen/generator", name); g != nil {
			genEntries = append(genEntries, c.SSAFunc(g))
		}
	}
	genReach = an.Reachable(genEntries...)
	n := 0
	for fn := range reach {
		if fn.Object() == nil || genReach[fn] {
			continue
		}
		f := byObj[fn.Object()]
		if f == nil {
			continue
		}
		for _, cl := range compositeLits(f, an.P("codegen")+".File") {
			n++
			v, set := litFields(cl)["SkipExist"]
			val, isConst := false, false
			if set {
				val, isConst = an.ConstBool(f.Pkg.TypesInfo, v)
			}
			construct := fmt.Sprintf("%s{File}@%s", f.Name, types.ExprString(litFields(cl)["Path"]))
			c.Check(set && isConst && val, rule, construct, cl.Pos(), "example file is produced with SkipExist: true", "a file produced by the example command does not set SkipExist: true — an existing (possibly edited) file would be appended to")
		}
	}
	c.Floor(rule, n, 8, "codegen.File literals reachable only from generator.Example")
}

func r095Cleanup(c *an.Ctx) {
	const rule = "R09.5"
	tpl, err := c.TplConst("cmd/goa", "mainT")
	if err != nil {
		c.Add(an.Obligation{Rule: rule, Construct: "cmd/goa.mainT", Status: an.LOST, Detail: err.Error()})
	} else {
		runIdx, wipeIdx, genIdx := -1, -1, -1
		wipeChecked := false
		for i, n := range tpl.Tree.Root.Nodes {
			switch x := n.(type) {
			case *parse.TextNode:
				s := string(x.Text)
				if strings.Contains(s, "eval.RunDSL()") && runIdx < 0 {
					runIdx = i
				}
				if strings.Contains(s, "generator.Generate(") && genIdx < 0 {
					genIdx = i
				}
			case *parse.RangeNode:
				var fields []string // what the range iterates over (the variables it declares are not inputs)
				for _, cmd := range x.Pipe.Cmds {
					fields = append(fields, an.TplFields(cmd)...)
				}
				txt := an.TplText(x.List)
				if len(fields) == 1 && fields[0] == ".CleanupDirs" && strings.Contains(txt, "os.RemoveAll(") {
					wipeIdx = i
					wipeChecked = strings.Contains(txt, "err != nil") && strings.Contains(txt, "fail(")
				}
			}
		}
		ok := runIdx >= 0 && wipeIdx > runIdx && genIdx > wipeIdx && wipeChecked
		c.Check(ok, rule, "cmd/goa.mainT#order", 0, "generated main: RunDSL ≺ os.RemoveAll over .CleanupDirs (error fatal) ≺ generator.Generate",
			fmt.Sprintf("order RunDSL(%d) ≺ wipe(%d) ≺ Generate(%d) violated or the RemoveAll error is not fatal (%v)", runIdx, wipeIdx, genIdx, wipeChecked))
	}
	// the data key is fed from cleanupDirs
	if f, t := tableOf(c, rule, "cmd/goa", "cleanupDirs", 1); t != nil {
		var probs []string
		collected := false
		for i := range t.Paths {
			p := &t.Paths[i]
			e := pathEnv(p)
			isGen := false
			for k, v := range e {
				if k == `(p0 == "gen")` {
					isGen = v
				}
			}
			if !isGen {
				if len(p.Ret) != 1 || p.Ret[0] != "nil" {
					probs = append(probs, "non-gen commands wipe "+strings.Join(p.Ret, ","))
				}
				continue
			}
			// iteration paths: a directory entry is appended; a non-directory neither stops the scan nor is appended
			for k, v := range e {
				if strings.HasSuffix(k, ".IsDir()") && p.Looped {
					appended := false
					for _, cl := range p.CallEffects() {
						if strings.HasPrefix(cl, "append(") && strings.Contains(cl, "path/filepath.Join(") && strings.Contains(cl, ".Name()") {
							appended = true
						}
					}
					if v && !appended {
						probs = append(probs, "a sub-directory of gen/ is not collected for removal")
					}
					if v && appended {
						collected = true
						// the entry is joined to the directory that was listed
						opened := ""
						for _, cl := range p.CallEffects() {
							if strings.HasPrefix(cl, "os.Open(") {
								opened = balancedArg(cl[len("os.Open"):])
							}
						}
						for _, cl := range p.CallEffects() {
							if strings.HasPrefix(cl, "append(") && strings.Contains(cl, ".Name()") && opened != "" && !strings.Contains(cl, "path/filepath.Join(["+opened+", ") {
								probs = append(probs, "the sub-directory entry is not joined to the directory that was listed ("+opened+"): the returned path names a different directory whenever the output directory is not the working directory")
							}
						}
					}
					if !v && appended {
						probs = append(probs, "a regular file is collected for removal")
					}
				}
			}
		}
		if !collected {
			probs = append(probs, "no path collects a sub-directory")
		}
		// the loop has no early exit
		exits := 0
		ast.Inspect(f.Decl.Body, func(n ast.Node) bool {
			if rs, ok := n.(*ast.RangeStmt); ok {
				exits += len(loopExits(rs.Body))
			}
			return true
		})
		if exits > 0 {
			probs = append(probs, "the scan of gen/ can stop early (break/return in the loop): later sub-directories survive and are appended to")
		}
		report(c, rule, f.Name, f, probs, "every sub-directory entry of gen/ is returned for removal; the scan never stops early")
	}
	// cleanupDirs feeds .CleanupDirs
	fed := false
	for _, f := range c.AllFuncs("cmd/goa") {
		for _, cl := range compositeLits(f, "") {
			for _, e := range cl.Elts {
				kv, ok := e.(*ast.KeyValueExpr)
				if !ok {
					continue
				}
				k, isStr := an.ConstString(f.Pkg.TypesInfo, kv.Key)
				if !isStr || k != "CleanupDirs" {
					continue
				}
				if call, ok := an.Unparen(kv.Value).(*ast.CallExpr); ok && an.CalleeName(f.Pkg.TypesInfo, call) == an.P("cmd/goa")+".cleanupDirs" {
					fed = true
				}
			}
		}
	}
	c.Check(fed, rule, "cmd/goa#CleanupDirs", 0, "the template's CleanupDirs is the result of cleanupDirs", "the CleanupDirs template key is not fed from cleanupDirs(...)")
}

func r096Sorted(c *an.Ctx) {
	const rule = "R09.6"
	f := c.MustFunc(rule, "codegen/generator", "Generate")
	if f == nil {
		return
	}
	ok, why := sortedResult(c, f, 0)
	c.Check(ok, rule, f.Name, f.Decl.Pos(), "the written-file list is sorted before it is returned", why)
}

// sortedResult reports whether every non-nil first result returned by f passed sort.Strings: the returned
// variable is sorted by a call that dominates the return, or its only definitions are calls of module
// functions for which the same holds (helpers extracted from f).
func sortedResult(c *an.Ctx, f *an.Func, depth int) (bool, string) {
	info := f.Pkg.TypesInfo
	g := an.NewCFG(info, f.Decl.Body)
	sortLocs, sortCalls := g.FindCalls(func(call *ast.CallExpr) bool { return an.IsCallTo(info, call, "sort.Strings") })
	sortedCall := func(e ast.Expr) bool {
		call, isCall := an.Unparen(e).(*ast.CallExpr)
		if !isCall || depth >= 2 {
			return false
		}
		h := c.FuncOfObj(an.Callee(info, call))
		if h == nil {
			return false
		}
		ok, _ := sortedResult(c, h, depth+1)
		return ok
	}
	seen := 0
	for _, r := range g.ReturnLocs() {
		if r.Idx >= len(r.Block.Nodes) {
			continue
		}
		rs := r.Block.Nodes[r.Idx].(*ast.ReturnStmt)
		var res ast.Expr
		if len(rs.Results) > 0 {
			res = rs.Results[0]
		} else if fl := f.Decl.Type.Results; fl != nil && len(fl.List) > 0 && len(fl.List[0].Names) > 0 {
			res = fl.List[0].Names[0]
		}
		if res == nil || an.IsNilIdent(info, res) {
			continue
		}
		seen++
		if sortedCall(res) {
			continue
		}
		obj := an.ObjOf(info, res)
		if obj == nil {
			return false, "the list of written files is returned without passing sort.Strings"
		}
		dominated := false
		for i, s := range sortLocs {
			if an.ObjOf(info, sortCalls[i].Args[0]) == obj && g.LocDominates(s, r) {
				dominated = true
			}
		}
		if dominated {
			continue
		}
		// every definition of the variable is the result of a function that sorts
		defs, allSorted := 0, true
		ast.Inspect(f.Decl.Body, func(n ast.Node) bool {
			if as, isAs := n.(*ast.AssignStmt); isAs {
				for i, l := range as.Lhs {
					if an.ObjOf(info, l) != obj {
						continue
					}
					if len(as.Rhs) == len(as.Lhs) && an.IsNilIdent(info, as.Rhs[i]) {
						continue // the list is dropped, not replaced
					}
					defs++
					if len(as.Rhs) != len(as.Lhs) || !sortedCall(as.Rhs[i]) {
						allSorted = false
					}
				}
			}
			return true
		})
		if defs == 0 || !allSorted {
			return false, "the list of written files is returned without passing sort.Strings"
		}
	}
	if seen == 0 {
		return false, "no returned list found"
	}
	return true, ""
}

func r097ErrGates(c *an.Ctx) {
	const rule = "R09.7"
	n := 0
	for _, spec := range [][2]string{{"codegen", "File.Render"}, {"codegen", "finalizeGoSource"}, {"codegen/generator", "Generate"}, {"codegen", "SectionTemplate.Write"}} {
		f := c.MustFunc(rule, spec[0], spec[1])
		if f == nil {
			continue
		}
		g := an.NewCFG(f.Pkg.TypesInfo, f.Decl.Body)
		for _, d := range g.ErrDefs() {
			n++
			name := an.CalleeName(f.Pkg.TypesInfo, d.Call)
			if name == "" {
				name = types.ExprString(d.Call.Fun)
			}
			construct := fmt.Sprintf("%s#err(%s)", f.Name, name)
			if why := g.ErrChecked(d); why != "" {
				c.Failf(rule, construct, d.Call.Pos(), "%s", why)
			} else {
				c.Okf(rule, construct, "error tested with the failing branch leaving, or returned")
			}
		}
	}
	c.Floor(rule, n, 15, "error results in the write pipeline")
}

// balancedArg returns the text between the parenthesis s starts with and its match.
func balancedArg(s string) string {
	depth := 0
	for i, r := range s {
		switch r {
		case '(', '[':
			depth++
		case ')', ']':
			depth--
			if depth == 0 {
				return s[1:i]
			}
		}
	}
	return ""
}

// r098TempFiles (R09.8): a temporary file created inside the output tree
// (os.CreateTemp in the generator) is removed on every exit that follows its
// creation: the removal is deferred (or called) before any other return can be
// reached. The only return allowed in between is the creation's own error
// return. A temp file left behind by a failed run becomes part of the output
// tree of the next, successful one.
func r098TempFiles(c *an.Ctx) {
	const rule = "R09.8"
	n := 0
	for _, dir := range []string{"codegen/generator", "codegen", "cmd/goa"} {
		for _, f := range c.AllFuncs(dir) {
			if strings.HasSuffix(c.Position(f.Decl.Pos()), "testing.go") || strings.Contains(c.Position(f.Decl.Pos()), "/testing.go:") {
				continue
			}
			info := f.Pkg.TypesInfo
			var g *an.CFG
			ast.Inspect(f.Decl.Body, func(nd ast.Node) bool {
				as, ok := nd.(*ast.AssignStmt)
				if !ok || len(as.Rhs) != 1 || len(as.Lhs) < 1 {
					return true
				}
				call, ok := as.Rhs[0].(*ast.CallExpr)
				if !ok || an.CalleeName(info, call) != "os.CreateTemp" {
					return true
				}
				tmp := an.ObjOf(info, as.Lhs[0])
				if tmp == nil {
					return true
				}
				n++
				if g == nil {
					g = an.NewCFG(info, f.Decl.Body)
				}
				construct := fmt.Sprintf("%s#temp(%s)", f.Name, tmp.Name())
				removes := func(n ast.Node) bool {
					found := false
					ast.Inspect(n, func(m ast.Node) bool {
						c2, ok := m.(*ast.CallExpr)
						if !ok || (an.CalleeName(info, c2) != "os.Remove" && an.CalleeName(info, c2) != "os.RemoveAll") || len(c2.Args) != 1 {
							return true
						}
						if root := an.RootIdent(c2.Args[0]); root != nil && an.ObjOf(info, root) == tmp {
							found = true
						}
						if inner, ok := c2.Args[0].(*ast.CallExpr); ok {
							if se, ok := inner.Fun.(*ast.SelectorExpr); ok && an.ObjOf(info, se.X) == tmp {
								found = true
							}
						}
						return true
					})
					return found
				}
				create, ok := g.LocOf(call)
				if !ok {
					c.Undecidedf(rule, construct, call.Pos(), "creation not found in the control-flow graph")
					return true
				}
				// locations that discharge the obligation: defer statements and direct calls removing the file
				discharge := g.Find(func(x ast.Node) bool {
					switch y := x.(type) {
					case *ast.DeferStmt:
						return removes(y)
					case *ast.ExprStmt:
						return removes(y)
					case *ast.AssignStmt:
						return removes(y)
					case *ast.IfStmt:
						return false
					}
					return false
				})
				isDischarge := func(l an.Loc) bool {
					for _, d := range discharge {
						if d == l {
							return true
						}
					}
					return false
				}
				// the creation's own error return: inside the if that follows the creation statement
				var ownIf *ast.IfStmt
				if blk, ok := g.Parent[as].(*ast.BlockStmt); ok {
					for i, st := range blk.List {
						if st == ast.Stmt(as) && i+1 < len(blk.List) {
							ownIf, _ = blk.List[i+1].(*ast.IfStmt)
						}
					}
				}
				var leaks []string
				for _, r := range g.ReturnLocs() {
					pos := g.PosLoc(r)
					if ownIf != nil && pos >= ownIf.Pos() && pos <= ownIf.End() {
						continue
					}
					if g.Reaches(create, r, isDischarge) {
						leaks = append(leaks, c.Position(pos))
					}
				}
				if len(discharge) == 0 {
					leaks = append(leaks, "no removal of the file at all")
				}
				c.Check(len(leaks) == 0, rule, construct, call.Pos(), "the temporary file is removed on every exit after its creation", "the temporary file created in the output tree survives the exits at "+strings.Join(leaks, ", ")+": a failed run leaves it in gen/, where the cleanup before the next run (sub-directories only) does not reach it")
				return true
			})
		}
	}
	c.Floor(rule, n, 1, "temporary files created by the generators")
}

// r099KeyStrings (R09.9): values of goa's primitive types are turned into text (map keys of JSON examples, server
// variables) by type switches over Go basic types whose arms call strconv. Such switches are siblings: they must
// handle the same set of basic types. A type one of them forgets falls into its default arm; in jsonExample that arm
// gives every key of the forgotten type one and the same text, the entries of the example map overwrite each other
// in the order reflect.Value.MapKeys returns them - map iteration order - and the generated text differs from run to
// run. The union of the types handled by all such switches is the reference; string is exempt (handled before the
// switch where keys are concerned).
func r099KeyStrings(c *an.Ctx, rule string) {
	type sw struct {
		f     *an.Func
		stmt  *ast.TypeSwitchStmt
		types map[string]bool
	}
	var sws []sw
	union := map[string]bool{}
	basic := map[string]bool{"bool": true, "int": true, "int8": true, "int16": true, "int32": true, "int64": true, "uint": true, "uint8": true,
		"uint16": true, "uint32": true, "uint64": true, "float32": true, "float64": true}
	for _, dir := range genDirs {
		for _, f := range c.AllFuncs(dir) {
			info := f.Pkg.TypesInfo
			ast.Inspect(f.Decl.Body, func(n ast.Node) bool {
				ts, ok := n.(*ast.TypeSwitchStmt)
				if !ok {
					return true
				}
				got := map[string]bool{}
				conv := 0
				for _, cl := range ts.Body.List {
					cc := cl.(*ast.CaseClause)
					usesStrconv := false
					for _, s := range cc.Body {
						ast.Inspect(s, func(m ast.Node) bool {
							if call, ok := m.(*ast.CallExpr); ok && strings.HasPrefix(an.CalleeName(info, call), "strconv.") {
								usesStrconv = true
							}
							return true
						})
					}
					if !usesStrconv {
						continue
					}
					for _, e := range cc.List {
						if id, ok := e.(*ast.Ident); ok && basic[id.Name] {
							got[id.Name] = true
							conv++
						}
					}
				}
				if conv >= 4 {
					sws = append(sws, sw{f, ts, got})
					for t := range got {
						union[t] = true
					}
				}
				return true
			})
		}
	}
	for _, s := range sws {
		var missing []string
		for t := range union {
			if !s.types[t] {
				missing = append(missing, t)
			}
		}
		sort.Strings(missing)
		construct := c.RefName(s.f) + "#typeswitch(strconv)"
		if len(missing) == 0 {
			c.Okf(rule, construct, "converts %d basic types to text, the same set as its sibling switches", len(s.types))
			continue
		}
		for _, t := range missing {
			c.Failf(rule, construct+":"+t, s.stmt.Pos(), "the switch that turns primitive values into text has no arm for %s although a sibling switch of the generators has: values of that type take the default arm (in jsonExample every such map key becomes the same text, and which entry of the example survives depends on map iteration order)", t)
		}
	}
	c.Floor(rule, len(sws), 2, "primitive-to-text type switches")
}
