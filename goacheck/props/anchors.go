package props

import (
	"fmt"
	"go/ast"
	"go/types"
	"os"
	"path/filepath"
	"sort"
	"strings"

	"goacheck/an"
)

// anchorFuncs returns every function declared in the Go files the property is
// anchored in (properties.jsonl anchors.files; directories count recursively)
// and the module functions they call, directly or through one intermediate.
func anchorFuncs(c *an.Ctx) []*an.Func {
	files := anchorFiles[c.Prop]
	match := func(rel string) bool {
		for _, a := range files {
			if strings.HasSuffix(a, "/") {
				if strings.HasPrefix(rel, a) {
					return true
				}
			} else if rel == a {
				return true
			}
		}
		return false
	}
	var out []*an.Func
	byObj := map[types.Object]*an.Func{}
	in := map[*an.Func]bool{}
	for _, d := range c.ModuleDirs() {
		for _, f := range c.AllFuncs(d) {
			byObj[f.Obj] = f
			rel, err := filepath.Rel(c.Repo, c.Fset.Position(f.Decl.Pos()).Filename)
			if err == nil && match(filepath.ToSlash(rel)) {
				out = append(out, f)
				in[f] = true
			}
		}
	}
	// plus the module functions the anchored code calls, two hops deep (helpers such as
	// codegen.Walk that the anchored validation generator relies on)
	frontier := append([]*an.Func(nil), out...)
	for hop := 0; hop < 2; hop++ {
		var next []*an.Func
		for _, f := range frontier {
			ast.Inspect(f.Decl.Body, func(nd ast.Node) bool {
				call, ok := nd.(*ast.CallExpr)
				if !ok {
					return true
				}
				if callee := an.Callee(f.Pkg.TypesInfo, call); callee != nil {
					if g := byObj[callee]; g != nil && !in[g] {
						in[g] = true
						out = append(out, g)
						next = append(next, g)
					}
				}
				return true
			})
		}
		frontier = next
	}
	sort.Slice(out, func(i, j int) bool { return out[i].Name < out[j].Name })
	return out
}

// AnchorExplanation is appended to every property's coverage statement.
const AnchorExplanation = " In addition, over every function and template of the files the property is anchored in (properties.jsonl anchors.files), the property-independent deviance lints are decided (rule ids ….L0–.L8): L0 each lint fires on a positive example embedded in the checker; L1 control-flow and data-flow slips (state leaking between loop iterations, abandoned loops, swapped same-typed arguments, merge guard on another field, guard on another variable, raw pair used after normalisation, loop-invariant effect calls, unguarded map stores, duplicated switch arms, self-searches, lazy-initialisation blocks that swallow an operation, shallow copies where a duplicator exists, half-visited maps, errors swallowed as success, an identifier left unrenamed between two parallel field families of one literal, an index of a re-sliced range used as an index of the whole, sibling accumulators fed in different orders, a verbatim-repeated block guarded by a deviating constant, a looked-up element bypassed in favour of its container, element stores through a copier that shares the field with its argument, a map entry consumed (read, then deleted) by a callee that a loop calls with the same map on every iteration, a method of a response-side type reading the request-side twin of a field, values swapped in an unkeyed struct literal); L2 sibling-field parity (headers/cookies, headers/trailers); L3 attribute-name vs element-name roles in WalkMappedAttr callbacks; L4 identical json/yaml struct tags; L5 template call arguments vs callee parameter names; L6 copy constructors set every field; L7 .Required tested before .DefaultValue in template chains; L8 two-variable template ranges use their element. A lint hit is a construct that does not exist on the reference tree (zero hits over the whole module); it shows a slip in code the property depends on, not that the property's behaviour was observed to fail."

// AnchorRules runs the property-independent deviance lints over the code the
// property is anchored in. Each lint has zero hits on the reference tree over
// the whole module (go run . -lints), so a hit is a construct that appeared
// with the change under analysis; it is reported against this property because
// the property names the file as one its truth depends on.
func AnchorRules(c *an.Ctx) {
	if len(anchorFiles[c.Prop]) == 0 {
		return
	}
	id := "R" + strings.TrimPrefix(c.Prop, "C")
	// positive examples first: a lint that no longer fires on its own pattern proves nothing
	got, err := an.LintSelfTest()
	if err != nil {
		c.Add(an.Obligation{Rule: id + ".L0", Construct: "lint self-test", Status: an.UNDECIDED, Detail: "the positive examples do not type-check: " + err.Error()})
	} else {
		var dead []string
		for _, k := range an.SelfTestKinds {
			if !got[k] {
				dead = append(dead, k)
			}
		}
		if len(dead) > 0 {
			c.Add(an.Obligation{Rule: id + ".L0", Construct: "lint self-test", Status: an.UNDECIDED, Detail: "lints that no longer fire on their positive example: " + strings.Join(dead, ", ")})
		} else {
			c.Okf(id+".L0", "lint self-test", "%d deviance lints each fire on a positive example embedded in the checker", len(an.SelfTestKinds))
		}
	}
	funcs := anchorFuncs(c)
	rule := id + ".L1"
	for _, f := range funcs {
		for _, h := range an.AllLints(f) {
			c.Failf(rule, h.Construct, h.Pos, "%s", h.Msg)
		}
	}
	c.Okf(rule, "anchor files#control-flow lints", "%d functions (anchor files and what they call, two hops): no stale search flag, stale per-iteration variable, inconsistent seen-set key, dropped recursion guard or in-place slice reuse", len(funcs))
	c.Floor(rule, len(funcs), 10, "functions declared in the anchor files")
	anchorParity(c, id+".L2", funcs)
	anchorRoles(c, id+".L3", funcs)
	anchorTags(c, id+".L4")
	anchorTplCalls(c, id+".L5")
	anchorCopies(c, id+".L6", funcs)
	anchorTplChains(c, id+".L7")
	anchorTplRanges(c, id+".L8")
}

// anchorTplRanges: a two-variable range in an anchor template uses its element.
func anchorTplRanges(c *an.Ctx, rule string) {
	n := 0
	for _, rel := range anchorTemplates(c) {
		t, err := c.TplFile(rel)
		if err != nil {
			continue // reported by L7
		}
		k, bad := an.TplUnusedRangeVars(t)
		n += k
		for _, b := range bad {
			c.Failf(rule, fmt.Sprintf("%s#range(%s,%s)", rel, b.Index, b.Elem), 0, "%s:%d: the range declares %s and %s but its body only uses the index %s: it emits positions instead of the elements it iterates over", rel, b.Line, b.Index, b.Elem, b.Index)
		}
	}
	if n > 0 {
		c.Okf(rule, "anchor templates#range elements", "%d two-variable ranges use their element variable", n)
	}
}

// anchorTplChains: in the anchor templates an if/else-if chain that has both a
// `.Required` arm and a `.DefaultValue` arm tests `.Required` first: a required
// element that is absent is an error even when the attribute also declares a
// default (the default applies to optional elements only; the OpenAPI documents
// mark the element required on the same flag).
func anchorTplChains(c *an.Ctx, rule string) {
	n := 0
	for _, rel := range anchorTemplates(c) {
		t, err := c.TplFile(rel)
		if err != nil {
			c.Add(an.Obligation{Rule: rule, Construct: rel, Status: an.LOST, Detail: err.Error()})
			continue
		}
		for _, ch := range an.TplIfChains(t) {
			req, def := -1, -1
			for i, cond := range ch.Conds {
				switch strings.TrimSpace(cond) {
				case ".Required":
					if req < 0 {
						req = i
					}
				case ".DefaultValue":
					if def < 0 {
						def = i
					}
				}
			}
			if req < 0 || def < 0 {
				continue
			}
			n++
			if def < req {
				c.Failf(rule, fmt.Sprintf("%s#chain@%s", rel, strings.Join(ch.Conds, "→")), 0, "%s:%d: the chain tests .DefaultValue before .Required: a required element that is absent silently takes the default instead of being reported missing", rel, ch.Line)
			}
		}
	}
	if n > 0 {
		c.Okf(rule, "anchor templates#required before default", "%d if/else-if chains with both arms test .Required before .DefaultValue", n)
	}
}

// reviewedCopyGaps: fields the copy constructors of the reference tree leave
// out, each read and found harmless (function|type|field -> reason).
var reviewedCopyGaps = map[string]string{
	"codegen.AttributeContext.Dup|AttributeContext|IsInterface": "transient flag that the union transform sets and resets around its own recursion; not part of a context's identity",
	"expr.DupScheme|SchemeExpr|Name":                            "transport location of the credential; every caller recomputes Name and In on the copy (HTTPEndpointExpr.Finalize, GRPCEndpointExpr.Finalize)",
	"expr.HTTPResponseExpr.Dup|HTTPResponseExpr|Tag":            "copies are made of error responses and of the streaming response for the docs; Tag selects between result responses and is not read on a copy",
	"expr.ResultTypeExpr.Dup|ResultTypeExpr|ContentType":        "upstream omission; response content types are resolved from the design's own result type in HTTPResponseExpr.Finalize and copied explicitly by buildHTTPResponseBody",
	"expr.dupper.DupAttribute|AttributeExpr|Docs":               "upstream omission; external documentation links are read from the design's own attributes by the OpenAPI builders",
	"http/codegen/openapi.Schema.Dup|Schema|Example":            "Schema.Dup is an exported helper no generator calls",
	"http/codegen/openapi.Schema.Dup|Schema|ExclusiveMinimum":   "Schema.Dup is an exported helper no generator calls",
	"http/codegen/openapi.Schema.Dup|Schema|ExclusiveMaximum":   "Schema.Dup is an exported helper no generator calls",
	"http/codegen/openapi.Schema.Dup|Schema|AnyOf":              "Schema.Dup is an exported helper no generator calls",
	"http/codegen/openapi.Schema.Dup|Schema|Extensions":         "Schema.Dup is an exported helper no generator calls",
}

// anchorCopies: copy constructors (an.SelfCopies) set every field of the type.
func anchorCopies(c *an.Ctx, rule string, funcs []*an.Func) {
	n, fields := 0, 0
	for _, f := range funcs {
		for _, sc := range an.SelfCopies(f) {
			n++
			fields += sc.Mapped
			for _, m := range sc.Missing {
				if _, ok := reviewedCopyGaps[f.Name+"|"+sc.Type+"|"+m]; ok {
					continue
				}
				c.Failf(rule, fmt.Sprintf("%s{%s.%s}", f.Name, sc.Type, m), sc.Lit.Pos(), "the copy of %s built here sets neither in the literal nor afterwards the field %s: the copy silently loses it", sc.Type, m)
			}
		}
	}
	if n > 0 {
		c.Okf(rule, "anchor files#copy constructors", "%d copy constructors set every field of the copied type (reviewed omissions aside)", n)
	}
}

// anchorTemplates lists the template files the property is anchored in.
func anchorTemplates(c *an.Ctx) []string {
	var out []string
	for _, a := range anchorFiles[c.Prop] {
		switch {
		case strings.HasSuffix(a, ".tpl"):
			out = append(out, a)
		case strings.HasSuffix(a, "/"):
			out = append(out, c.TplDir(strings.TrimSuffix(a, "/"))...)
		}
	}
	sort.Strings(out)
	return out
}

// anchorTplCalls: calls to the runtime packages in the anchor templates pass
// the data fields named after the callee's parameters at those parameters'
// positions (an/tplcalls.go).
func anchorTplCalls(c *an.Ctx, rule string) {
	tpls := anchorTemplates(c)
	if len(tpls) == 0 {
		return
	}
	scopes := map[string]string{"goa": "pkg", "goahttp": "http", "goagrpc": "grpc"}
	calls, named := 0, 0
	for _, rel := range tpls {
		b, err := os.ReadFile(filepath.Join(c.Repo, rel))
		if err != nil {
			c.Add(an.Obligation{Rule: rule, Construct: rel, Status: an.LOST, Detail: err.Error()})
			continue
		}
		for qual, dir := range scopes {
			p := c.Pkg(dir)
			if p == nil {
				continue
			}
			cs := an.TplCalls(string(b), qual)
			calls += len(cs)
			n, swaps := an.TplSwappedArgs(cs, p.Types.Scope())
			named += n
			for _, sw := range swaps {
				c.Failf(rule, rel+"#"+sw[:strings.Index(sw, ":")], 0, "%s: %s (same type, so the generated code compiles)", rel, sw)
			}
		}
	}
	if named > 0 {
		c.Okf(rule, "anchor templates#runtime call arguments", "%d calls to goa/goahttp/goagrpc functions in %d templates; %d arguments are data fields named after a parameter of the callee, each at that parameter's position", calls, len(tpls), named)
	}
}

// anchorTags: json/yaml struct tag agreement in the packages of the anchor
// files (document types are rendered in both formats from the same structs).
func anchorTags(c *an.Ctx, rule string) {
	dirs := map[string]bool{}
	for _, a := range anchorFiles[c.Prop] {
		if strings.HasSuffix(a, ".go") {
			dirs[filepath.ToSlash(filepath.Dir(a))] = true
		} else if strings.HasSuffix(a, "/") && !strings.Contains(a, "templates") {
			dirs[strings.TrimSuffix(a, "/")] = true
		}
	}
	total := 0
	var names []string
	for d := range dirs {
		names = append(names, d)
	}
	sort.Strings(names)
	for _, d := range names {
		n, mis := c.TagMismatches(d, nil)
		total += n
		for _, m := range mis {
			c.Failf(rule, fmt.Sprintf("%s.%s.%s#tags", d, m.Struct, m.Field), m.Pos, "field %s.%s is tagged json:%q but yaml:%q: the JSON and YAML renderings of the same value differ", m.Struct, m.Field, m.JSON, m.YAML)
		}
	}
	if total > 0 {
		c.Okf(rule, "anchor packages#json/yaml tags", "%d struct fields tagged for both json and yaml carry identical tags", total)
	}
}

// anchorRoles: name roles in WalkMappedAttr callbacks (an/roles.go).
func anchorRoles(c *an.Ctx, rule string, funcs []*an.Func) {
	sites := 0
	for _, f := range funcs {
		n, mis := an.RoleMisuses(f)
		sites += n
		for _, m := range mis {
			if m.Has == "recomputed required flag" {
				c.Failf(rule, fmt.Sprintf("%s#recomputed(%s)", f.Name, m.Arg), m.Pos, "the callback of codegen.WalkMappedAttr is told by the walker whether the attribute is required, yet asks the collection again with `%s`: it decides requiredness differently from the sibling callbacks (and from the server code) that use the walker's flag", m.Arg)
				continue
			}
			c.Failf(rule, fmt.Sprintf("%s#%s(%s)", f.Name, m.Callee, m.Arg), m.Pos,
				"the WalkMappedAttr callback passes its %s parameter %s to %s, which expects an %s: the two differ whenever the design maps an attribute to a differently named transport element (\"attr:Element\")", m.Has, m.Arg, m.Callee, m.Wants)
		}
	}
	if sites > 0 {
		c.Okf(rule, "anchor files#name roles", "%d role-typed arguments in WalkMappedAttr callbacks: attribute names and element names are passed where they are expected", sites)
	}
}

// parityPairs are the concept pairs the code base handles by parallel code.
var parityPairs = [][2]string{{"header", "cookie"}, {"header", "trailer"}}

// reviewedParity lists the asymmetries of the reference tree, each read and
// found intended (function -> reason). Keyed by function, word and normalised
// unit, so that any other asymmetry in the same function is still reported.
var reviewedParity = map[string]string{}

func init() {
	add := func(fn, word, reason string, norms ...string) {
		for _, n := range norms {
			reviewedParity[fn+"|"+word+"|"+n] = reason
		}
	}
	add("expr.HTTPEndpointExpr.Finalize", "header", "security credentials are mapped to a header (or a query parameter), never to a cookie",
		"_.□s.Type.(*Object).Set(_, _)", "_.□s.Map(_.Name, _)", "_.□s.Validation == nil", "_.□s.Validation = &ValidationExpr{}", "_.□s.Validation.AddRequired(_)")
	add("http/codegen.ServicesData.analyze", "header", "security schemes located in headers; there is no cookie location for schemes", "□schemes: _")
	add("http/codegen.buildErrorsData", "header", "the goa-error response header has no cookie counterpart", "Error□: _.Name")
	add("expr.HTTPServiceExpr.Validate", "header", "service-level cookies are validated with the endpoints that inherit them", "_.□s != nil", "_.Merge(_.□s.Validate(\"□s\", _))")
}

// reviewedOneSided lists functions that handle one word of a pair only, by design: whatever they do with it has
// no counterpart as long as the function does not touch the other word at all (function|word -> reason).
var reviewedOneSided = map[string]string{
	"expr.HTTPResponseExpr.mapUnmappedAttrs|header":       "with SkipResponseBodyEncodeDecode the unmapped result attributes are sent as headers by design",
	"expr.findKey|header":                                 "security keys are looked up in params, headers and body only",
	"http/codegen/openapi/v2.paramsFromHeaders|header":    "OpenAPI v2 has no cookie parameter location (known finding R07.3 covers the omission)",
	"http/codegen/openapi/v2.responseSpecFromExpr|header": "OpenAPI v2 responses document headers only",
}

// reviewedAsymmetricFuncs lists functions in which the two words of a pair are handled differently by design,
// whatever the code looks like (function -> reason): no unit of theirs (or of a helper extracted from them) is
// compared.
var reviewedAsymmetricFuncs = map[string]string{
	"http/codegen/openapi/v3.responseFromExpr": "OpenAPI response objects have headers only; cookies are documented as one Set-Cookie header built from the cookie list",
}

func swapWord(name, a, b string) string {
	// case-preserving swap of the first occurrence of a by b
	i := strings.Index(strings.ToLower(name), a)
	if i < 0 {
		return ""
	}
	rep := b
	if name[i] >= 'A' && name[i] <= 'Z' {
		rep = strings.ToUpper(b[:1]) + b[1:]
	}
	return name[:i] + rep + name[i+len(a):]
}

// anchorParity: sibling-field parity (an/parity.go) over the anchor functions.
// A function named after one word of a pair is compared with its sibling
// function named after the other (headers()/cookies()) when that exists.
func anchorParity(c *an.Ctx, rule string, funcs []*an.Func) {
	byName := map[string]*an.Func{}
	for _, d := range c.ModuleDirs() {
		for _, f := range c.AllFuncs(d) {
			byName[f.Name] = f
		}
	}
	units, checked := 0, 0
	reported := map[string]bool{}
	for _, pair := range parityPairs {
		for _, f := range funcs {
			var asym []an.ParityAsym
			short := f.Name[strings.LastIndex(f.Name, ".")+1:]
			low := strings.ToLower(short)
			switch {
			case strings.Contains(low, pair[0]) && strings.Contains(low, pair[1]):
				asym = an.Parity(f, pair[0], pair[1])
			case strings.Contains(low, pair[0]):
				sib := byName[f.Name[:len(f.Name)-len(short)]+swapWord(short, pair[0], pair[1])]
				if sib == nil {
					continue // one-sided by name, no counterpart function
				}
				asym = an.ParityBetween(f, sib, pair[0], pair[1])
			case strings.Contains(low, pair[1]):
				sib := byName[f.Name[:len(f.Name)-len(short)]+swapWord(short, pair[1], pair[0])]
				if sib == nil {
					continue
				}
				asym = an.ParityBetween(sib, f, pair[0], pair[1])
			default:
				asym = an.Parity(f, pair[0], pair[1])
			}
			checked++
			byDesign := false
			for _, root := range c.RootNames(f) {
				if _, ok := reviewedAsymmetricFuncs[root]; ok {
					byDesign = true
				}
			}
			if byDesign {
				units += len(asym)
				continue
			}
			if len(asym) > 0 {
				w := asym[0].Word
				same := true
				for _, a := range asym {
					if a.Word != w {
						same = false
					}
				}
				oneSided := false
				for _, root := range c.RootNames(f) {
					if _, ok := reviewedOneSided[root+"|"+w]; ok {
						oneSided = true
					}
				}
				if oneSided && same && an.ParityUnitCount(f, otherWord(pair, w), pair[0], pair[1]) == 0 {
					units += len(asym)
					continue
				}
			}
			for _, a := range asym {
				units++
				key := c.RefName(f) + "|" + a.Word + "|" + a.Norm
				reviewed := false
				for _, root := range c.RootNames(f) { // code moved into a helper is reviewed with the function it came from
					if _, ok := reviewedParity[root+"|"+a.Word+"|"+a.Norm]; ok {
						reviewed = true
					}
				}
				if reviewed || reported[key] {
					continue
				}
				reported[key] = true
				c.Failf(rule, fmt.Sprintf("%s#%s/%s{%s}", f.Name, pair[0], pair[1], a.Norm), a.Pos,
					"%s are handled by `%s` here but the %s counterpart of this code is missing or different: the code base treats %ss and %ss by parallel code, and the struct has both fields", a.Word+"s", a.Src, otherWord(pair, a.Word), pair[0], pair[1])
			}
		}
	}
	c.Okf(rule, "anchor files#sibling-field parity", "%d functions compared for header/cookie and header/trailer parity; %d asymmetric units are all in the reviewed table", checked, units)
}

func otherWord(pair [2]string, w string) string {
	if w == pair[0] {
		return pair[1]
	}
	return pair[0]
}

// reviewedLints lists lint hits of the reference tree that were read and found intended (kind|function -> reason).
// The function is named in the reference vocabulary; a helper extracted from it inherits the review.
var reviewedLints = map[string]string{}

func init() {
	an.ReviewedLint = func(kind string, f *an.Func) bool {
		if Current == nil {
			_, ok := reviewedLints[kind+"|"+f.Name]
			return ok
		}
		for _, root := range Current.RootNames(f) {
			if _, ok := reviewedLints[kind+"|"+root]; ok {
				return true
			}
		}
		return false
	}
}
