package props

import (
	"path/filepath"
	"strings"

	"goacheck/an"
)

// anchorFuncs returns every function declared in the Go files the property is
// anchored in (properties.jsonl anchors.files; directories count recursively).
func anchorFuncs(c *an.Ctx) []*an.Func {
	files := anchorFiles[c.Prop]
	match := func(rel string) bool {
		for _, a := range files {
			if strings.HasSuffix(a, "/") {
				if strings.HasPrefix(rel, a) {
					return true
				}
			} else if rel == a {
				return true
			}
		}
		return false
	}
	var out []*an.Func
	for _, d := range c.ModuleDirs() {
		for _, f := range c.AllFuncs(d) {
			rel, err := filepath.Rel(c.Repo, c.Fset.Position(f.Decl.Pos()).Filename)
			if err == nil && match(filepath.ToSlash(rel)) {
				out = append(out, f)
			}
		}
	}
	return out
}

// AnchorRules runs the property-independent deviance lints over the code the
// property is anchored in. Each lint has zero hits on the reference tree over
// the whole module (go run . -lints), so a hit is a construct that appeared
// with the change under analysis; it is reported against this property because
// the property names the file as one its truth depends on.
func AnchorRules(c *an.Ctx) {
	if len(anchorFiles[c.Prop]) == 0 {
		return
	}
	id := "R" + strings.TrimPrefix(c.Prop, "C")
	funcs := anchorFuncs(c)
	rule := id + ".L1"
	for _, f := range funcs {
		for _, h := range an.AllLints(f) {
			c.Failf(rule, h.Construct, h.Pos, "%s", h.Msg)
		}
	}
	c.Okf(rule, "anchor files#control-flow lints", "%d functions of the anchor files: no stale search flag, stale per-iteration variable, inconsistent seen-set key, dropped recursion guard or in-place slice reuse", len(funcs))
	c.Floor(rule, len(funcs), 10, "functions declared in the anchor files")
}
