package props

import (
	"fmt"
	"go/ast"
	"go/token"
	"go/types"
	"sort"
	"strings"

	"golang.org/x/tools/go/ssa"

	"goacheck/an"
)

func init() { Registry["C20"] = runC20 }

const explanationC20 = "Decides an ownership discipline that holds for every schedule, on goa's runtime packages (pkg, http, http/middleware, grpc, grpc/middleware, middleware, middleware/xray, security) and on the handler templates: (R20.1) closed inventory — every store to a package-level variable, to a variable captured by an escaping closure, or through such a variable is found on the SSA form and must be performed under an exclusive lock that a must-hold dataflow proves held, by a sync/atomic call, or in an init-time function (reviewed table); (R20.2) fields that are accessed through sync/atomic anywhere are accessed only through sync/atomic, lock-protected package variables are read under a lock, and the adaptive sampler writes its window start only under its mutex; (R20.4) request-time methods of the shared types (muxer, gRPC handlers, traced doer) never write receiver state — only the mount-time methods Handle/Use do, under the mutex (C16/R16.4); (R20.3) in the handler templates the per-request function literal assigns only to variables it declares; (R20.5) fields written under a lock are read and written under a lock everywhere (lock context inherited from callers and sync.Once.Do); (R20.6) package variables of types that are not safe for concurrent use (including function variables bound to their methods) are only used under a lock; (R20.7) the shutdown sweep visits every in-flight stream; (R20.8) fields initialised under a sync.Once are read only after Do; (R20.9) pooled values are not used after Put. shared R16.6 (route probes made per request use a fresh routing context). shared R16.4 (Handle and Use mutate the muxer - pending list, wildcard table, router - only under the muxer's mutex, released by defer). NOT decided: absence of races in generated code for every design beyond the templates' capture discipline, in user code, and in third-party packages (chi, grpc, encoding/*)."

var runtimeDirs = []string{"pkg", "http", "http/middleware", "grpc", "grpc/middleware", "middleware", "middleware/xray", "security", "http/middleware/xray", "grpc/middleware/xray"}

// syncIterators are callees that invoke a function argument synchronously on
// the calling goroutine and do not retain it.
var syncIterators = map[string]bool{
	"(*sync.Map).Range": true, "sort.Slice": true, "sort.SliceStable": true, "sort.Search": true,
	"strings.Map": true, "strings.FieldsFunc": true, "strings.IndexFunc": true, "strings.TrimFunc": true,
	"(*sync.Once).Do": true, "slices.SortFunc": true, "slices.IndexFunc": true, "slices.ContainsFunc": true,
}

// closureEscapes reports whether the closure value created for fn in its
// parent may outlive or run concurrently with the creating call.
func closureEscapes(fn *ssa.Function) (bool, string) {
	parent := fn.Parent()
	if parent == nil {
		return false, ""
	}
	for _, b := range parent.Blocks {
		for _, in := range b.Instrs {
			mc, ok := in.(*ssa.MakeClosure)
			if !ok || mc.Fn != fn {
				continue
			}
			var visit func(v ssa.Value, depth int) (bool, string)
			visit = func(v ssa.Value, depth int) (bool, string) {
				if depth > 4 || v.Referrers() == nil {
					return true, "flows beyond the analysis bound"
				}
				for _, r := range *v.Referrers() {
					switch x := r.(type) {
					case *ssa.Return:
						return true, "returned by " + an.FuncDisplayName(parent)
					case *ssa.Store:
						if x.Val == v {
							if _, isAlloc := x.Addr.(*ssa.Alloc); isAlloc {
								// stored in a local: follow loads of that local
								al := x.Addr.(*ssa.Alloc)
								if al.Heap {
									return true, "stored in a variable that escapes"
								}
								for _, lr := range *al.Referrers() {
									if ld, ok := lr.(*ssa.UnOp); ok && ld.Op == token.MUL {
										if e, why := visit(ld, depth+1); e {
											return e, why
										}
									}
								}
								continue
							}
							return true, "stored in memory"
						}
					case *ssa.Go:
						return true, "started as a goroutine"
					case *ssa.Defer:
						continue
					case *ssa.Call:
						if x.Call.Value == v {
							continue // called directly
						}
						callee := ""
						if sc := x.Call.StaticCallee(); sc != nil && sc.Object() != nil {
							if fo, isFunc := sc.Object().(*types.Func); isFunc {
								callee = fo.FullName()
							}
						}
						if syncIterators[callee] {
							continue
						}
						return true, "passed to " + map[bool]string{true: callee, false: "a dynamic call"}[callee != ""]
					case *ssa.MakeInterface, *ssa.ChangeType, *ssa.Convert, *ssa.ChangeInterface:
						if e, why := visit(r.(ssa.Value), depth+1); e {
							return e, why
						}
					case *ssa.Phi:
						if e, why := visit(x, depth+1); e {
							return e, why
						}
					case *ssa.MakeClosure:
						return true, "captured by another closure"
					default:
						return true, fmt.Sprintf("used by %T", r)
					}
				}
				return false, ""
			}
			return visit(mc, 0)
		}
	}
	return true, "closure creation not found"
}

func isInitTime(fn *ssa.Function) bool {
	root := fn
	for root.Parent() != nil {
		root = root.Parent()
	}
	n := root.Name()
	if n == "init" || strings.HasPrefix(n, "init#") {
		return true
	}
	// generated protobuf registration, called from init
	if root.Pkg != nil && strings.HasSuffix(root.Pkg.Pkg.Path(), "/grpc/pb") {
		return true
	}
	return false
}

func runC20(c *an.Ctx) string {
	r201SharedWrites(c)
	r205LockedFields(c)
	r206UnsafeGlobals(c)
	r207RangeAll(c, "R20.7")
	r208OnceFields(c)
	r209RuntimeLints(c)
	r202AtomicFields(c)
	r202Sampler(c)
	r204SharedTypes(c)
	// shared with C16 (rule id R16.4 only): the muxer's mutex is one of the locks the property names (http/mux.go:97-99);
	// Handle and Use touch the muxer - pending middlewares, wildcard table and the router itself - only while holding
	// it, released by defer (the router's Method panics on a bad pattern)
	before := len(c.Obls)
	r16Handle(c)
	r16Use(c)
	kept := c.Obls[:before]
	for _, o := range c.Obls[before:] {
		if o.Rule == "R16.4" {
			kept = append(kept, o)
		}
	}
	c.Obls = kept
	r16Probe(c) // shared with C16 (rule id R16.6): a route probe made while serving a request uses a routing context of its own, never one shared between requests
	return explanationC20
}

func r201SharedWrites(c *an.Ctx) {
	const rule = "R20.1"
	nFuncs, nWrites := 0, 0
	lockedGlobals := map[string]string{} // global -> lock
	for _, dir := range runtimeDirs {
		if c.Pkg(dir) == nil {
			continue
		}
		for _, f := range c.AllFuncs(dir) {
			sf := c.SSAFunc(f)
			if sf == nil {
				continue
			}
			for _, g := range an.AllFunctions(sf) {
				nFuncs++
				for _, w := range an.SharedWrites(g) {
					if isInitTime(g) {
						continue
					}
					if w.Kind == "captured" || w.Kind == "via-captured" {
						esc, _ := closureEscapes(g)
						if !esc {
							continue // runs synchronously inside its creator: not shared between requests
						}
					}
					nWrites++
					construct := fmt.Sprintf("%s→%s", an.FuncDisplayName(g), w.Target)
					switch {
					case w.Atomic:
						c.Okf(rule, construct, "%s write is a sync/atomic operation", w.Kind)
					case w.Locked != "":
						c.Okf(rule, construct, "%s write performed with %s held exclusively", w.Kind, w.Locked)
						if w.Kind == "global" || w.Kind == "via-global" {
							lockedGlobals[strings.TrimSuffix(w.Target, "[k]")] = w.Locked
						}
					default:
						why := ""
						if w.Kind == "captured" || w.Kind == "via-captured" {
							_, why = closureEscapes(g)
							why = " (the closure is " + why + ", so every request shares the variable)"
						}
						c.Failf(rule, construct, w.Pos, "unsynchronised %s write at request time%s: no exclusive lock is held on every path and it is not a sync/atomic operation", w.Kind, why)
					}
				}
			}
		}
	}
	c.Stats["runtime_functions_scanned"] = nFuncs
	c.Floor(rule, nFuncs, 250, "runtime functions scanned for shared writes")
	c.Floor(rule, nWrites, 3, "synchronised shared writes (knownPatterns, canceling, xray connection)")

	// lock-protected globals are read under a lock
	for _, dir := range runtimeDirs {
		if c.Pkg(dir) == nil {
			continue
		}
		for _, f := range c.AllFuncs(dir) {
			sf := c.SSAFunc(f)
			if sf == nil {
				continue
			}
			for _, g := range an.AllFunctions(sf) {
				if isInitTime(g) {
					continue
				}
				for _, b := range g.Blocks {
					for _, in := range b.Instrs {
						ld, ok := in.(*ssa.UnOp)
						if !ok || ld.Op != token.MUL {
							continue
						}
						gl, ok := ld.X.(*ssa.Global)
						if !ok {
							continue
						}
						name := gl.Pkg.Pkg.Path() + "." + gl.Name()
						lock, protected := lockedGlobals[name]
						if !protected {
							continue
						}
						held := an.HeldAt(g, in, false)
						construct := fmt.Sprintf("%s←%s", an.FuncDisplayName(g), name)
						if held == "" {
							c.Failf("R20.2", construct, in.Pos(), "%s is written under %s but read here without any lock", name, lock)
						} else {
							c.Okf("R20.2", construct, "read with %s held", held)
						}
					}
				}
			}
		}
	}
}

func r202AtomicFields(c *an.Ctx) {
	const rule = "R20.2"
	// fields whose address is passed to sync/atomic somewhere in the runtime packages
	atomicFields := map[*types.Var]bool{}
	fieldVar := func(fa *ssa.FieldAddr) *types.Var {
		t := fa.X.Type().Underlying()
		if p, ok := t.(*types.Pointer); ok {
			t = p.Elem().Underlying()
		}
		if st, ok := t.(*types.Struct); ok && fa.Field < st.NumFields() {
			return st.Field(fa.Field)
		}
		return nil
	}
	var fns []*ssa.Function
	for _, dir := range runtimeDirs {
		for _, f := range c.AllFuncs(dir) {
			if sf := c.SSAFunc(f); sf != nil {
				fns = append(fns, an.AllFunctions(sf)...)
			}
		}
	}
	for _, g := range fns {
		for _, b := range g.Blocks {
			for _, in := range b.Instrs {
				call, ok := in.(*ssa.Call)
				if !ok {
					continue
				}
				sc := call.Call.StaticCallee()
				if sc == nil || sc.Pkg == nil || sc.Pkg.Pkg.Path() != "sync/atomic" || len(call.Call.Args) == 0 {
					continue
				}
				if fa, ok := call.Call.Args[0].(*ssa.FieldAddr); ok {
					if v := fieldVar(fa); v != nil {
						atomicFields[v] = true
					}
				}
			}
		}
	}
	var names []string
	bad := map[string]string{}
	for v := range atomicFields {
		names = append(names, v.Pkg().Name()+"."+v.Name())
	}
	sort.Strings(names)
	for _, g := range fns {
		for _, b := range g.Blocks {
			for _, in := range b.Instrs {
				var fa *ssa.FieldAddr
				kind := ""
				switch x := in.(type) {
				case *ssa.Store:
					fa, _ = x.Addr.(*ssa.FieldAddr)
					kind = "plain store"
				case *ssa.UnOp:
					if x.Op == token.MUL {
						fa, _ = x.X.(*ssa.FieldAddr)
						kind = "plain load"
					}
				}
				if fa == nil {
					continue
				}
				v := fieldVar(fa)
				if v == nil || !atomicFields[v] {
					continue
				}
				// composite-literal initialisation of a fresh object is not shared yet
				if _, fresh := fa.X.(*ssa.Alloc); fresh {
					continue
				}
				bad[v.Pkg().Name()+"."+v.Name()] = fmt.Sprintf("%s in %s at %s", kind, an.FuncDisplayName(g), c.Position(in.Pos()))
			}
		}
	}
	for _, n := range names {
		if why, isBad := bad[n]; isBad {
			c.Failf(rule, "atomic-field:"+n, 0, "field %s is accessed through sync/atomic elsewhere but there is a %s: mixed atomic and plain access is a data race", n, why)
		} else {
			c.Okf(rule, "atomic-field:"+n, "every access is a sync/atomic operation")
		}
	}
	c.Floor(rule, len(names), 2, "fields accessed through sync/atomic (sampler counter, lastRate)")
}

func r202Sampler(c *an.Ctx) {
	const rule = "R20.2"
	f, t := tableOf(c, rule, "middleware", "adaptiveSampler.Sample", 0)
	if t == nil {
		return
	}
	var probs []string
	stores := 0
	for i := range t.Paths {
		p := &t.Paths[i]
		held := false
		for _, e := range p.Effects {
			switch {
			case e.Kind == "call" && strings.HasPrefix(e.Term, "(*sync.Mutex).Lock(&p0."):
				held = true
			case e.Kind == "call" && strings.HasPrefix(e.Term, "(*sync.Mutex).Unlock(&p0."):
				held = false
			case e.Kind == "store" && strings.HasPrefix(e.Term, "p0."):
				stores++
				if !held {
					probs = append(probs, "the sampler stores "+e.Term+" without holding its mutex")
				}
			}
		}
		if held {
			probs = append(probs, "a path returns with the sampler mutex held")
		}
	}
	if stores == 0 {
		probs = append(probs, "no store to the sampling window start found")
	}
	report(c, rule, f.Name+"#window", f, probs, "the sampling window start is rewritten only under the sampler's mutex, which is released on every path")
}

func r204SharedTypes(c *an.Ctx) {
	const rule = "R20.4"
	shared := []struct {
		dir, typ  string
		mountTime map[string]bool
	}{
		{"http", "mux", map[string]bool{"Handle": true, "Use": true}},
		{"grpc", "unaryHandler", nil},
		{"grpc", "streamHandler", nil},
		{"http/middleware", "tracedDoer", nil},
		{"middleware", "fixedSampler", nil},
	}
	n := 0
	for _, st := range shared {
		found := false
		for _, f := range c.AllFuncs(st.dir) {
			if !strings.HasPrefix(f.Name, st.dir+"."+st.typ+".") {
				continue
			}
			found = true
			method := strings.TrimPrefix(f.Name, st.dir+"."+st.typ+".")
			if st.mountTime[method] {
				continue
			}
			// a helper extracted from a mount-time method (new since the reference tree, called by
			// mount-time methods only) runs at mount time too
			if c.IsNewFunc(f) && calledOnlyFrom(c, st.dir, f, st.dir+"."+st.typ+".", st.mountTime) {
				continue
			}
			sf := c.SSAFunc(f)
			if sf == nil || len(sf.Params) == 0 {
				continue
			}
			n++
			recv := sf.Params[0]
			var writes []string
			for _, g := range an.AllFunctions(sf) {
				for _, b := range g.Blocks {
					for _, in := range b.Instrs {
						var addr ssa.Value
						switch x := in.(type) {
						case *ssa.Store:
							addr = x.Addr
						case *ssa.MapUpdate:
							addr = x.Map
						}
						if addr == nil {
							continue
						}
						if rootIsParam(addr, recv) {
							writes = append(writes, c.Position(in.Pos()))
						}
					}
				}
			}
			if len(writes) > 0 {
				c.Failf(rule, f.Name, f.Decl.Pos(), "request-time method writes the state of the shared %s (at %s): concurrent requests share this object", st.typ, strings.Join(writes, ", "))
			} else {
				c.Okf(rule, f.Name, "request-time method only reads the shared %s", st.typ)
			}
		}
		if !found {
			c.Add(an.Obligation{Rule: rule, Construct: st.dir + "." + st.typ, Status: an.LOST, Detail: "shared type has no methods / was not found"})
		}
	}
	c.Floor(rule, n, 9, "request-time methods of shared types")
}

func rootIsParam(addr ssa.Value, p *ssa.Parameter) bool {
	for {
		switch x := addr.(type) {
		case *ssa.FieldAddr:
			addr = x.X
		case *ssa.IndexAddr:
			addr = x.X
		case *ssa.UnOp:
			if x.Op != token.MUL {
				return false
			}
			addr = x.X
		case *ssa.Parameter:
			return x == p
		default:
			return false
		}
	}
}

// r205LockedFields (R20.5): a struct field that some request-time code writes
// while holding a lock is a lock-protected field; every other plain read or
// write of it on a shared object (not one freshly allocated in the same
// function, not in an init-time function) must hold a lock too (any lock for a
// read, an exclusive one for a write).
func r205LockedFields(c *an.Ctx) {
	const rule = "R20.5"
	fieldVar := func(fa *ssa.FieldAddr) *types.Var {
		t := fa.X.Type().Underlying()
		if p, ok := t.(*types.Pointer); ok {
			t = p.Elem().Underlying()
		}
		if st, ok := t.(*types.Struct); ok && fa.Field < st.NumFields() {
			return st.Field(fa.Field)
		}
		return nil
	}
	var fns []*ssa.Function
	for _, dir := range runtimeDirs {
		for _, f := range c.AllFuncs(dir) {
			if sf := c.SSAFunc(f); sf != nil {
				fns = append(fns, an.AllFunctions(sf)...)
			}
		}
	}
	type access struct {
		fn    *ssa.Function
		in    ssa.Instruction
		write bool
		held  string
	}
	acc := map[*types.Var][]access{}
	isMutexField := func(v *types.Var) bool {
		s := v.Type().String()
		return strings.HasPrefix(s, "sync.") || strings.HasPrefix(s, "*sync.")
	}
	for _, g := range fns {
		if isInitTime(g) {
			continue
		}
		for _, b := range g.Blocks {
			for _, in := range b.Instrs {
				var fa *ssa.FieldAddr
				write := false
				switch x := in.(type) {
				case *ssa.Store:
					fa, _ = x.Addr.(*ssa.FieldAddr)
					write = true
				case *ssa.UnOp:
					if x.Op == token.MUL {
						fa, _ = x.X.(*ssa.FieldAddr)
					}
				}
				if fa == nil {
					continue
				}
				if _, fresh := fa.X.(*ssa.Alloc); fresh {
					continue
				}
				v := fieldVar(fa)
				if v == nil || v.Pkg() == nil || !strings.HasPrefix(v.Pkg().Path(), an.Mod) || isMutexField(v) {
					continue
				}
				acc[v] = append(acc[v], access{g, in, write, an.HeldAt(g, in, write)})
			}
		}
	}
	// lock context inherited from the callers: an unexported function (or a
	// function literal handed to sync.Once.Do, which runs it before returning)
	// all of whose call sites hold a lock runs with that lock held.
	type site struct {
		fn *ssa.Function
		in ssa.Instruction
	}
	callers := map[*ssa.Function][]site{}
	for _, g := range fns {
		for _, b := range g.Blocks {
			for _, in := range b.Instrs {
				call, ok := in.(ssa.CallInstruction)
				if !ok {
					continue
				}
				cc := call.Common()
				if sc := cc.StaticCallee(); sc != nil {
					callers[sc] = append(callers[sc], site{g, in})
					if sc.Name() == "Do" && sc.Pkg != nil && sc.Pkg.Pkg.Path() == "sync" {
						for _, a := range cc.Args {
							if mc, ok := a.(*ssa.MakeClosure); ok {
								if lit, ok := mc.Fn.(*ssa.Function); ok {
									callers[lit] = append(callers[lit], site{g, in})
								}
							}
						}
					}
				}
			}
		}
	}
	var entryHeld func(fn *ssa.Function, write bool, depth int) string
	entryHeld = func(fn *ssa.Function, write bool, depth int) string {
		if depth > 3 {
			return ""
		}
		if fn.Parent() == nil && fn.Object() != nil && fn.Object().Exported() {
			return "" // callable from anywhere
		}
		sites := callers[fn]
		if len(sites) == 0 {
			return ""
		}
		held := ""
		for _, st := range sites {
			h := an.HeldAt(st.fn, st.in, write)
			if h == "" {
				h = entryHeld(st.fn, write, depth+1)
			}
			if h == "" {
				return ""
			}
			held = h
		}
		return held
	}
	for v, as := range acc {
		for i := range as {
			if as[i].held == "" {
				as[i].held = entryHeld(as[i].fn, as[i].write, 0)
			}
		}
		acc[v] = as
	}
	protected := 0
	var names []*types.Var
	for v := range acc {
		names = append(names, v)
	}
	sort.Slice(names, func(i, j int) bool { return names[i].Pos() < names[j].Pos() })
	for _, v := range names {
		lockedWrite := false
		for _, a := range acc[v] {
			if a.write && a.held != "" {
				lockedWrite = true
			}
		}
		if !lockedWrite {
			continue
		}
		protected++
		name := v.Pkg().Name() + "." + v.Name()
		bad := ""
		for _, a := range acc[v] {
			if a.held == "" {
				bad = fmt.Sprintf("%s in %s at %s", map[bool]string{true: "write", false: "read"}[a.write], an.FuncDisplayName(a.fn), c.Position(a.in.Pos()))
				break
			}
		}
		if bad != "" {
			c.Failf(rule, "locked-field:"+name, v.Pos(), "field %s is written under a lock elsewhere but there is an unlocked %s: the access races with the locked writers", name, bad)
		} else {
			c.Okf(rule, "locked-field:"+name, "every request-time access of the field holds a lock (%d accesses)", len(acc[v]))
		}
	}
	c.Floor(rule, protected, 1, "fields written under a lock in the runtime packages")
}

// unsafeShared: types whose methods must not be called from two goroutines at
// once (documented by their packages).
var unsafeShared = map[string]bool{
	"math/rand.Rand": true, "math/rand/v2.Rand": true, "bytes.Buffer": true, "strings.Builder": true,
	"bufio.Reader": true, "bufio.Writer": true, "bufio.Scanner": true, "encoding/json.Encoder": true, "encoding/json.Decoder": true,
	"encoding/gob.Encoder": true, "encoding/gob.Decoder": true, "encoding/xml.Encoder": true, "encoding/xml.Decoder": true,
	"hash/maphash.Hash": true, "text/tabwriter.Writer": true,
}

// r206UnsafeGlobals (R20.6): package-level variables of the runtime packages
// are classified by type; a variable of a type that is not safe for concurrent
// use must only be used, outside init, with a lock held.
func r206UnsafeGlobals(c *an.Ctx) {
	const rule = "R20.6"
	examined := 0
	for _, dir := range runtimeDirs {
		p := c.Pkg(dir)
		if p == nil {
			continue
		}
		unsafeVars := map[types.Object]string{}
		scope := p.Types.Scope()
		for _, name := range scope.Names() {
			v, ok := scope.Lookup(name).(*types.Var)
			if !ok {
				continue
			}
			examined++
			// a function variable bound to a method of a value of an unsafe type (var intn = rand.New(src).Intn)
			for _, file := range p.Syntax {
				for _, d := range file.Decls {
					gd, ok := d.(*ast.GenDecl)
					if !ok || gd.Tok != token.VAR {
						continue
					}
					for _, sp := range gd.Specs {
						vs := sp.(*ast.ValueSpec)
						for i, id := range vs.Names {
							if p.TypesInfo.Defs[id] != v || i >= len(vs.Values) {
								continue
							}
							if se, ok := an.Unparen(vs.Values[i]).(*ast.SelectorExpr); ok {
								if sel := p.TypesInfo.Selections[se]; sel != nil && sel.Kind() == types.MethodVal {
									rt := sel.Recv()
									if pt, ok := rt.(*types.Pointer); ok {
										rt = pt.Elem()
									}
									if n, ok := rt.(*types.Named); ok && n.Obj().Pkg() != nil {
										if key := n.Obj().Pkg().Path() + "." + n.Obj().Name(); unsafeShared[key] {
											unsafeVars[v] = key + " (bound method " + se.Sel.Name + ")"
										}
									}
								}
							}
						}
					}
				}
			}
			t := v.Type()
			if pt, ok := t.(*types.Pointer); ok {
				t = pt.Elem()
			}
			if n, ok := t.(*types.Named); ok && n.Obj().Pkg() != nil {
				if key := n.Obj().Pkg().Path() + "." + n.Obj().Name(); unsafeShared[key] {
					unsafeVars[v] = key
				}
			}
		}
		if len(unsafeVars) == 0 {
			continue
		}
		for _, f := range c.AllFuncs(dir) {
			sf := c.SSAFunc(f)
			if sf == nil {
				continue
			}
			for _, g := range an.AllFunctions(sf) {
				if isInitTime(g) {
					continue
				}
				for _, b := range g.Blocks {
					for _, in := range b.Instrs {
						for _, op := range in.Operands(nil) {
							gl, ok := (*op).(*ssa.Global)
							if !ok {
								continue
							}
							tn, isUnsafe := unsafeVars[gl.Object()]
							if !isUnsafe {
								continue
							}
							if an.HeldAt(g, in, true) != "" {
								continue
							}
							c.Failf(rule, "global:"+dir+"."+gl.Name(), in.Pos(), "package variable %s is a %s, which is not safe for concurrent use, and %s uses it without holding a lock: concurrent requests race on its internal state", gl.Name(), tn, an.FuncDisplayName(g))
						}
					}
				}
			}
		}
	}
	c.Okf(rule, "runtime packages#globals by type", "%d package-level variables of the runtime packages classified: none of a type unsafe for concurrent use is used at request time without a lock", examined)
	c.Floor(rule, examined, 10, "package-level variables of the runtime packages")
}

// r207RangeAll (R20.7, shared with C19): a sync.Map.Range callback that acts on
// every entry (here: cancels every in-flight stream at shutdown) returns true on
// every path; returning false stops the iteration and leaves the remaining
// entries untouched.
func r207RangeAll(c *an.Ctx, rule string) {
	n := 0
	for _, dir := range runtimeDirs {
		for _, f := range c.AllFuncs(dir) {
			info := f.Pkg.TypesInfo
			ast.Inspect(f.Decl.Body, func(nd ast.Node) bool {
				call, ok := nd.(*ast.CallExpr)
				if !ok || an.CalleeName(info, call) != "(*sync.Map).Range" || len(call.Args) != 1 {
					return true
				}
				// the callback: a function literal (possibly named by a local) or a declared function
				var body *ast.BlockStmt
				cinfo := info
				switch cb := an.Unparen(an.ResolveLocal(info, f.Decl.Body, call.Args[0])).(type) {
				case *ast.FuncLit:
					body = cb.Body
				default:
					if h := c.FuncOfObj(an.ObjOf(info, selName(call.Args[0]))); h != nil {
						body, cinfo = h.Decl.Body, h.Pkg.TypesInfo
					}
				}
				if body == nil {
					return true
				}
				info := cinfo
				n++
				construct := fmt.Sprintf("%s#Range", f.Name)
				bad := ""
				an.WalkNoFuncLit(body, func(m ast.Node) bool {
					if rs, ok := m.(*ast.ReturnStmt); ok && len(rs.Results) == 1 {
						if v, isConst := an.ConstBool(info, rs.Results[0]); !isConst || !v {
							bad = an.Src(c.Fset, rs)
						}
					}
					return true
				})
				c.Check(bad == "", rule, construct, call.Pos(), "the Range callback returns true on every path: every entry is visited", "the Range callback can `"+bad+"`: the iteration stops early and the remaining entries (in-flight streams at shutdown) are never visited")
				return true
			})
		}
	}
	c.Floor(rule, n, 1, "sync.Map.Range callbacks in the runtime packages")
}

// r208OnceFields (R20.8): a field that is assigned inside the function handed to
// a sync.Once (lazy initialisation) may be read by another goroutine's method
// call; the Once is what orders the write before the reads. Every other function
// that reads such a field must call Do on that Once first, on every path (the
// call dominates the read). A read that skips the Once races with the
// initialisation and can see the field before, or while, it is set.
func r208OnceFields(c *an.Ctx) {
	const rule = "R20.8"
	n := 0
	for _, dir := range runtimeDirs {
		var fns []*ssa.Function
		for _, f := range c.AllFuncs(dir) {
			if sf := c.SSAFunc(f); sf != nil {
				fns = append(fns, an.AllFunctions(sf)...)
			}
		}
		// initialisers: functions passed to (*sync.Once).Do, with the Once field they are guarded by
		type initInfo struct {
			once *types.Var
			fn   *ssa.Function
		}
		var inits []initInfo
		fieldOf := func(v ssa.Value) *types.Var {
			fa, ok := v.(*ssa.FieldAddr)
			if !ok {
				return nil
			}
			t := fa.X.Type().Underlying()
			if p, ok := t.(*types.Pointer); ok {
				t = p.Elem().Underlying()
			}
			if st, ok := t.(*types.Struct); ok && fa.Field < st.NumFields() {
				return st.Field(fa.Field)
			}
			return nil
		}
		isOnceDo := func(in ssa.Instruction) (*types.Var, ssa.Value, bool) {
			call, ok := in.(ssa.CallInstruction)
			if !ok {
				return nil, nil, false
			}
			sc := call.Common().StaticCallee()
			if sc == nil || sc.Name() != "Do" || sc.Pkg == nil || sc.Pkg.Pkg.Path() != "sync" || len(call.Common().Args) != 2 {
				return nil, nil, false
			}
			return fieldOf(call.Common().Args[0]), call.Common().Args[1], true
		}
		for _, g := range fns {
			for _, b := range g.Blocks {
				for _, in := range b.Instrs {
					once, arg, ok := isOnceDo(in)
					if !ok || once == nil {
						continue
					}
					var target *ssa.Function
					switch x := arg.(type) {
					case *ssa.MakeClosure:
						target, _ = x.Fn.(*ssa.Function)
						// bound method closure: the wrapper calls the method
						if target != nil && target.Synthetic != "" {
							for _, bb := range target.Blocks {
								for _, ii := range bb.Instrs {
									if cc, ok := ii.(ssa.CallInstruction); ok {
										if sc := cc.Common().StaticCallee(); sc != nil {
											target = sc
										}
									}
								}
							}
						}
					case *ssa.Function:
						target = x
					}
					if target != nil {
						inits = append(inits, initInfo{once, target})
					}
				}
			}
		}
		// fields written by the initialisers
		onceFields := map[*types.Var]*types.Var{} // field -> once
		initFns := map[*ssa.Function]bool{}
		for _, ii := range inits {
			initFns[ii.fn] = true
			for _, g := range an.AllFunctions(ii.fn) {
				if g.Parent() != nil {
					// goroutines started by the initialiser are not the initialisation itself
					continue
				}
				for _, b := range g.Blocks {
					for _, in := range b.Instrs {
						if st, ok := in.(*ssa.Store); ok {
							if fv := fieldOf(st.Addr); fv != nil && fv != ii.once {
								onceFields[fv] = ii.once
							}
						}
					}
				}
			}
		}
		for _, g := range fns {
			root := g
			for root.Parent() != nil {
				root = root.Parent()
			}
			if initFns[g] || initFns[root] {
				continue
			}
			doms := map[*ssa.BasicBlock]map[*types.Var]bool{}
			// blocks (and positions) where once.Do was called
			for _, b := range g.Blocks {
				for i, in := range b.Instrs {
					load, ok := in.(*ssa.UnOp)
					if !ok || load.Op != token.MUL {
						continue
					}
					fv := fieldOf(load.X)
					once, isOnceField := onceFields[fv]
					if fv == nil || !isOnceField {
						continue
					}
					if _, fresh := load.X.(*ssa.FieldAddr).X.(*ssa.Alloc); fresh {
						continue
					}
					n++
					// a Do on the same Once earlier in this block or in a dominating block
					ok2 := false
					for j := 0; j < i; j++ {
						if o, _, isDo := isOnceDo(b.Instrs[j]); isDo && o == once {
							ok2 = true
						}
					}
					for d := b.Idom(); d != nil && !ok2; d = d.Idom() {
						if doms[d] == nil {
							doms[d] = map[*types.Var]bool{}
							for _, dn := range d.Instrs {
								if o, _, isDo := isOnceDo(dn); isDo && o != nil {
									doms[d][o] = true
								}
							}
						}
						if doms[d][once] {
							ok2 = true
						}
					}
					construct := fmt.Sprintf("%s#read(%s)", an.FuncDisplayName(g), fv.Name())
					c.Check(ok2, rule, construct, load.Pos(), "the lazily initialised field is read after the Once that initialises it", "field "+fv.Name()+" is assigned under "+once.Name()+".Do(…) but read here without calling "+once.Name()+".Do first: the read is not ordered after the initialisation and races with it")
				}
			}
		}
	}
	c.Floor(rule, n, 2, "reads of fields initialised under a sync.Once in the runtime packages")
}

// r209RuntimeLints (R20.9): over every function of the runtime packages (the
// request path of every generated server), whichever file it lives in: a pooled
// value (sync.Pool) or a slice obtained from it is not used after the value was
// returned to the pool.
func r209RuntimeLints(c *an.Ctx) {
	const rule = "R20.9"
	n := 0
	for _, dir := range runtimeDirs {
		for _, f := range c.AllFuncs(dir) {
			n++
			for _, h := range an.AllLints(f) {
				if h.Kind != "afterput" {
					continue // only the lints that describe a concurrency defect belong to this property
				}
				c.Failf(rule, h.Construct, h.Pos, "%s", h.Msg)
			}
		}
	}
	poolHygiene(c, rule)
	c.Okf(rule, "runtime packages#lints", "%d functions of the runtime packages: no pooled value is used after it was returned to its pool", n)
	c.Floor(rule, n, 200, "functions of the runtime packages")
}

// calledOnlyFrom: every call of f in package dir sits in one of the named
// methods (prefix + name) of the type.
func calledOnlyFrom(c *an.Ctx, dir string, f *an.Func, prefix string, names map[string]bool) bool {
	called := false
	for _, g := range c.AllFuncs(dir) {
		ok := names[strings.TrimPrefix(g.Name, prefix)] && strings.HasPrefix(g.Name, prefix)
		ast.Inspect(g.Decl.Body, func(n ast.Node) bool {
			call, isCall := n.(*ast.CallExpr)
			if isCall && an.Callee(g.Pkg.TypesInfo, call) == f.Obj {
				called = true
				if !ok {
					names = nil
				}
			}
			return true
		})
	}
	return called && names != nil
}

// poolHygiene: every sync.Pool of the runtime packages is used with a Reset on one side (all Gets or all Puts);
// otherwise a value handed out by the pool still holds what its previous user wrote - the bytes of another request.
func poolHygiene(c *an.Ctx, rule string) {
	var funcs []*an.Func
	for _, dir := range runtimeDirs {
		funcs = append(funcs, c.AllFuncs(dir)...)
	}
	pools, leaks := an.PoolLeaks(funcs)
	for _, l := range leaks {
		c.Failf(rule, fmt.Sprintf("%s#pool(%s)", c.RefName(l.In), l.Pool), l.Get.Pos(), "a value taken from pool %s is used without being Reset, and the functions that Put into the pool do not Reset it either: it still holds what its previous user wrote (another request's bytes)", l.Pool)
	}
	c.Okf(rule, "runtime packages#pools", "%d sync.Pool users checked: every pool is Reset on the Get side or on the Put side", pools)
}
