package props

import (
	"fmt"
	"go/ast"
	"go/token"
	"go/types"
	"regexp"
	"strings"

	"golang.org/x/tools/go/ssa"

	"goacheck/an"
)

func init() { Registry["C19"] = runC19 }

const explanationC19 = "Decides structural necessary conditions of C19 on the request-ID, trace, sampler and capture middlewares through SSA path tables: (R19.1) on every path the downstream handler/invoker receives the context derived by GenerateRequestID / WithSpan / setTrace (HTTP, gRPC unary and stream); (R19.2) request-ID selection — the inbound value is consulted only under the trust flag, truncated to id[:limit] only under limit>0 ∧ len>limit, replaced by a fresh ID iff absent or empty, and stored under RequestIDKey; the HTTP and gRPC front-ends read the header/metadata only under the trust flag; (R19.3) trace extraction and injection tables mirror each other (TraceID header/metadata ↔ TraceIDKey, caller's span ↔ parent span, fresh span from the span function, WithSpan stores each argument under its own key); (R19.4) the sampler and discard list are consulted only when no inbound trace ID exists; (R19.6) the fixed sampler's 0 and 100 rows do not consult the RNG, NewSampler picks adaptive iff maxSamplingRate>0 with (rate,size) in order; (R19.7) ResponseCapture stores the status it forwards, adds the byte count the underlying writer returned, and records the implicit 200; (R19.8) every option constructor stores its argument into its own field; (R19.9) a wrapped server stream carries a context derived from the wrapped stream's own context; (R19.10) the shutdown sweep of the stream canceler visits every in-flight stream. (R19.11) the option that turns the incoming request-ID header on also names the header (fields stored together). (R19.12) every method of ResponseCapture that counts body bytes records the implicit 200 first. (R19.13) a sampler is created with the middleware, never per request. NOT decided: uniqueness/non-emptiness of generated IDs as values, sampling statistics, chains of calls at run time."

// Current is the context of the running check (set by main).
var Current *an.Ctx

// funcValues lists the function values fn creates, in source order: its function literals, and the declared
// functions introduced since the reference tree that it uses as values (a literal that was given a name).
func funcValues(fn *ssa.Function) []*ssa.Function {
	if fn == nil {
		return nil
	}
	var body ast.Node
	switch x := fn.Syntax().(type) {
	case *ast.FuncDecl:
		body = x.Body
	case *ast.FuncLit:
		body = x.Body
	}
	if body == nil || Current == nil || fn.Pkg == nil {
		return fn.AnonFuncs
	}
	p := Current.Pkgs[fn.Pkg.Pkg.Path()]
	if p == nil {
		return fn.AnonFuncs
	}
	info := p.TypesInfo
	byPos := map[token.Pos]*ssa.Function{}
	for _, af := range fn.AnonFuncs {
		byPos[af.Pos()] = af
	}
	called := map[ast.Expr]bool{}
	var out []*ssa.Function
	seen := map[*ssa.Function]bool{}
	ast.Inspect(body, func(n ast.Node) bool {
		switch x := n.(type) {
		case *ast.FuncLit:
			if af := byPos[x.Type.Func]; af != nil {
				out = append(out, af)
			}
			return false
		case *ast.CallExpr:
			called[an.Unparen(x.Fun)] = true
			if se, ok := an.Unparen(x.Fun).(*ast.SelectorExpr); ok {
				called[se.Sel] = true
			}
		case *ast.Ident:
			if called[x] {
				return true
			}
			fo, ok := info.Uses[x].(*types.Func)
			if !ok || fo.Pkg() == nil || !strings.HasPrefix(fo.Pkg().Path(), an.Mod) {
				return true
			}
			if sf := fn.Prog.FuncValue(fo); sf != nil && !an.IsReferenceFunc(sf) && !seen[sf] {
				seen[sf] = true
				out = append(out, sf)
			}
		}
		return true
	})
	if len(out) < len(fn.AnonFuncs) {
		return fn.AnonFuncs
	}
	return out
}

func anon(fn *ssa.Function, idx ...int) *ssa.Function {
	for _, i := range idx {
		vals := funcValues(fn)
		if fn == nil || i >= len(vals) {
			return nil
		}
		fn = vals[i]
	}
	return fn
}

func tableFn(c *an.Ctx, fn *ssa.Function, loop int) *an.PathTable {
	if fn == nil {
		return nil
	}
	t := an.BuildPathTable(fn, an.PathOpts{LoopBound: loop})
	c.Stats["paths_enumerated"] += len(t.Paths)
	c.Stats["functions_tabled"]++
	if t.Truncated || len(t.Paths) == 0 {
		return nil
	}
	return t
}

func pathEnv(p *an.Path) an.Env {
	e := an.Env{}
	for _, a := range p.Atoms {
		e[a.Term] = a.Val
	}
	return e
}

func report(c *an.Ctx, rule, construct string, f *an.Func, probs []string, ok string) {
	probs = dedupStrings(probs)
	if len(probs) > 0 {
		c.Failf(rule, construct, f.Decl.Pos(), "%s", strings.Join(probs[:min(3, len(probs))], " | "))
	} else {
		c.Okf(rule, construct, "%s", ok)
	}
}

func runC19(c *an.Ctx) string {
	r192GenerateRequestID(c)
	r19HTTPRequestID(c)
	r19GRPCRequestID(c)
	pairedStoresRule(c, "R19.11", "reqid") // turning the incoming header on names the header that is read
	r1912BodyBookkeeping(c, "R19.12")
	r1913SamplerLifetime(c, "R19.13")
	r19WithSpan(c)
	r19HTTPTrace(c)
	r19GRPCTrace(c)
	r19Clients(c)
	r19Samplers(c)
	r19Capture(c)
	r19Options(c)
	r19StreamContext(c)
	r207RangeAll(c, "R19.10") // shutdown cancels every in-flight stream (shared with C20/R20.7)
	return explanationC19
}

func r192GenerateRequestID(c *an.Ctx) {
	const rule = "R19.2"
	f, t := tableOf(c, rule, "middleware", "GenerateRequestID", 0)
	if t == nil {
		return
	}
	key := "middleware.RequestIDKey"
	inbound := "p0.Value(" + key + ").(string)"
	trunc := inbound + "[:p1.requestIDLimit]"
	canonTable(t, canon(
		`^p1\.useRequestID$`, "trust",
		`^\(p0\.Value\(`+regexp.QuoteMeta(key)+`\) == nil\)$`, "absent",
		`^\(p1\.requestIDLimit > 0\)$`, "limit>0",
		`^\(len\(`+regexp.QuoteMeta(inbound)+`\) > p1\.requestIDLimit\)$`, "len>limit",
		`^\(`+regexp.QuoteMeta(inbound)+` == ""\)$`, "empty(inbound)",
		`^\(`+regexp.QuoteMeta(trunc)+` == ""\)$`, "empty(truncated)",
		`^\("" == ""\)$`, "true",
	))
	var probs []string
	for i := range t.Paths {
		p := &t.Paths[i]
		e := pathEnv(p)
		for k := range e {
			switch k {
			case "trust", "absent", "limit>0", "len>limit", "empty(inbound)", "empty(truncated)":
			default:
				probs = append(probs, "request-ID selection depends on "+k)
			}
		}
		if len(p.Ret) != 1 || !strings.HasPrefix(p.Ret[0], "context.WithValue(p0, "+key+", ") {
			probs = append(probs, "the result is not ctx with the ID stored under RequestIDKey: "+strings.Join(p.Ret, ","))
			continue
		}
		id := strings.TrimSuffix(strings.TrimPrefix(p.Ret[0], "context.WithValue(p0, "+key+", "), ")")
		want := "middleware.shortID()"
		if e["trust"] && !e["absent"] {
			if _, known := e["absent"]; known {
				cand := inbound
				emptyAtom := "empty(inbound)"
				if e["limit>0"] && e["len>limit"] {
					cand = trunc
					emptyAtom = "empty(truncated)"
				}
				if v, known := e[emptyAtom]; known && !v {
					want = cand
				}
			}
		}
		if id != want {
			probs = append(probs, fmt.Sprintf("under [%s] the stored ID is %s, expected %s", p.GuardString(), id, want))
		}
	}
	report(c, rule, f.Name, f, probs, fmt.Sprintf("%d paths: inbound ID only under the trust flag, truncated only under limit>0∧len>limit, fresh ID iff absent/empty, stored under RequestIDKey", len(t.Paths)))
}

func r19HTTPRequestID(c *an.Ctx) {
	f := c.MustFunc("R19.2", "http/middleware", "RequestID")
	if f == nil {
		return
	}
	t := tableFn(c, anon(c.SSAFunc(f), 0, 0), 0)
	if t == nil {
		c.Undecidedf("R19.2", f.Name+"$handler", f.Decl.Pos(), "cannot table the request closure")
		return
	}
	key := "middleware.RequestIDKey"
	var probs, down []string
	for i := range t.Paths {
		p := &t.Paths[i]
		e := pathEnv(p)
		trusted := false
		headerEmpty, hk := false, false
		for k, v := range e {
			switch {
			case regexp.MustCompile(`^free:⟨\(\*middleware\.RequestIDOptions\)\.IsUseRequestID\(middleware\.NewRequestIDOptions\(outer\.p0\)\)⟩$`).MatchString(k):
				trusted = v
			case regexp.MustCompile(`^\(\(net/http\.Header\)\.Get\(p1\.Header, free:⟨\(\*middleware\.RequestIDOptions\)\.RequestIDHeader\(middleware\.NewRequestIDOptions\(outer\.p0\)\)⟩\) == ""\)$`).MatchString(k):
				headerEmpty, hk = v, true
			default:
				probs = append(probs, "closure branches on "+k)
			}
		}
		var gen, serve string
		for _, cl := range p.CallEffects() {
			if strings.HasPrefix(cl, "middleware.GenerateRequestID(") {
				gen = cl
			}
			if strings.Contains(cl, ".ServeHTTP(") {
				serve = cl
			}
		}
		usesHeader := strings.Contains(gen, "context.WithValue((*net/http.Request).Context(p1), "+key+", (net/http.Header).Get(p1.Header, free:⟨(*middleware.RequestIDOptions).RequestIDHeader(middleware.NewRequestIDOptions(outer.p0))⟩))")
		wantHeader := trusted && hk && !headerEmpty
		if usesHeader != wantHeader {
			probs = append(probs, fmt.Sprintf("under [%s] inbound header used=%v, expected %v", p.GuardString(), usesHeader, wantHeader))
		}
		if gen == "" || !strings.HasSuffix(gen, ", free:⟨middleware.NewRequestIDOptions(outer.p0)⟩)") {
			probs = append(probs, "GenerateRequestID is not called with the middleware's options")
		}
		if serve == "" || !strings.Contains(serve, "(*net/http.Request).WithContext(p1, "+gen+")") {
			down = append(down, "the next handler does not receive r.WithContext(GenerateRequestID(...)): "+serve)
		}
	}
	report(c, "R19.2", f.Name+"$handler", f, probs, "the inbound header is copied into the context only under the trust flag and when non-empty")
	report(c, "R19.1", f.Name+"$handler", f, down, "next handler receives the request carrying the derived context")
	// the flags come from the options accessors
	ot := tableFn(c, c.SSAFunc(f), 1)
	ok := false
	if ot != nil {
		for _, p := range ot.Paths {
			hasUse, hasHdr := false, false
			for _, cl := range p.CallEffects() {
				if strings.HasPrefix(cl, "(*middleware.RequestIDOptions).IsUseRequestID(") {
					hasUse = true
				}
				if strings.HasPrefix(cl, "(*middleware.RequestIDOptions).RequestIDHeader(") {
					hasHdr = true
				}
			}
			ok = hasUse && hasHdr
		}
	}
	c.Check(ok, "R19.2", f.Name+"#options", f.Decl.Pos(), "trust flag and header name are read from the options", "RequestID does not take the trust flag / header name from the options accessors")
	for _, acc := range [][2]string{{"RequestIDOptions.IsUseRequestID", "p0.useRequestID"}, {"RequestIDOptions.RequestIDHeader", "p0.requestIDHeader"}} {
		if g, at := tableOf(c, "R19.8", "middleware", acc[0], 0); at != nil {
			c.Check(len(at.Paths) == 1 && len(at.Paths[0].Ret) == 1 && at.Paths[0].Ret[0] == acc[1], "R19.8", g.Name, g.Decl.Pos(), "accessor returns its own field", "accessor returns "+strings.Join(at.Paths[0].Ret, ","))
		}
	}
}

func r19GRPCRequestID(c *an.Ctx) {
	f, t := tableOf(c, "R19.2", "grpc/middleware", "generateRequestID", 0)
	if t != nil {
		key := "middleware.RequestIDKey"
		mdKey, _ := constValue(c, "grpc/middleware", "RequestIDMetadataKey")
		var probs []string
		for i := range t.Paths {
			p := &t.Paths[i]
			e := pathEnv(p)
			trusted, tk := false, false
			empty, ek := false, false
			for k, v := range e {
				switch {
				case k == "(*middleware.RequestIDOptions).IsUseRequestID(p1)":
					trusted, tk = v, true
				case strings.HasPrefix(k, "(grpc/middleware.MetadataValue(") && strings.HasSuffix(k, ", "+mdKey+`) == "")`):
					empty, ek = v, true
				case strings.HasPrefix(k, "google.golang.org/grpc/metadata.FromIncomingContext(p0)#1"):
				default:
					probs = append(probs, "generateRequestID branches on "+k)
				}
			}
			_ = tk
			var gen string
			for _, cl := range p.CallEffects() {
				if strings.HasPrefix(cl, "middleware.GenerateRequestID(") && gen == "" {
					gen = cl
				}
			}
			uses := strings.Contains(gen, "context.WithValue(p0, "+key+", grpc/middleware.MetadataValue(")
			want := trusted && ek && !empty
			if uses != want {
				probs = append(probs, fmt.Sprintf("under [%s] inbound metadata used=%v, expected %v", p.GuardString(), uses, want))
			}
			if gen == "" || !strings.HasSuffix(gen, ", p1)") {
				probs = append(probs, "GenerateRequestID is not called with the options")
			}
			if len(p.Ret) != 1 || !strings.HasPrefix(p.Ret[0], "google.golang.org/grpc/metadata.NewIncomingContext("+gen+", ") {
				probs = append(probs, "the returned context is not derived from GenerateRequestID's: "+strings.Join(p.Ret, ","))
			}
			setOK := false
			for _, cl := range p.CallEffects() {
				if strings.HasPrefix(cl, "(google.golang.org/grpc/metadata.MD).Set(") && strings.Contains(cl, ", "+mdKey+", ["+gen+".Value("+key+").(string)]...") {
					setOK = true
				}
			}
			if !setOK {
				probs = append(probs, "the request ID chosen is not written back to the incoming metadata under "+mdKey)
			}
		}
		report(c, "R19.2", f.Name, f, probs, "inbound metadata is used only under the trust flag and when non-empty; the chosen ID is written back to the metadata; the result derives from GenerateRequestID")
	}
	for _, name := range []string{"UnaryRequestID", "StreamRequestID"} {
		g := c.MustFunc("R19.1", "grpc/middleware", name)
		if g == nil {
			continue
		}
		it := tableFn(c, anon(c.SSAFunc(g), 0), 0)
		if it == nil {
			c.Undecidedf("R19.1", g.Name+"$interceptor", g.Decl.Pos(), "cannot table the interceptor")
			continue
		}
		var probs []string
		for _, p := range it.Paths {
			ok := false
			for _, cl := range p.CallEffects() {
				if name == "UnaryRequestID" && strings.HasPrefix(cl, "dyn:p3(grpc/middleware.generateRequestID(p0, free:⟨middleware.NewRequestIDOptions(outer.p0)⟩), p1)") {
					ok = true
				}
				if name == "StreamRequestID" && strings.HasPrefix(cl, "dyn:p3(p0, grpc/middleware.NewWrappedServerStream(grpc/middleware.generateRequestID(p1.Context(), free:⟨middleware.NewRequestIDOptions(outer.p0)⟩), p1))") {
					ok = true
				}
			}
			if !ok {
				probs = append(probs, "the handler is not invoked with the context produced by generateRequestID: "+strings.Join(p.CallEffects(), "; "))
			}
		}
		report(c, "R19.1", g.Name+"$interceptor", g, probs, "handler receives the context (or wrapped stream) produced by generateRequestID")
	}
	if g, wt := tableOf(c, "R19.1", "grpc/middleware", "WrappedServerStream.Context", 0); wt != nil {
		c.Check(len(wt.Paths) == 1 && len(wt.Paths[0].Ret) == 1 && wt.Paths[0].Ret[0] == "p0.ctx", "R19.1", g.Name, g.Decl.Pos(), "the wrapped stream returns the stored context", "WrappedServerStream.Context returns "+strings.Join(wt.Paths[0].Ret, ","))
	}
	if g, nt := tableOf(c, "R19.1", "grpc/middleware", "NewWrappedServerStream", 0); nt != nil {
		ok := len(nt.Paths) == 1 && len(nt.Paths[0].Ret) == 1
		if ok {
			v, _ := nt.Paths[0].Field(nt.Paths[0].Ret[0], "ctx")
			ok = v == "p0"
		}
		c.Check(ok, "R19.1", g.Name, g.Decl.Pos(), "the wrapped stream stores the given context", "NewWrappedServerStream does not store its context argument")
	}
}

func r19WithSpan(c *an.Ctx) {
	const rule = "R19.3"
	f, t := tableOf(c, rule, "middleware", "WithSpan", 0)
	if t == nil {
		return
	}
	tk := "middleware.TraceIDKey"
	sk := "middleware.TraceSpanIDKey"
	pk := "middleware.TraceParentSpanIDKey"
	var probs []string
	for i := range t.Paths {
		p := &t.Paths[i]
		if len(p.Ret) != 1 {
			probs = append(probs, "no result")
			continue
		}
		r := p.Ret[0]
		e := pathEnv(p)
		hasParent := false
		for k, v := range e {
			if k == `(p3 == "")` {
				hasParent = !v
			} else {
				probs = append(probs, "WithSpan branches on "+k)
			}
		}
		for _, want := range []string{", " + tk + ", p1)", ", " + sk + ", p2)"} {
			if !strings.Contains(r, want) {
				probs = append(probs, "result "+r+" lacks a value stored as "+want)
			}
		}
		if hasParent != strings.Contains(r, ", "+pk+", p3)") {
			probs = append(probs, fmt.Sprintf("parent span stored=%v although parentID non-empty=%v", !hasParent, hasParent))
		}
		if strings.Count(r, "context.WithValue(") != map[bool]int{true: 3, false: 2}[hasParent] {
			probs = append(probs, "unexpected number of values stored: "+r)
		}
	}
	report(c, rule, f.Name, f, probs, "trace ID, span ID and (non-empty) parent span ID are each stored under their own context key")
}

// traceShape checks the common server-side trace logic of a path set.
func traceShape(c *an.Ctx, rule string, f *an.Func, construct string, t *an.PathTable, inboundTrace, inboundParent, opts, sampler string, withSpanCtx string) {
	var probs, sampProbs []string
	traced, untraced := 0, 0
	for i := range t.Paths {
		p := &t.Paths[i]
		e := pathEnv(p)
		inboundEmpty, known := false, false
		for k, v := range e {
			if k == "("+inboundTrace+` == "")` {
				inboundEmpty, known = v, true
			}
		}
		calls := p.CallEffects()
		sampled := false
		for _, cl := range calls {
			if strings.HasPrefix(cl, sampler+".Sample()") || strings.HasPrefix(cl, "(*middleware.TraceOptions).Discards(") {
				sampled = true
			}
		}
		if known && !inboundEmpty && sampled {
			sampProbs = append(sampProbs, "the sampler / discard list is consulted although the request carries a trace ID")
		}
		if known && inboundEmpty && !sampled {
			sampProbs = append(sampProbs, "a request without trace ID is decided without consulting discards or the sampler")
		}
		var ws string
		for _, cl := range calls {
			if j := strings.Index(cl, "middleware.WithSpan("); j >= 0 && ws == "" {
				ws = cl[j:]
			}
		}
		if ws == "" {
			untraced++
			continue
		}
		traced++
		traceTerm := inboundTrace
		if known && inboundEmpty {
			traceTerm = "(*middleware.TraceOptions).TraceID(" + opts + ")"
		}
		want := "middleware.WithSpan(" + withSpanCtx + ", " + traceTerm + ", (*middleware.TraceOptions).SpanID(" + opts + "), " + inboundParent + ")"
		if !strings.HasPrefix(ws, want) {
			probs = append(probs, "WithSpan is called as "+ws+"; expected "+want)
		}
	}
	if traced == 0 || untraced == 0 {
		probs = append(probs, fmt.Sprintf("traced paths=%d untraced paths=%d", traced, untraced))
	}
	report(c, rule, construct, f, probs, fmt.Sprintf("inbound trace ID kept (else fresh), fresh span from the span function, caller's span as parent, in WithSpan's argument order (%d traced paths)", traced))
	report(c, "R19.4", construct, f, sampProbs, "sampling and discards are consulted exactly when no inbound trace ID exists")
}

func r19HTTPTrace(c *an.Ctx) {
	f := c.MustFunc("R19.3", "http/middleware", "Trace")
	if f == nil {
		return
	}
	t := tableFn(c, anon(c.SSAFunc(f), 0, 0), 1)
	if t == nil {
		c.Undecidedf("R19.3", f.Name+"$handler", f.Decl.Pos(), "cannot table the request closure")
		return
	}
	th, _ := constValue(c, "http/middleware", "TraceIDHeader")
	ph, _ := constValue(c, "http/middleware", "ParentSpanIDHeader")
	inT := "(net/http.Header).Get(p1.Header, " + th + ")"
	inP := "(net/http.Header).Get(p1.Header, " + ph + ")"
	traceShape(c, "R19.3", f, f.Name+"$handler", t, inT, inP, "free:⟨middleware.NewTraceOptions(outer.p0)⟩", "free:⟨(*middleware.TraceOptions).NewSampler(middleware.NewTraceOptions(outer.p0))⟩", "(*net/http.Request).Context(p1)")
	var down []string
	for i := range t.Paths {
		p := &t.Paths[i]
		var serve, ws string
		for _, cl := range p.CallEffects() {
			if strings.Contains(cl, ".ServeHTTP(") {
				serve = cl
			}
			if strings.HasPrefix(cl, "middleware.WithSpan(") {
				ws = cl
			}
		}
		switch {
		case serve == "":
			down = append(down, "a path does not call the next handler")
		case ws != "" && !strings.Contains(serve, "(*net/http.Request).WithContext(p1, "+ws+")"):
			down = append(down, "traced request is forwarded without the span context: "+serve)
		case ws == "" && !strings.HasSuffix(serve, ".ServeHTTP(p0, p1)"):
			down = append(down, "untraced request is not forwarded unchanged: "+serve)
		}
	}
	report(c, "R19.1", f.Name+"$handler", f, down, "traced requests are forwarded with the WithSpan context, untraced ones unchanged")
	// the sampler is built once per middleware
	ot := tableFn(c, c.SSAFunc(f), 1)
	once := false
	if ot != nil {
		for _, p := range ot.Paths {
			for _, cl := range p.CallEffects() {
				if strings.HasPrefix(cl, "(*middleware.TraceOptions).NewSampler(") {
					once = true
				}
			}
		}
	}
	c.Check(once, "R19.4", f.Name+"#sampler", f.Decl.Pos(), "the sampler comes from the options (built once per middleware)", "Trace does not obtain its sampler from TraceOptions.NewSampler")
}

func r19GRPCTrace(c *an.Ctx) {
	f, t := tableOf(c, "R19.3", "grpc/middleware", "withTrace", 1)
	if t == nil {
		return
	}
	tk, _ := constValue(c, "grpc/middleware", "TraceIDMetadataKey")
	pk, _ := constValue(c, "grpc/middleware", "ParentSpanIDMetadataKey")
	// the metadata term varies with the FromIncomingContext branch; normalise it
	reMD := regexp.MustCompile(`grpc/middleware\.MetadataValue\((google\.golang\.org/grpc/metadata\.FromIncomingContext\(p0\)#0|makemap:metadata\.MD), `)
	norm := func(s string) string { return reMD.ReplaceAllString(s, "middleware.MetadataValue(md, ") }
	for i := range t.Paths {
		for j := range t.Paths[i].Atoms {
			t.Paths[i].Atoms[j].Term = norm(t.Paths[i].Atoms[j].Term)
		}
		for j := range t.Paths[i].Effects {
			t.Paths[i].Effects[j].Term = norm(t.Paths[i].Effects[j].Term)
		}
		for j := range t.Paths[i].Ret {
			t.Paths[i].Ret[j] = norm(t.Paths[i].Ret[j])
		}
	}
	inT := "middleware.MetadataValue(md, " + tk + ")"
	inP := "middleware.MetadataValue(md, " + pk + ")"
	traceShape(c, "R19.3", f, f.Name, t, inT, inP, "p2", "(*middleware.TraceOptions).NewSampler(p2)", "p0")
	var down []string
	for i := range t.Paths {
		p := &t.Paths[i]
		if len(p.Ret) != 1 {
			continue
		}
		traced := strings.HasPrefix(p.Ret[0], "middleware.WithSpan(p0, ")
		if !traced && p.Ret[0] != "p0" {
			down = append(down, "untraced call returns "+p.Ret[0])
		}
	}
	report(c, "R19.1", f.Name+"#result", f, down, "withTrace returns the WithSpan context or the unchanged context")
	for _, name := range []string{"UnaryServerTrace", "StreamServerTrace"} {
		g := c.MustFunc("R19.1", "grpc/middleware", name)
		if g == nil {
			continue
		}
		it := tableFn(c, anon(c.SSAFunc(g), 0), 0)
		if it == nil {
			c.Undecidedf("R19.1", g.Name+"$interceptor", g.Decl.Pos(), "cannot table the interceptor")
			continue
		}
		var probs []string
		for _, p := range it.Paths {
			ok := false
			for _, cl := range p.CallEffects() {
				// the handler gets the context withTrace derived from the request's own context, the method name and the
				// options of this interceptor (whatever else withTrace is handed, e.g. the interceptor's sampler)
				if name == "UnaryServerTrace" && tracedHandlerCall(cl, false) {
					ok = true
				}
				if name == "StreamServerTrace" && tracedHandlerCall(cl, true) {
					ok = true
				}
			}
			if !ok {
				probs = append(probs, "the handler is not invoked with withTrace's context: "+strings.Join(p.CallEffects(), "; "))
			}
		}
		report(c, "R19.1", g.Name+"$interceptor", g, probs, "handler receives the context (or wrapped stream) produced by withTrace")
	}
}

func r19Clients(c *an.Ctx) {
	const rule = "R19.3"
	tk := "middleware.TraceIDKey"
	sk := "middleware.TraceSpanIDKey"
	if f, t := tableOf(c, rule, "http/middleware", "tracedDoer.Do", 0); t != nil {
		th, _ := constValue(c, "http/middleware", "TraceIDHeader")
		ph, _ := constValue(c, "http/middleware", "ParentSpanIDHeader")
		ctxv := func(k string) string { return "(*net/http.Request).Context(p1).Value(" + k + ")" }
		var probs []string
		for i := range t.Paths {
			p := &t.Paths[i]
			e := pathEnv(p)
			has := false
			for k, v := range e {
				if k == "("+ctxv(tk)+" == nil)" {
					has = !v
				} else {
					probs = append(probs, "Do branches on "+k)
				}
			}
			setT, setP, forwarded := false, false, false
			for _, cl := range p.CallEffects() {
				if cl == "(net/http.Header).Set(p1.Header, "+th+", "+ctxv(tk)+".(string))" {
					setT = true
				}
				if cl == "(net/http.Header).Set(p1.Header, "+ph+", "+ctxv(sk)+".(string))" {
					setP = true
				}
				if strings.HasSuffix(cl, ".Do(p1)") {
					forwarded = true
				}
			}
			if has != setT || has != setP {
				probs = append(probs, fmt.Sprintf("trace present=%v but TraceID header set=%v, ParentSpanID header (from the current span) set=%v", has, setT, setP))
			}
			if !forwarded {
				probs = append(probs, "the request is not forwarded to the wrapped Doer")
			}
		}
		report(c, rule, f.Name, f, probs, "traced client forwards trace ID and the current span as parent span, then calls the wrapped Doer")
	}
	if f, t := tableOf(c, rule, "grpc/middleware", "setTrace", 0); t != nil {
		tmk, _ := constValue(c, "grpc/middleware", "TraceIDMetadataKey")
		pmk, _ := constValue(c, "grpc/middleware", "ParentSpanIDMetadataKey")
		var probs []string
		for i := range t.Paths {
			p := &t.Paths[i]
			e := pathEnv(p)
			has := false
			for k, v := range e {
				if k == "(p0.Value("+tk+") == nil)" {
					has = !v
				}
			}
			setT, setP := false, false
			for _, cl := range p.CallEffects() {
				if strings.HasPrefix(cl, "(google.golang.org/grpc/metadata.MD).Set(") && strings.HasSuffix(cl, ", "+tmk+", [p0.Value("+tk+").(string)]...)") {
					setT = true
				}
				if strings.HasPrefix(cl, "(google.golang.org/grpc/metadata.MD).Set(") && strings.HasSuffix(cl, ", "+pmk+", [p0.Value("+sk+").(string)]...)") {
					setP = true
				}
			}
			if has != setT || has != setP {
				probs = append(probs, fmt.Sprintf("trace present=%v but trace metadata set (replacing earlier values)=%v, parent span metadata set=%v", has, setT, setP))
			}
			if len(p.Ret) != 1 || has != strings.HasPrefix(p.Ret[0], "google.golang.org/grpc/metadata.NewOutgoingContext(p0, ") || (!has && p.Ret[0] != "p0") {
				probs = append(probs, "result is "+strings.Join(p.Ret, ","))
			}
		}
		report(c, rule, f.Name, f, probs, "outgoing metadata carries trace ID and the current span as parent (set, not appended), attached with NewOutgoingContext")
	}
	for _, name := range []string{"UnaryClientTrace", "StreamClientTrace"} {
		g := c.MustFunc("R19.1", "grpc/middleware", name)
		if g == nil {
			continue
		}
		it := tableFn(c, anon(c.SSAFunc(g), 0), 0)
		ok := it != nil
		if it != nil {
			for _, p := range it.Paths {
				hit := false
				for _, cl := range p.CallEffects() {
					if strings.HasPrefix(cl, "dyn:p") && strings.Contains(cl, "(grpc/middleware.setTrace(p0), ") {
						hit = true
					}
				}
				ok = ok && hit
			}
		}
		c.Check(ok, "R19.1", g.Name+"$interceptor", g.Decl.Pos(), "invoker/streamer receives setTrace's context", "the invoker is not called with the context returned by setTrace")
	}
}

func r19Samplers(c *an.Ctx) {
	const rule = "R19.6"
	if f := c.MustFunc(rule, "middleware", "fixedSampler.Sample"); f != nil {
		t := tableFn(c, c.SSAFunc(f), 0)
		if t == nil {
			c.Undecidedf(rule, f.Name, f.Decl.Pos(), "cannot table")
		} else {
			var probs []string
			for i := range t.Paths {
				p := &t.Paths[i]
				e := pathEnv(p)
				rng := false
				for _, cl := range p.CallEffects() {
					if strings.Contains(cl, "middleware.intn") || strings.HasPrefix(cl, "dyn:") {
						rng = true
					}
				}
				pos, pk := e["(p0 > 0)"]
				hundred, hk := e["(p0 == 100)"]
				if !pk {
					probs = append(probs, "path ["+p.GuardString()+"] does not test percent > 0")
					continue
				}
				if !pos {
					if rng || len(p.Ret) != 1 || p.Ret[0] != "false" {
						probs = append(probs, "percent <= 0 does not answer false without the RNG")
					}
					continue
				}
				if hk && hundred {
					if rng || len(p.Ret) != 1 || p.Ret[0] != "true" {
						probs = append(probs, "percent == 100 does not answer true without the RNG")
					}
					continue
				}
				if !rng {
					probs = append(probs, "0 < percent < 100 is decided without the RNG")
				}
			}
			report(c, rule, f.Name, f, probs, "percent<=0 → false and percent==100 → true without consulting the RNG; otherwise intn(100) < percent")
		}
	}
	if f, t := tableOf(c, rule, "middleware", "TraceOptions.NewSampler", 0); t != nil {
		var probs []string
		for i := range t.Paths {
			p := &t.Paths[i]
			e := pathEnv(p)
			adaptive, k := e["(p0.maxSamplingRate > 0)"]
			if !k || len(p.Ret) != 1 {
				probs = append(probs, "NewSampler decides on ["+p.GuardString()+"]")
				continue
			}
			if adaptive && p.Ret[0] != "middleware.NewAdaptiveSampler(p0.maxSamplingRate, p0.sampleSize)" {
				probs = append(probs, "adaptive sampler built as "+p.Ret[0])
			}
			if !adaptive && p.Ret[0] != "middleware.NewFixedSampler(p0.samplingPercent)" {
				probs = append(probs, "fixed sampler built as "+p.Ret[0])
			}
		}
		report(c, rule, f.Name, f, probs, "adaptive(maxSamplingRate, sampleSize) iff maxSamplingRate>0, else fixed(samplingPercent)")
	}
	if f, t := tableOf(c, rule, "middleware", "NewAdaptiveSampler", 0); t != nil {
		ok := false
		for i := range t.Paths {
			p := &t.Paths[i]
			if p.Exit == "return" && len(p.Ret) == 1 {
				mr, _ := p.Field(p.Ret[0], "maxSamplingRate")
				ss, _ := p.Field(p.Ret[0], "sampleSize")
				ok = mr == "p0" && strings.Contains(ss, "p1")
			}
		}
		c.Check(ok, rule, f.Name, f.Decl.Pos(), "maxSamplingRate and sampleSize reach their own fields", "NewAdaptiveSampler crosses or drops its parameters")
	}
}

func r19Capture(c *an.Ctx) {
	const rule = "R19.7"
	if f, t := tableOf(c, rule, "http/middleware", "ResponseCapture.WriteHeader", 0); t != nil {
		// Derived from the property's wording ("the status actually written"), not from the code: net/http sends the
		// first final status and ignores later calls. So (a) every path forwards the code, (b) a path that records
		// stores the code itself, (c) the store is conditional on the recorded status - some path keeps a status
		// already recorded - and (d) no path overwrites a status it knows to be final (recorded value tested as
		// non-zero / >= 200 on that path). The unconditional store of the pinned tree was a defect (fixed in /repo).
		var probs []string
		stores, keeps := 0, 0
		for i := range t.Paths {
			p := &t.Paths[i]
			fw := false
			for _, cl := range p.CallEffects() {
				if cl == "p0.ResponseWriter.WriteHeader(p1)" {
					fw = true
				}
			}
			if !fw {
				probs = append(probs, "a path does not forward the code to the underlying writer")
			}
			st, has := lastStore(p, regexp.MustCompile(`^p0\.StatusCode$`))
			guarded, nonzero, final, tests := false, false, false, 0
			for _, a := range p.Atoms {
				if strings.Contains(a.Term, "p0.StatusCode") {
					guarded = true
					tests++
					if (strings.Contains(a.Term, "== 0") && !a.Val) || (strings.Contains(a.Term, "!= 0") && a.Val) {
						nonzero = true
					}
					if (strings.Contains(a.Term, ">= 200") && a.Val) || (strings.Contains(a.Term, "< 200") && !a.Val) ||
						(strings.Contains(a.Term, "> 199") && a.Val) || (strings.Contains(a.Term, "<= 199") && !a.Val) {
						final = true
					}
				}
			}
			if has && final {
				probs = append(probs, "a final status already recorded is overwritten")
			}
			if !has && guarded && !final && !(nonzero && tests > 1) {
				// informational codes (100, 103) may be followed by the final one: net/http sends both
				probs = append(probs, "a recorded status is kept although it is only known to be non-zero: after an informational 1xx the final status that net/http sends is not recorded")
			}
			switch {
			case has && st != "p1":
				probs = append(probs, "the status recorded is "+st+", not the code forwarded")
			case has:
				stores++
			case guarded:
				keeps++
			}
		}
		if stores == 0 {
			probs = append(probs, "no path records the code")
		}
		if keeps == 0 {
			probs = append(probs, "the recorded status is overwritten unconditionally: a second WriteHeader, which net/http ignores, replaces the status that was sent")
		}
		report(c, rule, f.Name, f, probs, "the first final status written is the status recorded; every call is forwarded")
	}
	if f, t := tableOf(c, rule, "http/middleware", "ResponseCapture.Write", 0); t != nil {
		var probs []string
		implicit := false
		for i := range t.Paths {
			p := &t.Paths[i]
			e := pathEnv(p)
			cl, has := lastStore(p, regexp.MustCompile(`^p0\.ContentLength$`))
			if !has || cl != "(p0.ContentLength + p0.ResponseWriter.Write(p1)#0)" {
				probs = append(probs, "ContentLength is updated as "+cl+", expected += the count returned by the underlying Write")
			}
			if len(p.Ret) != 2 || p.Ret[0] != "p0.ResponseWriter.Write(p1)#0" || p.Ret[1] != "p0.ResponseWriter.Write(p1)#1" {
				probs = append(probs, "Write does not return the underlying writer's (n, err)")
			}
			zero, zk := e["(p0.StatusCode == 0)"]
			sc, stored := lastStore(p, regexp.MustCompile(`^p0\.StatusCode$`))
			if zk && zero {
				if !stored || sc != "200" {
					probs = append(probs, "a Write before WriteHeader does not record the implicit 200")
				} else {
					implicit = true
				}
			} else if stored {
				probs = append(probs, "Write overwrites an explicit status with "+sc)
			}
		}
		if !implicit {
			probs = append(probs, "no path records the implicit 200 of a Write without WriteHeader")
		}
		report(c, rule, f.Name, f, probs, "byte count = what the underlying writer reports; implicit 200 recorded on the first Write")
	}
	// no other method of the capture overwrites a status that was recorded: it may only record the implicit 200
	// while none is recorded yet
	for _, f := range c.AllFuncs("http/middleware") {
		if !strings.HasPrefix(f.Name, "http/middleware.ResponseCapture.") || strings.HasSuffix(f.Name, ".WriteHeader") || strings.HasSuffix(f.Name, ".Write") {
			continue
		}
		fn := c.SSAFunc(f)
		if fn == nil {
			continue
		}
		t := an.BuildPathTable(fn, an.PathOpts{})
		c.Stats["paths_enumerated"] += len(t.Paths)
		var probs []string
		for i := range t.Paths {
			p := &t.Paths[i]
			sc, stored := lastStore(p, regexp.MustCompile(`^p0\.StatusCode$`))
			if !stored {
				continue
			}
			if zero, zk := pathEnv(p)["(p0.StatusCode == 0)"]; !zk || !zero || sc != "200" {
				probs = append(probs, "the recorded status is overwritten with "+sc+" although one may already be recorded")
			}
		}
		report(c, rule, f.Name, f, probs, "does not overwrite a recorded status")
	}
}

func r19Options(c *an.Ctx) {
	const rule = "R19.8"
	type opt struct {
		dir, name, field string
		also             map[string]string
		appendTo         bool
	}
	opts := []opt{
		{"middleware", "SamplingPercent", "samplingPercent", nil, false},
		{"middleware", "MaxSamplingRate", "maxSamplingRate", nil, false},
		{"middleware", "SampleSize", "sampleSize", nil, false},
		{"middleware", "TraceIDFunc", "traceIDFunc", nil, false},
		{"middleware", "SpanIDFunc", "spanIDFunc", nil, false},
		{"middleware", "DiscardFromTrace", "discards", nil, true},
		{"middleware", "UseRequestIDOption", "useRequestID", nil, false},
		{"middleware", "RequestIDHeaderOption", "requestIDHeader", map[string]string{"useRequestID": "true"}, false},
		{"middleware", "RequestIDLimitOption", "requestIDLimit", nil, false},
	}
	n := 0
	for _, o := range opts {
		f := c.MustFunc(rule, o.dir, o.name)
		if f == nil {
			continue
		}
		fn := c.SSAFunc(f)
		var cl *ssa.Function
		if fn != nil && len(fn.AnonFuncs) > 0 {
			cl = fn.AnonFuncs[len(fn.AnonFuncs)-1]
		}
		t := tableFn(c, cl, 0)
		if t == nil || len(fn.Params) != 1 {
			c.Undecidedf(rule, f.Name, f.Decl.Pos(), "option constructor is not a one-parameter function returning one closure")
			continue
		}
		n++
		param := "free:⟨outer.p0⟩"
		var probs []string
		for i := range t.Paths {
			p := &t.Paths[i]
			v, has := lastStore(p, regexp.MustCompile(`^p0\.`+o.field+`$`))
			want := param
			if o.appendTo {
				want = "append(p0." + o.field + ", [" + param + "]...)"
			}
			if !has || v != want {
				probs = append(probs, fmt.Sprintf("field %s is set to %q, expected %s", o.field, v, want))
			}
			for fld, val := range o.also {
				if v, has := lastStore(p, regexp.MustCompile(`^p0\.`+fld+`$`)); !has || v != val {
					probs = append(probs, fmt.Sprintf("field %s is not set to %s", fld, val))
				}
			}
			if len(p.Ret) != 1 || p.Ret[0] != "p0" {
				probs = append(probs, "the option does not return the options object it was given")
			}
		}
		report(c, rule, f.Name, f, probs, "stores its argument into "+o.field+" and returns the same options")
	}
	c.Floor(rule, n, 9, "option constructors")
	// transport wrappers forward one-to-one
	wr := [][3]string{
		{"http/middleware", "SamplingPercent", "middleware.SamplingPercent(p0)"}, {"http/middleware", "MaxSamplingRate", "middleware.MaxSamplingRate(p0)"},
		{"http/middleware", "SampleSize", "middleware.SampleSize(p0)"}, {"http/middleware", "TraceIDFunc", "middleware.TraceIDFunc(p0)"},
		{"http/middleware", "SpanIDFunc", "middleware.SpanIDFunc(p0)"}, {"http/middleware", "DiscardFromTrace", "middleware.DiscardFromTrace(p0)"},
		{"http/middleware", "UseXRequestIDHeaderOption", "middleware.UseRequestIDOption(p0)"}, {"http/middleware", "RequestIDHeaderOption", "middleware.RequestIDHeaderOption(p0)"},
		{"http/middleware", "XRequestHeaderLimitOption", "middleware.RequestIDLimitOption(p0)"},
		{"grpc/middleware", "SamplingPercent", "middleware.SamplingPercent(p0)"}, {"grpc/middleware", "MaxSamplingRate", "middleware.MaxSamplingRate(p0)"},
		{"grpc/middleware", "SampleSize", "middleware.SampleSize(p0)"}, {"grpc/middleware", "TraceIDFunc", "middleware.TraceIDFunc(p0)"},
		{"grpc/middleware", "SpanIDFunc", "middleware.SpanIDFunc(p0)"}, {"grpc/middleware", "DiscardFromTrace", "middleware.DiscardFromTrace(p0)"},
		{"grpc/middleware", "UseXRequestIDMetadataOption", "middleware.UseRequestIDOption(p0)"}, {"grpc/middleware", "XRequestMetadataLimitOption", "middleware.RequestIDLimitOption(p0)"},
	}
	for _, w := range wr {
		f := c.Func(w[0], w[1])
		if f == nil {
			continue // wrappers may be removed without affecting the property
		}
		t := tableFn(c, c.SSAFunc(f), 0)
		ok := t != nil && len(t.Paths) == 1 && len(t.Paths[0].Ret) == 1 && t.Paths[0].Ret[0] == w[2]
		c.Check(ok, rule, f.Name+"#forward", f.Decl.Pos(), "forwards to "+w[2], "wrapper does not simply forward to "+w[2])
	}
}

// r19StreamContext (R19.9): a server stream wrapped for the downstream handler
// carries a context derived from the wrapped stream's own context
// (ss.Context()): the identifiers the upstream interceptors stored, and the
// inbound metadata, live there. A context that derives from anything else (the
// interceptor constructor's shutdown context, context.Background()) loses them.
func r19StreamContext(c *an.Ctx) {
	const rule = "R19.9"
	n := 0
	for _, dir := range []string{"grpc/middleware", "grpc/middleware/xray"} {
		for _, f := range c.AllFuncs(dir) {
			info := f.Pkg.TypesInfo
			// definitions of every local
			defs := map[types.Object][]ast.Expr{}
			ast.Inspect(f.Decl.Body, func(nd ast.Node) bool {
				as, ok := nd.(*ast.AssignStmt)
				if !ok {
					return true
				}
				for i, l := range as.Lhs {
					o := an.ObjOf(info, l)
					if o == nil {
						continue
					}
					if len(as.Rhs) == len(as.Lhs) {
						defs[o] = append(defs[o], as.Rhs[i])
					} else if len(as.Rhs) == 1 && i == 0 {
						defs[o] = append(defs[o], as.Rhs[0]) // first result of a multi-value call
					} else if len(as.Rhs) == 1 {
						defs[o] = append(defs[o], nil)
					}
				}
				return true
			})
			ast.Inspect(f.Decl.Body, func(nd ast.Node) bool {
				call, ok := nd.(*ast.CallExpr)
				if !ok || !strings.HasSuffix(an.CalleeName(info, call), "grpc/middleware.NewWrappedServerStream") || len(call.Args) != 2 {
					return true
				}
				n++
				ssObj := an.ObjOf(info, call.Args[1])
				seen := map[types.Object]bool{}
				var derives func(e ast.Expr) bool
				derives = func(e ast.Expr) bool {
					switch x := an.Unparen(e).(type) {
					case nil:
						return false
					case *ast.Ident:
						o := an.ObjOf(info, x)
						if o == nil || seen[o] {
							return o != nil
						}
						seen[o] = true
						ds := defs[o]
						if len(ds) == 0 {
							return false // a parameter or captured variable: not the stream's context
						}
						for _, d := range ds {
							if d == nil || !derives(d) {
								return false
							}
						}
						return true
					case *ast.CallExpr:
						if sel, ok := x.Fun.(*ast.SelectorExpr); ok && sel.Sel.Name == "Context" && len(x.Args) == 0 && an.ObjOf(info, sel.X) == ssObj && ssObj != nil {
							return true
						}
						if len(x.Args) > 0 {
							if t := info.TypeOf(x.Args[0]); t != nil && t.String() == "context.Context" {
								return derives(x.Args[0])
							}
						}
					}
					return false
				}
				c.Check(derives(call.Args[0]), rule, fmt.Sprintf("%s#NewWrappedServerStream(%s)", f.Name, an.Src(c.Fset, call.Args[0])), call.Pos(),
					"the wrapped stream's context derives from the stream's own context", "the context given to the wrapped stream does not derive from "+an.Src(c.Fset, call.Args[1])+".Context(): request ID, trace identifiers and inbound metadata stored by upstream interceptors are lost to the handler")
				return true
			})
		}
	}
	c.Floor(rule, n, 3, "wrapped server streams in the gRPC middlewares")
}

// r1912BodyBookkeeping (R19.12): net/http sends an implicit 200 with the first body byte, whichever way the body is
// written. Every method of ResponseCapture that counts body bytes (stores ContentLength) therefore also records the
// implicit status: it tests StatusCode against 0 (itself or through a helper it calls) before it forwards the bytes.
// A body-writing method without that step (an added ReadFrom, WriteString…) leaves StatusCode at 0 for handlers that
// never call WriteHeader, and the log and trace middlewares report status 0 for a 200.
func r1912BodyBookkeeping(c *an.Ctx, rule string) {
	n := 0
	for _, f := range c.AllFuncs("http/middleware") {
		if f.Decl.Recv == nil || len(f.Decl.Recv.List) == 0 || !strings.Contains(types.ExprString(f.Decl.Recv.List[0].Type), "ResponseCapture") {
			continue
		}
		counts, tests := false, false
		c.InspectAll(f, func(hf *an.Func, nd ast.Node) bool {
			info := hf.Pkg.TypesInfo
			switch x := nd.(type) {
			case *ast.AssignStmt:
				for _, l := range x.Lhs {
					if fv := an.FieldOf(info, l); fv != nil && an.CanonFieldName(fv) == "ContentLength" {
						counts = true
					}
				}
			case *ast.IncDecStmt:
				if fv := an.FieldOf(info, x.X); fv != nil && an.CanonFieldName(fv) == "ContentLength" {
					counts = true
				}
			case *ast.BinaryExpr:
				for _, e := range []ast.Expr{x.X, x.Y} {
					if fv := an.FieldOf(info, e); fv != nil && an.CanonFieldName(fv) == "StatusCode" {
						tests = true
					}
				}
			}
			return true
		})
		if !counts {
			continue
		}
		n++
		c.Check(tests, rule, c.RefName(f)+"#implicit-status", f.Decl.Pos(), "the method that counts body bytes records the implicit 200 first", "the method counts body bytes (ContentLength) but never looks at StatusCode: a handler that writes its body through it without WriteHeader is recorded with status 0 although net/http sent 200")
	}
	c.Floor(rule, n, 1, "body-writing methods of ResponseCapture")
}

// tracedHandlerCall: the downstream handler is called with the context withTrace derived from the request's own
// context, the method name and this interceptor's options (and whatever else withTrace is handed).
func tracedHandlerCall(cl string, stream bool) bool {
	if !strings.HasPrefix(cl, "dyn:p3(") {
		return false
	}
	args := topArgs(cl)
	if len(args) != 2 {
		return false
	}
	wt, rest := args[0], args[1]
	wantCtx := "p0"
	if stream {
		// dyn:p3(p0, NewWrappedServerStream(withTrace(...), p1))
		if wt != "p0" || !strings.HasPrefix(rest, "grpc/middleware.NewWrappedServerStream(") {
			return false
		}
		inner := topArgs(rest)
		if len(inner) != 2 || inner[1] != "p1" {
			return false
		}
		wt, wantCtx = inner[0], "p1.Context()"
	} else if rest != "p1" {
		return false
	}
	if !strings.HasPrefix(wt, "grpc/middleware.withTrace(") {
		return false
	}
	wa := topArgs(wt)
	return len(wa) >= 3 && wa[0] == wantCtx && wa[1] == "p2.FullMethod" && wa[2] == "free:⟨middleware.NewTraceOptions(outer.p0)⟩"
}

// r1913SamplerLifetime (R19.13): a sampler is a stateful object (the adaptive one counts requests and re-computes its
// rate every sample-size requests). It belongs to the middleware, not to a request: every call of
// TraceOptions.NewSampler in the runtime packages is made in a function that builds a middleware - a function that
// takes neither a context nor a request - never in a function that handles one request. A sampler created per
// request starts from its initial state every time and always samples: MaxSamplingRate limits nothing.
func r1913SamplerLifetime(c *an.Ctx, rule string) {
	n := 0
	for _, dir := range []string{"middleware", "http/middleware", "grpc/middleware", "http/middleware/xray", "grpc/middleware/xray", "middleware/xray"} {
		for _, f := range c.AllFuncs(dir) {
			info := f.Pkg.TypesInfo
			ast.Inspect(f.Decl, func(nd ast.Node) bool {
				call, ok := nd.(*ast.CallExpr)
				if !ok || !strings.HasSuffix(an.CalleeName(info, call), "TraceOptions).NewSampler") {
					return true
				}
				n++
				// the innermost function (declaration or literal) around the call
				var params *ast.FieldList = f.Decl.Type.Params
				ast.Inspect(f.Decl.Body, func(m ast.Node) bool {
					if fl, ok := m.(*ast.FuncLit); ok && fl.Pos() <= call.Pos() && call.End() <= fl.End() {
						params = fl.Type.Params
					}
					return true
				})
				perRequest := ""
				if params != nil {
					for _, fld := range params.List {
						switch ts := types.ExprString(fld.Type); ts {
						case "context.Context", "*http.Request", "http.ResponseWriter", "grpc.ServerStream":
							perRequest = ts
						}
					}
				}
				c.Check(perRequest == "", rule, fmt.Sprintf("%s#NewSampler", c.RefName(f)), call.Pos(), "the sampler is created with the middleware, once", "the sampler is created in a function that handles one request (it takes a "+perRequest+"): every request gets a fresh sampler, whose first decision is always to sample, so the configured maximum sampling rate limits nothing")
				return true
			})
		}
	}
	c.Floor(rule, n, 2, "sampler constructions in the trace middlewares")
}
