package props

import (
	"fmt"
	"go/ast"
	"go/token"
	"go/types"
	"os"
	"path/filepath"
	"regexp"
	"sort"
	"strings"

	"goacheck/an"
)

func init() { Registry["C01"] = runC01 }

const explanationC01 = "Decides structural necessary conditions of C01 on the mechanisms its anchors name: (R01.1) every identifier computed by Goify passes the reserved-word escape, which consults Go keywords, predeclared identifiers and the package table; (R01.2) name allocation registers what it returns — every name returned by NameScope.Unique is recorded in the scope's table with the returned value, and HashedUnique looks up and stores under the same hash key the name it returns; (R01.3) validation templates never print a key that may be absent (shared with C04/R04.3–R04.4); (R01.4) every Go file reported as written was parsed and formatted and the write pipeline's errors are not swallowed (shared with C09/R09.4–R09.7); (R01.5) example generation never divides by a length difference that can be zero (a strict comparison dominates the modulo); (R01.6) once a validator prepares a type-resolved copy of a mapped attribute, its kind checks walk that copy and not the unresolved original; (R01.7) local variable names of generated code are allocated through the name scope in the HTTP/gRPC data builders; (R01.8) generator-wide lints whose violations yield crashes or duplicate/uncompilable output — stale search flags and per-iteration variables, seen-sets keyed inconsistently, recursion guards dropped, slices reused across iterations, range bodies of templates ignoring their element; (R01.9) the conversion templates cast with the Go type of their branch (shared with C02/R02.3); (R01.10) bytes and any are singled out together wherever a primitive's pointer-ness is decided; (R01.11) the HTTP type builder flattens primitive aliases completely (visited or not, alias of alias, validation merged into the attribute); (R01.12) conversion partials receive the name they define and the name they read in that order; (R01.13) the identifiers of the request builder's fixed text are reserved in the scope that names its path-parameter variables; (R01.14) the validator and the finalizer inherit security requirements in the same order; (R01.15) no generator function is handed a nil map that it stores into on a path the call can reach (the conditions that dominate the store, rewritten with the call's arguments, are contradicted at the call). NOT decided: type-correctness of the generated packages for all designs (needs the generator to run and go/types on its output — translation validation, another family)."

func runC01(c *an.Ctx) string {
	r011Goify(c)
	r012Scope(c)
	r04ValidationTemplates(c) // R01.3 (rule ids R04.3/R04.4/R04.8)
	r094Render(c)             // R01.4 (rule ids R09.4/R09.7)
	r097ErrGates(c)
	r015Modulo(c)
	r016PreparedCopies(c)
	r017ScopedNames(c)
	r018GeneratorLints(c)
	r023Conversions(c, "R01.9") // a wrong cast type in a conversion template is a compile error (shared with C02/R02.3)
	r0110NilableKinds(c, "R01.10")
	conversionRolesRule(c, "R01.12", "http/codegen/templates")
	aliasFlattening(c, "R01.11")
	r0113ReservedLocals(c, "R01.13")
	r0115NilMapArgs(c, "R01.15")
	r067InheritanceAgreement(c, "R01.14") // accepted designs are generated with the requirements they were validated against // an unflattened alias leaves validation code written for the primitive on a user type
	return explanationC01
}

func r011Goify(c *an.Ctx) {
	const rule = "R01.1"
	if f, t := tableOf(c, rule, "codegen", "Goify", 0); t != nil {
		var probs []string
		computed := 0
		for i := range t.Paths {
			p := &t.Paths[i]
			if len(p.Ret) != 1 {
				continue
			}
			r := p.Ret[0]
			if strings.HasPrefix(r, `"`) {
				continue // constant fallbacks ("", "Val", "val") are not reserved words
			}
			computed++
			if !strings.HasPrefix(r, "codegen.fixReservedGo(") {
				probs = append(probs, "a computed identifier is returned without the reserved-word escape: "+r)
			}
		}
		if computed == 0 {
			probs = append(probs, "no path returns a computed identifier")
		}
		report(c, rule, f.Name, f, probs, fmt.Sprintf("every computed identifier is the result of fixReservedGo (%d paths)", computed))
	}
	if f, t := tableOf(c, rule, "codegen", "fixReservedGo", 0); t != nil {
		consults := map[string]bool{}
		escapes := false
		for i := range t.Paths {
			p := &t.Paths[i]
			for _, a := range p.Atoms {
				switch {
				case strings.HasPrefix(a.Term, "go/doc.IsPredeclared(p0)"):
					consults["predeclared"] = true
				case strings.HasPrefix(a.Term, "go/token.IsKeyword(p0)"):
					consults["keyword"] = true
				case strings.Contains(a.Term, "codegen.isPackage[p0]"):
					consults["package"] = true
				}
				if a.Val && len(p.Ret) == 1 && p.Ret[0] == `(p0 + "_")` {
					escapes = true
				}
			}
			// a path on which one of the predicates holds must escape
			holds := false
			for _, a := range p.Atoms {
				if a.Val {
					holds = true
				}
			}
			if holds && (len(p.Ret) != 1 || p.Ret[0] != `(p0 + "_")`) {
				escapes = false
			}
		}
		c.Check(len(consults) == 3 && escapes, rule, f.Name, f.Decl.Pos(), "keywords, predeclared identifiers and clashing package names all get a trailing underscore",
			fmt.Sprintf("reserved-word escape consults %v (expected keyword, predeclared, package) or does not append \"_\" when one holds", sortedKeys(consults)))
	}
}

func r012Scope(c *an.Ctx) {
	const rule = "R01.2"
	if f, t := tableOf(c, rule, "codegen", "NameScope.Unique", 1); t != nil {
		var probs []string
		rets := 0
		for i := range t.Paths {
			p := &t.Paths[i]
			if p.Exit != "return" || len(p.Ret) != 1 {
				continue
			}
			rets++
			registered := false
			for _, e := range p.Effects {
				if e.Kind == "mapupdate" && strings.HasPrefix(e.Term, "p0.counts["+p.Ret[0]+"] = ") {
					registered = true
				}
			}
			if !registered {
				probs = append(probs, "the name "+p.Ret[0]+" is returned without being recorded in the scope: the next request for it gets the same identifier (duplicate declaration)")
			}
		}
		if rets < 3 {
			probs = append(probs, fmt.Sprintf("only %d returning paths tabled", rets))
		}
		report(c, rule, f.Name, f, probs, fmt.Sprintf("every returned name is recorded in the scope's table under the returned value (%d paths)", rets))
	}
	if f, t := tableOf(c, rule, "codegen", "NameScope.HashedUnique", 0); t != nil {
		var probs []string
		for i := range t.Paths {
			p := &t.Paths[i]
			e := pathEnv(p)
			hit := false
			for k, v := range e {
				if k == "p0.names[p1.Hash()]#1" {
					hit = v
				} else {
					probs = append(probs, "HashedUnique branches on "+k)
				}
			}
			if len(p.Ret) != 1 {
				continue
			}
			if hit {
				if p.Ret[0] != "p0.names[p1.Hash()]#0" {
					probs = append(probs, "a known key returns "+p.Ret[0])
				}
				continue
			}
			stored := false
			for _, ef := range p.Effects {
				if ef.Kind == "mapupdate" && ef.Term == "p0.names[p1.Hash()] = "+p.Ret[0] {
					stored = true
				}
			}
			if !stored || !strings.HasPrefix(p.Ret[0], "(*codegen.NameScope).Unique(p0, p2, ") {
				probs = append(probs, "a new key returns "+p.Ret[0]+" without storing it under key.Hash()")
			}
		}
		report(c, rule, f.Name, f, probs, "same hash key for lookup and store; the stored name is the returned name, allocated by Unique")
	}
}

// reviewedDivisions: divisors whose non-zero-ness follows from facts outside the function. The key names the
// function and the shape of the divisor (locals resolved to their single definition, operands named by their
// type), so that renaming a local or inlining it does not change the key; guard, when set, is the predicate a
// dominating test must call.
var reviewedDivisions = map[string]struct{ guard, why string }{
	"expr.byEnum#len(ValidationExpr.Values)": {"hasEnumValidation", "hasEnumValidation (tested on entry) holds only when the enum has at least one value"},
	"expr.patgen#len(Regexp.Sub)":            {"", "regexp/syntax guarantees an OpAlternate node has at least two sub-expressions"},
	"expr.patgen#len([]rune)":                {"", "a character class node of a simplified regexp has at least one rune range, so chars is non-empty"},
}

// divisorShape renders a divisor with locals resolved and operands named by their type.
func divisorShape(info *types.Info, body ast.Node, e ast.Expr) string {
	e = an.Unparen(an.ResolveLocal(info, body, e))
	switch x := e.(type) {
	case *ast.CallExpr:
		if id, ok := x.Fun.(*ast.Ident); ok && id.Name == "len" && len(x.Args) == 1 {
			return "len(" + divisorShape(info, body, x.Args[0]) + ")"
		}
		if tv, ok := info.Types[x]; ok {
			return tv.Type.String()
		}
	case *ast.SelectorExpr:
		if tv, ok := info.Types[x.X]; ok {
			if n := an.NamedTypeName(tv.Type); n != "" {
				if i := strings.LastIndex(n, "."); i >= 0 {
					n = n[i+1:]
				}
				return n + "." + x.Sel.Name
			}
		}
	case *ast.Ident:
		if tv, ok := info.Types[x]; ok {
			return tv.Type.String()
		}
	}
	return types.ExprString(e)
}

func r015Modulo(c *an.Ctx) {
	const rule = "R01.5"
	n := 0
	for _, f := range c.AllFuncs("expr") {
		if !strings.HasPrefix(c.Position(f.Decl.Pos()), "expr/example.go") && !strings.HasPrefix(c.Position(f.Decl.Pos()), "expr/random.go") {
			continue
		}
		info := f.Pkg.TypesInfo
		var g *an.CFG
		ast.Inspect(f.Decl.Body, func(nd ast.Node) bool {
			be, ok := nd.(*ast.BinaryExpr)
			if !ok || (be.Op != token.REM && be.Op != token.QUO) {
				return true
			}
			if _, isConst := an.ConstInt(info, be.Y); isConst {
				return true
			}
			if tv, ok := info.Types[be.Y]; ok {
				if b, isBasic := tv.Type.Underlying().(*types.Basic); !isBasic || b.Info()&types.IsInteger == 0 {
					return true // only integer division panics
				}
			}
			n++
			if g == nil {
				g = an.NewCFG(info, f.Decl.Body)
			}
			construct := fmt.Sprintf("%s#%s", f.Name, types.ExprString(be))
			_, found := g.LocOf(be)
			if !found {
				c.Undecidedf(rule, construct, be.Pos(), "cannot locate the division")
				return true
			}
			if rv, ok := reviewedDivisions[f.Name+"#"+divisorShape(info, f.Decl.Body, be.Y)]; ok {
				guarded := rv.guard == ""
				rfacts, _ := g.FactsFor(be)
				for _, fct := range rfacts {
					for _, call := range an.AllCallsIn(fct.Cond) {
						if o := an.Callee(info, call); o != nil && o.Name() == rv.guard {
							guarded = true
						}
					}
				}
				if guarded {
					c.Okf(rule, construct, "reviewed: %s", rv.why)
					return true
				}
			}
			// the divisor: a variable defined as (int of) A - B, or A - B itself
			div := an.Unparen(be.Y)
			if conv, isConv := div.(*ast.CallExpr); isConv && len(conv.Args) == 1 {
				if tv, ok := info.Types[conv.Fun]; ok && tv.IsType() {
					div = an.Unparen(conv.Args[0]) // integer conversion of the difference
				}
			}
			var a, b ast.Expr
			var divObj types.Object
			if id, isId := div.(*ast.Ident); isId {
				divObj = an.ObjOf(info, id)
				ast.Inspect(f.Decl.Body, func(x ast.Node) bool {
					as, isAs := x.(*ast.AssignStmt)
					if !isAs || len(as.Lhs) != 1 || len(as.Rhs) != 1 || an.ObjOf(info, as.Lhs[0]) != divObj || a != nil {
						return true
					}
					rhs := an.Unparen(as.Rhs[0])
					if call, isCall := rhs.(*ast.CallExpr); isCall && len(call.Args) == 1 {
						rhs = an.Unparen(call.Args[0])
					}
					if sub, isSub := rhs.(*ast.BinaryExpr); isSub && sub.Op == token.SUB {
						a, b = sub.X, sub.Y
					}
					return true
				})
			} else if sub, isSub := div.(*ast.BinaryExpr); isSub && sub.Op == token.SUB {
				a, b = sub.X, sub.Y
			}
			safe := false
			dfacts, _ := g.FactsFor(be)
			for _, fct := range dfacts {
				cond, isBin := an.Unparen(fct.Cond).(*ast.BinaryExpr)
				if !isBin {
					continue
				}
				if a != nil && b != nil {
					// b < a holds, or a > b holds, or a != b holds, or (a <= b / b >= a / a == b) does not hold
					switch {
					case fct.Holds && cond.Op == token.LSS && an.SameExpr(info, cond.X, b) && an.SameExpr(info, cond.Y, a),
						fct.Holds && cond.Op == token.GTR && an.SameExpr(info, cond.X, a) && an.SameExpr(info, cond.Y, b),
						fct.Holds && cond.Op == token.NEQ && (an.SameExpr(info, cond.X, a) && an.SameExpr(info, cond.Y, b) || an.SameExpr(info, cond.X, b) && an.SameExpr(info, cond.Y, a)),
						!fct.Holds && cond.Op == token.LEQ && an.SameExpr(info, cond.X, a) && an.SameExpr(info, cond.Y, b),
						!fct.Holds && cond.Op == token.GEQ && an.SameExpr(info, cond.X, b) && an.SameExpr(info, cond.Y, a),
						!fct.Holds && cond.Op == token.EQL && (an.SameExpr(info, cond.X, a) && an.SameExpr(info, cond.Y, b) || an.SameExpr(info, cond.X, b) && an.SameExpr(info, cond.Y, a)):
						safe = true
					}
				}
				if divObj != nil && an.ObjOf(info, cond.X) == divObj {
					if k, isK := an.ConstInt(info, cond.Y); isK && ((fct.Holds && (cond.Op == token.GTR && k >= 0 || cond.Op == token.NEQ && k == 0 || cond.Op == token.GEQ && k >= 1)) || (!fct.Holds && (cond.Op == token.EQL && k == 0 || cond.Op == token.LEQ && k >= 0))) {
						safe = true
					}
				}
			}
			if safe {
				c.Okf(rule, construct, "a strict comparison of the two lengths (or a non-zero test of the divisor) dominates the division")
			} else {
				c.Failf(rule, construct, be.Pos(), "integer division/modulo by %s with no dominating test that it is non-zero: a design whose two length bounds are equal is accepted by validation and then crashes example generation with a division by zero", types.ExprString(be.Y))
			}
			return true
		})
	}
	c.Floor(rule, n, 1, "integer divisions by a non-constant in example generation")
}

func r016PreparedCopies(c *an.Ctx) {
	const rule = "R01.6"
	n := 0
	for _, f := range c.AllFuncs("expr") {
		info := f.Pkg.TypesInfo
		// locals assigned from DupMappedAtt(E)
		type prep struct {
			orig ast.Expr
			pos  token.Pos
			obj  types.Object
		}
		var preps []prep
		ast.Inspect(f.Decl.Body, func(nd ast.Node) bool {
			as, ok := nd.(*ast.AssignStmt)
			if !ok || len(as.Lhs) != 1 || len(as.Rhs) != 1 {
				return true
			}
			call, ok := an.Unparen(as.Rhs[0]).(*ast.CallExpr)
			if !ok || an.CalleeName(info, call) != an.P("expr")+".DupMappedAtt" || len(call.Args) != 1 {
				return true
			}
			if o := an.ObjOf(info, as.Lhs[0]); o != nil {
				preps = append(preps, prep{call.Args[0], as.End(), o})
			}
			return true
		})
		if len(preps) == 0 {
			continue
		}
		for _, p := range preps {
			n++
			var stale []string
			for _, call := range an.AllCallsIn(f.Decl.Body) {
				if call.Pos() < p.pos || !strings.HasSuffix(an.CalleeName(info, call), ".WalkMappedAttr") || len(call.Args) < 1 {
					continue
				}
				if an.SameExpr(info, call.Args[0], p.orig) {
					stale = append(stale, c.Position(call.Pos()))
				}
			}
			construct := fmt.Sprintf("%s#copy(%s)", f.Name, types.ExprString(p.orig))
			if len(stale) > 0 {
				c.Failf(rule, construct, p.pos, "a prepared copy %s of %s exists (types resolved from the payload) but the walk at %s still visits the unresolved original: kind checks see the default type and accept mappings that later generate uncompilable code", p.obj.Name(), types.ExprString(p.orig), strings.Join(stale, ", "))
			} else {
				c.Okf(rule, construct, "later walks use the prepared copy %s", p.obj.Name())
			}
		}
	}
	c.Floor(rule, n, 2, "prepared copies of mapped attributes in expr validators")
}

func r017ScopedNames(c *an.Ctx) {
	const rule = "R01.7"
	fns := [][2]string{{"http/codegen", "ServicesData.analyze"}, {"http/codegen", "extractPathParams"}, {"http/codegen", "extractQueryParams"}, {"http/codegen", "extractHeaders"}, {"http/codegen", "extractCookies"}, {"grpc/codegen", "extractMetadata"}}
	n := 0
	for _, spec := range fns {
		f := c.MustFunc(rule, spec[0], spec[1])
		if f == nil {
			continue
		}
		info := f.Pkg.TypesInfo
		// parent map for calls
		parent := map[ast.Node]ast.Node{}
		var stack []ast.Node
		ast.Inspect(f.Decl.Body, func(nd ast.Node) bool {
			if nd == nil {
				stack = stack[:len(stack)-1]
				return false
			}
			if len(stack) > 0 {
				parent[nd] = stack[len(stack)-1]
			}
			stack = append(stack, nd)
			return true
		})
		for _, call := range an.AllCallsIn(f.Decl.Body) {
			if an.CalleeName(info, call) != an.P("codegen")+".Goify" || len(call.Args) != 2 {
				continue
			}
			if up, isConst := an.ConstBool(info, call.Args[1]); !isConst || up {
				continue
			}
			n++
			construct := fmt.Sprintf("%s#var(%s)", f.Name, types.ExprString(call.Args[0]))
			wrapped := false
			if pc, ok := parent[call].(*ast.CallExpr); ok {
				name := an.CalleeName(info, pc)
				if strings.HasSuffix(name, "NameScope).Name") || strings.HasSuffix(name, "NameScope).Unique") || strings.HasSuffix(name, "NameScope).HashedUnique") {
					wrapped = true
				}
			}
			c.Check(wrapped, rule, construct, call.Pos(), "the generated variable name is allocated through the name scope", "the generated local variable name is used as is, bypassing the name scope: it can collide with identifiers the scope reserved (for instance the `v` parameter of request builders) and the package does not compile")
		}
	}
	c.Floor(rule, n, 6, "generated variable names in the transport data builders")
}

func r018GeneratorLints(c *an.Ctx) {
	const rule = "R01.8"
	n := 0
	for _, dir := range genDirs {
		for _, f := range c.AllFuncs(dir) {
			n++
			for _, sf := range an.StaleFlags(f) {
				c.Failf(rule, fmt.Sprintf("%s#flag(%s)", f.Name, sf.Var.Name()), sf.Set.Pos(), "stale search flag %s (set in an inner loop, tested at %s, never reset)", sf.Var.Name(), c.Position(sf.Read.Pos()))
			}
			for _, sv := range an.StaleLoopVars(f) {
				c.Failf(rule, fmt.Sprintf("%s#var(%s)", f.Name, sv.Var.Name()), sv.Set.Pos(), "stale per-iteration variable %s (conditionally assigned, read at %s)", sv.Var.Name(), c.Position(sv.Read.Pos()))
			}
			for _, m := range an.MemoKeyMismatches(f) {
				c.Failf(rule, fmt.Sprintf("%s#memo(%s)", f.Name, m.Map.Name()), m.Store.Pos(), "set %s is tested under key %s but filled under key %s", m.Map.Name(), types.ExprString(m.Lookup), types.ExprString(m.Store))
			}
			for _, p := range an.SelfRecursionDrops(f) {
				c.Failf(rule, f.Name+"#recursion-guard", f.Decl.Pos(), "%s", p)
			}
			for _, sr := range an.SliceReuses(f) {
				c.Failf(rule, fmt.Sprintf("%s#slice(%s)", f.Name, sr.Var.Name()), sr.Reset.Pos(), "slice %s is truncated in place and stored in the same loop", sr.Var.Name())
			}
		}
	}
	c.Okf(rule, "generators#lints", "%d generator functions: no stale flag or per-iteration variable, no inconsistent seen-set key, no dropped recursion guard, no reused slice", n)
	tplRangeIndexRule(c, rule, "http/codegen/templates", "grpc/codegen/templates", "codegen/service/templates", "codegen/example/templates", "codegen/cli/templates")
}

// r0110NilableKinds (R01.10): of the primitive kinds, bytes ([]byte) and any
// (interface) are the two whose Go representation is already nilable: they are
// never turned into pointers. The decision is taken independently in several
// places (expr.IsPrimitivePointer, the validation generator twice, the name
// scope, the CLI flag builder); every boolean expression that singles out one of
// the two kinds must single out the other as well, or the places disagree on
// whether a field is a pointer and the generated code does not compile
// (`*body.Value` on an `any`, nil comparison on a value).
func r0110NilableKinds(c *an.Ctx, rule string) {
	n := 0
	for _, dir := range append([]string{"expr"}, genDirs...) {
		for _, f := range c.AllFuncs(dir) {
			info := f.Pkg.TypesInfo
			// maximal boolean expressions
			seen := map[ast.Expr]bool{}
			ast.Inspect(f.Decl.Body, func(nd ast.Node) bool {
				e, ok := nd.(ast.Expr)
				if !ok {
					return true
				}
				b, ok := e.(*ast.BinaryExpr)
				if !ok || seen[e] {
					return true
				}
				if b.Op != token.LAND && b.Op != token.LOR && b.Op != token.EQL && b.Op != token.NEQ {
					return true
				}
				kinds := map[string]bool{}
				ast.Inspect(e, func(m ast.Node) bool {
					if me, ok := m.(ast.Expr); ok {
						seen[me] = true
					}
					cmp, ok := m.(*ast.BinaryExpr)
					if !ok || (cmp.Op != token.EQL && cmp.Op != token.NEQ) {
						return true
					}
					for _, side := range []ast.Expr{cmp.X, cmp.Y} {
						var id *ast.Ident
						switch x := an.Unparen(side).(type) {
						case *ast.Ident:
							id = x
						case *ast.SelectorExpr:
							id = x.Sel
						}
						if id == nil {
							continue
						}
						if k, ok := info.Uses[id].(*types.Const); ok && k.Pkg() != nil && k.Pkg().Path() == an.P("expr") && strings.HasSuffix(k.Name(), "Kind") {
							kinds[k.Name()] = true
						}
					}
					return true
				})
				if !kinds["BytesKind"] && !kinds["AnyKind"] {
					return false
				}
				for k := range kinds {
					if k != "BytesKind" && k != "AnyKind" && k != "StringKind" {
						return false // a decision about something else (kinds that have a length, …)
					}
				}
				n++
				construct := fmt.Sprintf("%s#kinds(%s)", f.Name, an.Src(c.Fset, e))
				c.Check(kinds["BytesKind"] && kinds["AnyKind"], rule, construct, e.Pos(), "bytes and any are singled out together", "the expression singles out "+map[bool]string{true: "BytesKind", false: "AnyKind"}[kinds["BytesKind"]]+" but not the other nilable primitive kind: this place now disagrees with the others on which primitives are pointers")
				return false
			})
		}
	}
	c.Floor(rule, n, 4, "boolean expressions singling out the nilable primitive kinds")
}

var reTplDecl = regexp.MustCompile(`(?m)^\s*([a-z]\w*(?:\s*,\s*[a-z_]\w*)*)\s*:=`)
var reTplPkgUse = regexp.MustCompile(`\b([a-z]\w*)\.[A-Z]\w*`)

// r0113ReservedLocals (R01.13): the client request builder is rendered from
// fixed template text that declares its own locals (p, ok, rd, body, u, req,
// err, scheme), has the parameters ctx and v and the receiver c, and refers to
// packages (url, http, io, goahttp); into the same function body it declares one
// variable per path parameter, named after the design's attribute by a name
// scope. Every identifier the fixed text declares or qualifies with must be
// reserved in that scope, or a path parameter of that name shadows it and the
// generated function does not compile (`p = p.P`).
func r0113ReservedLocals(c *an.Ctx, rule string) {
	f := c.MustFunc(rule, "http/codegen", "ServicesData.analyze")
	if f == nil {
		return
	}
	info := f.Pkg.TypesInfo
	// the scope whose Unique() result becomes the VarName of the builder's arguments
	var scopeObj types.Object
	ast.Inspect(f.Decl.Body, func(nd ast.Node) bool {
		as, ok := nd.(*ast.AssignStmt)
		if !ok || len(as.Lhs) != 1 || len(as.Rhs) != 1 {
			return true
		}
		se, ok := as.Lhs[0].(*ast.SelectorExpr)
		if !ok || se.Sel.Name != "VarName" {
			return true
		}
		call, ok := as.Rhs[0].(*ast.CallExpr)
		if !ok || !strings.HasSuffix(an.CalleeName(info, call), "NameScope).Unique") {
			return true
		}
		if fs, ok := call.Fun.(*ast.SelectorExpr); ok {
			if o := an.ObjOf(info, fs.X); o != nil && scopeObj == nil {
				// the builder's scope is a local created in this function (not the service-wide scope)
				if _, isField := fs.X.(*ast.SelectorExpr); !isField {
					scopeObj = o
				}
			}
		}
		return true
	})
	if scopeObj == nil {
		c.Add(an.Obligation{Rule: rule, Construct: f.Name + "#builder scope", Status: an.LOST, Detail: "no local name scope feeding VarName found"})
		return
	}
	reserved := map[string]bool{}
	ast.Inspect(f.Decl.Body, func(nd ast.Node) bool {
		switch x := nd.(type) {
		case *ast.CallExpr:
			if fs, ok := x.Fun.(*ast.SelectorExpr); ok && an.ObjOf(info, fs.X) == scopeObj && fs.Sel.Name == "Unique" && len(x.Args) >= 1 {
				if s, ok := an.ConstString(info, x.Args[0]); ok {
					reserved[s] = true
				}
			}
		case *ast.RangeStmt:
			// for _, n := range []string{"a","b"} { s.Unique(n) }
			cl, ok := an.Unparen(x.X).(*ast.CompositeLit)
			if !ok {
				return true
			}
			uses := false
			ast.Inspect(x.Body, func(m ast.Node) bool {
				if call, ok := m.(*ast.CallExpr); ok {
					if fs, ok := call.Fun.(*ast.SelectorExpr); ok && an.ObjOf(info, fs.X) == scopeObj && fs.Sel.Name == "Unique" && len(call.Args) >= 1 && an.ObjOf(info, call.Args[0]) == an.ObjOf(info, x.Value) {
						uses = true
					}
				}
				return true
			})
			if uses {
				for _, e := range cl.Elts {
					if s, ok := an.ConstString(info, e); ok {
						reserved[s] = true
					}
				}
			}
		}
		return true
	})
	declared := map[string]bool{"c": true, "ctx": true, "v": true}
	for _, rel := range []string{"http/codegen/templates/request_init.go.tpl"} {
		b, err := os.ReadFile(filepath.Join(c.Repo, rel))
		if err != nil {
			c.Add(an.Obligation{Rule: rule, Construct: rel, Status: an.LOST, Detail: err.Error()})
			return
		}
		flat := flattenActions(string(b))
		for _, m := range reTplDecl.FindAllStringSubmatch(flat, -1) {
			for _, n := range strings.Split(m[1], ",") {
				if n = strings.TrimSpace(n); n != "_" && n != "" {
					declared[n] = true
				}
			}
		}
		for _, m := range regexp.MustCompile(`(?m)^\s*([a-z]\w*) [\w.*]+\s*$`).FindAllStringSubmatch(flat, -1) {
			declared[m[1]] = true // var ( name type )
		}
		for _, m := range reTplPkgUse.FindAllStringSubmatch(flat, -1) {
			if !declared[m[1]] && m[1] != "p" && m[1] != "rd" {
				declared[m[1]] = true // package qualifier (or receiver field access): must not be shadowed
			}
		}
	}
	delete(declared, "return")
	var missing []string
	for n := range declared {
		if !reserved[n] {
			missing = append(missing, n)
		}
	}
	sort.Strings(missing)
	c.Check(len(missing) == 0, rule, f.Name+"#builder scope", f.Decl.Pos(), fmt.Sprintf("the %d identifiers the request builder's fixed text declares or qualifies with are all reserved in the scope that names its path-parameter variables", len(declared)),
		"the request builder's fixed text declares or uses "+strings.Join(missing, ", ")+" but the scope that names its path-parameter variables does not reserve them: a path parameter with one of these names shadows it and the generated client does not compile")
}

// r0115NilMapArgs (R01.15): a generator function that memoises into a map parameter panics ("assignment to
// entry in nil map") when a caller passes nil and the store is reachable for that call; the design was accepted,
// generation crashes.
func r0115NilMapArgs(c *an.Ctx, rule string) {
	stores, hits := c.NilMapArgs(genDirs)
	for _, h := range hits {
		construct := fmt.Sprintf("%s#nil→%s(%s)", c.RefName(h.Caller), h.Callee.Obj.Name(), h.Param)
		for _, key := range c.SiteKeys(h.Caller, h.Call) {
			construct = strings.Replace(key, "#", "#nil-map:", 1)
			break
		}
		c.Failf(rule, construct, h.Call.Pos(), "nil is passed for map parameter %s of %s, which stores into it at %s on a path this call can reach: generation panics with \"assignment to entry in nil map\"", h.Param, h.Callee.Name, c.Position(h.Store.Pos()))
	}
	if len(hits) == 0 {
		c.Okf(rule, "generator packages#nil-map-arguments", "%d unguarded stores into map parameters; no call that passes nil for one can reach the store", stores)
	}
	c.Floor(rule, stores, 3, "unguarded stores into map parameters in generator packages")
}
