package props

import (
	"fmt"
	"go/ast"
	"go/token"
	"go/types"
	"regexp"
	"strings"

	"goacheck/an"
)

func init() { Registry["C08"] = runC08 }

const explanationC08 = "Decides structural necessary conditions of C08: (R08.1) projection draws attribute names from the view — projectSingle sets projected attributes only for names ranged from the view object, starts from a copy of the view's type and keeps only required names the view contains; (R08.2) an unknown view is refused — projectSingle returns an error when the view lookup is nil before it dereferences it, and the generated viewed-type validation switches over the defined views (\"\" joined to default) with a default arm that assigns an error; (R08.3) the view name crosses the wire under one header constant on both sides (HTTP and gRPC), and only when the design does not fix the view; (R08.5) the projection memo in projectRecursive is keyed by the view that is actually used to project the nested type; (R08.6) no stale per-iteration state in the view code generators and projections (view overrides, search flags); (R08.7) a view override declared on a view attribute — including an explicit \"default\" — is copied to the projected attribute whenever present, under the ViewMetaKey constant; (R08.8) the view attribute handed to the recursive projection is the view definition's own; (R08.9) every reader of the view Meta key selects the last value; (R08.10) the projection memo key is the full structural hash plus the view name. (R08.11) a nested result type is projected with the view attribute's view, else the type attribute's, else the \"default\" constant, on every path (path table of projectRecursive). (R08.12) the default view of a result type is synthesized after its user type - and with it the attributes inherited with Extend - has been finalized. NOT decided: wire content for any value and recursion correctness of Project on all type graphs (needs execution)."

func runC08(c *an.Ctx) string {
	r081Projection(c)
	r082Unknown(c)
	r083Header(c)
	r085Memo(c)
	r086Stale(c)
	r087Override(c)
	r088ViewAttribute(c)
	metaSelectionAgreement(c, "R08.9", "view")
	r0810MemoKey(c)
	r0811NestedView(c, "R08.11")
	r0812DefaultViewOrder(c, "R08.12")
	return explanationC08
}

func r081Projection(c *an.Ctx) {
	const rule = "R08.1"
	f := c.MustFunc(rule, "expr", "projectSingle")
	if f == nil {
		return
	}
	info := f.Pkg.TypesInfo
	// the view object: variable assigned from v.Type.(*Object) where v := rt.View(view)
	var viewVar, viewObj types.Object
	ast.Inspect(f.Decl.Body, func(n ast.Node) bool {
		as, ok := n.(*ast.AssignStmt)
		if !ok || len(as.Lhs) != 1 || len(as.Rhs) != 1 {
			return true
		}
		if call, ok := an.Unparen(as.Rhs[0]).(*ast.CallExpr); ok && an.CalleeName(info, call) == "(*"+an.P("expr")+".ResultTypeExpr).View" {
			viewVar = an.ObjOf(info, as.Lhs[0])
		}
		if ta, ok := an.Unparen(as.Rhs[0]).(*ast.TypeAssertExpr); ok && viewVar != nil {
			if r := an.RootIdent(ta.X); r != nil && an.ObjOf(info, r) == viewVar {
				viewObj = an.ObjOf(info, as.Lhs[0])
			}
		}
		return true
	})
	if viewVar == nil || viewObj == nil {
		c.Failf(rule, f.Name, f.Decl.Pos(), "cannot identify the view (rt.View(view)) and its object in projectSingle")
		return
	}
	// every Set on the projected object takes its name from a range over the view object
	var probs []string
	sets := 0
	ast.Inspect(f.Decl.Body, func(n ast.Node) bool {
		rs, ok := n.(*ast.RangeStmt)
		if !ok {
			return true
		}
		for _, call := range an.CallsIn(rs.Body) {
			if an.CalleeName(info, call) != "(*"+an.P("expr")+".Object).Set" || len(call.Args) != 2 {
				continue
			}
			sets++
			// ranged collection must be the view object
			root := an.RootIdent(rs.X)
			if root == nil || an.ObjOf(info, root) != viewObj {
				probs = append(probs, "projected attributes are set while ranging over "+types.ExprString(rs.X)+", not over the view's attributes")
			}
			r0, path, okp := an.FieldPath(call.Args[0])
			if !okp || an.ObjOf(info, r0) != an.ObjOf(info, rs.Value) || len(path) != 1 || path[0] != "Name" {
				probs = append(probs, "the projected attribute name is "+types.ExprString(call.Args[0])+", not the view attribute's name")
			}
		}
		return true
	})
	for _, call := range an.AllCallsIn(f.Decl.Body) {
		if an.CalleeName(info, call) == "(*"+an.P("expr")+".Object).Set" {
			inRange := false
			ast.Inspect(f.Decl.Body, func(n ast.Node) bool {
				if rs, ok := n.(*ast.RangeStmt); ok && rs.Body.Pos() <= call.Pos() && call.End() <= rs.Body.End() {
					inRange = true
				}
				return true
			})
			if !inRange {
				probs = append(probs, "a projected attribute is set outside the loop over the view")
			}
		}
	}
	if sets == 0 {
		probs = append(probs, "no Set on the projected object found")
	}
	// the projected type starts as Dup(v.Type)
	dupOK := false
	for _, call := range an.AllCallsIn(f.Decl.Body) {
		if an.CalleeName(info, call) == an.P("expr")+".Dup" && len(call.Args) == 1 {
			if r, path, ok := an.FieldPath(call.Args[0]); ok && an.ObjOf(info, r) == viewVar && len(path) == 1 && path[0] == "Type" {
				dupOK = true
			}
		}
	}
	if !dupOK {
		probs = append(probs, "the projected type is not initialised from a copy of the view's type (Dup(v.Type))")
	}
	// required names are filtered by membership in the view object (here, or in a helper extracted from
	// this function that receives the view object)
	reqOK := false
	type scope struct {
		fn  *an.Func
		obj types.Object
	}
	scopes := []scope{{f, viewObj}}
	for _, h := range c.WithNewHelpers(f)[1:] {
		for _, call := range an.AllCallsIn(f.Decl.Body) {
			if an.Callee(info, call) != types.Object(h.Obj) {
				continue
			}
			k := 0
			for _, fl := range h.Decl.Type.Params.List {
				for _, nm := range fl.Names {
					if k < len(call.Args) && an.ObjOf(info, call.Args[k]) == viewObj {
						scopes = append(scopes, scope{h, h.Pkg.TypesInfo.Defs[nm]})
					}
					k++
				}
			}
		}
	}
	for _, sc := range scopes {
		sinfo := sc.fn.Pkg.TypesInfo
		ast.Inspect(sc.fn.Decl.Body, func(n ast.Node) bool {
			rs, ok := n.(*ast.RangeStmt)
			if !ok {
				return true
			}
			if fv := an.FieldOf(sinfo, rs.X); fv == nil || fv.Name() != "Required" {
				return true
			}
			for _, call := range an.CallsIn(rs.Body) {
				if an.CalleeName(sinfo, call) == "(*"+an.P("expr")+".Object).Attribute" {
					if se, ok := an.Unparen(call.Fun).(*ast.SelectorExpr); ok && an.ObjOf(sinfo, se.X) == sc.obj && len(call.Args) == 1 && an.ObjOf(sinfo, call.Args[0]) == an.ObjOf(sinfo, rs.Value) {
						reqOK = true
					}
				}
			}
			return true
		})
	}
	if !reqOK {
		probs = append(probs, "required names are not filtered by membership in the view")
	}
	report(c, rule, f.Name, f, probs, "projected attributes, their names and the required list all come from the view; the type is a copy of the view's type")
}

func r082Unknown(c *an.Ctx) {
	const rule = "R08.2"
	if f := c.MustFunc(rule, "expr", "projectSingle"); f != nil {
		info := f.Pkg.TypesInfo
		g := an.NewCFG(info, f.Decl.Body)
		var viewVar types.Object
		ast.Inspect(f.Decl.Body, func(n ast.Node) bool {
			as, ok := n.(*ast.AssignStmt)
			if ok && len(as.Lhs) == 1 && len(as.Rhs) == 1 {
				if call, ok := an.Unparen(as.Rhs[0]).(*ast.CallExpr); ok && an.CalleeName(info, call) == "(*"+an.P("expr")+".ResultTypeExpr).View" {
					viewVar = an.ObjOf(info, as.Lhs[0])
				}
			}
			return true
		})
		var probs []string
		derefs := 0
		ast.Inspect(f.Decl.Body, func(n ast.Node) bool {
			se, ok := n.(*ast.SelectorExpr)
			if !ok || an.ObjOf(info, se.X) != viewVar || viewVar == nil {
				return true
			}
			derefs++
			if _, found := g.LocOf(se); found && !g.NonNilAtNode(viewVar, se) {
				probs = append(probs, "the view is dereferenced ("+types.ExprString(se)+") where no nil test dominates")
			}
			return true
		})
		// the nil branch returns a non-nil error
		errRet := false
		for _, gt := range g.NilGates(viewVar) {
			for _, n := range gt.Nil.Nodes {
				if rs, ok := n.(*ast.ReturnStmt); ok && len(rs.Results) == 2 && !an.IsNilIdent(info, rs.Results[1]) {
					errRet = true
				}
			}
		}
		if !errRet {
			probs = append(probs, "an undefined view does not make projectSingle return an error")
		}
		if derefs == 0 {
			probs = append(probs, "view variable not found")
		}
		report(c, rule, f.Name+"#unknown-view", f, probs, "an undefined view is reported as an error before the view is used")
	}
	tpl, err := c.TplFile("codegen/service/templates/type_validate.go.tpl")
	if err != nil {
		c.Add(an.Obligation{Rule: rule, Construct: "type_validate.go.tpl", Status: an.LOST, Detail: err.Error()})
		return
	}
	v := an.Variant{Bools: map[string]bool{".IsViewed": true}, Ranges: map[string]int{".Views": 2}, Strings: map[string]string{".Name": "default"}}
	txt := an.ExpandTree(tpl.Tree, v).Text
	c.Stats["variants_expanded"]++
	var probs []string
	if !regexp.MustCompile(`switch ‹[^›]*›\.View \{`).MatchString(txt) {
		probs = append(probs, "no switch over the view name")
	}
	if !regexp.MustCompile(`case "‹[^›]*\.Name›", "":`).MatchString(txt) {
		probs = append(probs, `the empty view name is not treated as the default view`)
	}
	if !regexp.MustCompile(`default:\s*err = goa\.InvalidEnumValueError\("view"`).MatchString(txt) {
		probs = append(probs, "the default arm does not assign an error: an undefined view name would be accepted")
	}
	v2 := an.Variant{Bools: map[string]bool{".IsViewed": true}, Ranges: map[string]int{".Views": 2}, Strings: map[string]string{".Name": "tiny"}}
	if regexp.MustCompile(`case "‹[^›]*\.Name›", "":`).MatchString(an.ExpandTree(tpl.Tree, v2).Text) {
		probs = append(probs, `a non-default view also matches the empty view name`)
	}
	c.Check(len(probs) == 0, rule, tpl.Name+"#viewed", 0, `viewed result validation: one case per view ("" joined to default only), default arm reports an invalid view`, strings.Join(probs, "; "))
}

func r083Header(c *an.Ctx) {
	const rule = "R08.3"
	type side struct{ file, re string }
	for _, pair := range []struct {
		name   string
		writer side
		reader side
	}{
		{"http", side{"http/codegen/templates/response_encoder.go.tpl", `w\.Header\(\)\.Set\("([a-z-]+)", res\.View\)`}, side{"http/codegen/templates/response_decoder.go.tpl", `view := resp\.Header\.Get\("([a-z-]+)"\)`}},
		{"grpc", side{"grpc/codegen/templates/response_encoder.go.tpl", `\(\*hdr\)\.Append\("([a-z-]+)", vres\.View\)`}, side{"grpc/codegen/templates/response_decoder.go.tpl", `hdr\.Get\("([a-z-]+)"\)`}},
	} {
		var keys [2]string
		ok := true
		for i, s := range []side{pair.writer, pair.reader} {
			t, err := c.TplFile(s.file)
			if err != nil {
				ok = false
				continue
			}
			m := regexp.MustCompile(s.re).FindStringSubmatch(an.TplText(t.Tree.Root))
			if m == nil {
				ok = false
				continue
			}
			keys[i] = m[1]
			// guarded by "view not fixed in the design"
			guarded := strings.Contains(t.Src, "ViewedResult.ViewName") || strings.Contains(t.Src, ".ViewName")
			if !guarded && pair.name == "http" {
				ok = false
			}
		}
		c.Check(ok && keys[0] == keys[1] && keys[0] != "", rule, pair.name+"#view-header", 0, fmt.Sprintf("server writes and client reads the view name under %q, only when the design does not fix the view", keys[0]),
			fmt.Sprintf("view header written as %q, read as %q (or the ViewName guard is gone)", keys[0], keys[1]))
	}
	// the decoded view flows into validation and result construction
	if t, err := c.TplFile("http/codegen/templates/response_decoder.go.tpl"); err == nil {
		txt := an.TplText(t.Tree.Root)
		flow := regexp.MustCompile(`(?s)view := .*?Projected: p, View: view\}`).MatchString(txt) && strings.Contains(txt, "(vres)")
		c.Check(flow, rule, t.Name+"#view-flow", 0, "the received view name labels the viewed result that is validated and converted", "the view read from the response no longer flows into the viewed result that is validated")
	}
}

func r085Memo(c *an.Ctx) {
	const rule = "R08.5"
	f := c.MustFunc(rule, "expr", "projectRecursive")
	if f == nil {
		return
	}
	info := f.Pkg.TypesInfo
	var probs []string
	n := 0
	// inside each block: seen[hashAttrAndView(X, V1)] = ... followed by project(rt, V2, seen): V1 and V2 must be the same object
	ast.Inspect(f.Decl.Body, func(nd ast.Node) bool {
		blk, ok := nd.(*ast.BlockStmt)
		if !ok {
			return true
		}
		var keyView types.Object
		haveKey := false
		for _, st := range blk.List {
			if as, ok := st.(*ast.AssignStmt); ok && len(as.Lhs) == 1 {
				if ix, ok := an.Unparen(as.Lhs[0]).(*ast.IndexExpr); ok {
					if call, ok := an.Unparen(ix.Index).(*ast.CallExpr); ok && an.CalleeName(info, call) == an.P("expr")+".hashAttrAndView" && len(call.Args) == 2 {
						keyView = an.ObjOf(info, call.Args[1])
						haveKey = true
					}
				}
			}
			for _, call := range an.CallsIn(st) {
				if an.CalleeName(info, call) == an.P("expr")+".project" && len(call.Args) == 3 && haveKey {
					n++
					if an.ObjOf(info, call.Args[1]) != keyView {
						probs = append(probs, fmt.Sprintf("the nested type is projected with view %s but memoised under view %s: a later reference with another view reuses the wrong projection", types.ExprString(call.Args[1]), keyView.Name()))
					}
				}
			}
		}
		return true
	})
	if n == 0 {
		probs = append(probs, "memo store followed by project(...) not found")
	}
	report(c, rule, f.Name, f, probs, "the projection of a nested result type is memoised under the very view it is projected with")
	// lookup and stores use hashAttrAndView everywhere
	k := 0
	ast.Inspect(f.Decl.Body, func(nd ast.Node) bool {
		ix, ok := nd.(*ast.IndexExpr)
		if !ok || paramIndex(f, ix.X) < 0 {
			return true
		}
		if _, isMap := info.Types[ix.X].Type.Underlying().(*types.Map); !isMap {
			return true
		}
		k++
		if call, ok := an.Unparen(ix.Index).(*ast.CallExpr); !ok || an.CalleeName(info, call) != an.P("expr")+".hashAttrAndView" {
			c.Failf(rule, f.Name+"#key", ix.Pos(), "the projection memo is indexed with %s instead of hashAttrAndView(attribute, view)", types.ExprString(ix.Index))
		}
		return true
	})
	c.Floor(rule, k, 3, "projection memo accesses")
}

func r086Stale(c *an.Ctx) {
	const rule = "R08.6"
	n := 0
	for _, dir := range []string{"codegen/service", "expr", "dsl", "http/codegen", "grpc/codegen"} {
		for _, f := range c.AllFuncs(dir) {
			n++
			for _, sv := range an.StaleLoopVars(f) {
				c.Failf(rule, fmt.Sprintf("%s#var(%s)", f.Name, sv.Var.Name()), sv.Set.Pos(), "%s is declared outside the loop, assigned only under a condition inside it and read at %s: when the condition does not hold the value of the previous element (e.g. a sibling attribute's view override) is used", sv.Var.Name(), c.Position(sv.Read.Pos()))
			}
			if dir == "codegen/service" || strings.Contains(f.Name, "esult") || strings.Contains(f.Name, "iew") {
				for _, sf := range an.StaleFlags(f) {
					c.Failf(rule, fmt.Sprintf("%s#flag(%s)", f.Name, sf.Var.Name()), sf.Set.Pos(), "stale search flag %s (set in an inner loop, tested at %s, never reset)", sf.Var.Name(), c.Position(sf.Read.Pos()))
				}
			}
		}
	}
	c.Okf(rule, "generators#per-iteration-state", "%d functions: no variable carries a conditionally assigned value from one loop iteration into the next", n)
	c.Floor(rule, n, 500, "functions scanned")
}

func r087Override(c *an.Ctx) {
	const rule = "R08.7"
	f := c.MustFunc(rule, "dsl", "buildView")
	if f == nil {
		return
	}
	info := f.Pkg.TypesInfo
	key, _ := constValue(c, "expr", "ViewMetaKey")
	found := false
	var probs []string
	ast.Inspect(f.Decl.Body, func(n ast.Node) bool {
		is, ok := n.(*ast.IfStmt)
		if !ok {
			return true
		}
		for _, st := range is.Body.List {
			es, isExpr := st.(*ast.ExprStmt)
			if !isExpr {
				continue
			}
			call, isCall := es.X.(*ast.CallExpr)
			if !isCall {
				continue
			}
			se, ok := an.Unparen(call.Fun).(*ast.SelectorExpr)
			if !ok || se.Sel.Name != "AddMeta" || len(call.Args) < 2 {
				continue
			}
			k, isConst := an.ConstString(info, call.Args[0])
			if !isConst || `"`+k+`"` != key {
				continue
			}
			found = true
			// the condition must be the bare ok of a comma-ok Last(ViewMetaKey)
			if _, isIdent := an.Unparen(is.Cond).(*ast.Ident); !isIdent {
				probs = append(probs, "the view override is copied only under `"+types.ExprString(is.Cond)+"`: some declared overrides (for instance an explicit \"default\") are dropped and the type-level view leaks through")
			}
			init, ok := is.Init.(*ast.AssignStmt)
			if !ok || len(init.Rhs) != 1 {
				probs = append(probs, "the override is not read with a comma-ok lookup")
				continue
			}
			if lc, ok := an.Unparen(init.Rhs[0]).(*ast.CallExpr); !ok || len(lc.Args) != 1 || !strings.HasSuffix(an.CalleeName(info, lc), "MetaExpr).Last") {
				probs = append(probs, "the override is not read with Meta.Last(ViewMetaKey)")
			} else if o := an.ObjOf(info, selName(lc.Args[0])); o == nil || o.Name() != "ViewMetaKey" {
				probs = append(probs, "the override is read under "+types.ExprString(lc.Args[0]))
			}
		}
		return true
	})
	if !found {
		probs = append(probs, "buildView no longer copies the view override (AddMeta under the view key) to the projected attribute")
	}
	report(c, rule, f.Name, f, probs, "a view override on a view attribute is copied whenever present, under the ViewMetaKey constant")
}

// r088ViewAttribute (R08.8): the per-view overrides of a nested result type
// (View("tiny") on an attribute inside a view) are carried by the Meta of the
// view's own attribute, which projectRecursive receives as its `vat` parameter
// and reads the override from. Every value passed at that position must be an
// attribute of the view definition itself - the parameter passed on unchanged,
// or an element found in the view's object (a range variable or a variable
// assigned from one). A NamedAttributeExpr built on the spot has no override
// Meta: nested values are rendered with the default view.
func r088ViewAttribute(c *an.Ctx) {
	const rule = "R08.8"
	n := 0
	for _, name := range []string{"projectSingle", "projectCollection", "projectRecursive"} {
		f := c.Func("expr", name)
		if f == nil {
			continue
		}
		info := f.Pkg.TypesInfo
		// variables that hold elements of an object: range values, and variables assigned only from those
		elem := map[types.Object]bool{}
		ast.Inspect(f.Decl.Body, func(nd ast.Node) bool {
			if rs, ok := nd.(*ast.RangeStmt); ok && rs.Value != nil {
				if o := an.ObjOf(info, rs.Value); o != nil {
					elem[o] = true
				}
			}
			return true
		})
		for changed := true; changed; {
			changed = false
			ast.Inspect(f.Decl.Body, func(nd ast.Node) bool {
				as, ok := nd.(*ast.AssignStmt)
				if !ok || len(as.Lhs) != 1 || len(as.Rhs) != 1 {
					return true
				}
				lo, ro := an.ObjOf(info, as.Lhs[0]), an.ObjOf(info, as.Rhs[0])
				if lo != nil && ro != nil && elem[ro] && !elem[lo] {
					elem[lo] = true
					changed = true
				}
				return true
			})
		}
		var vatParam types.Object
		sig := f.Obj.Type().(*types.Signature)
		for i := 0; i < sig.Params().Len(); i++ {
			if p := sig.Params().At(i); strings.HasSuffix(p.Type().String(), "expr.NamedAttributeExpr") {
				vatParam = p
			}
		}
		ast.Inspect(f.Decl.Body, func(nd ast.Node) bool {
			call, ok := nd.(*ast.CallExpr)
			if !ok || an.CalleeName(info, call) != an.P("expr")+".projectRecursive" || len(call.Args) < 2 {
				return true
			}
			n++
			arg := an.Unparen(call.Args[1])
			o := an.ObjOf(info, arg)
			// what is refused is a view attribute BUILT here (a composite literal, directly or through a
			// local): it cannot carry the override Meta of the view definition. The parameter itself, an
			// element of the view's object, the result of a lookup helper are all attributes of the view.
			builtHere := func(e ast.Expr) bool {
				switch x := an.Unparen(e).(type) {
				case *ast.CompositeLit:
					return true
				case *ast.UnaryExpr:
					_, isLit := an.Unparen(x.X).(*ast.CompositeLit)
					return isLit
				}
				return false
			}
			good := !builtHere(arg)
			if good && o != nil && o != vatParam {
				ast.Inspect(f.Decl.Body, func(m ast.Node) bool {
					as, ok := m.(*ast.AssignStmt)
					if !ok || len(as.Lhs) != len(as.Rhs) {
						return true
					}
					for i, l := range as.Lhs {
						if an.ObjOf(info, l) == o && builtHere(as.Rhs[i]) {
							good = false
						}
					}
					return true
				})
			}
			_ = elem
			c.Check(good, rule, fmt.Sprintf("%s#projectRecursive(%s)", f.Name, an.Src(c.Fset, arg)), call.Pos(), "the view attribute passed down is the view definition's own", "the view attribute passed to the recursive projection is not an attribute of the view definition (the parameter itself or an element of the view's object): the per-view override it carries in its Meta is lost and the nested value is rendered with the default view")
			return true
		})
	}
	c.Floor(rule, n, 3, "recursive projection calls")
}

// r0810MemoKey (R08.10): projections are memoised under hashAttrAndView(att,
// view). Two attributes that share a key are given the same projected type, so
// the key must separate every pair of types the projection separates: the
// structural hash it is built from is computed with nothing ignored (fields,
// names and tags all significant) and the view name is part of the key.
func r0810MemoKey(c *an.Ctx) {
	const rule = "R08.10"
	f := c.MustFunc(rule, "expr", "hashAttrAndView")
	if f == nil {
		return
	}
	info := f.Pkg.TypesInfo
	ok, usesView := false, false
	var viewParam types.Object
	sig := f.Obj.Type().(*types.Signature)
	for i := 0; i < sig.Params().Len(); i++ {
		if sig.Params().At(i).Type().String() == "string" {
			viewParam = sig.Params().At(i)
		}
	}
	why := "no call to Hash found"
	ast.Inspect(f.Decl.Body, func(nd ast.Node) bool {
		switch x := nd.(type) {
		case *ast.CallExpr:
			if an.CalleeName(info, x) == an.P("expr")+".Hash" && len(x.Args) == 4 {
				ok = true
				for i, name := range []string{"ignoreFields", "ignoreNames", "ignoreTags"} {
					if v, isConst := an.ConstBool(info, x.Args[i+1]); !isConst || v {
						ok = false
						why = "the structural hash of the memo key is computed with " + name + " set: two different result types that only differ in what is ignored share one memo entry, and the second is rendered with the first one's projection"
					}
				}
			}
		case *ast.Ident:
			if viewParam != nil && info.Uses[x] == viewParam {
				usesView = true
			}
		}
		return true
	})
	if ok && !usesView {
		ok, why = false, "the view name is not part of the memo key"
	}
	c.Check(ok, rule, f.Name+"#key", f.Decl.Pos(), "the projection memo key is the full structural hash plus the view name", why)
}

// r0811NestedView (R08.11): the view a nested result type is projected with is decided in three steps: the view the
// enclosing view's attribute names (View("…") on the view attribute), else the view named on the type's own
// attribute, else "default". On every path of projectRecursive that calls project, the view argument is the first
// of the three whose lookup succeeded on that path - in particular a path on which neither lookup succeeded (or was
// tested) projects with the "default" constant, never with an empty or inherited name.
func r0811NestedView(c *an.Ctx, rule string) {
	f := c.MustFunc(rule, "expr", "projectRecursive")
	if f == nil {
		return
	}
	fn := c.SSAFunc(f)
	if fn == nil {
		c.Undecidedf(rule, f.Name, f.Decl.Pos(), "no SSA function")
		return
	}
	t := an.BuildPathTable(fn, an.PathOpts{MaxPaths: 4000})
	c.Stats["paths_enumerated"] += len(t.Paths)
	c.Stats["functions_tabled"]++
	vatRe := regexp.MustCompile(`^\(expr\.MetaExpr\)\.Last\(p1\.Attribute\.Meta, "view"\)#1$`)
	atRe := regexp.MustCompile(`^\(expr\.MetaExpr\)\.Last\((p0|expr\.DupAtt\(p0\))\.Meta, "view"\)#1$`)
	rows := 0
	for _, p := range t.Paths {
		view := ""
		for _, e := range p.CallEffects() {
			if strings.HasPrefix(e, "expr.project(") {
				if a := topArgs(e); len(a) == 3 {
					view = a[1]
				}
			}
		}
		if view == "" {
			continue
		}
		var vatOK, atOK *bool
		infeasible := false
		for _, a := range p.Atoms {
			v := a.Val
			switch {
			case a.Term == "p0.Type.(*expr.ResultTypeExpr)?#1" && !a.Val:
				// the copy made by DupAtt has the dynamic type of the original (R13 decides the copiers): a path on
				// which the original is no result type and its copy is one does not exist
				infeasible = true
			case vatRe.MatchString(a.Term):
				vatOK = &v
			case atRe.MatchString(a.Term):
				atOK = &v
			}
		}
		if infeasible {
			continue
		}
		rows++
		want := ""
		switch {
		case vatOK != nil && *vatOK:
			want = `(expr.MetaExpr).Last(p1.Attribute.Meta, "view")#0`
		case vatOK != nil && !*vatOK && atOK != nil && *atOK:
			want = `(expr.MetaExpr).Last(p0.Meta, "view")#0`
		case vatOK != nil && !*vatOK && atOK != nil && !*atOK:
			want = `"default"`
		default:
			c.Failf(rule, f.Name+"#nested-view", p.Pos, "on the path [%s] the nested type is projected with view %s although the path has not established which of the three sources applies (view attribute, type attribute, default): a lookup result is used without its ok flag", p.GuardString(), view)
			return
		}
		got := strings.Replace(view, "expr.DupAtt(p0).Meta", "p0.Meta", 1)
		if got != want {
			c.Failf(rule, f.Name+"#nested-view", p.Pos, "on the path [%s] the nested type is projected with view %s, the reference is %s (view attribute's view, else the type attribute's, else \"default\")", p.GuardString(), view, want)
			return
		}
	}
	if rows == 0 {
		c.Undecidedf(rule, f.Name, f.Decl.Pos(), "no path of projectRecursive calls project")
		return
	}
	c.Okf(rule, f.Name+"#nested-view", "%d paths project a nested result type: each with the view attribute's view, else the type attribute's view, else \"default\"", rows)
}

// r0812DefaultViewOrder (R08.12): a result type without an explicit "default" view gets one synthesized from its
// attributes. The attributes inherited with Extend are merged into the type when its user type is finalized, so the
// synthesis must come after: in ResultTypeExpr.Finalize the receiver's UserTypeExpr.Finalize() dominates the
// receiver's ensureDefaultView(). The other order leaves the inherited attributes out of the default view - they are
// part of the type and silently missing from every response rendered with that view.
func r0812DefaultViewOrder(c *an.Ctx, rule string) {
	f := c.MustFunc(rule, "expr", "ResultTypeExpr.Finalize")
	if f == nil {
		return
	}
	info := f.Pkg.TypesInfo
	g := an.NewCFG(info, f.Decl.Body)
	var fin, ens []an.Loc
	var ensPos token.Pos
	ast.Inspect(f.Decl.Body, func(n ast.Node) bool {
		call, ok := n.(*ast.CallExpr)
		if !ok {
			return true
		}
		se, ok := an.Unparen(call.Fun).(*ast.SelectorExpr)
		if !ok {
			return true
		}
		root := an.RootIdent(se.X)
		if root == nil || !isReceiver(f, root) {
			return true
		}
		callee := c.FuncOfObj(an.Callee(info, call))
		if callee == nil {
			return true
		}
		loc, found := g.LocOf(call)
		if !found {
			return true
		}
		switch c.RefName(callee) {
		case "expr.ResultTypeExpr.ensureDefaultView":
			ens = append(ens, loc)
			ensPos = call.Pos()
		default:
			// the finalization of the embedded user type / attribute, whichever type declares the method
			if strings.HasSuffix(c.RefName(callee), ".Finalize") && strings.Contains(types.ExprString(se.X), "UserTypeExpr") {
				fin = append(fin, loc)
			}
		}
		return true
	})
	if len(ens) == 0 || len(fin) == 0 {
		c.Add(an.Obligation{Rule: rule, Construct: f.Name + "#order", Status: an.LOST, Nontrivial: true,
			Detail: fmt.Sprintf("calls on the receiver not found (ensureDefaultView: %d, UserTypeExpr.Finalize: %d)", len(ens), len(fin))})
		return
	}
	ok := true
	for _, e := range ens {
		dominated := false
		for _, fl := range fin {
			if g.LocDominates(fl, e) && fl != e {
				dominated = true
			}
		}
		if !dominated {
			ok = false
		}
	}
	c.Check(ok, rule, f.Name+"#order", ensPos, "the default view is synthesized after the user type (and with it the attributes inherited with Extend) has been finalized", "the default view of the result type is synthesized before its user type is finalized: attributes inherited with Extend are merged later and are missing from the view")
}
