package props

import (
	"fmt"
	"go/ast"
	"go/types"
	"regexp"
	"sort"
	"strings"

	"goacheck/an"
)

func init() { Registry["C13"] = runC13 }

const explanationC13 = "Decides structural necessary conditions of C13 on expr's dup and hash families: (R13.1) ownership — in dupper.DupAttribute/DupType every structural pointer field of the value being built (Type, ElemType, KeyType, union/object member attributes, Validation, Meta) is initialised from a dup-family call or a fresh allocation, never directly from the source, and the copied-attribute memo only ever registers the new copy; (R13.2) DupType's type switch covers every DataType implementer of package expr and hash's switch covers every Kind constant, both with panicking defaults; (R13.3) the cycle memo is stored before recursing (DupType user-type arm, hashObject); (R13.4) sort comparators in expr index the slice they sort and no order-sensitive map iteration occurs in the hash functions; (R13.5) Equal is exactly a comparison of two Hash calls with identical constant flags, and every recursive call in the hash family passes the flag parameters through unchanged and in position; (R13.6) the Dup literals are exhaustive (reviewed exception table); (R13.7) hashUserType's flag semantics match Hash's doc comment on every path. shared R01.2 (HashedUnique stores under the hash the name it returns: the same type gets the same name on every call). NOT decided: structural equality of copy and original on all graphs, permutation invariance beyond these rules, absence of hash collisions, termination."

func runC13(c *an.Ctx) string {
	r131Ownership(c)
	r132Kinds(c)
	r133Memo(c)
	r134Order(c)
	r135EqualAndFlags(c)
	r136Exhaustive(c)
	r137HashFlags(c)
	r012Scope(c) // shared with C01 (rule id R01.2): HashedUnique gives one hash one name, every time it is asked
	return explanationC13
}

// valueOrigin classifies the value expression assigned to a structural field:
// "dup-call", "fresh", "nil", "local:<name>", "source:<expr>".
func valueOrigin(f *an.Func, e ast.Expr, sourceRoots map[types.Object]bool, dupCalls map[string]bool) string {
	info := f.Pkg.TypesInfo
	e = an.Unparen(e)
	switch x := e.(type) {
	case *ast.CallExpr:
		name := an.CalleeName(info, x)
		if dupCalls[name] {
			return "dup-call"
		}
		if id, ok := an.Unparen(x.Fun).(*ast.Ident); ok && (id.Name == "make" || id.Name == "new") {
			return "fresh"
		}
		if ta, ok := an.Unparen(x.Fun).(*ast.SelectorExpr); ok && ta.Sel.Name == "Dup" {
			return "dup-call"
		}
		return "call:" + name
	case *ast.TypeAssertExpr:
		return valueOrigin(f, x.X, sourceRoots, dupCalls)
	case *ast.UnaryExpr:
		if _, ok := an.Unparen(x.X).(*ast.CompositeLit); ok {
			return "fresh"
		}
	case *ast.CompositeLit:
		return "fresh"
	case *ast.Ident:
		if an.IsNilIdent(info, x) {
			return "nil"
		}
		o := an.ObjOf(info, x)
		if sourceRoots[o] {
			return "source:" + x.Name
		}
		// local variable: all its assignments must be dup calls / nil / fresh
		origins := map[string]bool{}
		ast.Inspect(f.Decl.Body, func(n ast.Node) bool {
			switch s := n.(type) {
			case *ast.AssignStmt:
				for i, l := range s.Lhs {
					if an.ObjOf(info, l) == o && i < len(s.Rhs) {
						origins[valueOrigin(f, s.Rhs[i], sourceRoots, dupCalls)] = true
					}
				}
			case *ast.ValueSpec:
				for i, nm := range s.Names {
					if info.Defs[nm] == o && i < len(s.Values) {
						origins[valueOrigin(f, s.Values[i], sourceRoots, dupCalls)] = true
					}
				}
			}
			return true
		})
		var os []string
		for k := range origins {
			if k != "dup-call" && k != "fresh" && k != "nil" {
				os = append(os, k)
			}
		}
		if len(os) == 0 {
			return "dup-call"
		}
		sort.Strings(os)
		return "local:" + x.Name + "<-" + strings.Join(os, ",")
	case *ast.SelectorExpr, *ast.IndexExpr, *ast.StarExpr:
		if r := an.RootIdent(x); r != nil && sourceRoots[an.ObjOf(info, r)] {
			return "source:" + types.ExprString(x)
		}
	}
	return "other:" + types.ExprString(e)
}

func r131Ownership(c *an.Ctx) {
	const rule = "R13.1"
	dupCalls := map[string]bool{
		"(*" + an.P("expr") + ".dupper).DupAttribute": true,
		"(*" + an.P("expr") + ".dupper).DupType":      true,
		"(*" + an.P("expr") + ".ValidationExpr).Dup":  true,
		"(" + an.P("expr") + ".MetaExpr).Dup":         true,
		an.P("expr") + ".Dup":                         true,
		an.P("expr") + ".DupAtt":                      true,
	}
	// structural pointer-ish fields per built type
	structural := map[string][]string{
		an.P("expr") + ".AttributeExpr":      {"Type", "Validation", "Meta"},
		an.P("expr") + ".Array":              {"ElemType"},
		an.P("expr") + ".Map":                {"KeyType", "ElemType"},
		an.P("expr") + ".NamedAttributeExpr": {"Attribute"},
		an.P("expr") + ".Union":              {"Values"},
	}
	n := 0
	for _, fname := range []string{"dupper.DupAttribute", "dupper.DupType"} {
		f := c.MustFunc(rule, "expr", fname)
		if f == nil {
			continue
		}
		info := f.Pkg.TypesInfo
		// source roots: parameters, and variables bound by type switch / range over sources
		src := map[types.Object]bool{}
		sig := f.Obj.Type().(*types.Signature)
		for i := 0; i < sig.Params().Len(); i++ {
			src[sig.Params().At(i)] = true
		}
		changed := true
		for changed {
			changed = false
			ast.Inspect(f.Decl.Body, func(nd ast.Node) bool {
				switch s := nd.(type) {
				case *ast.TypeSwitchStmt:
					// actual := t.(type): the implicit objects per clause
					for _, cl := range s.Body.List {
						if o := info.Implicits[cl]; o != nil && !src[o] {
							src[o] = true
							changed = true
						}
					}
				case *ast.RangeStmt:
					if r := an.RootIdent(s.X); r != nil && src[an.ObjOf(info, r)] {
						for _, kv := range []ast.Expr{s.Key, s.Value} {
							if kv != nil {
								if o := an.ObjOf(info, kv); o != nil && !src[o] {
									src[o] = true
									changed = true
								}
							}
						}
					}
				}
				return true
			})
		}
		for _, cl := range compositeLits(f, "") {
			tv := info.Types[cl]
			tn := an.NamedTypeName(tv.Type)
			fields, ok := structural[tn]
			if !ok {
				continue
			}
			lf := litFields(cl)
			for _, fld := range fields {
				v, set := lf[fld]
				construct := fmt.Sprintf("%s{%s.%s}", f.Name, shortType(tn), fld)
				if !set {
					continue // zero value: nothing shared
				}
				n++
				o := valueOrigin(f, v, src, dupCalls)
				if o == "dup-call" || o == "fresh" || o == "nil" {
					c.Okf(rule, construct, "initialised from %s", o)
				} else {
					c.Failf(rule, construct, v.Pos(), "structural field %s of the copy is initialised from %s: copy and original would share it", fld, o)
				}
			}
		}
		// element stores: dp.Values[i] = &NamedAttributeExpr{...}; res.Set(name, d.DupAttribute(...))
		for _, call := range an.AllCallsIn(f.Decl.Body) {
			if an.CalleeName(info, call) == "(*"+an.P("expr")+".Object).Set" && len(call.Args) == 2 {
				n++
				o := valueOrigin(f, call.Args[1], src, dupCalls)
				construct := f.Name + "{Object.Set}"
				if o == "dup-call" {
					c.Okf(rule, construct, "object member attribute is a dup-family result")
				} else {
					c.Failf(rule, construct, call.Pos(), "object member attribute set from %s", o)
				}
			}
		}
	}
	c.Floor(rule, n, 9, "structural field initialisations in the dup family")

	// memo discipline of DupAttribute: d.ats keys are the new copies only
	if f := c.Func("expr", "dupper.DupAttribute"); f != nil {
		info := f.Pkg.TypesInfo
		stores := 0
		bad := ""
		ast.Inspect(f.Decl.Body, func(nd ast.Node) bool {
			as, ok := nd.(*ast.AssignStmt)
			if !ok {
				return true
			}
			for _, l := range as.Lhs {
				ix, ok := an.Unparen(l).(*ast.IndexExpr)
				if !ok {
					continue
				}
				fv := an.FieldOf(info, ix.X)
				if fv == nil || an.CanonFieldName(fv) != "ats" {
					continue
				}
				stores++
				if paramIndex(f, ix.Index) >= 0 {
					bad = "the memo of already-copied attributes registers the source attribute (" + types.ExprString(ix.Index) + "): a second visit returns the original instead of a copy"
				} else if !isAddrOfLocal(f, ix.Index) {
					bad = "the memo key " + types.ExprString(ix.Index) + " is not the address of the new copy"
				}
			}
			return true
		})
		switch {
		case stores == 0:
			c.Failf(rule, f.Name+"#memo", f.Decl.Pos(), "no store into the copied-attribute memo found")
		case bad != "":
			c.Failf(rule, f.Name+"#memo", f.Decl.Pos(), "%s", bad)
		default:
			c.Okf(rule, f.Name+"#memo", "the copied-attribute memo registers only the address of the new copy")
		}
	}
	// ResultTypeExpr.Dup shares Views
	if f := c.MustFunc(rule, "expr", "ResultTypeExpr.Dup"); f != nil {
		for _, cl := range compositeLits(f, an.P("expr")+".ResultTypeExpr") {
			lf := litFields(cl)
			if v, ok := lf["Views"]; ok {
				sig := f.Obj.Type().(*types.Signature)
				src := map[types.Object]bool{sig.Recv(): true}
				o := valueOrigin(f, v, src, map[string]bool{})
				if strings.HasPrefix(o, "source:") {
					c.Failf(rule, f.Name+"{ResultTypeExpr.Views}", v.Pos(), "the copy shares the Views slice and every *ViewExpr (each owning an attribute) with the original: %s", o)
				} else {
					c.Okf(rule, f.Name+"{ResultTypeExpr.Views}", "views initialised from %s", o)
				}
			}
		}
	}
}

func r132Kinds(c *an.Ctx) {
	const rule = "R13.2"
	p := c.Pkg("expr")
	// DataType implementers declared in expr
	dt := an.LookupType(p, "DataType")
	if dt == nil {
		c.Add(an.Obligation{Rule: rule, Construct: "expr.DataType", Status: an.LOST, Detail: "interface not found"})
		return
	}
	iface, isIface := dt.Underlying().(*types.Interface)
	if !isIface {
		c.Add(an.Obligation{Rule: rule, Construct: "expr.DataType", Status: an.LOST, Detail: "DataType is not an interface any more"})
		return
	}
	var impls []string
	for _, name := range p.Types.Scope().Names() {
		tn, ok := p.Types.Scope().Lookup(name).(*types.TypeName)
		if !ok || tn.IsAlias() {
			continue
		}
		t := tn.Type()
		if _, isIface := t.Underlying().(*types.Interface); isIface {
			continue
		}
		if types.Implements(t, iface) {
			impls = append(impls, name)
		} else if types.Implements(types.NewPointer(t), iface) {
			impls = append(impls, "*"+name)
		}
	}
	sort.Strings(impls)
	if f := c.MustFunc(rule, "expr", "dupper.DupType"); f != nil {
		info := f.Pkg.TypesInfo
		var cases []types.Type
		hasPanicTail := false
		ast.Inspect(f.Decl.Body, func(n ast.Node) bool {
			ts, ok := n.(*ast.TypeSwitchStmt)
			if !ok {
				return true
			}
			for _, s := range ts.Body.List {
				for _, e := range s.(*ast.CaseClause).List {
					if tv, ok := info.Types[e]; ok {
						cases = append(cases, tv.Type)
					}
				}
			}
			return false
		})
		for _, call := range an.CallsIn(f.Decl.Body) {
			if id, ok := an.Unparen(call.Fun).(*ast.Ident); ok && id.Name == "panic" {
				hasPanicTail = true
			}
		}
		var missing []string
		for _, im := range impls {
			var t types.Type
			base := strings.TrimPrefix(im, "*")
			t = p.Types.Scope().Lookup(base).Type()
			if strings.HasPrefix(im, "*") {
				t = types.NewPointer(t)
			}
			covered := false
			for _, ct := range cases {
				if types.Identical(ct, t) {
					covered = true
				} else if ci, ok := ct.Underlying().(*types.Interface); ok && types.Implements(t, ci) {
					covered = true
				}
			}
			if !covered {
				missing = append(missing, im)
			}
		}
		c.Check(len(missing) == 0 && hasPanicTail, rule, f.Name+"#kinds", f.Decl.Pos(),
			fmt.Sprintf("type switch covers all %d DataType implementers of expr (%s); unknown types panic", len(impls), strings.Join(impls, ",")),
			fmt.Sprintf("DataType implementers not covered by DupType's type switch: %v (panic tail: %v)", missing, hasPanicTail))
	}
	// hash: Kind constants
	if f := c.MustFunc(rule, "expr", "hash"); f != nil {
		info := f.Pkg.TypesInfo
		kind := an.LookupType(p, "Kind")
		var kinds []string
		for _, name := range p.Types.Scope().Names() {
			if cst, ok := p.Types.Scope().Lookup(name).(*types.Const); ok && kind != nil && types.Identical(cst.Type(), kind) {
				kinds = append(kinds, name)
			}
		}
		covered := map[string]bool{}
		hasDefaultPanic := false
		ast.Inspect(f.Decl.Body, func(n ast.Node) bool {
			sw, ok := n.(*ast.SwitchStmt)
			if !ok {
				return true
			}
			for _, s := range sw.Body.List {
				cc := s.(*ast.CaseClause)
				if cc.List == nil {
					for _, call := range an.AllCallsIn(cc) {
						if id, ok := an.Unparen(call.Fun).(*ast.Ident); ok && id.Name == "panic" {
							hasDefaultPanic = true
						}
					}
				}
				for _, e := range cc.List {
					if o := an.ObjOf(info, e); o != nil {
						covered[o.Name()] = true
					}
				}
			}
			return false
		})
		var missing []string
		for _, k := range kinds {
			if !covered[k] {
				missing = append(missing, k)
			}
		}
		c.Check(len(missing) == 0 && hasDefaultPanic && len(kinds) >= 18, rule, f.Name+"#kinds", f.Decl.Pos(),
			fmt.Sprintf("switch on Kind covers all %d Kind constants; default panics", len(kinds)),
			fmt.Sprintf("Kind constants without a case in hash: %v (default panics: %v, kinds found: %d)", missing, hasDefaultPanic, len(kinds)))
	}
}

func r133Memo(c *an.Ctx) {
	const rule = "R13.3"
	if f := c.MustFunc(rule, "expr", "dupper.DupType"); f != nil {
		nStores, nRecs, ok := 0, 0, true
		for _, hf := range c.WithNewHelpers(f) { // DupType and the helpers extracted from it
			info := hf.Pkg.TypesInfo
			g := an.NewCFG(info, hf.Decl.Body)
			// store d.uts[...] = dp
			stores := g.Find(func(n ast.Node) bool {
				as, ok := n.(*ast.AssignStmt)
				if !ok {
					return false
				}
				for _, l := range as.Lhs {
					if ix, ok := an.Unparen(l).(*ast.IndexExpr); ok {
						if fv := an.FieldOf(info, ix.X); fv != nil && an.CanonFieldName(fv) == "uts" {
							return true
						}
					}
				}
				return false
			})
			// recursion on the user type's attribute: DupAttribute(actual.Attribute())
			recs, _ := g.FindCalls(func(call *ast.CallExpr) bool {
				if an.CalleeName(info, call) != "(*"+an.P("expr")+".dupper).DupAttribute" || len(call.Args) != 1 {
					return false
				}
				inner, ok := an.Unparen(call.Args[0]).(*ast.CallExpr)
				if !ok {
					return false
				}
				sel, ok := an.Unparen(inner.Fun).(*ast.SelectorExpr)
				return ok && sel.Sel.Name == "Attribute"
			})
			nStores += len(stores)
			nRecs += len(recs)
			for _, r := range recs {
				dominated := false
				for _, s := range stores {
					if g.LocDominates(s, r) {
						dominated = true
					}
				}
				if !dominated {
					ok = false
				}
			}
		}
		ok = ok && nStores > 0 && nRecs > 0
		c.Check(ok, rule, f.Name+"#user-type-memo", f.Decl.Pos(), "the copy of a user type is registered in the memo before its attribute is copied (recursive types terminate and stay shared)",
			fmt.Sprintf("the user-type memo store does not dominate the recursive DupAttribute(actual.Attribute()) call (stores=%d recursions=%d)", nStores, nRecs))
	}
	if f := c.MustFunc(rule, "expr", "hashObject"); f != nil {
		info := f.Pkg.TypesInfo
		g := an.NewCFG(info, f.Decl.Body)
		stores := g.Find(func(n ast.Node) bool {
			as, ok := n.(*ast.AssignStmt)
			if !ok {
				return false
			}
			for _, l := range as.Lhs {
				if ix, ok := an.Unparen(l).(*ast.IndexExpr); ok {
					// the seen-set: a map parameter, or a map field of a parameter/receiver that carries it
					root := an.RootIdent(ix.X)
					if root == nil || (paramIndex(f, root) < 0 && !isReceiver(f, root)) {
						continue
					}
					if _, isMap := info.Types[ix.X].Type.Underlying().(*types.Map); isMap {
						return true
					}
				}
			}
			return false
		})
		recs, _ := g.FindCalls(func(call *ast.CallExpr) bool { return an.CalleeName(info, call) == an.P("expr")+".hash" })
		ok := len(stores) > 0 && len(recs) > 0
		for _, r := range recs {
			dominated := false
			for _, s := range stores {
				if g.LocDominates(s, r) {
					dominated = true
				}
			}
			if !dominated {
				ok = false
			}
		}
		c.Check(ok, rule, f.Name+"#seen-memo", f.Decl.Pos(), "the object is entered in the seen-set before its attributes are hashed (recursive types terminate)",
			fmt.Sprintf("the seen-set store does not dominate the recursive hash calls (stores=%d recursions=%d)", len(stores), len(recs)))
	}
}

var hashFamily = []string{"Hash", "hash", "hashArray", "hashMap", "hashUnion", "hashUserType", "hashObject"}

func r134Order(c *an.Ctx) {
	const rule = "R13.4"
	n := 0
	for _, f := range c.AllFuncs("expr") {
		for _, sc := range an.SortComparators(f) {
			n++
			construct := fmt.Sprintf("%s#sort(%s)", f.Name, types.ExprString(sc.Call.Args[0]))
			if sc.Problem == "" {
				c.Okf(rule, construct, "comparator indexes the slice it sorts")
			} else {
				c.Failf(rule, construct, sc.Call.Pos(), "%s: the resulting order depends on the original order", sc.Problem)
			}
		}
	}
	c.Floor(rule, n, 2, "sort.Slice comparators in expr")
	for _, name := range hashFamily {
		f := c.MustFunc(rule, "expr", name)
		if f == nil {
			continue
		}
		for _, mr := range an.MapRanges(f, nil) {
			construct := fmt.Sprintf("%s#range(%s)", f.Name, types.ExprString(mr.Stmt.X))
			if mr.Class == "order-sensitive" {
				c.Failf(rule, construct, mr.Stmt.Pos(), "hash depends on map iteration order: %s", mr.Reason)
			} else {
				c.Okf(rule, construct, "%s", mr.Class)
			}
		}
		// sorted() / sortedMetaKeys-like helpers must be used for object attributes: object hashing iterates a sorted copy
	}
	if f := c.Func("expr", "hashObject"); f != nil {
		info := f.Pkg.TypesInfo
		usesSorted := false
		ast.Inspect(f.Decl.Body, func(nd ast.Node) bool {
			rs, ok := nd.(*ast.RangeStmt)
			if !ok {
				return true
			}
			if call, ok := an.Unparen(rs.X).(*ast.CallExpr); ok && an.CalleeName(info, call) == an.P("expr")+".sorted" {
				usesSorted = true
			}
			return true
		})
		c.Check(usesSorted, rule, f.Name+"#attribute-order", f.Decl.Pos(), "object attributes are hashed in sorted-by-name order", "hashObject does not iterate the sorted copy of the object: the hash depends on declaration order")
	}
	if f := c.Func("expr", "hashUnion"); f != nil {
		info := f.Pkg.TypesInfo
		// the loop that builds the hash must range over the slice that was sorted
		var sortedObj types.Object
		for _, sc := range an.SortComparators(f) {
			if r := an.RootIdent(sc.Call.Args[0]); r != nil {
				sortedObj = an.ObjOf(info, r)
			}
		}
		ok := false
		ast.Inspect(f.Decl.Body, func(nd ast.Node) bool {
			rs, isR := nd.(*ast.RangeStmt)
			if !isR {
				return true
			}
			if len(an.AllCallsIn(rs.Body)) > 0 {
				for _, call := range an.AllCallsIn(rs.Body) {
					if an.CalleeName(info, call) == an.P("expr")+".hash" {
						ok = sortedObj != nil && an.ObjOf(info, rs.X) == sortedObj
						// or the loop ranges over the result of a function that returns a slice it sorted
						if rc, isCall := an.Unparen(rs.X).(*ast.CallExpr); isCall && !ok {
							if h := c.FuncOfObj(an.Callee(info, rc)); h != nil {
								for _, sc := range an.SortComparators(h) {
									so := an.ObjOf(h.Pkg.TypesInfo, an.RootIdent(sc.Call.Args[0]))
									ast.Inspect(h.Decl.Body, func(x ast.Node) bool {
										if ret, isRet := x.(*ast.ReturnStmt); isRet && len(ret.Results) == 1 && so != nil && sc.Problem == "" && an.ObjOf(h.Pkg.TypesInfo, ret.Results[0]) == so {
											ok = true
										}
										return true
									})
								}
							}
						}
					}
				}
			}
			return true
		})
		c.Check(ok, rule, f.Name+"#value-order", f.Decl.Pos(), "union values are hashed from the sorted copy", "hashUnion hashes its values from a slice other than the one it sorted")
	}
}

func r135EqualAndFlags(c *an.Ctx) {
	const rule = "R13.5"
	if f := c.MustFunc(rule, "expr", "Equal"); f != nil {
		t := an.BuildPathTable(c.SSAFunc(f), an.PathOpts{})
		c.Stats["paths_enumerated"] += len(t.Paths)
		re := regexp.MustCompile(`^\(expr\.Hash\(p0, (\w+), (\w+), (\w+)\) == expr\.Hash\(p1, (\w+), (\w+), (\w+)\)\)$`)
		ok := false
		detail := t.Dump()
		if len(t.Paths) == 1 && len(t.Paths[0].Ret) == 1 {
			if m := re.FindStringSubmatch(t.Paths[0].Ret[0]); m != nil {
				ok = m[1] == m[4] && m[2] == m[5] && m[3] == m[6] && m[1] == "false"
				detail = "flags differ between the two Hash calls or fields are ignored: " + t.Paths[0].Ret[0]
			}
		}
		c.Check(ok, rule, f.Name, f.Decl.Pos(), "Equal(a,b) is Hash(a,flags) == Hash(b,flags) with one constant flag triple that compares fields",
			"Equal is not defined through Hash alone: "+detail)
	}
	// flag pass-through in the hash family
	n := 0
	famObjs := map[types.Object]*an.Func{}
	for _, name := range hashFamily {
		if f := c.Func("expr", name); f != nil {
			famObjs[f.Obj] = f
		}
	}
	for _, name := range hashFamily {
		f := c.MustFunc(rule, "expr", name)
		if f == nil {
			continue
		}
		info := f.Pkg.TypesInfo
		callerParams := map[string]types.Object{}
		sig := f.Obj.Type().(*types.Signature)
		for i := 0; i < sig.Params().Len(); i++ {
			callerParams[sig.Params().At(i).Name()] = sig.Params().At(i)
		}
		for _, call := range an.AllCallsIn(f.Decl.Body) {
			callee, ok := famObjs[an.Callee(info, call)]
			if !ok {
				continue
			}
			csig := callee.Obj.Type().(*types.Signature)
			var probs []string
			for i := 0; i < csig.Params().Len() && i < len(call.Args); i++ {
				pn := csig.Params().At(i).Name()
				if !strings.HasPrefix(pn, "ignore") && pn != "seen" {
					continue
				}
				want, has := callerParams[pn]
				if !has {
					continue
				}
				if an.ObjOf(info, call.Args[i]) != want {
					if pn == "seen" && name == "Hash" {
						continue
					}
					probs = append(probs, fmt.Sprintf("argument for %s is %s", pn, types.ExprString(call.Args[i])))
				}
			}
			n++
			construct := fmt.Sprintf("%s→%s@%s", f.Name, callee.Obj.Name(), types.ExprString(call.Args[0]))
			if len(probs) == 0 {
				c.Okf(rule, construct, "ignoreFields/ignoreNames/ignoreTags/seen passed through in position")
			} else {
				c.Failf(rule, construct, call.Pos(), "recursive hash call does not pass the flags through unchanged: %s", strings.Join(probs, "; "))
			}
		}
	}
	c.Floor(rule, n, 12, "calls inside the hash family")
}

func r136Exhaustive(c *an.Ctx) {
	const rule = "R13.6"
	// ValidationExpr.Dup: every field copied from the like-named field (Required through a fresh copy)
	if f := c.MustFunc(rule, "expr", "ValidationExpr.Dup"); f != nil {
		tn := an.P("expr") + ".ValidationExpr"
		pairs := map[string]string{}
		for _, fv := range an.StructFields(an.LookupType(f.Pkg, "ValidationExpr")) {
			if fv.Name() != "Required" {
				pairs[fv.Name()] = fv.Name()
			}
		}
		nLit := copyFidelity(c, rule, f, tn, tn, pairs, nil)
		c.Floor(rule, nLit, 1, "ValidationExpr.Dup literal")
		// Required is a fresh slice filled by copy
		info := f.Pkg.TypesInfo
		okReq := false
		for _, cl := range compositeLits(f, tn) {
			if v, ok := litFields(cl)["Required"]; ok {
				sig := f.Obj.Type().(*types.Signature)
				o := valueOrigin(f, v, map[types.Object]bool{sig.Recv(): true}, map[string]bool{})
				okReq = o == "dup-call" // local assigned only from make/nil
				_ = info
				if !okReq {
					c.Failf(rule, f.Name+"{Required}", v.Pos(), "Required list of the copy comes from %s: appending to the copy could write into the original's backing array", o)
				}
			}
		}
		if okReq {
			c.Okf(rule, f.Name+"{Required}", "Required list is a fresh slice")
		}
	}
	// DupAttribute literal exhaustive modulo reviewed exceptions
	if f := c.MustFunc(rule, "expr", "dupper.DupAttribute"); f != nil {
		tn := an.P("expr") + ".AttributeExpr"
		exempt := map[string]string{"Docs": "documentation pointer is not part of the structural type (Hash ignores it); upstream omits it"}
		for _, cl := range compositeLits(f, tn) {
			lf := litFields(cl)
			var missing []string
			for _, fv := range an.StructFields(an.LookupType(f.Pkg, "AttributeExpr")) {
				if _, ok := lf[fv.Name()]; !ok {
					if _, ex := exempt[fv.Name()]; !ex {
						missing = append(missing, fv.Name())
					}
				}
			}
			c.Check(len(missing) == 0, rule, f.Name+"{AttributeExpr}", cl.Pos(), fmt.Sprintf("all %d fields of AttributeExpr are carried into the copy (reviewed exception: Docs)", len(an.StructFields(an.LookupType(f.Pkg, "AttributeExpr")))),
				fmt.Sprintf("fields of AttributeExpr not carried into the copy: %v", missing))
			// like-named sources for the non-structural fields
			for _, fld := range []string{"Description", "References", "Bases", "DefaultValue", "DSLFunc", "UserExamples", "finalized"} {
				v, ok := lf[fld]
				if !ok {
					continue
				}
				_, sf, _, isSel := selField(f.Pkg.TypesInfo, v)
				if !isSel || sf != fld {
					c.Failf(rule, f.Name+"{AttributeExpr."+fld+"}", v.Pos(), "field %s is copied from %s", fld, types.ExprString(v))
				}
			}
		}
	}
	// UserTypeExpr.Dup carries TypeName and UID
	if f := c.MustFunc(rule, "expr", "UserTypeExpr.Dup"); f != nil {
		tn := an.P("expr") + ".UserTypeExpr"
		copyFidelity(c, rule, f, tn, tn, map[string]string{"TypeName": "TypeName", "UID": "UID"}, map[string]string{"AttributeExpr": "the new attribute is the argument", "hash": "cached"})
	}
	if f := c.MustFunc(rule, "expr", "ResultTypeExpr.Dup"); f != nil {
		tn := an.P("expr") + ".ResultTypeExpr"
		copyFidelity(c, rule, f, tn, tn, map[string]string{"Identifier": "Identifier"}, map[string]string{"UserTypeExpr": "built by UserTypeExpr.Dup", "ContentType": "set by the DSL on the new type when needed"})
	}
}

func r137HashFlags(c *an.Ctx) {
	const rule = "R13.7"
	f := c.MustFunc(rule, "expr", "hashUserType")
	if f == nil {
		return
	}
	t := an.BuildPathTable(c.SSAFunc(f), an.PathOpts{LoopBound: 1})
	c.Stats["paths_enumerated"] += len(t.Paths)
	if t.Truncated || len(t.Paths) == 0 {
		c.Undecidedf(rule, f.Name, f.Decl.Pos(), "cannot table hashUserType")
		return
	}
	sig := f.Obj.Type().(*types.Signature)
	idx := map[string]string{}
	for i := 0; i < sig.Params().Len(); i++ {
		idx[sig.Params().At(i).Name()] = fmt.Sprintf("p%d", i)
	}
	pf, pn, pt := idx["ignoreFields"], idx["ignoreNames"], idx["ignoreTags"]
	// the options may travel as fields of a receiver or of an options struct: the atom is then "<x>.ignoreFields"
	for i := range t.Paths {
		for _, a := range t.Paths[i].Atoms {
			for name, dst := range map[string]*string{"ignoreFields": &pf, "ignoreNames": &pn, "ignoreTags": &pt} {
				if *dst == "" && strings.HasSuffix(a.Term, "."+name) && !strings.ContainsAny(a.Term, "( ") {
					*dst = a.Term
				}
			}
		}
	}
	utParam := "p0" // the user type being hashed
	for i, prm := range c.SSAFunc(f).Params {
		if strings.HasSuffix(prm.Type().String(), "expr.UserType") {
			utParam = fmt.Sprintf("p%d", i)
		}
	}
	if pf == "" || pn == "" || pt == "" {
		c.Undecidedf(rule, f.Name, f.Decl.Pos(), "flag parameters ignoreFields/ignoreNames/ignoreTags not found")
		return
	}
	var probs []string
	combos := map[string]bool{}
	for i := range t.Paths {
		p := &t.Paths[i]
		env := map[string]bool{}
		known := map[string]bool{}
		for _, a := range p.Atoms {
			env[a.Term] = a.Val
			known[a.Term] = true
		}
		calls := p.CallEffects()
		has := func(prefix string) bool {
			for _, cl := range calls {
				if strings.HasPrefix(cl, prefix) {
					return true
				}
			}
			return false
		}
		name := has(utParam + ".Name()")
		rec := has("expr.hash(")
		tags := false
		for _, cl := range calls {
			if strings.HasPrefix(cl, "fmt.Sprintf(") && strings.Contains(cl, "expr.tagPrefix") {
				tags = true
			}
		}
		// name appended iff !ignoreNames || ignoreFields (evaluate only when decidable from the path's atoms)
		for _, fv := range []bool{false, true} {
			for _, nv := range []bool{false, true} {
				for _, tv := range []bool{false, true} {
					if (known[pf] && env[pf] != fv) || (known[pn] && env[pn] != nv) || (known[pt] && env[pt] != tv) {
						continue
					}
					combos[fmt.Sprintf("%v%v%v", fv, nv, tv)] = true
					if want := !nv || fv; name != want {
						probs = append(probs, fmt.Sprintf("ignoreFields=%v ignoreNames=%v: type name appended=%v, Hash's doc says %v", fv, nv, name, want))
					}
					if fv && (rec || tags) {
						probs = append(probs, "ignoreFields=true still hashes the attribute type or tags")
					}
					if !fv && !rec {
						probs = append(probs, fmt.Sprintf("ignoreFields=false (ignoreNames=%v ignoreTags=%v): attribute type not hashed", nv, tv))
					}
					if !fv && tv && tags {
						probs = append(probs, "ignoreTags=true still appends struct:field tags")
					}
				}
			}
		}
	}
	if len(combos) < 8 {
		probs = append(probs, fmt.Sprintf("only %d of 8 flag combinations covered by the path table", len(combos)))
	}
	probs = dedupStrings(probs)
	if len(probs) > 0 {
		c.Failf(rule, f.Name, f.Decl.Pos(), "%s", strings.Join(probs[:min(3, len(probs))], " | "))
	} else {
		c.Okf(rule, f.Name, "%d paths: name appended iff !ignoreNames||ignoreFields; nothing else when ignoreFields; tags only when !ignoreTags; attribute type hashed otherwise", len(t.Paths))
	}
}

// isAddrOfLocal: e is &local, or a local variable every definition of which is &local.
func isAddrOfLocal(f *an.Func, e ast.Expr) bool {
	info := f.Pkg.TypesInfo
	e = an.Unparen(e)
	if u, ok := e.(*ast.UnaryExpr); ok && u.Op.String() == "&" {
		_, isIdent := an.Unparen(u.X).(*ast.Ident)
		return isIdent && paramIndex(f, u.X) < 0
	}
	id, ok := e.(*ast.Ident)
	if !ok || paramIndex(f, id) >= 0 {
		return false
	}
	o := an.ObjOf(info, id)
	defs, good := 0, 0
	ast.Inspect(f.Decl.Body, func(n ast.Node) bool {
		as, ok := n.(*ast.AssignStmt)
		if !ok {
			return true
		}
		for i, l := range as.Lhs {
			if an.ObjOf(info, l) == o && i < len(as.Rhs) {
				defs++
				if u, ok := an.Unparen(as.Rhs[i]).(*ast.UnaryExpr); ok && u.Op.String() == "&" && paramIndex(f, u.X) < 0 {
					good++
				}
			}
		}
		return true
	})
	return defs > 0 && defs == good
}

// isReceiver reports whether id denotes the receiver of f.
func isReceiver(f *an.Func, id *ast.Ident) bool {
	if f.Decl.Recv == nil {
		return false
	}
	o := an.ObjOf(f.Pkg.TypesInfo, id)
	for _, fl := range f.Decl.Recv.List {
		for _, n := range fl.Names {
			if f.Pkg.TypesInfo.Defs[n] == o && o != nil {
				return true
			}
		}
	}
	return false
}
