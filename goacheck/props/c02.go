package props

import (
	"fmt"
	"go/ast"
	"go/types"
	"regexp"
	"sort"
	"strings"
	"text/template/parse"

	"goacheck/an"

	"golang.org/x/tools/go/ssa"
)

func init() {
	Registry["C02"] = runC02
	Registry["C03"] = runC03
}

const explanationC02 = "Decides structural necessary conditions of C02 (request side): (R02.1) the attribute-name⇄wire-name tables of a mapped attribute stay inverse of each other — every store into one is paired with the swapped store into the other, copies copy both, deletes delete from both, and each lookup direction reads its own table; (R02.2) the request body is the payload minus everything mapped elsewhere — headers, cookies, params, the map-query attribute and the implicit header attributes all reach removeAttribute(s) on the body; (R02.3) the string⇄typed conversion templates use the strconv family, bit size and cast of each primitive type; (R02.4) every transport accessor in the request/response templates is keyed by the element's wire-name field (HTTPName, or CanonicalName for headers; direct indexing of a header map only by CanonicalName) on the writing and on the reading side, never by the attribute or variable name; raw values are tested for presence on the raw variable they were read into; (R02.5) path values are unescaped exactly once (shared with C16/R16.2) and request decoding picks the codec of the announced type (shared with C15/R15.1); (R02.6) template range bodies use their element; required flags are propagated under the key they are looked up with; (R02.7) the request encoder guards a field only against nil, never against a zero value; (R02.8) loops over References apply Inherit and loops over Bases apply Merge in every implementation. (R02.12) the transport struct fields of body types carry omitempty exactly when the attribute may be absent from the wire (path table of the caller of attributeTags). (R02.11) pooled buffers of the runtime packages are Reset by their users (shared with C20). (R02.13) in every function that merges inherited attributes into a body (extendBodyAttribute), every removal of header, cookie and parameter attributes from that body comes after the merge. NOT decided: equality of the payload received with the payload sent for any design (needs execution of generated code), default injection, escaping of query values."

const explanationC03 = "Decides structural necessary conditions of C03 (response side): (R03.1) in the response encoder template each response arm writes the status code of its own range element after its headers and before the body, tagged arms compare the tag field with that element's tag value, and the client decoder's case labels come from the same field; the DSL gives a response its default status before the response DSL runs so that an explicit Code() is kept; (R03.2) errors captured by the attribute walkers of the transform generators are tested after each walk; (R03.3) the status vocabulary — every expr.Status* constant has the value of the like-named net/http constant; (R03.4) the response body is the result minus headers and cookies, wire accessors use wire-name fields on both sides (shared with R02.2/R02.4), conversion templates are inverse pairs (R02.3); (R03.5) tag-pointer decisions keep the viewed-result guard; no stale per-iteration state in the response data builder; the client response decoder picks the codec of the announced Content-Type (shared with C15/R15.1); (R03.6) the response encoder guards a field only against nil, never against a zero value. shared R17.5 (the pattern cache is keyed by the pattern: a result is validated against its own pattern). shared R08.11 (a nested result type is projected with its own view or the default one). (R03.7) what belongs to one response (its fixed content type) is set inside the test that selects the response. (R03.8) the nil test of a response header depends on the header's own attribute, not on the response being selected by a tag (known finding). (R03.9) in every function that merges inherited attributes into a body (extendBodyAttribute), every removal of header, cookie and parameter attributes from that body comes after the merge. NOT decided: equality of the result received with the result sent (needs execution), streaming order, default injection."

func runC02(c *an.Ctx) string {
	r021NameTables(c)
	r022BodyPartition(c, "R02.2", "httpRequestBody", [][]string{{"Headers"}, {"Cookies"}, {"Params"}, {"MapQueryParams"}})
	r023Conversions(c, "R02.3")
	r024WireKeys(c, "R02.4")
	r16Vars(c) // R02.5: path values (rule ids R16.1/R16.2)
	r025RequestDecoder(c)
	tplRangeIndexRule(c, "R02.6", "http/codegen/templates")
	r078RequiredKeys(c, "R02.6", []string{"expr", "http/codegen"})
	encoderNilGuards(c, "R02.7", "http/codegen/templates/request_encoder.go.tpl", "http/codegen/templates/request_builder.go.tpl")
	r028RefsAndBases(c, "R02.8")
	aliasFlattening(c, "R02.9") // a payload attribute of an alias type keeps its own validation (shared with C04/R04.12)
	r0210MergeCopies(c, "R02.10")
	r15RequestEncoder(c) // shared with C15 (rule id R15.2): the client encodes the body with the codec of the type it announces
	r0212OmitEmpty(c, "R02.12")
	removalAfterExtension(c, "R02.13")
	poolHygiene(c, "R02.11") // shared with C20/R20.9: a pooled request buffer that is not Reset sends the previous request's bytes first
	return explanationC02
}

func runC03(c *an.Ctx) string {
	removalAfterExtension(c, "R03.9") // shared with C02/R02.13 (response bodies)
	r031Status(c)
	r032TransformErrors(c)
	r033StatusConstants(c)
	r022BodyPartition(c, "R03.4", "buildHTTPResponseBody", [][]string{{"Headers"}, {"Cookies"}})
	r023Conversions(c, "R03.4")
	r024WireKeys(c, "R03.4")
	r035ResponseData(c)
	r037ArmOrder(c, "R03.7")
	r038HeaderNilGuards(c, "R03.8")
	r0811NestedView(c, "R08.11") // shared with C08: a nested result projected with an empty or inherited view name leaves it unprojected and the generated marshalling dereferences absent fields: the result does not arrive
	r15ResponseDecoder(c)        // shared with C15 (rule id R15.1): the client picks the codec of the announced type
	r15TextCodecs(c)             // shared with C15 (rule id R15.5): text bodies are decoded whole or not at all
	r15ResponseEncoder(c)        // shared with C15 (rule ids R15.1-R15.3): the server encodes with the codec of the type it announces
	tplRangeIndexRule(c, "R03.5", "http/codegen/templates")
	encoderNilGuards(c, "R03.6", "http/codegen/templates/response_encoder.go.tpl", "http/codegen/templates/partial/response.go.tpl")
	r175PatternCache(c) // shared with C17 (rule id R17.5): the client validates results with the pattern it was given, not with one cached under another key
	return explanationC03
}

// nameTableRoles: which field (and which local that initialises it in a composite literal) is the name table
// (attribute name → wire name, role "nameMap") and which the reverse table (role "reverseMap"). The roles are
// read off Remap, which splits "attribute:wire" keys: the table stored under the first part is the name table.
var nameTableRoles map[types.Object]string

func computeNameTableRoles(c *an.Ctx, rule string) bool {
	nameTableRoles = map[types.Object]string{}
	f := c.MustFunc(rule, "expr", "MappedAttributeExpr.Remap")
	if f == nil {
		return false
	}
	info := f.Pkg.TypesInfo
	ast.Inspect(f.Decl.Body, func(n ast.Node) bool {
		as, ok := n.(*ast.AssignStmt)
		if !ok || len(as.Lhs) != 1 || len(as.Rhs) != 1 {
			return true
		}
		ix, ok := an.Unparen(as.Lhs[0]).(*ast.IndexExpr)
		if !ok {
			return true
		}
		fv := an.FieldOf(info, ix.X)
		part, ok := an.Unparen(ix.Index).(*ast.IndexExpr)
		if fv == nil || !ok {
			return true
		}
		if k, isK := an.ConstInt(info, part.Index); isK && k == 0 {
			nameTableRoles[fv] = "nameMap"
		} else if isK && k == 1 {
			nameTableRoles[fv] = "reverseMap"
		}
		return true
	})
	roles := map[string]int{}
	for _, r := range nameTableRoles {
		roles[r]++
	}
	if len(nameTableRoles) != 2 || roles["nameMap"] != 1 || roles["reverseMap"] != 1 {
		c.Add(an.Obligation{Rule: rule, Construct: f.Name + "#tables", Status: an.LOST, Detail: "Remap no longer stores one table under the attribute part and one under the wire part of \"attribute:wire\""})
		return false
	}
	// locals that initialise the fields in composite literals
	for _, g := range c.AllFuncs("expr") {
		if !strings.HasPrefix(c.Position(g.Decl.Pos()), "expr/mapped_attribute.go") {
			continue
		}
		ginfo := g.Pkg.TypesInfo
		ast.Inspect(g.Decl.Body, func(n ast.Node) bool {
			kv, ok := n.(*ast.KeyValueExpr)
			if !ok {
				return true
			}
			if role, isTable := nameTableRoles[an.ObjOf(ginfo, kv.Key)]; isTable {
				if o := an.ObjOf(ginfo, kv.Value); o != nil {
					if _, isVar := o.(*types.Var); isVar {
						nameTableRoles[o] = role
					}
				}
			}
			return true
		})
	}
	return true
}

func r021NameTables(c *an.Ctx) {
	const rule = "R02.1"
	if !computeNameTableRoles(c, rule) {
		return
	}
	n := 0
	for _, f := range c.AllFuncs("expr") {
		if !strings.HasPrefix(c.Position(f.Decl.Pos()), "expr/mapped_attribute.go") {
			continue
		}
		info := f.Pkg.TypesInfo
		type st struct {
			table    string
			key, val ast.Expr
			node     ast.Node
			block    ast.Node
		}
		var stores []st
		var deletes []string
		var walk func(n ast.Node, blk ast.Node)
		walk = func(n ast.Node, blk ast.Node) {
			ast.Inspect(n, func(x ast.Node) bool {
				switch s := x.(type) {
				case *ast.BlockStmt:
					if s != n {
						walk(s, s)
						return false
					}
				case *ast.AssignStmt:
					for i, l := range s.Lhs {
						ix, ok := an.Unparen(l).(*ast.IndexExpr)
						if !ok || i >= len(s.Rhs) {
							continue
						}
						name := tableName(info, ix.X)
						if name != "" {
							stores = append(stores, st{name, ix.Index, s.Rhs[i], s, blk})
						}
					}
				case *ast.CallExpr:
					if id, ok := an.Unparen(s.Fun).(*ast.Ident); ok && id.Name == "delete" && len(s.Args) == 2 {
						if name := tableName(info, s.Args[0]); name != "" {
							deletes = append(deletes, name)
						}
					}
				}
				return true
			})
		}
		walk(f.Decl.Body, f.Decl.Body)
		if len(stores) == 0 && len(deletes) == 0 {
			continue
		}
		n++
		var probs []string
		for _, s := range stores {
			other := "reverseMap"
			if s.table == "reverseMap" {
				other = "nameMap"
			}
			paired := false
			for _, o := range stores {
				if o.table != other || o.block != s.block {
					continue
				}
				// copies inside `for k, v := range <same table>` keep (k,v); paired stores swap them
				if an.SameExpr(info, o.key, s.val) && an.SameExpr(info, o.val, s.key) {
					paired = true
				}
			}
			if !paired && !isTableCopy(info, f, s.node, s.table) {
				probs = append(probs, fmt.Sprintf("%s[%s] = %s has no matching %s[%s] = %s in the same block", s.table, types.ExprString(s.key), types.ExprString(s.val), other, types.ExprString(s.val), types.ExprString(s.key)))
			}
		}
		sort.Strings(deletes)
		if len(deletes) > 0 && strings.Join(dedupStrings(deletes), ",") != "nameMap,reverseMap" {
			probs = append(probs, "entries are deleted from "+strings.Join(dedupStrings(deletes), ",")+" only")
		}
		report(c, rule, f.Name, f, probs, "name table and reverse table are updated together and stay inverse")
	}
	c.Floor(rule, n, 4, "functions writing the name tables")
	// lookup directions
	for _, spec := range [][2]string{{"MappedAttributeExpr.ElemName", "nameMap"}, {"MappedAttributeExpr.KeyName", "reverseMap"}} {
		f := c.MustFunc(rule, "expr", spec[0])
		if f == nil {
			continue
		}
		info := f.Pkg.TypesInfo
		var reads []string
		ast.Inspect(f.Decl.Body, func(n ast.Node) bool {
			if ix, ok := n.(*ast.IndexExpr); ok {
				if name := tableName(info, ix.X); name != "" && paramIndex(f, ix.Index) == 0 {
					reads = append(reads, name)
				}
			}
			return true
		})
		c.Check(len(reads) == 1 && reads[0] == spec[1], rule, f.Name+"#direction", f.Decl.Pos(), "looks its argument up in "+spec[1], fmt.Sprintf("looks its argument up in %v, expected %s: wire names and attribute names are confused", reads, spec[1]))
	}
}

func tableName(info *types.Info, e ast.Expr) string {
	if fv := an.FieldOf(info, e); fv != nil {
		return nameTableRoles[fv]
	}
	// locals that initialise the tables in constructors/copies
	if o := an.ObjOf(info, e); o != nil {
		return nameTableRoles[o]
	}
	return ""
}

// isTableCopy: the store sits in `for k, v := range X.<same table>` and copies (k, v).
func isTableCopy(info *types.Info, f *an.Func, node ast.Node, table string) bool {
	ok := false
	ast.Inspect(f.Decl.Body, func(n ast.Node) bool {
		rs, isR := n.(*ast.RangeStmt)
		if !isR || !(rs.Body.Pos() <= node.Pos() && node.End() <= rs.Body.End()) {
			return true
		}
		if tableName(info, rs.X) != table {
			return true
		}
		as := node.(*ast.AssignStmt)
		ix := an.Unparen(as.Lhs[0]).(*ast.IndexExpr)
		if an.ObjOf(info, ix.Index) == an.ObjOf(info, rs.Key) && rs.Value != nil && an.ObjOf(info, as.Rhs[0]) == an.ObjOf(info, rs.Value) {
			ok = true
		}
		return true
	})
	return ok
}

// r022BodyPartition: in fn, each listed endpoint/response field reaches a
// removeAttribute(s) call on the body (possibly through a local alias).
func r022BodyPartition(c *an.Ctx, rule, fn string, fields [][]string) {
	f := c.MustFunc(rule, "expr", fn)
	if f == nil {
		return
	}
	info := f.Pkg.TypesInfo
	group := c.WithNewHelpers(f) // the function and the helpers extracted from it (same package)
	// local aliases: x = <...>.Field
	alias := map[types.Object]string{}
	removed := map[string]int{}
	for _, g := range group {
		if g.Pkg != f.Pkg {
			continue
		}
		ast.Inspect(g.Decl.Body, func(n ast.Node) bool {
			switch s := n.(type) {
			case *ast.AssignStmt:
				for i, l := range s.Lhs {
					if i < len(s.Rhs) {
						if fv := an.FieldOf(info, starArg(s.Rhs[i])); fv != nil {
							if o := an.ObjOf(info, l); o != nil {
								alias[o] = fv.Name()
							}
						}
					}
				}
			case *ast.ValueSpec:
				for i, nm := range s.Names {
					if i < len(s.Values) {
						if fv := an.FieldOf(info, starArg(s.Values[i])); fv != nil {
							alias[info.Defs[nm]] = fv.Name()
						}
					}
				}
			}
			return true
		})
	}
	for _, g := range group {
		if g.Pkg != f.Pkg {
			continue
		}
		for _, call := range an.AllCallsIn(g.Decl.Body) {
			name := an.CalleeName(info, call)
			if name != an.P("expr")+".removeAttributes" && name != an.P("expr")+".removeAttribute" || len(call.Args) != 2 {
				continue
			}
			arg := starArg(call.Args[1])
			if fv := an.FieldOf(info, arg); fv != nil {
				removed[fv.Name()]++
			} else if o := an.ObjOf(info, arg); o != nil {
				if a, ok := alias[o]; ok {
					removed[a]++
				} else {
					removed["var:"+o.Name()]++
				}
			}
		}
	}
	for _, fl := range fields {
		construct := fmt.Sprintf("%s#minus(%s)", f.Name, fl[0])
		c.Check(removed[fl[0]] > 0, rule, construct, f.Decl.Pos(), fl[0]+" attributes are removed from the body", "attributes mapped to "+fl[0]+" are never removed from the body: they would travel twice (or be expected twice by the decoder)")
	}
	if fn == "httpRequestBody" {
		// implicit header attributes: range over defaultRequestHeaderAttributes(a) feeding removeAttribute
		ok := false
		c.InspectAll(f, func(_ *an.Func, n ast.Node) bool {
			rs, isR := n.(*ast.RangeStmt)
			if !isR {
				return true
			}
			if call, isC := an.Unparen(rs.X).(*ast.CallExpr); isC && an.CalleeName(info, call) == an.P("expr")+".defaultRequestHeaderAttributes" {
				for _, inner := range an.CallsIn(rs.Body) {
					if an.CalleeName(info, inner) == an.P("expr")+".removeAttribute" && len(inner.Args) == 2 && an.ObjOf(info, inner.Args[1]) == an.ObjOf(info, rs.Key) {
						ok = true
					}
				}
			}
			return true
		})
		c.Check(ok, rule, f.Name+"#minus(implicit-headers)", f.Decl.Pos(), "attributes carried by implicit headers (Authorization) are removed from the body", "implicit header attributes are no longer removed from the body")
	}
}

func r023Conversions(c *an.Ctx, rule string) {
	n := 0
	for _, f := range []string{"client_type_conversion", "query_type_conversion", "slice_item_conversion", "header_conversion", "path_conversion", "client_map_conversion", "query_map_conversion", "query_slice_conversion", "element_slice_conversion"} {
		n += convTemplateRule(c, rule, "http/codegen/templates/partial/"+f+".go.tpl")
	}
	c.Floor(rule, n, 30, "strconv conversion branches in the HTTP templates")
}

var (
	reKeyAction = regexp.MustCompile(`(?:\{\{\s*printf "%q" \.(\w+)\s*\}\}|"\{\{\s*\.(\w+)\s*\}\}")`)
	reAccessor  = regexp.MustCompile(`(Header\(\)\.(?:Set|Add|Get|Del)\(|Header\.(?:Set|Add|Get|Del)\(|values\.(?:Add|Set|Get)\(|\}\}\.Get\(|Header\[|params\[|\}\}\[|r\.Cookie\(|\bName:\s*)$`)
)

func r024WireKeys(c *an.Ctx, rule string) {
	files := []string{"request_encoder.go.tpl", "partial/request_elements.go.tpl", "partial/response.go.tpl", "partial/single_response.go.tpl", "response_decoder.go.tpl", "response_encoder.go.tpl", "request_decoder.go.tpl"}
	sites := 0
	for _, file := range files {
		t, err := c.TplFile("http/codegen/templates/" + file)
		if err != nil {
			c.Add(an.Obligation{Rule: rule, Construct: file, Status: an.LOST, Detail: err.Error()})
			continue
		}
		var probs []string
		inCookieSwitch := false
		for ln, line := range strings.Split(t.Src, "\n") {
			if strings.Contains(line, "switch c.Name") {
				inCookieSwitch = true
			} else if inCookieSwitch && strings.Contains(line, "range") && strings.Contains(line, "{{") && strings.Contains(line, "end") {
				// stays in the switch across template control lines
			}
			for _, m := range reKeyAction.FindAllStringSubmatchIndex(line, -1) {
				field := ""
				if m[2] >= 0 {
					field = line[m[2]:m[3]]
				} else {
					field = line[m[4]:m[5]]
				}
				prefix := line[:m[0]]
				acc := reAccessor.FindString(prefix)
				isCookieCase := inCookieSwitch && strings.HasSuffix(strings.TrimSpace(prefix), "case")
				if acc == "" && !isCookieCase {
					continue
				}
				if strings.HasPrefix(strings.TrimSpace(acc), "Name:") && !strings.Contains(t.Src, "http.Cookie{") {
					continue
				}
				sites++
				direct := strings.HasSuffix(acc, "Header[")
				switch {
				case direct && field != "CanonicalName":
					probs = append(probs, fmt.Sprintf("line %d: a header map is indexed directly with .%s; the map is keyed by canonical names (.CanonicalName)", ln+1, field))
				case field != "HTTPName" && field != "CanonicalName":
					probs = append(probs, fmt.Sprintf("line %d: transport accessor `%s` is keyed by .%s instead of the element's wire name (.HTTPName): writer and reader disagree for name-mapped attributes (attr:wire)", ln+1, strings.TrimSpace(acc+line[m[0]:m[1]]), field))
				}
			}
			if inCookieSwitch && strings.HasPrefix(strings.TrimSpace(line), "}") && !strings.Contains(line, "{{") {
				inCookieSwitch = false
			}
		}
		if len(probs) > 0 {
			c.Failf(rule, "http/codegen/templates/"+file+"#wire-keys", 0, "%s", strings.Join(probs[:min(3, len(probs))], " | "))
		} else {
			c.Okf(rule, "http/codegen/templates/"+file+"#wire-keys", "every transport accessor is keyed by a wire-name field")
		}
		// raw-presence guards: `if X.VarName Raw != nil` style tests must test the raw variable that was just read
		reRawRead := regexp.MustCompile(`\{\{\s*\.VarName\s*\}\}Raw := `)
		reGuard := regexp.MustCompile(`if \{\{\s*\.VarName\s*\}\}(Raw)? (!=|==) (nil|"")`)
		lines := strings.Split(t.Src, "\n")
		var gprobs []string
		for i, line := range lines {
			if !reRawRead.MatchString(line) {
				continue
			}
			// the next non-template-control line that is a presence guard on VarName must be on the Raw variable
			for j := i + 1; j < len(lines) && j < i+6; j++ {
				g := reGuard.FindStringSubmatch(lines[j])
				if g == nil {
					continue
				}
				if g[1] != "Raw" {
					gprobs = append(gprobs, fmt.Sprintf("line %d: after reading %sRaw the presence test is on the (still zero) target variable, so the conversion is skipped and the value dropped", j+1, "{{ .VarName }}"))
				}
				break
			}
		}
		// a `!= nil` guard on the target variable that opens the block converting the raw value
		reTargetGuard := regexp.MustCompile(`if \{\{\s*\.VarName\s*\}\} != nil \{`)
		for i, line := range lines {
			if !reTargetGuard.MatchString(line) {
				continue
			}
			seen := 0
			for j := i + 1; j < len(lines) && seen < 4; j++ {
				l := strings.TrimSpace(lines[j])
				if l == "" || (strings.HasPrefix(l, "{{") && strings.HasSuffix(l, "}}") && !strings.Contains(l, "template ")) {
					continue
				}
				seen++
				if strings.Contains(l, `_conversion"`) || regexp.MustCompile(`\{\{\s*\.VarName\s*\}\}Raw`).MatchString(l) {
					gprobs = append(gprobs, fmt.Sprintf("line %d: the conversion of the raw value is guarded by a presence test on the (still zero) target variable instead of the raw variable: the value is dropped", i+1))
					break
				}
			}
		}
		if len(gprobs) > 0 {
			c.Failf(rule, "http/codegen/templates/"+file+"#raw-guards", 0, "%s", strings.Join(gprobs[:min(3, len(gprobs))], " | "))
		} else {
			c.Okf(rule, "http/codegen/templates/"+file+"#raw-guards", "presence tests after a raw read test the raw variable")
		}
	}
	c.Floor(rule, sites, 30, "transport accessor sites keyed by a template field")
}

func r025RequestDecoder(c *an.Ctx) {
	mediaLHSConsistency(c, "R15.1", c.Func("http", "RequestDecoder"))
	// shared with C15: the request decoder table (rule id R15.1)
	decision(c, "R15.1", c.MustFunc("R15.1", "http", "RequestDecoder"), an.PathOpts{},
		mediaCanon(`^\(\(net/http\.Header\)\.Get\(p0\.Header, "Content-Type"\) == ""\)$`, "ctEmpty",
			`^\(mime\.ParseMediaType\(.*\)#2 == nil\)$`, "parseOK"),
		[]string{"ctEmpty", "parseOK", "mt==application/json", "mt==application/xml", "mt==application/gob", "mt==text/html", "mt==text/plain"}, mediaFeasible,
		func(e an.Env) string {
			switch {
			case e["ctEmpty"] || e["mt==application/json"]:
				return "json"
			case e["mt==application/xml"]:
				return "xml"
			case e["mt==application/gob"]:
				return "gob"
			case e["mt==text/html"] || e["mt==text/plain"]:
				return "text"
			}
			return "unsupported"
		}, famOutcome, "request decoder: Content-Type→codec (parameters stripped when the type parses)")
}

func r031Status(c *an.Ctx) {
	const rule = "R03.1"
	// partial/response.go.tpl: WriteHeader uses the element's StatusCode, after header Sets
	t, err := c.TplFile("http/codegen/templates/partial/response.go.tpl")
	if err != nil {
		c.Add(an.Obligation{Rule: rule, Construct: "partial/response.go.tpl", Status: an.LOST, Detail: err.Error()})
	} else {
		src := t.Src
		wh := regexp.MustCompile(`w\.WriteHeader\((\{\{\s*([^}]*)\}\}|[^)]*)\)`).FindAllStringSubmatchIndex(src, -1)
		var probs []string
		if len(wh) == 0 {
			probs = append(probs, "no WriteHeader in the response partial")
		}
		for _, m := range wh {
			arg := src[m[2]:m[3]]
			if !regexp.MustCompile(`^\{\{\s*\.StatusCode\s*\}\}$`).MatchString(arg) {
				probs = append(probs, "status written is "+arg+", expected the response's own {{ .StatusCode }}")
			}
			// no header Set after the WriteHeader within the partial
			rest := src[m[1]:]
			if regexp.MustCompile(`w\.Header\(\)\.(Set|Add)\(`).MatchString(rest) && !strings.Contains(rest, "{{- define") {
				// allow other defines after; a Set after WriteHeader in the same define is lost
				if idx := regexp.MustCompile(`w\.Header\(\)\.(Set|Add)\(`).FindStringIndex(rest); idx != nil && !strings.Contains(rest[:idx[0]], "{{ define") && !strings.Contains(rest[:idx[0]], "{{- define") {
					probs = append(probs, "a response header is set after WriteHeader: it never reaches the client")
				}
			}
		}
		c.Check(len(probs) == 0, rule, t.Name+"#status", 0, "headers ≺ WriteHeader({{ .StatusCode }} of the response being encoded)", strings.Join(dedupStrings(probs), "; "))
	}
	// response_encoder.go.tpl: tagged arms compare the tag with the element's TagValue
	if et, err := c.TplFile("http/codegen/templates/response_encoder.go.tpl"); err == nil {
		// under a test of .TagName: every comparison reads the tag attribute (named by .TagName, directly or
		// through a template variable defined anywhere before) on its left and prints the response's own
		// .TagValue on its right
		ok, comparisons := true, 0
		all := an.TplLinear(et.Tree.Root) // the whole template: variable definitions and every token in order
		has := func(fs []string, f string) bool {
			for _, x := range fs {
				if x == f {
					return true
				}
			}
			return false
		}
		an.WalkTpl(et.Tree.Root, func(n parse.Node) bool {
			in, isIf := n.(*parse.IfNode)
			if !isIf || !has(an.TplFields(in.Pipe), ".TagName") {
				return true
			}
			// the tokens of this arm, taken from the whole-template linearisation so that variables resolve
			arm := an.TplLinear(in.List)
			start := -1
			for i := 0; i+len(arm) <= len(all) && start < 0; i++ {
				match := true
				for j := range arm {
					if all[i+j].Text != arm[j].Text || all[i+j].Action != arm[j].Action {
						match = false
						break
					}
				}
				if match {
					start = i
				}
			}
			if start < 0 {
				return true
			}
			toks := all[start : start+len(arm)]
			for i, tk := range toks {
				if tk.Action || !strings.Contains(tk.Text, "==") {
					continue
				}
				comparisons++
				left := false
				for j := i; j >= 0; j-- {
					if toks[j].Action && has(toks[j].Fields, ".TagName") {
						left = true
					}
					if !toks[j].Action && j != i && strings.Contains(toks[j].Text, "if ") {
						break
					}
				}
				right := false
				for j := i + 1; j < len(toks); j++ {
					if toks[j].Action {
						right = has(toks[j].Fields, ".TagValue")
						break
					}
				}
				if !left || !right {
					ok = false
				}
			}
			return true
		})
		ok = ok && comparisons > 0
		c.Check(ok, rule, et.Name+"#tags", 0, "tagged responses are selected by comparing the tag attribute with the response's own tag value", "the tag comparison with {{ .TagValue }} is gone from the response encoder")
	}
	// client: case labels from StatusCode
	if dt, err := c.TplFile("http/codegen/templates/response_decoder.go.tpl"); err == nil {
		cases := regexp.MustCompile(`case \{\{\s*\.StatusCode\s*\}\}:`).FindAllString(dt.Src, -1)
		c.Check(len(cases) >= 2 && strings.Contains(dt.Src, "switch resp.StatusCode"), rule, dt.Name+"#status-cases", 0, "the client dispatches on resp.StatusCode with labels from each response's StatusCode", "the client no longer switches on resp.StatusCode with {{ .StatusCode }} labels")
	}
	dslDefaultStatus(c, rule)
}

// dslDefaultStatus: see the comment inside.
func dslDefaultStatus(c *an.Ctx, rule string) {
	// default statuses are assigned before the response DSL runs: in no function of package dsl can a store into a
	// StatusCode field follow the execution of the user's DSL function (eval.Execute), or a status set with Code()
	// inside that function is overwritten by the default (Response: 200; HTTP errors: 400; gRPC likewise)
	nStores := 0
	for _, f := range c.AllFuncs("dsl") {
		info := f.Pkg.TypesInfo
		var g *an.CFG
		var defaults, runs []an.Loc
		hasStore := false
		ast.Inspect(f.Decl.Body, func(n ast.Node) bool {
			if as, ok := n.(*ast.AssignStmt); ok {
				for _, l := range as.Lhs {
					if fv := an.FieldOf(info, l); fv != nil && fv.Name() == "StatusCode" {
						hasStore = true
					}
				}
			}
			return true
		})
		if !hasStore {
			continue
		}
		g = an.NewCFG(info, f.Decl.Body)
		for _, b := range g.Live() {
			for i, n := range b.Nodes {
				if as, ok := n.(*ast.AssignStmt); ok {
					for _, l := range as.Lhs {
						if fv := an.FieldOf(info, l); fv != nil && fv.Name() == "StatusCode" {
							defaults = append(defaults, an.Loc{Block: b, Idx: i})
						}
					}
				}
				for _, call := range an.CallsIn(n) {
					if an.CalleeName(info, call) == an.P("eval")+".Execute" {
						runs = append(runs, an.Loc{Block: b, Idx: i})
					}
				}
			}
		}
		nStores += len(defaults)
		bad := false
		for _, d := range defaults {
			for _, r := range runs {
				if g.Reaches(r, d, nil) {
					bad = true
				}
			}
		}
		c.Check(!bad, rule, f.Name+"#default-status", f.Decl.Pos(), "no status is assigned after the response DSL has run, so an explicit Code() is kept", "a status is assigned after the response DSL has run: a status set with Code() inside the DSL function is overwritten")
	}
	c.Okf(rule, "dsl#default-status", "%d stores into StatusCode fields in package dsl, none after the user's DSL function ran", nStores)
}

func r032TransformErrors(c *an.Ctx) {
	const rule = "R03.2"
	n := 0
	for _, spec := range [][2]string{{"codegen", "transformObject"}, {"codegen", "transformAttributeHelpers"}, {"codegen", "collectHelpers"}, {"grpc/codegen", "transformObject"}, {"grpc/codegen", "transformAttributeHelpers"}, {"grpc/codegen", "collectHelpers"}} {
		f := c.MustFunc(rule, spec[0], spec[1])
		if f == nil {
			continue
		}
		info := f.Pkg.TypesInfo
		// closures passed to walkMatches / walkAttribute assign a captured err; after the walk call the function tests err
		g := an.NewCFG(info, f.Decl.Body)
		locs, calls := g.FindCalls(func(call *ast.CallExpr) bool {
			name := an.CalleeName(info, call)
			return strings.HasSuffix(name, ".walkMatches") || strings.HasSuffix(name, ".walkAttribute")
		})
		for i, l := range locs {
			// which error variable does the closure assign?
			var errObj types.Object
			for _, a := range calls[i].Args {
				if fl, ok := an.Unparen(a).(*ast.FuncLit); ok {
					ast.Inspect(fl.Body, func(x ast.Node) bool {
						if as, ok := x.(*ast.AssignStmt); ok {
							for _, lh := range as.Lhs {
								if o := an.ObjOf(info, lh); o != nil && types.Identical(o.Type(), types.Universe.Lookup("error").Type()) && !(fl.Pos() <= o.Pos() && o.Pos() <= fl.End()) {
									errObj = o
								}
							}
						}
						return true
					})
				}
			}
			if errObj == nil {
				continue
			}
			n++
			construct := fmt.Sprintf("%s#walk@%s", f.Name, c.Position(calls[i].Pos()))
			// every path from the walk to a successful return tests errObj
			gates := g.NilGates(errObj)
			tested := false
			for _, gt := range gates {
				if g.Reaches(l, an.Loc{Block: gt.Block, Idx: len(gt.Block.Nodes) - 1}, nil) || gt.Block == l.Block {
					tested = true
				}
			}
			returned := false
			if sig := f.Obj.Type().(*types.Signature); sig.Results() != nil {
				for k := 0; k < sig.Results().Len(); k++ {
					if sig.Results().At(k) == errObj {
						returned = true // named result: every (bare) return hands it to the caller
					}
				}
			}
			for _, r := range g.ReturnLocs() {
				if r.Idx < len(r.Block.Nodes) {
					if rs, ok := r.Block.Nodes[r.Idx].(*ast.ReturnStmt); ok {
						for _, res := range rs.Results {
							if an.ObjOf(info, res) == errObj {
								returned = true
							}
						}
					}
				}
			}
			c.Check(tested || returned, rule, construct, calls[i].Pos(), "the error captured by the attribute walker is tested or returned after the walk", "the error captured by the walker closure is never tested nor returned: an incompatible attribute is silently skipped in the generated transform")
		}
	}
	c.Floor(rule, n, 4, "attribute walks capturing an error")
}

func r033StatusConstants(c *an.Ctx) {
	const rule = "R03.3"
	p := c.Pkg("expr")
	var httpPkg *types.Package
	for _, pk := range c.Pkgs {
		for path, imp := range pk.Imports {
			if path == "net/http" && imp.Types != nil {
				httpPkg = imp.Types
			}
		}
	}
	if p == nil || httpPkg == nil {
		c.Add(an.Obligation{Rule: rule, Construct: "expr.Status*", Status: an.LOST, Detail: "packages not loaded"})
		return
	}
	n := 0
	var bad []string
	for _, name := range p.Types.Scope().Names() {
		if !strings.HasPrefix(name, "Status") {
			continue
		}
		cst, ok := p.Types.Scope().Lookup(name).(*types.Const)
		if !ok {
			continue
		}
		ref, ok := httpPkg.Scope().Lookup(name).(*types.Const)
		if !ok {
			continue
		}
		n++
		if cst.Val().ExactString() != ref.Val().ExactString() {
			bad = append(bad, fmt.Sprintf("expr.%s = %s but net/http.%s = %s", name, cst.Val().ExactString(), name, ref.Val().ExactString()))
		}
	}
	c.Check(len(bad) == 0, rule, "expr.Status*", 0, fmt.Sprintf("all %d status constants of the DSL equal the like-named net/http constants", n), strings.Join(bad, "; "))
	c.Floor(rule, n, 55, "status constants")
}

func r035ResponseData(c *an.Ctx) {
	const rule = "R03.5"
	f := c.MustFunc(rule, "http/codegen", "buildResponses")
	if f != nil {
		info := f.Pkg.TypesInfo
		// tagPtr decisions: the viewed guard stays: `viewed || ...IsPrimitivePointer(...)`
		found, ok := false, false
		ast.Inspect(f.Decl.Body, func(n ast.Node) bool {
			as, isAs := n.(*ast.AssignStmt)
			if !isAs || len(as.Lhs) != 1 || len(as.Rhs) != 1 {
				return true
			}
			id, isId := as.Lhs[0].(*ast.Ident)
			if !isId || !strings.Contains(strings.ToLower(id.Name), "tagptr") {
				return true
			}
			found = true
			be, isBin := an.Unparen(as.Rhs[0]).(*ast.BinaryExpr)
			if isBin && be.Op.String() == "||" {
				for _, side := range []ast.Expr{be.X, be.Y} {
					if o := an.ObjOf(info, side); o != nil && strings.Contains(strings.ToLower(o.Name()), "view") {
						ok = true
					}
				}
			}
			return true
		})
		if found {
			c.Check(ok, rule, f.Name+"#tag-pointer", f.Decl.Pos(), "tag attributes of viewed results are always treated as pointers", "the tag-pointer decision lost its viewed-result guard: projected types hold every attribute by pointer, so the generated tag comparison dereferences nil for views that omit the tag")
		}
		for _, sv := range an.StaleLoopVars(f) {
			c.Failf(rule, fmt.Sprintf("%s#var(%s)", f.Name, sv.Var.Name()), sv.Set.Pos(), "stale per-iteration variable %s (read at %s)", sv.Var.Name(), c.Position(sv.Read.Pos()))
		}
		for _, sf := range an.StaleFlags(f) {
			c.Failf(rule, fmt.Sprintf("%s#flag(%s)", f.Name, sf.Var.Name()), sf.Set.Pos(), "stale search flag %s", sf.Var.Name())
		}
	}
	r049MustValidate(c)
}

// r028RefsAndBases (R02.8): Reference(T) lets an attribute inherit the
// properties of the like-named attributes of T it already defines (Inherit);
// Extend(T) adds every attribute of T (Merge). Every loop over X.References
// applies Inherit and every loop over X.Bases applies Merge: the two sibling
// implementations (AttributeExpr.Finalize and the HTTP body builder) agree.
// Merging a reference drags all of T's attributes and required list into the
// body type.
func r028RefsAndBases(c *an.Ctx, rule string) {
	want := map[string]string{"References": "Inherit", "Bases": "Merge"}
	n := 0
	for _, f := range c.AllFuncs("expr") {
		info := f.Pkg.TypesInfo
		ast.Inspect(f.Decl.Body, func(nd ast.Node) bool {
			rs, ok := nd.(*ast.RangeStmt)
			if !ok {
				return true
			}
			se, ok := an.Unparen(rs.X).(*ast.SelectorExpr)
			if !ok || want[se.Sel.Name] == "" {
				return true
			}
			ast.Inspect(rs.Body, func(m ast.Node) bool {
				call, ok := m.(*ast.CallExpr)
				if !ok {
					return true
				}
				name := an.CalleeName(info, call)
				if name != "(*"+an.P("expr")+".AttributeExpr).Merge" && name != "(*"+an.P("expr")+".AttributeExpr).Inherit" {
					return true
				}
				n++
				got := name[strings.LastIndex(name, ".")+1:]
				c.Check(got == want[se.Sel.Name], rule, fmt.Sprintf("%s#range(%s)", f.Name, se.Sel.Name), call.Pos(),
					se.Sel.Name+" are applied with "+want[se.Sel.Name], "the loop over "+se.Sel.Name+" applies "+got+" where every other implementation applies "+want[se.Sel.Name]+": a Reference would add all attributes and required fields of the referenced type (or an Extend would add none)")
				return true
			})
			return true
		})
	}
	c.Floor(rule, n, 4, "Merge/Inherit calls in loops over References and Bases")
}

// r0210MergeCopies (R02.10): AttributeExpr.Merge takes over the child attribute
// objects of its argument. A mapped attribute (params, headers, cookies of a
// service or of the API) is merged into every endpoint that inherits it, and
// Finalize then fills those children in place (defaults, validations): the
// argument handed to Merge must therefore be a copy made for the occasion (the
// result of a call such as Attribute() or DupAtt), never the other mapped
// attribute's own AttributeExpr - or the first endpoint's defaults and
// validations show up in all the others.
func r0210MergeCopies(c *an.Ctx, rule string) {
	f := c.MustFunc(rule, "expr", "MappedAttributeExpr.Merge")
	if f == nil {
		return
	}
	info := f.Pkg.TypesInfo
	n := 0
	ast.Inspect(f.Decl.Body, func(nd ast.Node) bool {
		call, ok := nd.(*ast.CallExpr)
		if !ok || an.CalleeName(info, call) != "(*"+an.P("expr")+".AttributeExpr).Merge" || len(call.Args) != 1 {
			return true
		}
		n++
		arg := an.ResolveLocal(info, f.Decl.Body, call.Args[0])
		_, isCall := an.Unparen(arg).(*ast.CallExpr)
		c.Check(isCall, rule, f.Name+"#Merge("+an.Src(c.Fset, call.Args[0])+")", call.Pos(), "the inherited mapped attribute is merged from a copy", "the inherited mapped attribute's own attribute ("+an.Src(c.Fset, arg)+") is merged in, not a copy of it: every endpoint that inherits it shares its child attributes, and what Finalize writes into them for one endpoint (default value, validation) is seen by the others")
		return true
	})
	c.Floor(rule, n, 1, "merges of an inherited mapped attribute")
}

// topArgs splits the argument list of a call term "callee(a, b(c, d), e)" at the top level.
func topArgs(term string) []string {
	i := strings.Index(term, "(")
	if i < 0 || !strings.HasSuffix(term, ")") {
		return nil
	}
	in := term[i+1 : len(term)-1]
	var out []string
	depth, start, inStr := 0, 0, false
	for k := 0; k < len(in); k++ {
		ch := in[k]
		if inStr {
			if ch == '\\' {
				k++
			} else if ch == '"' {
				inStr = false
			}
			continue
		}
		switch ch {
		case '"':
			inStr = true
		case '(', '[', '{':
			depth++
		case ')', ']', '}':
			depth--
		case ',':
			if depth == 0 {
				out = append(out, strings.TrimSpace(in[start:k]))
				start = k + 1
			}
		}
	}
	return append(out, strings.TrimSpace(in[start:]))
}

// r0212OmitEmpty (R02.12): the transport struct field of a body type carries `omitempty` exactly when the
// attribute may be absent from the wire: always for the pointer-everything form (client response / server request
// bodies), for the use-default form when the attribute is neither required nor defaulted, otherwise when it is not
// required. The flag is the last argument of attributeTags; the table is taken on every path of the function that
// calls it (the WalkMappedAttr callback of goTypeDef, or a function extracted from it). A field that is dropped
// when it holds its zero value although the peer requires it (or kept as a zero although the peer tells "absent"
// from "zero" by presence) does not travel intact.
func r0212OmitEmpty(c *an.Ctx, rule string) {
	g := c.Func("http/codegen", "goTypeDef")
	if g == nil {
		c.Add(an.Obligation{Rule: rule, Construct: "http/codegen.goTypeDef", Status: an.LOST, Detail: "function not found"})
		return
	}
	root := c.SSAFunc(g)
	if root == nil {
		c.Undecidedf(rule, g.Name, g.Decl.Pos(), "no SSA function")
		return
	}
	calls := func(fn *ssa.Function, name string) bool {
		for _, b := range fn.Blocks {
			for _, in := range b.Instrs {
				if cl, ok := in.(ssa.CallInstruction); ok {
					if h := cl.Common().StaticCallee(); h != nil && h.Name() == name && h.Pkg == root.Pkg {
						return true
					}
				}
			}
		}
		return false
	}
	var site *ssa.Function
	var cands []*ssa.Function
	cands = append(cands, root)
	cands = append(cands, root.AnonFuncs...)
	for _, m := range root.Pkg.Members {
		if fn, ok := m.(*ssa.Function); ok && !an.IsReferenceFunc(fn) {
			cands = append(cands, fn)
			cands = append(cands, fn.AnonFuncs...)
		}
	}
	for _, fn := range cands {
		if calls(fn, "attributeTags") {
			site = fn
			break
		}
	}
	if site == nil {
		c.Add(an.Obligation{Rule: rule, Construct: "http/codegen.goTypeDef#attributeTags", Status: an.LOST, Detail: "no call of attributeTags in goTypeDef, its function literals or a function added since the reference tree"})
		return
	}
	t := an.BuildPathTable(site, an.PathOpts{MaxPaths: 4000})
	c.Stats["paths_enumerated"] += len(t.Paths)
	c.Stats["functions_tabled"]++
	// the roles of ptr and useDefault are read off the recursive call goTypeDef(scope, att, ptr, useDefault)
	ptrT, defT := "", ""
	for _, p := range t.Paths {
		for _, e := range p.CallEffects() {
			if strings.HasPrefix(e, "http/codegen.goTypeDef(") {
				if a := topArgs(e); len(a) == 4 {
					ptrT, defT = a[2], a[3]
				}
			}
		}
	}
	if ptrT == "" {
		c.Undecidedf(rule, g.Name, g.Decl.Pos(), "the function that calls attributeTags does not make the recursive goTypeDef call from which the ptr/useDefault roles are read")
		return
	}
	bad, rows := 0, 0
	for _, p := range t.Paths {
		flag := ""
		for _, e := range p.CallEffects() {
			if strings.HasPrefix(e, "http/codegen.attributeTags(") {
				if a := topArgs(e); len(a) == 4 {
					flag = a[3]
				}
			}
		}
		if flag == "" {
			continue
		}
		val := map[string]*bool{}
		for _, a := range p.Atoms {
			v := a.Val
			switch {
			case a.Term == ptrT:
				val["ptr"] = &v
			case a.Term == defT:
				val["useDefault"] = &v
			case strings.Contains(a.Term, ".IsRequired("):
				val["required"] = &v
			case strings.Contains(a.Term, ".HasDefaultValue("):
				val["hasDefault"] = &v
			}
		}
		// normalise the flag term over the facts of the path
		norm := flag
		neg := strings.HasPrefix(norm, "!")
		body := strings.TrimPrefix(norm, "!")
		switch {
		case strings.Contains(body, ".IsRequired(") && !strings.Contains(body, "&&") && !strings.Contains(body, "||"):
			norm = map[bool]string{true: "!required", false: "required"}[neg]
		case strings.Contains(body, ".HasDefaultValue(") && !strings.Contains(body, "&&") && !strings.Contains(body, "||"):
			norm = map[bool]string{true: "!hasDefault", false: "hasDefault"}[neg]
		case norm == ptrT:
			norm = "ptr"
		}
		for _, k := range []string{"required", "hasDefault", "ptr"} {
			if v := val[k]; v != nil {
				if norm == k {
					norm = fmt.Sprint(*v)
				} else if norm == "!"+k {
					norm = fmt.Sprint(!*v)
				}
			}
		}
		// the reference: what the flag must be given the facts of the path ("" = the facts do not determine it)
		want := ""
		b := func(k string) (bool, bool) {
			if v := val[k]; v != nil {
				return *v, true
			}
			return false, false
		}
		ptr, okP := b("ptr")
		ud, okD := b("useDefault")
		req, okR := b("required")
		hd, okH := b("hasDefault")
		switch {
		case okP && ptr:
			want = "true"
		case okP && !ptr && okD && ud:
			switch {
			case okR && req:
				want = "false"
			case okR && !req && okH:
				want = fmt.Sprint(!hd)
			case okR && !req:
				want = "!hasDefault"
			case !okR && okH && hd:
				want = "false"
			}
		case okP && !ptr && okD && !ud:
			if okR {
				want = fmt.Sprint(!req)
			} else {
				want = "!required"
			}
		}
		if want == "" {
			continue // the path does not fix ptr/useDefault (e.g. the flag is computed by a helper not inlined): not decided here
		}
		rows++
		if norm != want {
			bad++
			c.Failf(rule, "http/codegen.goTypeDef#omitempty", p.Pos, "on the path [%s] the field is tagged omitempty=%s, the reference is %s (ptr: always; useDefault: not required and no default; otherwise: not required)", p.GuardString(), flag, want)
			break
		}
	}
	if rows == 0 {
		c.Undecidedf(rule, g.Name, g.Decl.Pos(), "no path of the attributeTags caller fixes the ptr/useDefault flags")
		return
	}
	if bad == 0 {
		c.Okf(rule, "http/codegen.goTypeDef#omitempty", "%d paths to attributeTags: omitempty is set exactly when the attribute may be absent (ptr: always; useDefault: not required and not defaulted; otherwise: not required)", rows)
	}
}

// r037ArmOrder (R03.7): the response encoder tries the responses of an endpoint in turn; a tagged response is chosen
// by a test of its tag. Whatever belongs to ONE response - in particular the content type the design fixes for it,
// which the encoder negotiation reads from the context - is set inside that test. Set before it, it applies to
// every response tried later as well: the default response of the endpoint is encoded (and announced) as the
// tagged response's type.
func r037ArmOrder(c *an.Ctx, rule string) {
	t, err := c.TplFile("http/codegen/templates/response_encoder.go.tpl")
	if err != nil {
		c.Add(an.Obligation{Rule: rule, Construct: "response_encoder.go.tpl", Status: an.LOST, Detail: err.Error()})
		return
	}
	has := func(fs []string, f string) bool {
		for _, x := range fs {
			if x == f {
				return true
			}
		}
		return false
	}
	textOf := func(l *parse.ListNode) string {
		var sb strings.Builder
		an.WalkTpl(l, func(n parse.Node) bool {
			if tn, ok := n.(*parse.TextNode); ok {
				sb.Write(tn.Text)
			}
			return true
		})
		return sb.String()
	}
	tagPos, ctPos := -1, -1
	an.WalkTpl(t.Tree.Root, func(n parse.Node) bool {
		in, ok := n.(*parse.IfNode)
		if !ok {
			return true
		}
		fields := an.TplFields(in.Pipe)
		if has(fields, ".TagName") && strings.Contains(textOf(in.List), "==") && tagPos < 0 {
			tagPos = int(in.Position())
		}
		if has(fields, ".ContentType") && strings.Contains(textOf(in.List), "ContentTypeKey") && ctPos < 0 {
			ctPos = int(in.Position())
		}
		return true
	})
	if tagPos < 0 || ctPos < 0 {
		c.Add(an.Obligation{Rule: rule, Construct: t.Name + "#arm-order", Status: an.LOST, Nontrivial: true,
			Detail: fmt.Sprintf("tag test or content-type assignment not found in the response encoder template (tag %d, content type %d)", tagPos, ctPos)})
		return
	}
	c.Check(tagPos < ctPos, rule, t.Name+"#arm-order", 0, "the content type of a response is put in the context inside the test that selects the response", "the content type fixed for one response is put in the context before the test of its tag: it stays there for every response tried afterwards, which is then encoded and announced as that type")
}

// r038HeaderNilGuards (R03.8): whether a response header is written under a nil test is a matter of the header's own
// attribute (a pointer field, a slice, bytes, any). In partial/response.go.tpl the variable that decides the test
// must not be switched off by a property of the RESPONSE ($.TagName): in a response selected by a tag only the
// attribute holding the tag is known to be set, every other optional header of that response is dereferenced while
// nil, the generated server panics and the client gets no response at all.
func r038HeaderNilGuards(c *an.Ctx, rule string) {
	t, err := c.TplFile("http/codegen/templates/partial/response.go.tpl")
	if err != nil {
		c.Add(an.Obligation{Rule: rule, Construct: "partial/response.go.tpl", Status: an.LOST, Detail: err.Error()})
		return
	}
	re := regexp.MustCompile(`\{\{-?\s*\$checkNil\s*:?=\s*([^}]*)\}\}`)
	ms := re.FindAllStringSubmatch(t.Src, -1)
	if len(ms) == 0 {
		// the guard is no longer computed into $checkNil: look at the conditions that open a `!= nil {` test instead
		c.Okf(rule, t.Name+"#header-nil-guard", "no $checkNil variable: the nil tests of the headers are decided where they are written (R03.6)")
		return
	}
	idx := re.FindAllStringSubmatchIndex(t.Src, -1)
	for i, m := range ms {
		// which collection the guard belongs to: the last `range .X` before it
		coll := "?"
		if rs := regexp.MustCompile(`range \.(\w+)`).FindAllStringSubmatch(t.Src[:idx[i][0]], -1); len(rs) > 0 {
			coll = rs[len(rs)-1][1]
		}
		c.Check(!strings.Contains(m[1], "$.TagName"), rule, t.Name+"#nil-guard("+coll+")", 0, "the nil test of a response header depends on the header's own attribute only",
			"the nil test of every header of a response is switched off when the response is selected by a tag ($checkNil := … (not $.TagName)): an optional header left unset in such a response is dereferenced and the server panics")
	}
}

// removalAfterExtension (R02.13, shared with C03 as R03.9): the body of a request or response is the payload or
// result minus everything mapped elsewhere. extendBodyAttribute merges the attributes the type inherits through
// Extend/Reference into the body; a removal that runs before that merge is undone by it for every inherited
// attribute, which then travels twice (in its header, cookie or parameter and in the body). So in every function
// that extends a body value, every removal on that same value comes after the extension. A helper of the same
// package that removes from its first parameter counts as a removal at its call site.
func removalAfterExtension(c *an.Ctx, rule string) {
	pkg := c.Pkg("expr")
	if pkg == nil {
		c.Undecidedf(rule, "expr", 0, "package expr not loaded")
		return
	}
	info := pkg.TypesInfo
	ext, rm1, rmN := an.P("expr")+".extendBodyAttribute", an.P("expr")+".removeAttribute", an.P("expr")+".removeAttributes"
	funcs := c.AllFuncs("expr")
	// helpers that remove from their first parameter
	wrapper := map[string]bool{rm1: true, rmN: true}
	for round := 0; round < 2; round++ {
		for _, f := range funcs {
			if f.Decl.Type.Params == nil || len(f.Decl.Type.Params.List) == 0 || len(f.Decl.Type.Params.List[0].Names) == 0 || f.Decl.Recv != nil {
				continue
			}
			p0 := info.Defs[f.Decl.Type.Params.List[0].Names[0]]
			for _, call := range an.AllCallsIn(f.Decl.Body) {
				if wrapper[an.CalleeName(info, call)] && len(call.Args) > 0 && an.ObjOf(info, call.Args[0]) == p0 && p0 != nil {
					wrapper[an.P("expr")+"."+f.Decl.Name.Name] = true
				}
			}
		}
	}
	sites, removals := 0, 0
	for _, f := range funcs {
		calls := an.AllCallsIn(f.Decl.Body)
		for _, e := range calls {
			if an.CalleeName(info, e) != ext || len(e.Args) != 1 {
				continue
			}
			x := an.ObjOf(info, e.Args[0])
			if x == nil {
				c.Undecidedf(rule, f.Name+"#extend", e.Pos(), "the extended body is not a plain variable")
				continue
			}
			sites++
			var early []string
			for _, r := range calls {
				if !wrapper[an.CalleeName(info, r)] || len(r.Args) == 0 || an.ObjOf(info, r.Args[0]) != x {
					continue
				}
				removals++
				if r.Pos() < e.Pos() {
					early = append(early, an.Src(pkg.Fset, r))
				}
			}
			construct := fmt.Sprintf("%s#extend-then-remove(%s)", f.Name, x.Name())
			if len(early) > 0 {
				c.Failf(rule, construct, e.Pos(), "%s run(s) before the inherited attributes are merged into %s: an inherited attribute mapped to that location comes back into the body and travels twice", strings.Join(early, ", "), x.Name())
			} else {
				c.Okf(rule, construct, "every removal from %s follows the merge of the inherited attributes", x.Name())
			}
		}
	}
	c.Floor(rule, sites, 2, "body values extended with inherited attributes")
	c.Floor(rule, removals, 7, "removals checked against the extension")
}
