package props

import (
	"fmt"
	"go/ast"
	"go/parser"
	"go/token"
	"go/types"
	"os"
	"regexp"
	"sort"
	"strings"

	"goacheck/an"
)

func init() { Registry["C06"] = runC06 }

const explanationC06 = "Decides structural necessary conditions of C06: (R06.1) OR-of-ANDs gate — for every requirement shape (1–3 alternative requirements × 1–2 schemes) and every outcome vector of the authorization callbacks, the expanded endpoint template (parsed as Go and interpreted only over the predicate err==nil) calls exactly the callbacks the short-circuit semantics prescribes, runs the service method iff some requirement had all its callbacks succeed, and otherwise returns the callback error without running it; no callback is emitted for methods without requirements; (R06.2) every callback receives the scheme literal declared in its own block (name, scheme scopes, the requirement's scopes) and the credential field(s) of that scheme; (R06.3) effective requirements — NoSecurity clears them, method requirements win, then the service's, then the API's (edge-dominance facts on MethodExpr.Finalize), and the requirement copies do not alias; (R06.4) the server decoder strips the scheme prefix of Authorization-header credentials under a guard that makes the index safe and fills both basic-auth fields from r.BasicAuth(); the location inference maps params→query, headers→header, explicit body attribute→body and everything else to the implicit Authorization header; (R06.5) the four scheme scope validators are identical modulo the receiver type; scheme lists built per requirement are not shared between requirements (no slice reuse across iterations); (R06.6) scheme-specific code looks API keys up under the scheme-qualified tag; (R06.7) validator and finalizer inherit requirements in the same order. (R06.8) a credential's element name and its location (SchemeExpr.Name/In) are stored together on every path. NOT decided: behaviour of arbitrary scheme combinations at run time beyond the shapes expanded, and that credential strings arrive unmodified (value property of generated decoders)."

func runC06(c *an.Ctx) string {
	r061Gate(c)
	r063Inheritance(c)
	r064Location(c)
	r065Siblings(c)
	r06SchemeKeyed(c, "R06.6")
	r067InheritanceAgreement(c, "R06.7")
	pairedStoresRule(c, "R06.8", "scheme") // a credential's element name and its location are set together
	return explanationC06
}

// parseVariantKeep parses an expanded variant and returns the mapping from
// placeholder identifiers back to their template paths.
func parseVariantKeep(text string) (*ast.File, map[string]string, error) {
	names := map[string]string{}
	i := 0
	src := rePlaceholder.ReplaceAllStringFunc(text, func(m string) string {
		i++
		id := fmt.Sprintf("ph%d", i)
		names[id] = strings.Trim(m, "‹›")
		return id
	})
	fset := token.NewFileSet()
	f, err := parser.ParseFile(fset, "variant.go", "package p\n"+src, parser.SkipObjectResolution)
	if err != nil {
		return nil, names, err
	}
	return f, names, nil
}

type authCall struct {
	call *ast.CallExpr
	pos  token.Pos
}

// interpretGate walks a statement list deterministically under an outcome
// vector of the auth calls; it returns the ordered indexes of the auth calls
// executed and the terminal ("user", "reject", "fallthrough").
type gateInterp struct {
	calls    map[*ast.CallExpr]int
	outcome  []bool
	errNil   bool
	executed []int
	terminal string
}

func (g *gateInterp) stmts(list []ast.Stmt) bool {
	for _, s := range list {
		if g.stmt(s) {
			return true
		}
	}
	return false
}

func exprIsErrNil(e ast.Expr) (isTest, wantNil bool) {
	be, ok := e.(*ast.BinaryExpr)
	if !ok || (be.Op != token.EQL && be.Op != token.NEQ) {
		return false, false
	}
	if types.ExprString(be.X) == "err" && types.ExprString(be.Y) == "nil" {
		return true, be.Op == token.EQL
	}
	return false, false
}

func (g *gateInterp) stmt(s ast.Stmt) (done bool) {
	switch x := s.(type) {
	case *ast.BlockStmt:
		return g.stmts(x.List)
	case *ast.DeclStmt:
		return false
	case *ast.AssignStmt:
		assignsErr := false
		for _, l := range x.Lhs {
			if types.ExprString(l) == "err" {
				assignsErr = true
			}
		}
		for _, r := range x.Rhs {
			if call, ok := r.(*ast.CallExpr); ok {
				if i, isAuth := g.calls[call]; isAuth {
					g.executed = append(g.executed, i)
					if assignsErr {
						g.errNil = g.outcome[i]
					}
					return false
				}
				if isServiceCall(call) {
					g.terminal = "user"
					return true
				}
			}
		}
		return false
	case *ast.IfStmt:
		if isTest, wantNil := exprIsErrNil(x.Cond); isTest {
			if g.errNil == wantNil {
				return g.stmts(x.Body.List)
			}
			if x.Else != nil {
				return g.stmt(x.Else)
			}
			return false
		}
		// credential nil checks and the like: their bodies have no effect on err; execute them
		return g.stmts(x.Body.List)
	case *ast.ReturnStmt:
		for _, r := range x.Results {
			if call, ok := r.(*ast.CallExpr); ok && isServiceCall(call) {
				g.terminal = "user"
				return true
			}
		}
		if len(x.Results) == 2 && types.ExprString(x.Results[0]) == "nil" && types.ExprString(x.Results[1]) == "err" {
			g.terminal = "reject"
			return true
		}
		g.terminal = "return " + types.ExprString(x.Results[len(x.Results)-1])
		return true
	case *ast.ExprStmt:
		if call, ok := x.X.(*ast.CallExpr); ok && isServiceCall(call) {
			g.terminal = "user"
			return true
		}
	}
	return false
}

func isServiceCall(call *ast.CallExpr) bool {
	se, ok := call.Fun.(*ast.SelectorExpr)
	return ok && types.ExprString(se.X) == "s"
}

var reAuthFn = regexp.MustCompile(`^auth\w*Fn$`)

func r061Gate(c *an.Ctx) {
	const rule = "R06.1"
	tpl, err := c.TplFile("codegen/service/templates/service_endpoint_method.go.tpl")
	if err != nil {
		c.Add(an.Obligation{Rule: rule, Construct: "service_endpoint_method.go.tpl", Status: an.LOST, Detail: err.Error()})
		return
	}
	shapes := 0
	for _, scheme := range []string{"Basic", "APIKey", "JWT", "OAuth2"} {
		for R := 1; R <= 3; R++ {
			for S := 1; S <= 2; S++ {
				v := an.Variant{
					Bools:   map[string]bool{".Requirements": true, ".PayloadRef": true},
					Strings: map[string]string{".Type": scheme},
					Ranges:  map[string]int{"$ridx, $r := .Requirements": R, "$sidx, $s := .Schemes": S, ".Schemes": 1, ".Scopes": 1, "$r.Scopes": 1, ".Flows": 0},
				}
				res := an.ExpandTree(tpl.Tree, v)
				c.Stats["variants_expanded"]++
				construct := fmt.Sprintf("%s[%s %d×%d]", tpl.Name, scheme, R, S)
				file, names, err := parseVariantKeep(res.Text)
				if err != nil {
					c.Failf(rule, construct, 0, "the expanded variant does not parse as Go: %v", err)
					continue
				}
				c.Stats["variants_parsed"]++
				// the endpoint closure
				var body *ast.BlockStmt
				ast.Inspect(file, func(n ast.Node) bool {
					if fl, ok := n.(*ast.FuncLit); ok && body == nil {
						body = fl.Body
					}
					return true
				})
				if body == nil {
					c.Failf(rule, construct, 0, "no endpoint closure in the variant")
					continue
				}
				var calls []authCall
				ast.Inspect(body, func(n ast.Node) bool {
					if call, ok := n.(*ast.CallExpr); ok {
						if id, ok := call.Fun.(*ast.Ident); ok && (reAuthFn.MatchString(id.Name) || strings.HasPrefix(names[id.Name], "auth")) {
							calls = append(calls, authCall{call, call.Pos()})
						}
					}
					return true
				})
				// template emits `auth{{ .Type }}Fn`: the identifier is "auth" + placeholder + "Fn" → parsed as authphNFn
				sort.Slice(calls, func(i, j int) bool { return calls[i].pos < calls[j].pos })
				if len(calls) != R*S {
					c.Failf(rule, construct, 0, "%d authorization calls emitted for %d requirements × %d schemes", len(calls), R, S)
					continue
				}
				idx := map[*ast.CallExpr]int{}
				for i, ac := range calls {
					idx[ac.call] = i
				}
				var probs []string
				for m := 0; m < 1<<(R*S); m++ {
					outcome := make([]bool, R*S)
					for i := range outcome {
						outcome[i] = m&(1<<i) != 0
					}
					g := &gateInterp{calls: idx, outcome: outcome, errNil: true}
					g.stmts(body.List)
					// ideal short-circuit semantics
					var want []int
					wantTerm := "reject"
					for r := 0; r < R && wantTerm != "user"; r++ {
						ok := true
						for s := 0; s < S; s++ {
							want = append(want, r*S+s)
							if !outcome[r*S+s] {
								ok = false
								break
							}
						}
						if ok {
							wantTerm = "user"
						}
					}
					if fmt.Sprint(g.executed) != fmt.Sprint(want) || g.terminal != wantTerm {
						probs = append(probs, fmt.Sprintf("callback outcomes %v: callbacks run %v then %q; the requirement semantics gives %v then %q", outcome, g.executed, g.terminal, want, wantTerm))
					}
				}
				shapes++
				// R06.2: own scheme literal and credential
				var p2 []string
				for i, ac := range calls {
					args := ac.call.Args
					if len(args) < 3 || types.ExprString(args[len(args)-1]) != "&sc" {
						p2 = append(p2, fmt.Sprintf("callback %d is not given &sc", i))
					}
					var creds []string
					for _, a := range args[1 : len(args)-1] {
						ast.Inspect(a, func(n ast.Node) bool {
							if id, ok := n.(*ast.Ident); ok {
								if orig, ok := names[id.Name]; ok {
									if last := orig[strings.LastIndex(orig, ".")+1:]; strings.HasSuffix(last, "Field") {
										creds = append(creds, last)
									}
								}
							}
							return true
						})
					}
					wantCreds := "CredField"
					if scheme == "Basic" {
						wantCreds = "UsernameField,PasswordField"
					}
					if strings.Join(creds, ",") != wantCreds {
						p2 = append(p2, fmt.Sprintf("callback %d receives %v, expected %s of its scheme", i, creds, wantCreds))
					}
				}
				// the scheme literal: RequiredScopes from the requirement, Scopes and Name from the scheme
				lits := 0
				ast.Inspect(body, func(n ast.Node) bool {
					cl, ok := n.(*ast.CompositeLit)
					if !ok || !strings.HasPrefix(types.ExprString(cl.Type), "security.") || !strings.HasSuffix(types.ExprString(cl.Type), "Scheme") {
						return true
					}
					lits++
					if types.ExprString(cl.Type) != "security."+scheme+"Scheme" {
						p2 = append(p2, "scheme literal "+types.ExprString(cl.Type)+" for a "+scheme+" scheme")
					}
					for _, el := range cl.Elts {
						kv, ok := el.(*ast.KeyValueExpr)
						if !ok {
							continue
						}
						var src []string
						ast.Inspect(kv.Value, func(x ast.Node) bool {
							switch y := x.(type) {
							case *ast.Ident:
								if o, ok := names[y.Name]; ok {
									src = append(src, o)
								}
							case *ast.BasicLit:
								for _, id := range regexp.MustCompile(`ph\d+`).FindAllString(y.Value, -1) {
									if o, ok := names[id]; ok {
										src = append(src, o)
									}
								}
							}
							return true
						})
						key := types.ExprString(kv.Key)
						joined := strings.Join(src, ",")
						switch key {
						case "Name":
							if !strings.HasSuffix(joined, ".SchemeName") {
								p2 = append(p2, "scheme Name comes from "+joined)
							}
						case "RequiredScopes":
							if !strings.Contains(joined, ".Requirements[") || strings.Contains(joined, ".Schemes[") {
								p2 = append(p2, "RequiredScopes come from "+joined+", expected the requirement's scopes")
							}
						case "Scopes":
							if !strings.Contains(joined, ".Schemes[") {
								p2 = append(p2, "Scopes come from "+joined+", expected the scheme's scopes")
							}
						}
					}
					return true
				})
				if lits != R*S {
					p2 = append(p2, fmt.Sprintf("%d scheme literals for %d callbacks", lits, R*S))
				}
				if len(probs) > 0 {
					c.Failf(rule, construct, 0, "%s", strings.Join(dedupStrings(probs)[:min(2, len(dedupStrings(probs)))], " | "))
				} else {
					c.Okf(rule, construct, "all %d outcome vectors: callbacks run and service-method/reject decision follow the any-requirement/all-schemes semantics", 1<<(R*S))
				}
				if len(p2) > 0 {
					c.Failf("R06.2", construct, 0, "%s", strings.Join(dedupStrings(p2)[:min(3, len(dedupStrings(p2)))], " | "))
				} else {
					c.Okf("R06.2", construct, "every callback gets the scheme literal of its own block (scheme name and scopes, requirement scopes) and its own credential field(s)")
				}
			}
		}
	}
	c.Floor(rule, shapes, 24, "requirement shapes expanded (4 scheme types × 3 × 2)")
	// no requirement: no callback
	v := an.Variant{Bools: map[string]bool{".Requirements": false, ".PayloadRef": true}}
	res := an.ExpandTree(tpl.Tree, v)
	c.Check(!strings.Contains(res.Text, "Fn(ctx"), rule, tpl.Name+"[no requirements]", 0, "methods without requirements invoke no authorization callback", "an authorization callback is emitted although the method has no requirement")
}

func r063Inheritance(c *an.Ctx) {
	const rule = "R06.3"
	f := c.MustFunc(rule, "expr", "MethodExpr.Finalize")
	if f == nil {
		return
	}
	info := f.Pkg.TypesInfo
	g := an.NewCFG(info, f.Decl.Body)
	// classify len(...) > 0 / == 0 conditions by the collection they test
	collOf := func(e ast.Expr) string {
		be, ok := an.Unparen(e).(*ast.BinaryExpr)
		if !ok {
			return ""
		}
		call, ok := an.Unparen(be.X).(*ast.CallExpr)
		if !ok || len(call.Args) != 1 {
			return ""
		}
		if id, ok := an.Unparen(call.Fun).(*ast.Ident); !ok || id.Name != "len" {
			return ""
		}
		return types.ExprString(call.Args[0]) + " " + be.Op.String() + " " + types.ExprString(be.Y)
	}
	type asg struct {
		src   string
		facts map[string]bool
		loc   an.Loc
	}
	var asgs []asg
	for _, b := range g.Live() {
		for i, n := range b.Nodes {
			as, ok := n.(*ast.AssignStmt)
			if !ok || len(as.Lhs) != 1 || len(as.Rhs) != 1 {
				continue
			}
			fv := an.FieldOf(info, as.Lhs[0])
			if fv == nil || fv.Name() != "Requirements" {
				continue
			}
			src := "other"
			if an.IsNilIdent(info, as.Rhs[0]) {
				src = "nil"
			} else if call, ok := an.Unparen(as.Rhs[0]).(*ast.CallExpr); ok && len(call.Args) == 1 {
				src = types.ExprString(call.Args[0])
			}
			loc := an.Loc{Block: b, Idx: i}
			facts := map[string]bool{}
			for _, fct := range g.DominatingFacts(loc) {
				if k := collOf(fct.Cond); k != "" {
					facts[k] = fct.Holds
					// the same fact in one canonical form: "<collection> empty"
					for _, suf := range []string{" > 0", " != 0", " >= 1"} {
						if strings.HasSuffix(k, suf) {
							facts[strings.TrimSuffix(k, suf)+" empty"] = !fct.Holds
						}
					}
					for _, suf := range []string{" == 0", " < 1", " <= 0"} {
						if strings.HasSuffix(k, suf) {
							facts[strings.TrimSuffix(k, suf)+" empty"] = fct.Holds
						}
					}
				} else {
					facts[types.ExprString(fct.Cond)] = fct.Holds
					// the no-security test: a scheme of kind NoKind was seen
					if be, ok := an.Unparen(fct.Cond).(*ast.BinaryExpr); ok && be.Op == token.EQL && fct.Holds {
						if strings.HasSuffix(types.ExprString(be.Y), "NoKind") || strings.HasSuffix(types.ExprString(be.X), "NoKind") {
							facts["#nosecurity"] = true
						}
					}
					// or a flag that is only ever set under that test
					if id, ok := an.Unparen(fct.Cond).(*ast.Ident); ok && fct.Holds && flagSetUnderNoKind(g, info, id) {
						facts["#nosecurity"] = true
					}
					// or a predicate over the requirements that answers true only under that test
					if call, ok := an.Unparen(fct.Cond).(*ast.CallExpr); ok && fct.Holds {
						if h := c.FuncOfObj(an.Callee(info, call)); h != nil && trueOnlyUnderNoKind(h) {
							facts["#nosecurity"] = true
						}
					}
				}
			}
			if os.Getenv("GOACHECK_DEBUG") != "" {
				fmt.Fprintf(os.Stderr, "DEBUG R06.3 %s facts=%v\n", src, facts)
			}
			asgs = append(asgs, asg{src, facts, loc})
		}
	}
	var probs []string
	seen := map[string]bool{}
	recv := f.Decl.Recv.List[0].Names[0].Name
	for _, a := range asgs {
		seen[a.src] = true
		switch {
		case a.src == "nil":
			if !a.facts["#nosecurity"] {
				probs = append(probs, "requirements are cleared without the NoSecurity test holding")
			}
		case a.src == recv+".Service.Requirements":
			if v, ok := a.facts[recv+".Requirements empty"]; !ok || !v {
				probs = append(probs, "service requirements are inherited although the method has its own")
			}
			if v, ok := a.facts[recv+".Service.Requirements empty"]; !ok || v {
				probs = append(probs, "service requirements are inherited without testing that the service has any")
			}
			for k, v := range a.facts {
				if strings.Contains(k, "API.Requirements") && strings.HasSuffix(k, " empty") && !v {
					probs = append(probs, "service requirements are inherited only when the API has none ("+k+"): the API level takes precedence over the service level")
				}
			}
		case strings.HasSuffix(a.src, "API.Requirements"):
			if v, ok := a.facts[recv+".Requirements empty"]; !ok || !v {
				probs = append(probs, "API requirements are inherited although the method has its own")
			}
			if v, ok := a.facts[recv+".Service.Requirements empty"]; !ok || !v {
				probs = append(probs, "API requirements are inherited without the service having none: the API level would override the service level")
			}
		default:
			probs = append(probs, "requirements assigned from "+a.src)
		}
	}
	for _, want := range []string{"nil", recv + ".Service.Requirements", "Root.API.Requirements"} {
		if !seen[want] {
			probs = append(probs, "no assignment of the effective requirements from "+want)
		}
	}
	report(c, rule, f.Name+"#inheritance", f, probs, "NoSecurity clears; method requirements win; else the service's; else the API's")
	// copyReqs / DupRequirement / DupScheme copy, they do not alias
	if cr := c.MustFunc(rule, "expr", "copyReqs"); cr != nil {
		alias := false
		ast.Inspect(cr.Decl.Body, func(n ast.Node) bool {
			if rs, ok := n.(*ast.ReturnStmt); ok && len(rs.Results) == 1 && paramIndex(cr, rs.Results[0]) >= 0 {
				alias = true
			}
			return true
		})
		fresh := len(compositeLits(cr, an.P("expr")+".SecurityExpr")) > 0
		c.Check(!alias && fresh, rule, cr.Name, cr.Decl.Pos(), "inherited requirements are fresh SecurityExpr values (scheme names can be overridden per endpoint without touching the service/API)", "copyReqs returns its argument or builds no fresh SecurityExpr: endpoints would share and overwrite requirement objects")
	}
}

func r064Location(c *an.Ctx) {
	const rule = "R06.4"
	if f, t := tableOf(c, rule, "expr", "findKey", 0); t != nil {
		var probs []string
		for i := range t.Paths {
			p := &t.Paths[i]
			if len(p.Ret) != 2 {
				continue
			}
			e := pathEnv(p)
			isHTTP, isGRPC := false, false
			inParams, inHeaders, bodyNil, inBody := false, false, false, false
			foundInBody, isOrigin := false, false
			for k, v := range e {
				switch {
				case strings.Contains(k, ".(*expr.HTTPEndpointExpr)?#1"):
					isHTTP = v
				case strings.Contains(k, ".(*expr.GRPCEndpointExpr)?#1"):
					isGRPC = v
				case strings.Contains(k, ".Params, p1)#1"):
					inParams = v
				case strings.Contains(k, ".Headers, p1)#1"):
					inHeaders = v
				case strings.HasSuffix(k, ".Body == nil)"):
					bodyNil = v
				case strings.Contains(k, ".Body, p1) == nil)"):
					foundInBody = !v
				case strings.Contains(k, `["origin:attribute"]`) && strings.Contains(k, "== p1"):
					isOrigin = v
				}
			}
			inBody = foundInBody || isOrigin
			_ = bodyNil
			if !isHTTP || isGRPC {
				continue
			}
			loc := strings.Trim(p.Ret[1], `"`)
			want := "header"
			switch {
			case inParams:
				want = "query"
			case inHeaders:
				want = "header"
			case inBody:
				want = "body"
			}
			if loc != want {
				probs = append(probs, fmt.Sprintf("under [%s] the credential location is %q, expected %q", p.GuardString(), loc, want))
			}
		}
		report(c, rule, f.Name, f, probs, "credential location: params→query, headers→header, explicit body attribute→body, otherwise the implicit Authorization header")
	}
	// server decoder: bearer prefix stripping and basic auth
	tpl, err := c.TplFile("http/codegen/templates/request_decoder.go.tpl")
	if err != nil {
		c.Add(an.Obligation{Rule: rule, Construct: "request_decoder.go.tpl", Status: an.LOST, Detail: err.Error()})
		return
	}
	txt := an.TplText(tpl.Tree.Root)
	guard := regexp.MustCompile(`if strings\.Contains\([^,]+, " "\) \{\s*// Remove authorization scheme prefix[^\n]*\n\s*cred := strings\.SplitN\([^,]+, " ", 2\)\[1\]`).MatchString(txt) ||
		regexp.MustCompile(`(?s)if strings\.Contains\(.{0,80}, " "\) \{.{0,160}strings\.SplitN\(.{0,80}, " ", 2\)\[1\]`).MatchString(txt)
	basic := strings.Contains(txt, "r.BasicAuth()")
	c.Check(guard, rule, tpl.Name+"#bearer-prefix", 0, `the scheme prefix is removed with SplitN(cred, " ", 2)[1] under a Contains(cred, " ") guard`, "the bearer prefix removal (or the guard that makes its index safe) is missing from the request decoder template")
	c.Check(basic, rule, tpl.Name+"#basic-auth", 0, "basic-auth credentials are taken from r.BasicAuth()", "the request decoder template no longer reads basic-auth credentials with r.BasicAuth()")
}

func r065Siblings(c *an.Ctx) {
	const rule = "R06.5"
	n := 0
	for _, ty := range []string{"BasicScheme", "APIKeyScheme", "OAuth2Scheme", "JWTScheme"} {
		f, t := tableOf(c, rule, "security", ty+".Validate", 0)
		if t == nil {
			continue
		}
		n++
		ok := len(t.Paths) == 1 && len(t.Paths[0].Ret) == 1 && t.Paths[0].Ret[0] == "security.validateScopes(p0.RequiredScopes, p1)"
		c.Check(ok, rule, f.Name, f.Decl.Pos(), "validates the token's scopes against the scheme's required scopes", "sibling deviates from validateScopes(s.RequiredScopes, scopes): "+strings.Join(t.Paths[0].Ret, ","))
	}
	c.Floor(rule, n, 4, "scheme scope validators")
	// scheme lists per requirement are not shared between requirements
	k := 0
	for _, dir := range []string{"codegen/service", "http/codegen", "grpc/codegen", "expr"} {
		for _, f := range c.AllFuncs(dir) {
			k++
			for _, sr := range an.SliceReuses(f) {
				c.Failf(rule, fmt.Sprintf("%s#slice(%s)", f.Name, sr.Var.Name()), sr.Reset.Pos(), "slice %s is truncated with %s[:0] on every iteration and also stored (at %s): all stored values share one backing array, later iterations overwrite earlier ones", sr.Var.Name(), sr.Var.Name(), c.Position(sr.Store.Pos()))
			}
		}
	}
	c.Okf(rule, "generators#slice-reuse", "%d functions: no slice is both truncated in place and stored inside a loop", k)
}

// r06SchemeKeyed (R06.6, shared with C12): API keys are tagged per scheme
// ("security:apikey:<scheme>", written by dsl.APIKey). Code that handles one
// given API-key scheme - the arm `case APIKeyKind` of a switch over a scheme's
// kind - must look the payload attribute up under that scheme's own key; the
// bare prefix finds any scheme's key, so a requirement on scheme A would be
// taken as satisfied (by the validator) or served (by the transports) with the
// attribute that carries the key of scheme B.
func r06SchemeKeyed(c *an.Ctx, rule string) {
	n := 0
	for _, dir := range []string{"expr", "codegen/service", "http/codegen", "grpc/codegen", "http/codegen/openapi/v2", "http/codegen/openapi/v3"} {
		for _, f := range c.AllFuncs(dir) {
			info := f.Pkg.TypesInfo
			ast.Inspect(f.Decl.Body, func(nd ast.Node) bool {
				cc, ok := nd.(*ast.CaseClause)
				if !ok {
					return true
				}
				isAPIKey := false
				for _, e := range cc.List {
					var id *ast.Ident
					switch x := an.Unparen(e).(type) {
					case *ast.Ident:
						id = x
					case *ast.SelectorExpr:
						id = x.Sel
					}
					if id != nil {
						if o, ok := info.Uses[id].(*types.Const); ok && o.Name() == "APIKeyKind" && o.Pkg().Path() == an.P("expr") {
							isAPIKey = true
						}
					}
				}
				if !isAPIKey {
					return true
				}
				for _, st := range cc.Body {
					ast.Inspect(st, func(m ast.Node) bool {
						call, ok := m.(*ast.CallExpr)
						if !ok {
							return true
						}
						for _, a := range call.Args {
							if tv, ok := info.Types[a]; ok && tv.Value != nil {
								if s, ok := an.ConstString(info, a); ok && strings.HasPrefix(s, "security:apikey") {
									n++
									c.Failf(rule, fmt.Sprintf("%s#%s", f.Name, an.Src(c.Fset, call)), call.Pos(), "inside the API-key arm of a switch over a scheme's kind the payload is searched under the constant key %q: that matches the key attribute of any API-key scheme, not the one being handled", s)
								}
								continue
							}
							b, ok := an.Unparen(a).(*ast.BinaryExpr)
							if !ok || b.Op != token.ADD {
								continue
							}
							s, ok := an.ConstString(info, b.X)
							if !ok || !strings.HasPrefix(s, "security:apikey") {
								continue
							}
							n++
							sel, isSel := an.Unparen(b.Y).(*ast.SelectorExpr)
							good := isSel && sel.Sel.Name == "SchemeName" && s == "security:apikey:"
							c.Check(good, rule, fmt.Sprintf("%s#%s", f.Name, an.Src(c.Fset, a)), call.Pos(), "scheme-specific lookup keyed by the scheme's own name", "the API-key tag is not composed of \"security:apikey:\" and the handled scheme's SchemeName")
						}
						return true
					})
				}
				return true
			})
		}
	}
	c.Floor(rule, n, 5, "API-key tag lookups inside scheme-specific arms")
}

// r067InheritanceAgreement (R06.7, shared with C01 and C12): the validator
// (MethodExpr.Validate) and the finalizer (MethodExpr.Finalize) each pick the
// security requirements that apply to a method - its own, else its service's,
// else the API's. Both walk the owners in one order. If they disagree the design
// is validated against one set of schemes and generated with another: a payload
// that lacks the attributes of the generated schemes is accepted, and the
// generators dereference what is not there.
func r067InheritanceAgreement(c *an.Ctx, rule string) {
	order := func(f *an.Func) []string {
		var out []string
		seen := map[string]bool{}
		c.InspectAll(f, func(_ *an.Func, nd ast.Node) bool { // the function and the helpers extracted from it
			// the owners are tested in if / else-if chains or in the arms of a tagless switch
			var cond ast.Expr
			switch x := nd.(type) {
			case *ast.IfStmt:
				cond = x.Cond
			case *ast.CaseClause:
				if len(x.List) == 1 {
					cond = x.List[0]
				}
			}
			if cond == nil {
				return true
			}
			cmp, ok := an.Unparen(cond).(*ast.BinaryExpr)
			if !ok || cmp.Op != token.GTR {
				return true
			}
			call, ok := an.Unparen(cmp.X).(*ast.CallExpr)
			if !ok || len(call.Args) != 1 {
				return true
			}
			se, ok := an.Unparen(call.Args[0]).(*ast.SelectorExpr)
			if !ok || se.Sel.Name != "Requirements" {
				return true
			}
			owner := an.Src(c.Fset, se.X)
			// normalise the receiver name away
			if i := strings.Index(owner, "."); i >= 0 && !strings.HasPrefix(owner, "Root") {
				owner = "method" + owner[i:]
			} else if !strings.HasPrefix(owner, "Root") {
				owner = "method"
			}
			if !seen[owner] {
				seen[owner] = true
				out = append(out, owner)
			}
			return true
		})
		return out
	}
	v, fz := c.MustFunc(rule, "expr", "MethodExpr.Validate"), c.MustFunc(rule, "expr", "MethodExpr.Finalize")
	if v == nil || fz == nil {
		return
	}
	ov, of := order(v), order(fz)
	// Finalize tests its own list with == 0 first; compare the inherited owners only
	strip := func(xs []string) []string {
		var out []string
		for _, x := range xs {
			if x != "method" {
				out = append(out, x)
			}
		}
		return out
	}
	a, b := strings.Join(strip(ov), " > "), strings.Join(strip(of), " > ")
	c.Check(a == b && a != "", rule, "expr.MethodExpr#requirement inheritance", v.Decl.Pos(), "validator and finalizer inherit requirements in the same order ("+a+")",
		"the validator inherits requirements in the order "+a+" but the finalizer in the order "+b+": a design is validated against one owner's schemes and generated with another's")
}

// flagSetUnderNoKind: the boolean variable id is assigned true somewhere, and
// every such assignment is dominated by a successful `<x>.Kind == NoKind` test.
// trueOnlyUnderNoKind: h returns a boolean, and every `return true` (or return of a flag only set under the
// test) is dominated by a comparison of a scheme kind with NoKind that holds.
func trueOnlyUnderNoKind(h *an.Func) bool {
	info := h.Pkg.TypesInfo
	if h.Decl.Type.Results == nil || len(h.Decl.Type.Results.List) != 1 {
		return false
	}
	g := an.NewCFG(info, h.Decl.Body)
	trues := 0
	for _, r := range g.ReturnLocs() {
		if r.Idx >= len(r.Block.Nodes) {
			continue
		}
		rs, ok := r.Block.Nodes[r.Idx].(*ast.ReturnStmt)
		if !ok || len(rs.Results) != 1 {
			return false
		}
		if v, isConst := an.ConstBool(info, rs.Results[0]); isConst {
			if !v {
				continue
			}
			under := false
			for _, fct := range g.DominatingFacts(r) {
				if be, ok := an.Unparen(fct.Cond).(*ast.BinaryExpr); ok && be.Op == token.EQL && fct.Holds {
					if strings.HasSuffix(types.ExprString(be.Y), "NoKind") || strings.HasSuffix(types.ExprString(be.X), "NoKind") {
						under = true
					}
				}
			}
			if !under {
				return false
			}
			trues++
			continue
		}
		if id, ok := an.Unparen(rs.Results[0]).(*ast.Ident); ok && flagSetUnderNoKind(g, info, id) {
			trues++
			continue
		}
		return false
	}
	return trues > 0
}

func flagSetUnderNoKind(g *an.CFG, info *types.Info, id *ast.Ident) bool {
	o := info.Uses[id]
	if o == nil {
		return false
	}
	sets, all := 0, true
	for _, b := range g.Live() {
		for i, n := range b.Nodes {
			as, ok := n.(*ast.AssignStmt)
			if !ok || len(as.Lhs) != 1 || len(as.Rhs) != 1 || an.ObjOf(info, as.Lhs[0]) != o {
				continue
			}
			if v, isConst := an.ConstBool(info, as.Rhs[0]); !isConst || !v {
				continue
			}
			sets++
			under := false
			for _, fct := range g.DominatingFacts(an.Loc{Block: b, Idx: i}) {
				if be, ok := an.Unparen(fct.Cond).(*ast.BinaryExpr); ok && be.Op == token.EQL && fct.Holds {
					if strings.HasSuffix(types.ExprString(be.Y), "NoKind") || strings.HasSuffix(types.ExprString(be.X), "NoKind") {
						under = true
					}
				}
			}
			if !under {
				all = false
			}
		}
	}
	return sets > 0 && all
}
