package props

import (
	"fmt"
	"go/ast"
	"go/token"
	"go/types"
	"regexp"
	"strings"

	"goacheck/an"
)

func init() { Registry["C05"] = runC05 }

const explanationC05 = "Decides structural necessary conditions of C05: (R05.1) the generated error encoder falls back to the default encoder for undeclared errors and for errors without a name, and every declared arm returns (template parse tree); (R05.2/R05.3) the default error encoder writes exactly one response per path in the order negotiate-encoder ≺ formatter ≺ WriteHeader(status of the formatted response) ≺ Encode, and every encodeError in the handler template is followed by return; (R05.4) the default HTTP status table over all flag vectors × special name; (R05.5) non-service errors are re-encoded as goa.Fault in both transports and the error constructors pass the documented (timeout, temporary, fault) triples to fields of the same name; (R05.6) like-named field fidelity of the wire forms; (R05.7) the validation/decoding error constructors are permanent errors with the standard names; (R05.8) the error name→response table built by HTTPEndpointExpr.Prepare has no stale search flag, and the goa-error header constant is shared by encoder and decoder templates; (R05.9) no template range body (error arms, response arms) replaces its element by a constant index into the collection it iterates; (R05.10) error attributes in headers/cookies use the wire name on both sides (shared R02.4); shared R15.1 (client codec choice) and R18.1 (merging never drops a recorded error). shared R02.1 (copies of a mapped attribute keep both name tables inverse of each other: inherited error responses keep their header/cookie names). (R05.11) no status is assigned to a response after its DSL function has run (shared with C03). (R05.12) every scoped Error(name) lookup searches its own errors before it asks the enclosing scope, and the API level last. NOT decided: name-based dispatch for arbitrary designs end to end (needs execution of generated code), equality of attribute values across the wire."

func runC05(c *an.Ctx) string {
	r05ErrorEncoder(c)
	statusCodeTable(c, "R05.4")
	errorFieldFidelity(c, "R05.6")
	r05Constructors(c)
	r05Prepare(c)
	r05Templates(c)
	r024WireKeys(c, "R05.10")     // error attributes in headers/cookies use the wire name on both sides (shared with C02/C03)
	r15ResponseDecoder(c)         // shared with C15 (rule id R15.1): the client decodes the error body with the codec of the announced type
	r181MergeErrors(c)            // shared with C18 (rule id R18.1): merging never drops an error already recorded
	r021NameTables(c)             // shared with C02 (rule id R02.1): an inherited error response keeps its attribute→header/cookie renames when it is copied
	dslDefaultStatus(c, "R05.11") // shared with C03/R03.1: the default status of an error response (400) never overwrites a Code() set in its DSL
	r0512ScopedLookup(c, "R05.12")
	return explanationC05
}

func r05ErrorEncoder(c *an.Ctx) {
	const rule = "R05.3"
	f := c.MustFunc(rule, "http", "ErrorEncoder")
	if f == nil {
		return
	}
	rf := anon(c.SSAFunc(f), 0) // the request function: a closure, or a declared function/method used as a value
	t := tableFn(c, rf, 0)
	if t == nil {
		c.Undecidedf(rule, f.Name+"$request", f.Decl.Pos(), "cannot table the request closure")
		return
	}
	// its parameters by role (a method has its receiver first)
	pctx, pw, perr := "", "", ""
	for i, prm := range rf.Params {
		switch prm.Type().String() {
		case "context.Context":
			pctx = fmt.Sprintf("p%d", i)
		case "net/http.ResponseWriter":
			pw = fmt.Sprintf("p%d", i)
		case "error":
			perr = fmt.Sprintf("p%d", i)
		}
	}
	if pctx == "" || pw == "" || perr == "" {
		c.Undecidedf(rule, f.Name+"$request", f.Decl.Pos(), "the request function does not take (context, response writer, error)")
		return
	}
	// the two function values it calls, whatever holds them (captured variables, fields of the receiver)
	reEnc := regexp.MustCompile(`^dyn:([^()]+)\(` + pctx + `, ` + pw + `\)$`)
	reFmt := regexp.MustCompile(`^dyn:([^()]+)\(` + pctx + `, ` + perr + `\)$`)
	var probs []string
	for i := range t.Paths {
		p := &t.Paths[i]
		enc, fm, wh, encode := -1, -1, -1, -1
		nWH := 0
		var whArg, encCall, fmtCall string
		for j, cl := range p.CallEffects() {
			switch {
			case reEnc.MatchString(cl) && encCall == "":
				enc, encCall = j, cl
			case reFmt.MatchString(cl) && fmtCall == "":
				fm, fmtCall = j, cl
			case strings.HasPrefix(cl, pw+".WriteHeader("):
				wh = j
				nWH++
				whArg = strings.TrimSuffix(strings.TrimPrefix(cl, pw+".WriteHeader("), ")")
			case encCall != "" && strings.HasPrefix(cl, encCall+".Encode("):
				encode = j
				if cl != encCall+".Encode("+fmtCall+")" {
					probs = append(probs, "the body encoded is not the formatted error response: "+cl)
				}
			}
		}
		if nWH != 1 {
			probs = append(probs, fmt.Sprintf("WriteHeader is called %d times", nWH))
		}
		if !(enc >= 0 && enc < wh && fm >= 0 && fm < wh && wh < encode) {
			probs = append(probs, fmt.Sprintf("order encoder(%d), formatter(%d) ≺ WriteHeader(%d) ≺ Encode(%d) violated", enc, fm, wh, encode))
		}
		if fmtCall == "" || whArg != fmtCall+".StatusCode()" {
			probs = append(probs, "the status written is "+whArg+", not the status of the formatted response")
		}
		if len(p.Ret) != 1 || encCall == "" || !strings.HasPrefix(p.Ret[0], encCall+".Encode(") {
			probs = append(probs, "the encoding error is not returned")
		}
		for _, e := range p.Effects {
			if e.Kind == "store" && (strings.HasPrefix(e.Term, "free:") || strings.HasPrefix(e.Term, "p0.")) {
				probs = append(probs, "the request function assigns shared state "+e.Term)
			}
		}
	}
	report(c, rule, f.Name+"$request", f, probs, "exactly one response: negotiate encoder (sets Content-Type) and format ≺ WriteHeader(formatted status) ≺ Encode(formatted response)")
	// the default formatter is NewErrorResponse
	ot := tableFn(c, c.SSAFunc(f), 0)
	ok := false
	if ot != nil {
		for _, p := range ot.Paths {
			for _, a := range p.Atoms {
				if a.Term == "(p1 == nil)" && a.Val {
					for k, v := range p.Mem {
						if strings.HasPrefix(k, "&local:") && v == "http.NewErrorResponse" {
							ok = true
						}
					}
				}
			}
		}
	}
	c.Check(ok, "R05.5", f.Name+"#default-formatter", f.Decl.Pos(), "a nil formatter defaults to NewErrorResponse (chosen once, outside the request closure)", "the nil-formatter default to NewErrorResponse is not established when the encoder is built")
}

func r05Constructors(c *an.Ctx) {
	const rule = "R05.5"
	triples := map[string]string{
		"Fault": "false, false, true", "PermanentError": "false, false, false", "TemporaryError": "false, true, false",
		"PermanentTimeoutError": "true, false, false", "TemporaryTimeoutError": "true, true, false",
	}
	// each constructor, with newError entered, builds a ServiceError whose Name is the name it was given and
	// whose flags are the documented constants (however the flags travel to newError: three booleans, a
	// struct, a bit set); the ID is fresh and the message formatted from format and arguments
	for _, name := range sortedKeys(triples) {
		f := c.MustFunc(rule, "pkg", name)
		if f == nil {
			continue
		}
		t := an.BuildPathTable(c.SSAFunc(f), an.PathOpts{Inline: map[string]bool{"pkg.newError": true}})
		c.Stats["paths_enumerated"] += len(t.Paths)
		c.Stats["functions_tabled"]++
		if t.Truncated || len(t.Paths) != 1 || len(t.Paths[0].Ret) != 1 {
			c.Undecidedf(rule, f.Name, f.Decl.Pos(), "the constructor is not a single path returning one value (%d paths)", len(t.Paths))
			continue
		}
		p := &t.Paths[0]
		want := strings.Split(triples[name], ", ")
		wantName, fmtParam := "p0", "p1"
		if name == "Fault" {
			wantName, fmtParam = `"fault"`, "p0"
		}
		var probs []string
		for i, fld := range []string{"Timeout", "Temporary", "Fault"} {
			v, _ := p.Field(p.Ret[0], fld)
			if v == "" {
				v = "false" // a field the literal does not mention keeps its zero value
			}
			if v != want[i] {
				probs = append(probs, fmt.Sprintf("%s = %s, documented %s", fld, v, want[i]))
			}
		}
		if v, _ := p.Field(p.Ret[0], "Name"); v != wantName {
			probs = append(probs, "Name is "+v)
		}
		if v, _ := p.Field(p.Ret[0], "Message"); !strings.HasPrefix(v, "fmt.Sprintf("+fmtParam+", ") {
			probs = append(probs, "Message is "+v)
		}
		if v, _ := p.Field(p.Ret[0], "ID"); v != "pkg.NewErrorID()" {
			probs = append(probs, "ID is "+v)
		}
		report(c, rule, f.Name, f, probs, "builds a ServiceError named as asked with (timeout, temporary, fault) = ("+triples[name]+"), a fresh ID and the formatted message")
	}
	if f, t := tableOf(c, rule, "pkg", "NewServiceError", 0); t != nil {
		p := &t.Paths[0]
		var probs []string
		for fld, want := range map[string]string{"Name": "p1", "Timeout": "p2", "Temporary": "p3", "Fault": "p4", "err": "p0", "Message": "p0.Error()"} {
			if v, _ := p.Field(p.Ret[0], fld); v != want {
				probs = append(probs, fmt.Sprintf("%s is initialised from %q", fld, v))
			}
		}
		report(c, rule, f.Name, f, probs, "name and flags reach the fields of the same name; the cause is kept")
	}
	// R05.7 standard names of decoding / validation errors: all permanent (400-class) errors
	std := map[string]string{
		"MissingPayloadError": "missing_payload", "DecodePayloadError": "decode_payload", "InvalidFieldTypeError": "invalid_field_type",
		"MissingFieldError": "missing_field", "InvalidEnumValueError": "invalid_enum_value", "InvalidFormatError": "invalid_format",
		"InvalidPatternError": "invalid_pattern", "InvalidRangeError": "invalid_range", "InvalidLengthError": "invalid_length",
		"UnsupportedMediaTypeError": "unsupported_media_type",
	}
	re := regexp.MustCompile(`pkg\.PermanentError\("([a-z_]+)", `)
	for _, name := range sortedKeys(std) {
		f, t := tableOf(c, "R05.7", "pkg", name, 0)
		if t == nil {
			continue
		}
		ok := len(t.Paths) >= 1
		got := ""
		for _, p := range t.Paths {
			if len(p.Ret) != 1 {
				ok = false
				continue
			}
			m := re.FindStringSubmatch(p.Ret[0])
			if m == nil || m[1] != std[name] {
				ok = false
				got = p.Ret[0]
			}
		}
		c.Check(ok, "R05.7", f.Name, f.Decl.Pos(), "permanent (client) error named "+std[name], "expected a PermanentError named "+std[name]+", got "+got)
	}
}

func r05Prepare(c *an.Ctx) {
	const rule = "R05.8"
	n := 0
	for _, f := range c.AllFuncs("expr") {
		if !strings.HasPrefix(f.Name, "expr.HTTPEndpointExpr.") && !strings.HasPrefix(f.Name, "expr.HTTPErrorExpr.") && !strings.HasPrefix(f.Name, "expr.HTTPServiceExpr.") {
			continue
		}
		n++
		for _, h := range an.AllLints(f) {
			c.Failf(rule, h.Construct, h.Pos, "%s (error name→response resolution: later errors get no response mapping or the wrong one)", h.Msg)
		}
	}
	c.Okf(rule, "expr.HTTP*Expr#flags", "%d methods scanned: error name→response resolution shows none of the control-flow defect patterns (stale flag, abandoned loop, …)", n)
	c.Floor(rule, n, 20, "HTTP expression methods")
}

func r05Templates(c *an.Ctx) {
	// R05.1 error_encoder.go.tpl: default arm and !errors.As branch fall back to encodeError; arms return
	tpl, err := c.TplFile("http/codegen/templates/error_encoder.go.tpl")
	if err != nil {
		c.Add(an.Obligation{Rule: "R05.1", Construct: "http/codegen/templates/error_encoder.go.tpl", Status: an.LOST, Detail: err.Error()})
	} else {
		txt := an.TplText(tpl.Tree.Root)
		var probs []string
		if !regexp.MustCompile(`if !errors\.As\(v, &en\) \{\s*return encodeError\(ctx, w, v\)`).MatchString(txt) {
			probs = append(probs, "errors that carry no goa error name are not handed to the default encoder")
		}
		if !regexp.MustCompile(`switch en\.GoaErrorName\(\) \{`).MatchString(txt) {
			probs = append(probs, "dispatch is not on GoaErrorName()")
		}
		if !regexp.MustCompile(`default:\s*return encodeError\(ctx, w, v\)`).MatchString(txt) {
			probs = append(probs, "undeclared error names do not fall back to the default encoder")
		}
		c.Check(len(probs) == 0, "R05.1", tpl.Name, 0, "undeclared errors (no name, or unknown name) fall back to the default error encoder", strings.Join(probs, "; "))
	}
	// R05.8 goa-error header constant agreement between writer and reader templates
	var writers, readers []string
	for _, file := range c.TplDir("http/codegen/templates") {
		t, err := c.TplFile(file)
		if err != nil {
			continue
		}
		txt := an.TplText(t.Tree.Root)
		if regexp.MustCompile(`w\.Header\(\)\.Set\("goa-error"`).MatchString(txt) {
			writers = append(writers, file)
		}
		if regexp.MustCompile(`resp\.Header\.Get\("goa-error"\)`).MatchString(txt) {
			readers = append(readers, file)
		}
	}
	tplRangeIndexRule(c, "R05.9", "http/codegen/templates")
	c.Check(len(writers) > 0 && len(readers) > 0, "R05.8", "goa-error header", 0, fmt.Sprintf("the error name crosses the wire under one header constant (written by %v, read by %v)", writers, readers),
		fmt.Sprintf("goa-error header writers=%v readers=%v", writers, readers))
}

// r0512ScopedLookup (R05.12): an error name is resolved from the innermost scope outwards: a method's own errors,
// then its service's, then the API's. Each Error(name) lookup of package expr searches its own list first and only
// then asks the enclosing scope: the range over the own list dominates the call that delegates outwards. The other
// order lets an API-level error of the same name shadow the service's (another type, another status): the generated
// encoder then matches the wrong error type and the declared error no longer reaches the client.
func r0512ScopedLookup(c *an.Ctx, rule string) {
	n := 0
	for _, f := range c.AllFuncs("expr") {
		if f.Decl.Recv == nil || f.Decl.Name.Name != "Error" || f.Decl.Type.Params.NumFields() != 1 {
			continue
		}
		if res := f.Decl.Type.Results; res == nil || len(res.List) != 1 || !strings.HasSuffix(types.ExprString(res.List[0].Type), "ErrorExpr") {
			continue
		}
		info := f.Pkg.TypesInfo
		g := an.NewCFG(info, f.Decl.Body)
		var loops, outward []an.Loc
		var outPos token.Pos
		ast.Inspect(f.Decl.Body, func(nd ast.Node) bool {
			switch x := nd.(type) {
			case *ast.RangeStmt:
				if fv := an.FieldOf(info, x.X); fv != nil && an.CanonFieldName(fv) == "Errors" {
					// go/cfg keeps the range expression in the block before the loop
					if loc, ok := g.LocOf(x.X); ok {
						loops = append(loops, loc)
					}
				}
			case *ast.CallExpr:
				if se, ok := an.Unparen(x.Fun).(*ast.SelectorExpr); ok && se.Sel.Name == "Error" && len(x.Args) == 1 {
					if loc, ok := g.LocOf(x); ok {
						if root := an.RootIdent(se.X); root != nil && an.CanonGlobalNameOf(info, root) == "Root" {
							// the outermost scope: the API
							outward = append(outward, loc)
							outPos = x.Pos()
						} else {
							// a narrower scope that searches its own list first (checked on its own)
							loops = append(loops, loc)
						}
					}
				}
			}
			return true
		})
		if len(loops) == 0 && len(outward) == 0 {
			continue
		}
		n++
		ok := true
		for _, o := range outward {
			first := false
			for _, l := range loops {
				if g.LocDominates(l, o) && l != o {
					first = true
				}
			}
			if !first {
				ok = false
			}
		}
		c.Check(ok, rule, c.RefName(f)+"#precedence", outPos, "the own errors are searched before the enclosing scope is asked", "the lookup asks the enclosing scope before (or without) searching its own errors: an outer error of the same name shadows the inner one")
	}
	c.Floor(rule, n, 4, "scoped Error(name) lookups in package expr")
}
