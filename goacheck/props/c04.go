package props

import (
	"fmt"
	"go/ast"
	"go/parser"
	"go/token"
	"go/types"
	"regexp"
	"sort"
	"strings"
	"text/template/parse"

	"golang.org/x/tools/go/cfg"
	"golang.org/x/tools/go/ssa"

	"goacheck/an"
)

func init() { Registry["C04"] = runC04 }

const explanationC04 = "Decides structural necessary conditions of C04: (R04.1) in every expanded variant of the generated handler the endpoint call is reached only through decodeRequest followed by `if err != nil { encodeError…; return }`, and the runtime gRPC handlers have the same gate (shared with C10/R10.3); (R04.2) the generated request decoder returns the accumulated validation error before building the payload; (R04.3) keyword semantics — each of the six numeric/length keyword templates, expanded under the flags its execute site fixes, emits the comparison, bound and lower/upper flag that the keyword names (inclusive `<`/`>`, exclusive `<=`/`>=`, rune count for strings, len otherwise); (R04.4) at every template execute site of validationCode the flags the template branches on have one definite value on all paths (reaching-constants over the data map), and every key printed by the selected branches is definitely present; (R04.5) every ValidationExpr field is consumed by the validation generator, Dup, Merge and HasRequiredOnly; (R04.6) Merge treats lower-bound-like and upper-bound-like keywords consistently; (R04.7) recursion covers objects, arrays, maps and unions; (R04.8) the loops that merge required lists visit every element; keyword blocks are independent (not else-chained); (R04.9) the must-validate decisions of the HTTP data builder consult each collection they built and accumulate (never 'last element wins'); (R04.10) runtime validators (shared with C17); (R04.11) References are inherited and Bases merged by every implementation; (R04.12) alias flattening keeps and merges validations into the attribute; (R04.13) generated decoders never plainly assign the error accumulator after a merge; (R04.14) the required flag is propagated for every element of a Finalize loop; shared rules R17.1 (format vocabulary) and R18.1 (merged validation errors keep their class). shared R13.6 (ValidationExpr.Dup carries each keyword to the like-named field). (R04.15) required flags are looked up under the key they were stored with (shared with C07/R07.8). shared R14.8 (codegen.Walk visits every child of arrays and maps). NOT decided: that the emitted Validate functions accept exactly the valid values for every attribute shape (needs execution of generated code)."

func runC04(c *an.Ctx) string {
	r04ValidationTemplates(c)
	r045Consumes(c)
	r046Merge(c)
	r047Recursion(c)
	r048Loops(c)
	r049MustValidate(c)
	r041HandlerGate(c)
	r171Vocabulary(c)     // shared with C17 (rule id R17.1): the generated validator names the format the design declared
	r172ValidateFormat(c) // R04.10: runtime format validators (rule ids R17.2/R17.3)
	aliasFlattening(c, "R04.12")
	requiredPropagationRule(c, "R04.14", "expr")
	r078RequiredKeys(c, "R04.15", []string{"expr", "http/codegen"}) // shared with C07/R07.8 and C02/R02.6: a required flag looked up under the wrong key (the "attr:elem" pair instead of the attribute name) reads false, the decoder has no missing-field check and user code runs
	errAccumulatorRule(c, "R04.13", "http/codegen/templates/partial/request_elements.go.tpl", "http/codegen/templates/request_decoder.go.tpl", "http/codegen/templates/response_decoder.go.tpl", "http/codegen/templates/partial/single_response.go.tpl")
	r028RefsAndBases(c, "R04.11") // shared with C02/R02.8: a Reference must not drag the referenced type's validations in
	r181MergeErrors(c)            // shared with C18 (rule id R18.1): merged validation errors stay 400-class (Fault only if both are)
	r148WalkChildren(c, "R14.8")  // shared with C14: the traversal that decides whether a type has validations visits array elements and map keys and elements on every path
	r136Exhaustive(c)             // shared with C13 (rule id R13.6): the copy of a validation that the HTTP types are built from carries every keyword to the field of the same name
	return explanationC04
}

// templateVars maps the package-level *template.Template variables of package
// codegen to the string constants they parse (from the init function).
func templateVars(c *an.Ctx, dir string) map[types.Object]string {
	out := map[types.Object]string{}
	p := c.Pkg(dir)
	if p == nil {
		return out
	}
	for _, f := range c.AllFuncs(dir) {
		if f.Obj.Name() != "init" {
			continue
		}
		ast.Inspect(f.Decl.Body, func(n ast.Node) bool {
			as, ok := n.(*ast.AssignStmt)
			if !ok || len(as.Lhs) != 1 || len(as.Rhs) != 1 {
				return true
			}
			lhs := an.ObjOf(p.TypesInfo, as.Lhs[0])
			if lhs == nil || lhs.Parent() != p.Types.Scope() {
				return true
			}
			for _, call := range an.AllCallsIn(as.Rhs[0]) {
				if se, ok := an.Unparen(call.Fun).(*ast.SelectorExpr); ok && se.Sel.Name == "Parse" && len(call.Args) == 1 {
					if o := an.ObjOf(p.TypesInfo, call.Args[0]); o != nil {
						if _, isConst := o.(*types.Const); isConst {
							out[lhs] = o.Name()
						}
					}
				}
			}
			// through a parsing helper: the variable is assigned the *template.Template result of a call
			// one of whose arguments is a package-level string constant (the template source)
			if _, done := out[lhs]; !done && strings.HasSuffix(lhs.Type().String(), "template.Template") {
				if call, ok := an.Unparen(as.Rhs[0]).(*ast.CallExpr); ok {
					var consts []types.Object
					for _, a := range call.Args {
						if o := an.ObjOf(p.TypesInfo, a); o != nil {
							if k, isConst := o.(*types.Const); isConst && k.Parent() == p.Types.Scope() {
								consts = append(consts, o)
							}
						}
					}
					if len(consts) == 1 {
						out[lhs] = consts[0].Name()
					}
				}
			}
			return true
		})
		// table form: a row (composite literal) that holds the address of one template variable and one
		// package-level string constant, filled by a loop `*row.dest = template.Must(…Parse(row.source))`
		ast.Inspect(f.Decl.Body, func(n ast.Node) bool {
			cl, ok := n.(*ast.CompositeLit)
			if !ok {
				return true
			}
			var vars, consts []types.Object
			for _, el := range cl.Elts {
				v := el
				if kv, ok := el.(*ast.KeyValueExpr); ok {
					v = kv.Value
				}
				if u, ok := an.Unparen(v).(*ast.UnaryExpr); ok && u.Op == token.AND {
					if o := an.ObjOf(p.TypesInfo, u.X); o != nil && o.Parent() == p.Types.Scope() && strings.HasSuffix(o.Type().String(), "template.Template") {
						vars = append(vars, o)
					}
				}
				if o := an.ObjOf(p.TypesInfo, v); o != nil {
					if k, isConst := o.(*types.Const); isConst && k.Parent() == p.Types.Scope() {
						consts = append(consts, o)
					}
				}
			}
			if len(vars) == 1 && len(consts) == 1 {
				if _, done := out[vars[0]]; !done {
					out[vars[0]] = consts[0].Name()
				}
			}
			return true
		})
	}
	return out
}

// keyState is the abstract value of one data-map key.
type keyState map[string]bool // subset of {"absent","true","false","nonconst"}

type dataState map[string]keyState

func (s dataState) clone() dataState {
	n := dataState{}
	for k, v := range s {
		nv := keyState{}
		for x := range v {
			nv[x] = true
		}
		n[k] = nv
	}
	return n
}

func (s dataState) join(o dataState) bool {
	changed := false
	for k, v := range o {
		if s[k] == nil {
			s[k] = keyState{"absent": true}
			changed = true
		}
		for x := range v {
			if !s[k][x] {
				s[k][x] = true
				changed = true
			}
		}
	}
	for k := range s {
		if o[k] == nil && !s[k]["absent"] {
			s[k]["absent"] = true
			changed = true
		}
	}
	return changed
}

type tplSite struct {
	call    *ast.CallExpr
	tplName string
	state   dataState
	pos     token.Pos
}

// dataKeySites runs the reaching-constants analysis on f for map variable
// named by the composite literal of type map[string]any and returns the state
// at each runTemplate(T, data) call.
func dataKeySites(c *an.Ctx, f *an.Func, tvars map[types.Object]string) []tplSite {
	info := f.Pkg.TypesInfo
	g := an.NewCFG(info, f.Decl.Body)
	// find the data variable: assigned from a map[string]any composite literal
	var dataObj types.Object
	var initLit *ast.CompositeLit
	ast.Inspect(f.Decl.Body, func(n ast.Node) bool {
		as, ok := n.(*ast.AssignStmt)
		if !ok || len(as.Lhs) != 1 || len(as.Rhs) != 1 {
			return true
		}
		cl, ok := an.Unparen(as.Rhs[0]).(*ast.CompositeLit)
		if !ok {
			return true
		}
		if tv, ok := info.Types[cl]; ok {
			if m, isMap := tv.Type.Underlying().(*types.Map); isMap && types.Identical(m.Key(), types.Typ[types.String]) && dataObj == nil {
				dataObj = an.ObjOf(info, as.Lhs[0])
				initLit = cl
			}
		}
		return true
	})
	if dataObj == nil {
		return nil
	}
	valueOf := func(e ast.Expr) string {
		if b, ok := an.ConstBool(info, e); ok {
			if b {
				return "true"
			}
			return "false"
		}
		return "nonconst"
	}
	transfer := func(st dataState, n ast.Node) {
		an.WalkNoFuncLit(n, func(x ast.Node) bool {
			switch s := x.(type) {
			case *ast.AssignStmt:
				for i, l := range s.Lhs {
					if cl, ok := an.Unparen(s.Rhs[min(i, len(s.Rhs)-1)]).(*ast.CompositeLit); ok && cl == initLit && an.ObjOf(info, l) == dataObj {
						for k := range st {
							delete(st, k)
						}
						for _, el := range cl.Elts {
							if kv, ok := el.(*ast.KeyValueExpr); ok {
								if key, ok := an.ConstString(info, kv.Key); ok {
									st[key] = keyState{valueOf(kv.Value): true}
								}
							}
						}
						continue
					}
					ix, ok := an.Unparen(l).(*ast.IndexExpr)
					if !ok || an.ObjOf(info, ix.X) != dataObj {
						continue
					}
					key, ok := an.ConstString(info, ix.Index)
					if !ok {
						continue
					}
					if i < len(s.Rhs) {
						st[key] = keyState{valueOf(s.Rhs[i]): true}
					}
				}
			case *ast.CallExpr:
				if id, ok := an.Unparen(s.Fun).(*ast.Ident); ok && id.Name == "delete" && len(s.Args) == 2 && an.ObjOf(info, s.Args[0]) == dataObj {
					if key, ok := an.ConstString(info, s.Args[1]); ok {
						st[key] = keyState{"absent": true}
					}
				}
			}
			return true
		})
	}
	in := map[*cfg.Block]dataState{}
	visited := map[*cfg.Block]bool{g.Entry(): true}
	in[g.Entry()] = dataState{}
	for changed := true; changed; {
		changed = false
		for _, b := range g.Live() {
			if !visited[b] {
				continue
			}
			st := in[b].clone()
			for _, n := range b.Nodes {
				transfer(st, n)
			}
			for _, s := range b.Succs {
				if !visited[s] {
					visited[s] = true
					in[s] = st.clone()
					changed = true
				} else if in[s].join(st) {
					changed = true
				}
			}
		}
	}
	var sites []tplSite
	for _, b := range g.Live() {
		st := in[b].clone()
		for _, n := range b.Nodes {
			for _, call := range an.CallsIn(n) {
				// an execute site: T.Execute(&buf, data), or a call that hands template T and the data map to a
				// runner — helper(T, data), or a local closure over the data map called with T
				var tArg ast.Expr
				hasData := false
				for _, a := range call.Args {
					if an.ObjOf(info, a) == dataObj {
						hasData = true
					}
				}
				if se, ok := an.Unparen(call.Fun).(*ast.SelectorExpr); ok && se.Sel.Name == "Execute" && hasData {
					tArg = se.X
				} else {
					if !hasData {
						if lit := localClosure(info, f.Decl.Body, call.Fun); lit != nil {
							ast.Inspect(lit.Body, func(x ast.Node) bool {
								if id, ok := x.(*ast.Ident); ok && info.Uses[id] == dataObj {
									hasData = true
								}
								return true
							})
						}
					}
					if hasData {
						for _, a := range call.Args {
							if _, ok := tvars[an.ObjOf(info, a)]; ok {
								tArg = a
							}
						}
					}
				}
				if tArg == nil {
					continue
				}
				if name, ok := tvars[an.ObjOf(info, tArg)]; ok {
					sites = append(sites, tplSite{call: call, tplName: name, state: st.clone(), pos: call.Pos()})
				}
			}
			transfer(st, n)
		}
	}
	sort.Slice(sites, func(i, j int) bool { return sites[i].pos < sites[j].pos })
	return sites
}

// localClosure returns the function literal a local variable (the callee expression fun) is defined as, nil if
// fun is not such a variable.
func localClosure(info *types.Info, body ast.Node, fun ast.Expr) *ast.FuncLit {
	id, ok := an.Unparen(fun).(*ast.Ident)
	if !ok {
		return nil
	}
	if _, isVar := info.Uses[id].(*types.Var); !isVar {
		return nil
	}
	lit, _ := an.Unparen(an.ResolveLocal(info, body, id)).(*ast.FuncLit)
	return lit
}

type kwSpec struct {
	op    string
	bound string
	lower string // "true" for lower bounds
}

var keywordTable = map[string]kwSpec{
	"exclMin": {"<=", "exclMin", "true"}, "min": {"<", "min", "true"},
	"exclMax": {">=", "exclMax", "false"}, "max": {">", "max", "false"},
	"minLength": {"<", "minLength", "true"}, "maxLength": {">", "maxLength", "false"},
}

func r04ValidationTemplates(c *an.Ctx) {
	f := c.MustFunc("R04.4", "codegen", "validationCode")
	if f == nil {
		return
	}
	tvars := templateVars(c, "codegen")
	sites := dataKeySites(c, f, tvars)
	c.Floor("R04.4", len(sites), 9, "template execute sites in validationCode")
	reRange := regexp.MustCompile(`if ‹\.targetVal› (<=|>=|<|>) ‹\.(\w+)› \{`)
	reLen := regexp.MustCompile(`if (utf8\.RuneCountInString|len)\(‹[^›]*›\) (<=|>=|<|>) ‹\.(\w+)› \{`)
	reErr := regexp.MustCompile(`goa\.Invalid(Range|Length)Error\("‹\.context›", ‹[^›]*›, (?:(?:utf8\.RuneCountInString|len)\(‹[^›]*›\), )?‹\.(\w+)›, (true|false)\)`)
	kwSeen := map[string]bool{}
	for _, s := range sites {
		tpl, err := c.TplConst("codegen", s.tplName)
		if err != nil {
			c.Add(an.Obligation{Rule: "R04.4", Construct: "codegen." + s.tplName, Status: an.LOST, Detail: err.Error()})
			continue
		}
		// which keyword does this site serve: the bound key assigned (definitely present, nonconst) among the table
		kw := ""
		info := f.Pkg.TypesInfo
		// nearest preceding store of a keyword key in the same enclosing if-statement
		g := an.NewCFG(info, f.Decl.Body)
		_ = g
		var encl *ast.IfStmt
		ast.Inspect(f.Decl.Body, func(n ast.Node) bool {
			if is, ok := n.(*ast.IfStmt); ok && is.Body.Pos() <= s.call.Pos() && s.call.End() <= is.Body.End() {
				if encl == nil || is.Pos() > encl.Pos() {
					encl = is
				}
			}
			return true
		})
		if encl != nil {
			ast.Inspect(encl.Body, func(n ast.Node) bool {
				as, ok := n.(*ast.AssignStmt)
				if !ok {
					return true
				}
				for _, l := range as.Lhs {
					if ix, ok := an.Unparen(l).(*ast.IndexExpr); ok {
						if key, ok := an.ConstString(info, ix.Index); ok {
							if _, isKw := keywordTable[key]; isKw && as.Pos() < s.call.Pos() {
								kw = key
							}
						}
					}
				}
				return true
			})
		}
		construct := fmt.Sprintf("%s@%s", s.tplName, c.Position(s.pos))
		if kw != "" {
			construct = fmt.Sprintf("%s[%s]", s.tplName, kw)
		}
		// R04.4 definite flags
		atoms := an.TplAtoms(tpl.Tree)
		bools := map[string]bool{}
		var indefinite []string
		for _, a := range atoms {
			if !strings.HasPrefix(a, ".") || strings.Contains(a, " ") {
				continue
			}
			key := strings.TrimPrefix(a, ".")
			st := s.state[key]
			truthy, falsy := st["true"] || st["nonconst"], st["false"] || st["absent"] || len(st) == 0
			if st["nonconst"] {
				// value decided at run time by the attribute (isPointer, string, array, map): both variants are legitimate
				bools[a] = true
				continue
			}
			switch {
			case truthy && falsy:
				indefinite = append(indefinite, fmt.Sprintf("%s may be %v", key, sortedKeys(st)))
			case truthy:
				bools[a] = true
			default:
				bools[a] = false
			}
		}
		if len(indefinite) > 0 {
			c.Failf("R04.4", construct, s.pos, "the template branches on a flag whose value depends on which other keyword blocks ran before: %s — the code emitted for this keyword is that of another keyword when both are present", strings.Join(indefinite, "; "))
		} else {
			c.Okf("R04.4", construct, "every flag the template branches on has one definite value at this execute site")
		}
		// R04.3 keyword semantics under the definite flags (both values of the run-time flags)
		spec, isKw := keywordTable[kw]
		if !isKw {
			continue
		}
		kwSeen[kw] = true
		if len(indefinite) > 0 {
			continue
		}
		var probs []string
		var runtimeAtoms []string
		for _, a := range atoms {
			if strings.HasPrefix(a, ".") && s.state[strings.TrimPrefix(a, ".")]["nonconst"] {
				runtimeAtoms = append(runtimeAtoms, a)
			}
		}
		for m := 0; m < 1<<len(runtimeAtoms); m++ {
			v := an.Variant{Bools: map[string]bool{}}
			for k, b := range bools {
				v.Bools[k] = b
			}
			for j, a := range runtimeAtoms {
				v.Bools[a] = m&(1<<j) != 0
			}
			res := an.ExpandTree(tpl.Tree, v)
			c.Stats["variants_expanded"]++
			text := res.Text
			var op, bound, fn string
			if mm := reRange.FindStringSubmatch(text); mm != nil {
				op, bound = mm[1], mm[2]
			} else if mm := reLen.FindStringSubmatch(text); mm != nil {
				fn, op, bound = mm[1], mm[2], mm[3]
			} else {
				probs = append(probs, "no comparison guard found in the expansion")
				continue
			}
			if op != spec.op || bound != spec.bound {
				probs = append(probs, fmt.Sprintf("guard is `value %s %s`, the keyword means `value %s %s`", op, bound, spec.op, spec.bound))
			}
			if em := reErr.FindStringSubmatch(text); em == nil {
				probs = append(probs, "no InvalidRangeError/InvalidLengthError call with the bound found")
			} else if em[2] != spec.bound || em[3] != spec.lower {
				probs = append(probs, fmt.Sprintf("the error reports bound %s as %s bound, expected %s as %s bound", em[2], map[string]string{"true": "lower", "false": "upper"}[em[3]], spec.bound, map[string]string{"true": "lower", "false": "upper"}[spec.lower]))
			}
			if strings.HasSuffix(kw, "Length") {
				wantFn := "len"
				if v.Bools[".string"] {
					wantFn = "utf8.RuneCountInString"
				}
				if fn != wantFn {
					probs = append(probs, fmt.Sprintf("length measured with %s, expected %s (string=%v)", fn, wantFn, v.Bools[".string"]))
				}
			}
			// R01.3: every key printed is definitely present
			for _, ph := range regexp.MustCompile(`‹\.(\w+)›`).FindAllStringSubmatch(text, -1) {
				if st := s.state[ph[1]]; len(st) == 0 || st["absent"] {
					probs = append(probs, fmt.Sprintf("the expansion prints .%s which may be absent from the data map at this site (<no value> in generated code)", ph[1]))
				}
			}
		}
		probs = dedupStrings(probs)
		if len(probs) > 0 {
			c.Failf("R04.3", construct, s.pos, "%s", strings.Join(probs[:min(3, len(probs))], " | "))
		} else {
			c.Okf("R04.3", construct, "emits `value %s %s` reported as %s bound in all %d variants", spec.op, spec.bound, map[string]string{"true": "lower", "false": "upper"}[spec.lower], 1<<len(runtimeAtoms))
		}
	}
	r04KeywordVariants(c, "R04.3")
	for _, kw := range sortedKeys(keywordTable) {
		if !kwSeen[kw] {
			c.Failf("R04.3", "codegen.validationCode#"+kw, f.Decl.Pos(), "no template execute site found for keyword %s", kw)
		}
	}
	keywordBlocksIndependent(c, "R04.8")
}

func r045Consumes(c *an.Ctx) {
	const rule = "R04.5"
	tn := an.P("expr") + ".ValidationExpr"
	var fields []string
	for _, fv := range an.StructFields(an.LookupType(c.Pkg("expr"), "ValidationExpr")) {
		fields = append(fields, fv.Name())
	}
	c.Floor(rule, len(fields), 10, "fields of ValidationExpr")
	type tr struct {
		name  string
		entry [2]string
		pkgs  []string
		skip  map[string]string
	}
	trs := []tr{
		{"validation code generator", [2]string{"codegen", "validationCode"}, []string{an.P("codegen")}, nil},
		{"ValidationExpr.Dup", [2]string{"expr", "ValidationExpr.Dup"}, []string{an.P("expr")}, nil},
		{"ValidationExpr.Merge", [2]string{"expr", "ValidationExpr.Merge"}, []string{an.P("expr")}, nil},
		{"ValidationExpr.HasRequiredOnly", [2]string{"expr", "ValidationExpr.HasRequiredOnly"}, []string{an.P("expr")}, map[string]string{"Required": "the predicate is about everything but Required"}},
	}
	for _, t := range trs {
		f := c.MustFunc(rule, t.entry[0], t.entry[1])
		if f == nil {
			continue
		}
		pk := map[string]bool{}
		for _, p := range t.pkgs {
			pk[p] = true
		}
		reads := an.FieldsReadBy(an.Reachable(c.SSAFunc(f)), tn, pk)
		var missing []string
		for _, fld := range fields {
			if _, skip := t.skip[fld]; skip {
				continue
			}
			if !reads[fld] {
				missing = append(missing, fld)
			}
		}
		c.Check(len(missing) == 0, rule, t.name, f.Decl.Pos(), fmt.Sprintf("consumes all %d validation keywords", len(fields)-len(t.skip)), "validation keywords never read: "+strings.Join(missing, ", ")+" — a design using them is silently not enforced / copied / merged")
	}
}

func r046Merge(c *an.Ctx) {
	const rule = "R04.6"
	f := c.MustFunc(rule, "expr", "ValidationExpr.Merge")
	if f == nil {
		return
	}
	info := f.Pkg.TypesInfo
	dirs := map[string]string{}
	ast.Inspect(f.Decl.Body, func(n ast.Node) bool {
		is, ok := n.(*ast.IfStmt)
		if !ok {
			return true
		}
		ast.Inspect(is.Cond, func(x ast.Node) bool {
			be, ok := x.(*ast.BinaryExpr)
			if !ok || (be.Op != token.LSS && be.Op != token.GTR && be.Op != token.LEQ && be.Op != token.GEQ) {
				return true
			}
			lf, rf := an.FieldOf(info, starArg(be.X)), an.FieldOf(info, starArg(be.Y))
			if lf == nil || rf == nil || lf != rf {
				return true
			}
			// orientation: receiver on the left
			op := be.Op.String()
			if paramIndex(f, an.RootIdent(be.X)) >= 0 { // `other` on the left: mirror
				op = map[string]string{"<": ">", ">": "<", "<=": ">=", ">=": "<="}[op]
			}
			dirs[lf.Name()] = op
			return true
		})
		return true
	})
	lower := []string{"Minimum", "ExclusiveMinimum", "MinLength"}
	upper := []string{"Maximum", "ExclusiveMaximum", "MaxLength"}
	group := func(names []string) (string, []string) {
		ops := map[string][]string{}
		for _, n := range names {
			ops[dirs[n]] = append(ops[dirs[n]], n)
		}
		var desc []string
		for op, ns := range ops {
			desc = append(desc, fmt.Sprintf("%v use %q", ns, op))
		}
		sort.Strings(desc)
		if len(ops) == 1 {
			for op := range ops {
				return op, desc
			}
		}
		return "", desc
	}
	lo, ld := group(lower)
	up, ud := group(upper)
	ok := lo != "" && up != "" && lo != up && len(dirs) >= 6
	c.Check(ok, rule, f.Name, f.Decl.Pos(), fmt.Sprintf("lower-bound keywords all merge with %q, upper-bound keywords all with %q", lo, up),
		fmt.Sprintf("bound keywords are merged in inconsistent directions: lower-like: %s; upper-like: %s — the effective validation depends on which keyword of a pair is used", strings.Join(ld, ", "), strings.Join(ud, ", ")))
}

func starArg(e ast.Expr) ast.Expr {
	if s, ok := an.Unparen(e).(*ast.StarExpr); ok {
		return s.X
	}
	return e
}

func r047Recursion(c *an.Ctx) {
	const rule = "R04.7"
	f := c.MustFunc(rule, "codegen", "recurseValidationCode")
	if f != nil {
		info := f.Pkg.TypesInfo
		preds := map[string]bool{}
		for _, call := range an.AllCallsIn(f.Decl.Body) {
			name := an.CalleeName(info, call)
			for _, p := range []string{"IsObject", "IsArray", "IsMap", "IsUnion"} {
				if name == an.P("expr")+"."+p {
					preds[p] = true
				}
			}
		}
		recursive := 0
		for _, call := range an.AllCallsIn(f.Decl.Body) {
			name := an.CalleeName(info, call)
			if name == an.P("codegen")+".recurseValidationCode" || name == an.P("codegen")+".validateAttribute" || name == an.P("codegen")+".recurseAttribute" {
				recursive++
			}
		}
		c.Check(len(preds) == 4 && recursive >= 4, rule, f.Name, f.Decl.Pos(), "validation recursion has arms for objects, arrays, maps and unions, each recursing into the children",
			fmt.Sprintf("composite kinds handled: %v, recursive calls: %d (expected 4 kinds, >= 4 recursions)", sortedKeys(preds), recursive))
	}
	if g := c.MustFunc(rule, "codegen", "hasValidations"); g != nil {
		c.Okf(rule, g.Name, "present")
	}
}

func r048Loops(c *an.Ctx) {
	const rule = "R04.8"
	for _, name := range []string{"ValidationExpr.AddRequired", "ValidationExpr.Merge"} {
		f := c.MustFunc(rule, "expr", name)
		if f == nil {
			continue
		}
		// the outermost range loops must visit every element
		var exits []string
		nLoops := 0
		for _, st := range f.Decl.Body.List {
			rs, ok := st.(*ast.RangeStmt)
			if !ok {
				if ls, isL := st.(*ast.LabeledStmt); isL {
					rs, ok = ls.Stmt.(*ast.RangeStmt)
				}
				if !ok {
					continue
				}
			}
			nLoops++
			for _, e := range loopExits(rs.Body) {
				exits = append(exits, fmt.Sprintf("%s at %s", an.Src(c.Fset, e), c.Position(e.Pos())))
			}
		}
		if name == "ValidationExpr.Merge" && nLoops == 0 {
			c.Okf(rule, f.Name, "no loop")
			continue
		}
		c.Check(len(exits) == 0 && nLoops > 0, rule, f.Name+"#visits-all", f.Decl.Pos(), "every name of the merged list is visited", "the merge loop can be left early ("+strings.Join(exits, ", ")+"): names after the first one already present are dropped from the required list")
	}
}

// r049MustValidate: in the HTTP data builder, flags named mustValidate are
// accumulated (`if cond { flag = true }`), never overwritten per element, and
// every sibling collection built next to the ones consulted is consulted too.
func r049MustValidate(c *an.Ctx) {
	const rule = "R04.9"
	n := 0
	for _, f := range c.AllFuncs("http/codegen") {
		info := f.Pkg.TypesInfo
		ast.Inspect(f.Decl.Body, func(nd ast.Node) bool {
			rs, ok := nd.(*ast.RangeStmt)
			if !ok {
				return true
			}
			// every assignment of the flag inside the loop, at any depth (also in the init of an `if`)
			ast.Inspect(rs.Body, func(st ast.Node) bool {
				as, isAs := st.(*ast.AssignStmt)
				if !isAs || len(as.Lhs) != 1 || len(as.Rhs) != 1 {
					return true
				}
				id, isId := as.Lhs[0].(*ast.Ident)
				if !isId || !strings.Contains(strings.ToLower(id.Name), "mustvalidate") {
					return true
				}
				if _, isConst := an.ConstBool(info, as.Rhs[0]); isConst {
					return true
				}
				// a flag declared inside this loop's body belongs to one iteration: nothing accumulates across the loop
				if o := an.ObjOf(info, id); o != nil && rs.Body.Pos() <= o.Pos() && o.Pos() < rs.Body.End() {
					return true
				}
				mentionsSelf := false
				ast.Inspect(as.Rhs[0], func(x ast.Node) bool {
					if y, ok := x.(*ast.Ident); ok && an.ObjOf(info, y) == an.ObjOf(info, id) {
						mentionsSelf = true
					}
					return true
				})
				// `if !mustValidate { mustValidate = f(x) }` keeps an earlier true as well
				guardedBySelf := false
				for _, fct := range factsOf(f, as) {
					// the test must be made per element, i.e. inside this loop's body
					if y, ok := an.Unparen(fct.Cond).(*ast.Ident); ok && an.ObjOf(info, y) == an.ObjOf(info, id) && !fct.Holds && rs.Body.Pos() <= y.Pos() && y.Pos() < rs.Body.End() {
						guardedBySelf = true
					}
				}
				if !mentionsSelf && !guardedBySelf {
					c.Failf(rule, f.Name+"#"+id.Name, as.Pos(), "%s is overwritten for each element of %s: only the last element decides whether the decoder returns its validation error", id.Name, types.ExprString(rs.X))
				}
				return true
			})
			return true
		})
		// sibling collections: per function, the *Data slices ranged over in loops that set mustValidate
		consulted := map[types.Object]bool{}
		setsFlag := false
		ast.Inspect(f.Decl.Body, func(nd ast.Node) bool {
			rs, ok := nd.(*ast.RangeStmt)
			if !ok {
				return true
			}
			sets := false
			ast.Inspect(rs.Body, func(x ast.Node) bool {
				if as, ok := x.(*ast.AssignStmt); ok && len(as.Lhs) == 1 {
					if id, ok := as.Lhs[0].(*ast.Ident); ok && strings.Contains(strings.ToLower(id.Name), "mustvalidate") {
						sets = true
					}
				}
				return true
			})
			if sets {
				setsFlag = true
				if o := an.ObjOf(info, rs.X); o != nil {
					consulted[o] = true
				}
			}
			return true
		})
		// a collection handed to a helper that computes the flag from it: `mustValidate = helper(headers, cookies)`,
		// `mustValidate = mustValidate || helper(cookies)`, `if helper(cookies) { mustValidate = true }` — where
		// the helper ranges over the corresponding parameter
		isFlag := func(e ast.Expr) bool {
			id, ok := an.Unparen(e).(*ast.Ident)
			return ok && strings.Contains(strings.ToLower(id.Name), "mustvalidate")
		}
		consultCalls := func(e ast.Node) {
			for _, call := range an.AllCallsIn(e) {
				h := c.FuncOfObj(an.Callee(info, call))
				if h == nil {
					continue
				}
				var params []types.Object
				for _, fl := range h.Decl.Type.Params.List {
					for _, nm := range fl.Names {
						params = append(params, h.Pkg.TypesInfo.Defs[nm])
					}
				}
				for i, a := range call.Args {
					o := an.ObjOf(info, a)
					if o == nil || i >= len(params) {
						continue
					}
					ast.Inspect(h.Decl.Body, func(x ast.Node) bool {
						if rs, ok := x.(*ast.RangeStmt); ok && an.ObjOf(h.Pkg.TypesInfo, rs.X) == params[i] {
							consulted[o] = true
							setsFlag = true
						}
						return true
					})
				}
			}
		}
		ast.Inspect(f.Decl.Body, func(nd ast.Node) bool {
			switch x := nd.(type) {
			case *ast.AssignStmt:
				if len(x.Lhs) == 1 && len(x.Rhs) == 1 && isFlag(x.Lhs[0]) {
					consultCalls(x.Rhs[0])
				}
			case *ast.IfStmt:
				sets := false
				ast.Inspect(x.Body, func(y ast.Node) bool {
					if as, ok := y.(*ast.AssignStmt); ok && len(as.Lhs) == 1 && isFlag(as.Lhs[0]) {
						sets = true
					}
					return true
				})
				if sets {
					consultCalls(x.Cond)
				}
			}
			return true
		})
		if !setsFlag {
			continue
		}
		n++
		// candidates: locals of element types HeaderData/CookieData/ParamData assigned in this function
		var missing []string
		seen := map[types.Object]bool{}
		ast.Inspect(f.Decl.Body, func(nd ast.Node) bool {
			id, ok := nd.(*ast.Ident)
			if !ok {
				return true
			}
			o := info.Defs[id]
			if o == nil || seen[o] {
				return true
			}
			seen[o] = true
			sl, ok := o.Type().Underlying().(*types.Slice)
			if !ok {
				return true
			}
			en := an.NamedTypeName(sl.Elem())
			if en != an.P("http/codegen")+".HeaderData" && en != an.P("http/codegen")+".CookieData" && en != an.P("http/codegen")+".ParamData" {
				return true
			}
			if !consulted[o] {
				missing = append(missing, o.Name())
			}
			return true
		})
		sort.Strings(missing)
		c.Check(len(missing) == 0, rule, f.Name+"#collections", f.Decl.Pos(), fmt.Sprintf("every header/cookie/param collection built here is consulted for must-validate (%d)", len(consulted)),
			"collections built but never consulted for must-validate: "+strings.Join(missing, ", ")+" — their validation errors are computed by the decoder and never returned")
	}
	c.Floor(rule, n, 2, "functions computing must-validate flags")
}

// ---- R04.1 / R04.2: template gates ----------------------------------------

var rePlaceholder = regexp.MustCompile(`‹[^›]*›`)

// parseVariant turns an expanded template into Go syntax: placeholders become
// identifiers (or stay inside string literals), then the text is parsed as a
// file, falling back to a statement list.
func parseVariant(text string) (*ast.File, *token.FileSet, error) {
	i := 0
	src := rePlaceholder.ReplaceAllStringFunc(text, func(string) string {
		i++
		return fmt.Sprintf("ph%d", i)
	})
	fset := token.NewFileSet()
	for _, wrap := range []string{"package p\n%s", "package p\nfunc _() {\n%s\n}"} {
		f, err := parser.ParseFile(fset, "variant.go", fmt.Sprintf(wrap, src), parser.SkipObjectResolution)
		if err == nil {
			return f, fset, nil
		}
	}
	_, err := parser.ParseFile(fset, "variant.go", "package p\n"+src, 0)
	return nil, fset, err
}

func r041HandlerGate(c *an.Ctx) {
	const rule = "R04.1"
	tpl, err := c.TplFile("http/codegen/templates/server_handler_init.go.tpl")
	if err != nil {
		c.Add(an.Obligation{Rule: rule, Construct: "server_handler_init.go.tpl", Status: an.LOST, Detail: err.Error()})
		return
	}
	atoms := an.TplAtoms(tpl.Tree)
	if len(atoms) > 12 {
		c.Undecidedf(rule, tpl.Name, 0, "%d condition atoms: too many variants", len(atoms))
		return
	}
	parsed, gated, unparsable := 0, 0, 0
	var probs []string
	for m := 0; m < 1<<len(atoms); m++ {
		v := an.Variant{Bools: map[string]bool{}, Ranges: map[string]int{}}
		for j, a := range atoms {
			v.Bools[a] = m&(1<<j) != 0
		}
		res := an.ExpandTree(tpl.Tree, v)
		c.Stats["variants_expanded"]++
		file, _, err := parseVariant(res.Text)
		if err != nil {
			unparsable++
			continue
		}
		parsed++
		// find the request closure: a FuncLit whose body calls endpoint(...)
		ast.Inspect(file, func(n ast.Node) bool {
			fl, ok := n.(*ast.FuncLit)
			if !ok {
				return true
			}
			stmts := fl.Body.List
			decodeIdx, endpointIdx := -1, -1
			for i, st := range stmts {
				for _, call := range an.CallsIn(st) {
					if id, ok := call.Fun.(*ast.Ident); ok {
						switch id.Name {
						case "decodeRequest":
							if decodeIdx < 0 {
								decodeIdx = i
							}
						case "endpoint":
							if endpointIdx < 0 {
								endpointIdx = i
							}
						}
					}
				}
			}
			if endpointIdx < 0 {
				return true
			}
			if decodeIdx < 0 {
				return false // variant without request decoding (no payload): nothing to gate
			}
			if decodeIdx > endpointIdx {
				probs = append(probs, "the endpoint is called before the request is decoded")
				return false
			}
			// the statement right after the decode must be `if err != nil { …encodeError…; return }`
			okGate := false
			if decodeIdx+1 < len(stmts) {
				if is, ok := stmts[decodeIdx+1].(*ast.IfStmt); ok {
					if be, ok := is.Cond.(*ast.BinaryExpr); ok && be.Op == token.NEQ && types.ExprString(be.X) == "err" && types.ExprString(be.Y) == "nil" && len(is.Body.List) > 0 {
						_, endsReturn := is.Body.List[len(is.Body.List)-1].(*ast.ReturnStmt)
						encodes := false
						for _, call := range an.CallsIn(is.Body) {
							if id, ok := call.Fun.(*ast.Ident); ok && id.Name == "encodeError" {
								encodes = true
							}
						}
						okGate = endsReturn && encodes
					}
				}
			}
			if okGate {
				gated++
			} else {
				probs = append(probs, "decodeRequest is not immediately followed by `if err != nil { encodeError(...); return }`: the endpoint runs on requests that failed decoding or validation")
			}
			return false
		})
	}
	probs = dedupStrings(probs)
	c.Stats["variants_parsed"] += parsed
	c.Stats["variants_unparsable"] += unparsable
	if gated < 2 {
		probs = append(probs, fmt.Sprintf("only %d parsed variants decode a request (floor 2; %d parsed, %d unparsable)", gated, parsed, unparsable))
	}
	if len(probs) > 0 {
		c.Failf(rule, tpl.Name+"#decode-gate", 0, "%s", strings.Join(probs, " | "))
	} else {
		c.Okf(rule, tpl.Name+"#decode-gate", "%d variants parsed (%d infeasible): in all %d that decode a request, decodeRequest is followed by the error gate (encodeError; return) before the endpoint call", parsed, unparsable, gated)
	}
	// at most one response (R05.2): in every parsed variant no path leads from an encodeError call to another response-writing call
	doubles := 0
	checked := 0
	for m := 0; m < 1<<len(atoms); m++ {
		v := an.Variant{Bools: map[string]bool{}}
		for j, a := range atoms {
			v.Bools[a] = m&(1<<j) != 0
		}
		file, _, err := parseVariant(an.ExpandTree(tpl.Tree, v).Text)
		if err != nil {
			continue
		}
		ast.Inspect(file, func(n ast.Node) bool {
			fl, ok := n.(*ast.FuncLit)
			if !ok {
				return true
			}
			g := cfg.New(fl.Body, func(call *ast.CallExpr) bool {
				id, ok := call.Fun.(*ast.Ident)
				return !(ok && id.Name == "panic")
			})
			writes := func(n ast.Node) (enc, other bool) {
				an.WalkNoFuncLit(n, func(x ast.Node) bool {
					if call, ok := x.(*ast.CallExpr); ok {
						switch types.ExprString(call.Fun) {
						case "encodeError":
							enc = true
						case "encodeResponse", "wt.WriteTo", "io.Copy", "http.Redirect":
							other = true
						}
					}
					return true
				})
				return
			}
			type loc struct {
				b *cfg.Block
				i int
			}
			var encs []loc
			for _, b := range g.Blocks {
				if !b.Live {
					continue
				}
				for i, nd := range b.Nodes {
					if e, _ := writes(nd); e {
						encs = append(encs, loc{b, i})
					}
				}
			}
			for _, e := range encs {
				checked++
				seen := map[*cfg.Block]bool{}
				var walk func(b *cfg.Block, from int) bool
				walk = func(b *cfg.Block, from int) bool {
					for i := from; i < len(b.Nodes); i++ {
						if en, ot := writes(b.Nodes[i]); en || ot {
							return true
						}
					}
					for _, s := range b.Succs {
						if !seen[s] {
							seen[s] = true
							if walk(s, 0) {
								return true
							}
						}
					}
					return false
				}
				if walk(e.b, e.i+1) {
					doubles++
				}
			}
			return false
		})
	}
	c.Check(doubles == 0 && checked > 0, "R04.1", tpl.Name+"#one-response", 0, fmt.Sprintf("%d encodeError sites over all parsed variants: none can be followed by another response-writing call", checked), fmt.Sprintf("%d of %d encodeError sites can be followed by another response-writing call: two responses for one request", doubles, checked))

	// R04.2 request decoder: `if err != nil { return nil, err }` precedes the payload construction whenever validation happened
	dt, err := c.TplFile("http/codegen/templates/request_decoder.go.tpl")
	if err != nil {
		c.Add(an.Obligation{Rule: "R04.2", Construct: "request_decoder.go.tpl", Status: an.LOST, Detail: err.Error()})
		return
	}
	// structural: an {{ if .Payload.Request.MustValidate }} node whose text is the gate, located before the text that builds the payload
	gateIdx, payloadIdx := -1, -1
	idx := 0
	an.WalkTpl(dt.Tree.Root, func(n parse.Node) bool {
		idx++
		switch x := n.(type) {
		case *parse.IfNode:
			if strings.Contains(x.Pipe.String(), "MustValidate") && regexp.MustCompile(`if err != nil \{\s*return nil, err\s*\}`).MatchString(an.TplText(x.List)) {
				gateIdx = idx
			}
		case *parse.TextNode:
			if strings.Contains(string(x.Text), "payload := ") && payloadIdx < 0 {
				payloadIdx = idx
			}
		}
		return true
	})
	c.Check(gateIdx > 0 && payloadIdx > gateIdx, "R04.2", dt.Name+"#validate-gate", 0, "under MustValidate the decoder returns the accumulated error before it builds the payload", fmt.Sprintf("gate position %d, payload construction position %d: the validation error is not returned before the payload is built", gateIdx, payloadIdx))
}

var _ = ssa.BuilderMode(0)

var (
	reKwRange = regexp.MustCompile(`if ‹\.targetVal› (<=|>=|<|>) ‹\.(\w+)› \{`)
	reKwLen   = regexp.MustCompile(`if (utf8\.RuneCountInString|len)\(‹[^›]*›\) (<=|>=|<|>) ‹\.(\w+)› \{`)
	reKwErr   = regexp.MustCompile(`goa\.Invalid(Range|Length)Error\("‹\.context›", ‹[^›]*›, (?:(?:utf8\.RuneCountInString|len)\(‹[^›]*›\), )?‹\.(\w+)›, (true|false)\)`)
)

// keywordVariantProblems expands every variant of a keyword template: whatever
// bound a variant prints, the comparison and the lower/upper flag must be
// those of that bound's keyword.
func keywordVariantProblems(c *an.Ctx, tpl *an.Tpl) (probs []string, boundsSeen []string, variants int) {
	atoms := an.TplAtoms(tpl.Tree)
	bounds := map[string]bool{}
	for m := 0; m < 1<<len(atoms); m++ {
		v := an.Variant{Bools: map[string]bool{}}
		for j, a := range atoms {
			v.Bools[a] = m&(1<<j) != 0
		}
		text := an.ExpandTree(tpl.Tree, v).Text
		c.Stats["variants_expanded"]++
		variants++
		var op, bound string
		if mm := reKwRange.FindStringSubmatch(text); mm != nil {
			op, bound = mm[1], mm[2]
		} else if mm := reKwLen.FindStringSubmatch(text); mm != nil {
			op, bound = mm[2], mm[3]
		} else {
			probs = append(probs, "a variant has no comparison guard")
			continue
		}
		spec, known := keywordTable[bound]
		if !known {
			probs = append(probs, "a variant compares with ."+bound+", which is not a validation bound")
			continue
		}
		bounds[bound] = true
		if op != spec.op {
			probs = append(probs, fmt.Sprintf("the variant that checks .%s rejects `value %s bound`; the keyword means `value %s bound`", bound, op, spec.op))
		}
		if em := reKwErr.FindStringSubmatch(text); em == nil || em[2] != bound || em[3] != spec.lower {
			probs = append(probs, fmt.Sprintf("the variant that checks .%s does not report it as its %s bound", bound, map[string]string{"true": "lower", "false": "upper"}[spec.lower]))
		}
	}
	if len(bounds) != 2 {
		probs = append(probs, fmt.Sprintf("the template covers bounds %v, expected a lower and an upper one", sortedKeys(bounds)))
	}
	return dedupStrings(probs), sortedKeys(bounds), variants
}

// keywordBlocksIndependent: in validationCode every keyword that executes a
// template sits in its own if statement; none is the else of another (else the
// second keyword is silently not enforced when both are declared).
func keywordBlocksIndependent(c *an.Ctx, rule string) {
	f := c.MustFunc(rule, "codegen", "validationCode")
	if f == nil {
		return
	}
	sites := dataKeySites(c, f, templateVars(c, "codegen"))
	hasSite := func(n ast.Node) bool {
		if n == nil {
			return false
		}
		for _, s := range sites {
			if n.Pos() <= s.pos && s.pos <= n.End() {
				return true
			}
		}
		return false
	}
	var chained []string
	ast.Inspect(f.Decl.Body, func(n ast.Node) bool {
		is, ok := n.(*ast.IfStmt)
		if ok && is.Else != nil && hasSite(is.Body) && hasSite(is.Else) {
			chained = append(chained, c.Position(is.Pos()))
		}
		return true
	})
	c.Check(len(chained) == 0 && len(sites) >= 9, rule, f.Name+"#independent-keywords", f.Decl.Pos(), "each validation keyword (enum, format, pattern, bounds, lengths) is emitted by its own if statement", "keyword blocks are chained with else at "+strings.Join(chained, ", ")+": when both keywords are declared only the first is enforced")
}

// aliasFlattening (R04.12, shared with C01 as R01.11): the HTTP type builder
// replaces an attribute whose type is a primitive alias user type by the aliased
// type. Over the path table of makeHTTPTypeRecursive, on every path where the
// attribute's type is a user type that is neither a result type nor an object:
// (a) the attribute takes the aliased type whether or not the user type was
// already visited (each use of the alias is a separate attribute that must be
// flattened); (b) the alias's validation is added to the attribute - assigned
// when the attribute has none, merged INTO the attribute's own otherwise - and
// the user type's (shared) validation is never the receiver of a merge or the
// target of a store; (c) the attribute takes the alias's default value; (d) when the aliased type is itself a user type (alias of an alias) the attribute is processed again.
func aliasFlattening(c *an.Ctx, rule string) {
	f, t := tableOf(c, rule, "http/codegen", "makeHTTPTypeRecursive", 0)
	if t == nil {
		return
	}
	const ut = `p0.Type.(expr.UserType)?#0`
	var probs []string
	aliasPaths, nestedPaths := 0, 0
	for i := range t.Paths {
		p := &t.Paths[i]
		e := pathEnv(p)
		if !e[`p0.Type.(expr.UserType)?#1`] {
			continue
		}
		isRT, knownRT := e[ut+`.(*expr.ResultTypeExpr)?#1`]
		isObj, knownObj := e[`expr.IsObject(`+ut+`)`]
		if !knownRT || !knownObj {
			// the path returned before classifying the user type: only legal if it is not an alias path at all
			if !knownRT || (!isRT && !knownObj) {
				probs = append(probs, "a path decides what to do with a user type before testing whether it is a primitive alias (the visited test comes first): a second attribute of the same alias type keeps the user type and is not flattened")
			}
			continue
		}
		if isRT || isObj {
			continue
		}
		aliasPaths++
		// (d) an alias of an alias: the aliased type is again a user type, the attribute must be processed again
		if nested, known := e[ut+`.Attribute().Type.(expr.UserType)?#1`]; !known {
			probs = append(probs, "an alias path never asks whether the aliased type is itself a user type: an alias of an alias keeps a user type after one flattening step, and a body type with pointer-style validation of a primitive is generated for it (does not compile)")
		} else if nested {
			nestedPaths++
			again := false
			for _, ef := range p.Effects {
				if ef.Kind == "call" && ef.Term == "http/codegen.makeHTTPTypeRecursive(p0, p1)" {
					again = true
				}
			}
			if !again {
				probs = append(probs, "when the aliased type is itself a user type the attribute is not processed again")
			}
		}
		var storesType, storesDefault, setsVal, mergesInto, badMerge, badStore bool
		for _, ef := range p.Effects {
			switch ef.Kind {
			case "store":
				switch {
				case ef.Term == `p0.Type = `+ut+`.Attribute().Type`:
					storesType = true
				case ef.Term == `p0.DefaultValue = `+ut+`.Attribute().DefaultValue`:
					storesDefault = true
				case ef.Term == `p0.Validation = `+ut+`.Attribute().Validation`:
					setsVal = true
				case strings.HasPrefix(ef.Term, ut+`.Attribute().Validation`):
					badStore = true
				}
			case "call":
				if strings.HasPrefix(ef.Term, "(*expr.ValidationExpr).Merge(") {
					if ef.Term == `(*expr.ValidationExpr).Merge(p0.Validation, `+ut+`.Attribute().Validation)` {
						mergesInto = true
					} else {
						badMerge = true
					}
				}
			}
		}
		typeValNil := e[`(`+ut+`.Attribute().Validation == nil)`]
		attValNil, attValKnown := e[`(p0.Validation == nil)`]
		if !storesType {
			probs = append(probs, "an alias path does not give the attribute the aliased type")
		}
		if !storesDefault {
			probs = append(probs, "an alias path does not give the attribute the alias's default value")
		}
		if badMerge || badStore {
			probs = append(probs, "the alias type's own validation is modified (receiver of Merge or target of a store): it is shared by every attribute of that alias type, so one attribute's constraints leak to the others and its own narrowing is lost")
		}
		if !typeValNil {
			if attValKnown && attValNil && !setsVal {
				probs = append(probs, "the alias's validation is not given to an attribute that has none")
			}
			if attValKnown && !attValNil && !mergesInto {
				probs = append(probs, "the alias's validation is not merged into the attribute's own validation")
			}
			if !attValKnown && !setsVal && !mergesInto {
				probs = append(probs, "the alias's validation is dropped")
			}
		}
	}
	_ = nestedPaths
	if aliasPaths < 4 {
		probs = append(probs, fmt.Sprintf("only %d alias paths found (expected the visited × validation combinations)", aliasPaths))
	}
	report(c, rule, f.Name+"#alias", f, probs, fmt.Sprintf("%d alias paths: the aliased type, validation (into the attribute) and default are taken on every one, visited or not", aliasPaths))
}

// factsOf returns the atomic conditions whose outcome is fixed at node n of f (dominating branches, conjuncts,
// short-circuit context).
func factsOf(f *an.Func, n ast.Node) []an.CondFact {
	g := an.NewCFG(f.Pkg.TypesInfo, f.Decl.Body)
	facts, _ := g.FactsFor(n)
	return facts
}
