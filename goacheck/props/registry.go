// Package props holds the per-property rule instances (tables and obligations).
package props

import "goacheck/an"

// Registry maps a property id to the function deciding its static rules; the
// function returns the coverage explanation written to the evidence file.
var Registry = map[string]func(*an.Ctx) string{}
