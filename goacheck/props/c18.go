package props

import (
	"fmt"
	"go/ast"
	"go/token"
	"go/types"
	"regexp"
	"strings"

	"goacheck/an"
)

func init() { Registry["C18"] = runC18 }

const (
	tServiceError  = an.Mod + "/pkg.ServiceError"
	tHTTPErrorResp = an.Mod + "/http.ErrorResponse"
	tGRPCErrorResp = an.Mod + "/grpc/pb.ErrorResponse"
	explanationC18 = "Decides structural necessary conditions of C18 on the source: (R18.1) MergeErrors' nil-identity rows and per-field merge operators (flags stored as the conjunction of both operands, message concatenated left-to-right, history appended in order, causes joined from both sides, name replaced only for the generic name) on every path of its SSA path table; (R18.2) the HTTP status decision table of ErrorResponse.StatusCode over all 8 flag vectors x special name; (R18.3) the gRPC code table of EncodeError over all flag vectors and error kinds; (R18.4) like-named field fidelity and exhaustiveness of the four wire conversions (http.NewErrorResponse, ErrorResponse.MarshalXML, grpc.NewErrorResponse, grpc.NewServiceError); (R18.5) the client-side classification table of ErrInvalidResponse. shared R10.3 (decode failures in the gRPC handlers: service errors unchanged, others InvalidArgument, same rows for unary and stream). NOT decided: associativity of merging as a semantic law over arbitrary groupings (it follows from the checked operators being associative, an argument not a machine proof), the behaviour of errors.Join/errors.As, and value-level round trips."
)

var (
	reE = `pkg\.asError\(p0\)`
	reO = `pkg\.asError\(p1\)`
)

func runC18(c *an.Ctx) string {
	r181MergeErrors(c)
	r181HistoryEntries(c)
	statusCodeTable(c, "R18.2")
	grpcCodeTable(c, "R18.3")
	errorFieldFidelity(c, "R18.4")
	r185ErrInvalidResponse(c)
	r103Handlers(c) // shared with C10 (rule id R10.3): a service error from the request decoder travels unchanged to the error encoder, anything else becomes InvalidArgument, in the unary and the stream handler alike
	return explanationC18
}

// mergeCanon maps MergeErrors' atoms to canonical names.
var mergeCanon = canon(
	`^\(p0 == nil\)$`, "err==nil",
	`^\(p1 == nil\)$`, "other==nil",
	`^\(`+reE+`\.Name == "error"\)$`, `E.Name=="error"`,
	`^`+reE+`\.(Timeout|Temporary|Fault)$`, "E.$1",
	`^`+reO+`\.(Timeout|Temporary|Fault)$`, "O.$1",
	`^\(`+reE+`\.err == nil\)$`, "E.err==nil",
	`^\(`+reO+`\.err == nil\)$`, "O.err==nil",
)

func canonTerm(t string, rules []canonRule) string {
	if strings.HasPrefix(t, "!") {
		return "!" + canonTerm(t[1:], rules)
	}
	for _, r := range rules {
		if r.re.MatchString(t) {
			return r.re.ReplaceAllString(t, r.name)
		}
	}
	return t
}

func r181MergeErrors(c *an.Ctx) {
	const rule = "R18.1"
	f := c.MustFunc(rule, "pkg", "MergeErrors")
	if f == nil {
		return
	}
	fn := c.SSAFunc(f)
	t := an.BuildPathTable(fn, an.PathOpts{})
	c.Stats["paths_enumerated"] += len(t.Paths)
	c.Stats["functions_tabled"]++
	if t.Truncated || len(t.Paths) == 0 {
		c.Undecidedf(rule, f.Name, f.Decl.Pos(), "MergeErrors left the loop-free fragment; cannot table it")
		return
	}
	canonTable(t, mergeCanon)
	// (a) nil identity: rows decided by the two nil tests alone
	var nilProbs []string
	nilRows := 0
	for i := range t.Paths {
		p := &t.Paths[i]
		env := an.Env{}
		for _, a := range p.Atoms {
			env[a.Term] = a.Val
		}
		en, eKnown := env["err==nil"]
		on, oKnown := env["other==nil"]
		// the reference: nil ⊕ x = x and x ⊕ nil = x, the operand itself. A path that knows err == nil may
		// return other without looking at it (other is nil exactly when the result must be nil); symmetrically.
		var want []string
		switch {
		case eKnown && en && oKnown && on:
			want = []string{"nil", "p0", "p1"}
		case eKnown && en && oKnown && !on:
			want = []string{"p1"}
		case eKnown && en && !oKnown:
			want = []string{"p1"}
		case eKnown && !en && oKnown && on:
			want = []string{"p0"}
		case oKnown && on && !eKnown:
			want = []string{"p0"}
		case eKnown && oKnown:
			continue // both non-nil: checked below
		default:
			nilProbs = append(nilProbs, "path ["+p.GuardString()+"] does not test both operands against nil")
			continue
		}
		nilRows++
		got := p.Exit
		if p.Exit == "return" && len(p.Ret) == 1 {
			got = p.Ret[0]
		}
		if st := storesOutsideLocals(p); len(st) > 0 {
			got += " after modifying " + strings.Join(st, ",")
		}
		okRow := false
		for _, w := range want {
			if got == w {
				okRow = true
			}
		}
		if !okRow {
			nilProbs = append(nilProbs, fmt.Sprintf("under [%s] MergeErrors yields %s, expected %s", p.GuardString(), got, strings.Join(want, " or ")))
		}
	}
	if nilRows < 2 {
		nilProbs = append(nilProbs, fmt.Sprintf("only %d nil rows found, expected at least 2", nilRows))
	}
	if len(nilProbs) > 0 {
		c.Failf(rule, f.Name+"#nil-identity", f.Decl.Pos(), "%s", strings.Join(nilProbs[:min(3, len(nilProbs))], " | "))
	} else {
		c.Okf(rule, f.Name+"#nil-identity", "merging with nil returns the other operand itself, unmodified (%d rows)", nilRows)
	}
	// (b..f) per-field operators on every path where both are non-nil
	reStoreE := func(field string) *regexp.Regexp { return regexp.MustCompile(`^` + reE + `\.` + field + `$`) }
	var flagProbs, msgProbs, histProbs, errProbs, nameProbs, retProbs []string
	both := 0
	for i := range t.Paths {
		p := &t.Paths[i]
		env := an.Env{}
		for _, a := range p.Atoms {
			env[a.Term] = a.Val
		}
		if env["err==nil"] || env["other==nil"] {
			continue
		}
		both++
		if p.Exit != "return" {
			retProbs = append(retProbs, "path ["+p.GuardString()+"] ends in "+p.Exit)
			continue
		}
		if len(p.Ret) != 1 || !regexp.MustCompile(`^`+reE+`$`).MatchString(p.Ret[0]) {
			retProbs = append(retProbs, "path ["+p.GuardString()+"] returns "+strings.Join(p.Ret, ",")+", expected the updated first operand")
		}
		for _, fl := range []string{"Timeout", "Temporary", "Fault"} {
			val, stored := lastStore(p, reStoreE(fl))
			if !stored {
				val = "E." + fl
			} else {
				val = canonTerm(val, mergeCanon)
			}
			for _, ev := range []bool{false, true} {
				for _, ov := range []bool{false, true} {
					if v, ok := env["E."+fl]; ok && v != ev {
						continue
					}
					if v, ok := env["O."+fl]; ok && v != ov {
						continue
					}
					got, ok := an.EvalBool(val, an.Env{"E." + fl: ev, "O." + fl: ov})
					if !ok {
						flagProbs = append(flagProbs, fmt.Sprintf("%s is stored from %s (not a function of the two operands' %s)", fl, val, fl))
						continue
					}
					if got != (ev && ov) {
						flagProbs = append(flagProbs, fmt.Sprintf("%s: with err.%s=%v other.%s=%v the merged flag is %v, the conjunction is %v", fl, fl, ev, fl, ov, got, ev && ov))
					}
				}
			}
		}
		// message
		if val, ok := lastStore(p, reStoreE("Message")); !ok {
			msgProbs = append(msgProbs, "no store to Message on path ["+p.GuardString()+"]")
		} else {
			ops := flattenConcat(val)
			if len(ops) < 2 || !regexp.MustCompile(`^`+reE+`\.Message$`).MatchString(ops[0]) || !regexp.MustCompile(`^`+reO+`\.Message$`).MatchString(ops[len(ops)-1]) {
				msgProbs = append(msgProbs, "Message = "+val+": expected err's message first and other's message last")
			}
			for _, o := range ops[1 : len(ops)-1] {
				if !strings.HasPrefix(o, `"`) {
					msgProbs = append(msgProbs, "Message = "+val+": non-constant separator")
				}
			}
		}
		// history: order of the two operands on every path (what the entries are is decided structurally below)
		if val, ok := lastStore(p, reStoreE("history")); !ok {
			histProbs = append(histProbs, "no store to history on path ["+p.GuardString()+"]")
		} else if !strings.HasPrefix(val, "append(") {
			histProbs = append(histProbs, "history = "+val+": expected append(history of err, history of other...)")
		}
		// cause
		eNil, eNilKnown := env["E.err==nil"]
		oNil, oNilKnown := env["O.err==nil"]
		if val, ok := lastStore(p, reStoreE("err")); !ok {
			// keeping err's own cause is complete only when other has none
			if !(oNilKnown && oNil) {
				errProbs = append(errProbs, "no store to the joined cause on path ["+p.GuardString()+"]: other's cause is lost")
			}
		} else if regexp.MustCompile(`^` + reO + `\.err$`).MatchString(val) {
			if !(eNilKnown && eNil) {
				errProbs = append(errProbs, "cause = other's cause on path ["+p.GuardString()+"]: err's own cause is lost")
			}
		} else if !regexp.MustCompile(`^errors\.Join\(\[` + reE + `\.err, ` + reO + `\.err\]\.\.\.\)$`).MatchString(val) {
			errProbs = append(errProbs, "cause = "+val+": expected errors.Join(err's cause, other's cause)")
		}
		// name
		val, stored := lastStore(p, reStoreE("Name"))
		generic, known := env[`E.Name=="error"`]
		switch {
		case !known && stored:
			nameProbs = append(nameProbs, "Name overwritten without testing for the generic name on ["+p.GuardString()+"]")
		case known && generic && (!stored || !regexp.MustCompile(`^`+reO+`\.Name$`).MatchString(val)):
			nameProbs = append(nameProbs, "generic name not replaced by other's name (stored: "+val+")")
		case known && !generic && stored:
			nameProbs = append(nameProbs, "specific name overwritten with "+val)
		}
	}
	rep := func(sub string, probs []string, ok string) {
		probs = dedupStrings(probs)
		if both == 0 {
			probs = append(probs, "no path with both operands non-nil")
		}
		if len(probs) > 0 {
			c.Failf(rule, f.Name+"#"+sub, f.Decl.Pos(), "%s", strings.Join(probs[:min(3, len(probs))], " | "))
		} else {
			c.Okf(rule, f.Name+"#"+sub, "%s on all %d both-non-nil paths", ok, both)
		}
	}
	rep("result", retProbs, "returns the updated first operand")
	rep("flags", flagProbs, "Timeout/Temporary/Fault stored as the conjunction of both operands")
	rep("message", msgProbs, "message is err.Message ++ sep ++ other.Message")
	rep("history", histProbs, "history = append(err.History(), other.History()...)")
	rep("cause", errProbs, "cause = errors.Join(err.cause, other.cause)")
	rep("name", nameProbs, "name replaced by other's only when it is the generic \"error\"")

	// History(): stored slice iff non-empty else [e]
	if h := c.MustFunc(rule, "pkg", "ServiceError.History"); h != nil {
		ht := an.BuildPathTable(c.SSAFunc(h), an.PathOpts{})
		c.Stats["paths_enumerated"] += len(ht.Paths)
		canonTable(ht, canon(`^\(len\(p0\.history\) > 0\)$`, "nonempty", `^\(len\(p0\.history\) == 0\)$`, "empty", `^\(p0\.history == nil\)$`, "empty"))
		var hp []string
		for i := range ht.Paths {
			p := &ht.Paths[i]
			if len(p.Atoms) != 1 || len(p.Ret) != 1 {
				hp = append(hp, "unexpected path ["+p.GuardString()+"]")
				continue
			}
			nonempty := (p.Atoms[0].Term == "nonempty") == p.Atoms[0].Val
			if p.Atoms[0].Term != "nonempty" && p.Atoms[0].Term != "empty" {
				hp = append(hp, "History branches on "+p.Atoms[0].Term)
				continue
			}
			if nonempty {
				if p.Ret[0] != "p0.history" {
					hp = append(hp, "non-empty history returns "+p.Ret[0])
				}
			} else {
				base := strings.TrimSuffix(p.Ret[0], "[:]")
				if v, ok := p.Mem["&"+base+"[0]"]; !ok || v != "p0" {
					hp = append(hp, "empty history returns "+p.Ret[0]+" whose first element is "+v+", expected the error itself")
				}
				if _, two := p.Mem["&"+base+"[1]"]; two {
					hp = append(hp, "empty history returns more than the error itself")
				}
			}
		}
		if len(ht.Paths) != 2 {
			hp = append(hp, fmt.Sprintf("%d paths, expected 2", len(ht.Paths)))
		}
		if len(hp) > 0 {
			c.Failf(rule, h.Name, h.Decl.Pos(), "%s", strings.Join(hp, " | "))
		} else {
			c.Okf(rule, h.Name, "returns the stored history iff non-empty, else the singleton [e]")
		}
	}
	// Unwrap returns the cause
	if u := c.MustFunc(rule, "pkg", "ServiceError.Unwrap"); u != nil {
		ut := an.BuildPathTable(c.SSAFunc(u), an.PathOpts{})
		ok := len(ut.Paths) == 1 && len(ut.Paths[0].Ret) == 1 && ut.Paths[0].Ret[0] == "p0.err"
		c.Check(ok, rule, u.Name, u.Decl.Pos(), "Unwrap returns the stored cause", "Unwrap does not simply return the cause joined by MergeErrors: "+ut.Dump())
	}
	// asError: non-service errors become a generic fault wrapping the cause
	if a := c.MustFunc(rule, "pkg", "asError"); a != nil {
		at := an.BuildPathTable(c.SSAFunc(a), an.PathOpts{})
		canonTable(at, canon(`^errors\.As\(p0, &local:\w+\)$`, "isServiceError"))
		var ap []string
		for i := range at.Paths {
			p := &at.Paths[i]
			if len(p.Atoms) != 1 || p.Atoms[0].Term != "isServiceError" || len(p.Ret) != 1 {
				ap = append(ap, "unexpected path ["+p.GuardString()+"]")
				continue
			}
			if p.Atoms[0].Val {
				if !strings.HasPrefix(p.Ret[0], "zero:local:") && !strings.HasPrefix(p.Ret[0], "local:") {
					ap = append(ap, "service error path returns "+p.Ret[0])
				}
				continue
			}
			want := map[string]string{"Name": `"error"`, "Fault": "true", "err": "p0", "Message": "p0.Error()"}
			for _, k := range sortedKeys(want) {
				if v, _ := p.Field(p.Ret[0], k); v != want[k] {
					ap = append(ap, fmt.Sprintf("wrapped error has %s = %q, expected %s", k, v, want[k]))
				}
			}
			for _, k := range []string{"Timeout", "Temporary"} {
				if v, ok := p.Field(p.Ret[0], k); ok && v != "false" {
					ap = append(ap, fmt.Sprintf("wrapped error has %s = %s", k, v))
				}
			}
		}
		if len(at.Paths) != 2 {
			ap = append(ap, fmt.Sprintf("%d paths, expected 2", len(at.Paths)))
		}
		if len(ap) > 0 {
			c.Failf(rule, a.Name, a.Decl.Pos(), "%s", strings.Join(ap, " | "))
		} else {
			c.Okf(rule, a.Name, "service errors pass through; other errors become {Name:error, Fault:true, cause:err}")
		}
	}
}

func storesOutsideLocals(p *an.Path) []string {
	var out []string
	for _, e := range p.Effects {
		if e.Kind == "store" || e.Kind == "mapupdate" {
			out = append(out, e.Term)
		}
	}
	return out
}

func dedupStrings(in []string) []string {
	seen := map[string]bool{}
	var out []string
	for _, s := range in {
		if !seen[s] {
			seen[s] = true
			out = append(out, s)
		}
	}
	return out
}

// statusCodeTable is R05.4 / R18.2: the default HTTP status heuristic.
func statusCodeTable(c *an.Ctx, rule string) {
	f := c.MustFunc(rule, "http", "ErrorResponse.StatusCode")
	umt, ok := constValue(c, "pkg", "UnsupportedMediaType")
	if !ok {
		c.Add(an.Obligation{Rule: rule, Construct: "pkg.UnsupportedMediaType", Status: an.LOST, Detail: "constant not found"})
		return
	}
	rules := canon(
		`^\(p0\.Name == `+regexp.QuoteMeta(umt)+`\)$`, "unsupported",
		`^p0\.(Fault|Timeout|Temporary)$`, "$1",
	)
	decision(c, rule, f, an.PathOpts{}, rules, []string{"unsupported", "Fault", "Timeout", "Temporary"}, nil,
		func(e an.Env) string {
			switch {
			case e["unsupported"]:
				return "415"
			case e["Fault"]:
				return "500"
			case e["Timeout"] && e["Temporary"]:
				return "504"
			case e["Timeout"]:
				return "408"
			case e["Temporary"]:
				return "503"
			}
			return "400"
		}, retOutcome, "HTTP status heuristic (name=unsupported_media_type→415; fault→500; timeout∧temporary→504; timeout→408; temporary→503; else 400)")
}

// grpcCodeTable is R18.3: EncodeError's code selection.
func grpcCodeTable(c *an.Ctx, rule string) {
	f := c.MustFunc(rule, "grpc", "EncodeError")
	if f == nil {
		return
	}
	rules := canon(
		`^google\.golang\.org/grpc/status\.FromError\(p0\)#1$`, "isStatus",
		`^\(\(\*google\.golang\.org/grpc/internal/status\.Status\)\.WithDetails\(.*\)#1 == nil\)$`, "detailsOK",
		`^errors\.As\(p0, &local:\w+\)$`, "isServiceError",
		`^zero:local:\w+\.(Fault|Timeout|Temporary)$`, "$1",
	)
	reNSE := regexp.MustCompile(`^grpc\.NewStatusError\((\d+), p0, \[grpc\.NewErrorResponse\(p0\)\]\.\.\.\)$`)
	decision(c, rule, f, an.PathOpts{}, rules, []string{"isStatus", "detailsOK", "isServiceError", "Fault", "Timeout", "Temporary"}, nil,
		func(e an.Env) string {
			switch {
			case e["isStatus"]:
				if e["detailsOK"] {
					return "status+details"
				}
				return "status"
			case !e["isServiceError"]:
				return "2" // codes.Unknown
			case e["Temporary"]:
				return "14" // Unavailable
			case e["Timeout"]:
				return "4" // DeadlineExceeded
			case e["Fault"]:
				return "13" // Internal
			}
			return "2"
		},
		func(p *an.Path, _ an.Env) string {
			if p.Exit != "return" || len(p.Ret) != 1 {
				return p.Exit
			}
			r := p.Ret[0]
			if m := reNSE.FindStringSubmatch(r); m != nil {
				return m[1]
			}
			if strings.HasPrefix(r, "(*google.golang.org/grpc/internal/status.Status).Err(") {
				if strings.Contains(r, "WithDetails(") {
					if !strings.Contains(r, "[grpc.NewErrorResponse(p0)]") {
						return "status with details other than NewErrorResponse(err)"
					}
					return "status+details"
				}
				return "status"
			}
			return r
		}, "gRPC code table (status errors pass through with details; temporary→Unavailable ≻ timeout→DeadlineExceeded ≻ fault→Internal ≻ Unknown; non-service errors→Unknown; details = NewErrorResponse(err))")

	// DecodeError returns the first detail (the one EncodeError attaches)
	if d := c.MustFunc(rule, "grpc", "DecodeError"); d != nil {
		rules := canon(
			`^google\.golang\.org/grpc/status\.FromError\(p0\)#1$`, "isStatus",
			`^\(len\(\(\*google\.golang\.org/grpc/internal/status\.Status\)\.Details\(.*\)\) == 0\)$`, "noDetails",
		)
		decision(c, rule, d, an.PathOpts{}, rules, []string{"isStatus", "noDetails"}, nil,
			func(e an.Env) string {
				if !e["isStatus"] || e["noDetails"] {
					return "nil"
				}
				return "details[0]"
			},
			func(p *an.Path, _ an.Env) string {
				if len(p.Ret) != 1 {
					return p.Exit
				}
				if regexp.MustCompile(`\.Details\(.*\)\[0\]\.\(`).MatchString(p.Ret[0]) {
					return "details[0]"
				}
				return p.Ret[0]
			}, "DecodeError returns the first status detail, nil for non-status errors or no details")
	}
	// NewStatusError attaches the details it is given to a status of the given code
	if n := c.MustFunc(rule, "grpc", "NewStatusError"); n != nil {
		t := an.BuildPathTable(c.SSAFunc(n), an.PathOpts{})
		c.Stats["paths_enumerated"] += len(t.Paths)
		okNew, okDet := false, false
		for _, p := range t.Paths {
			for _, cl := range p.CallEffects() {
				if strings.HasPrefix(cl, "google.golang.org/grpc/status.New(p0, p1.Error())") {
					okNew = true
				}
				if strings.Contains(cl, ".WithDetails(") && strings.HasSuffix(cl, ", p2)") {
					okDet = true
				}
			}
		}
		c.Check(okNew && okDet, rule, n.Name, n.Decl.Pos(), "status built from (code, err.Error()) with the given details",
			"NewStatusError no longer builds status.New(code, err.Error()).WithDetails(details...): "+t.Dump())
	}
}

// errorFieldFidelity is R18.4 / R05.6.
func errorFieldFidelity(c *an.Ctx, rule string) {
	same := map[string]string{"Name": "Name", "ID": "ID", "Message": "Message", "Timeout": "Timeout", "Temporary": "Temporary", "Fault": "Fault"}
	n := 0
	n += copyFidelity(c, rule, c.MustFunc(rule, "http", "NewErrorResponse"), tHTTPErrorResp, tServiceError, same, nil)
	n += copyFidelity(c, rule, c.MustFunc(rule, "http", "ErrorResponse.MarshalXML"), "", tHTTPErrorResp, same,
		map[string]string{"XMLName": "constant element name"})
	n += copyFidelity(c, rule, c.MustFunc(rule, "grpc", "NewErrorResponse"), tGRPCErrorResp, tServiceError,
		map[string]string{"Name": "Name", "Id": "ID", "Msg": "Message", "Timeout": "Timeout", "Temporary": "Temporary", "Fault": "Fault"}, nil)
	n += copyFidelity(c, rule, c.MustFunc(rule, "grpc", "NewServiceError"), tServiceError, tGRPCErrorResp,
		map[string]string{"Name": "Name", "ID": "Id", "Message": "Msg", "Timeout": "Timeout", "Temporary": "Temporary", "Fault": "Fault"},
		map[string]string{"Field": "not carried by the gRPC error response message"})
	c.Floor(rule, n, 4, "wire conversion literals")
	// non-service errors become faults in both transports
	for _, dir := range []string{"http", "grpc"} {
		f := c.Func(dir, "NewErrorResponse")
		if f == nil {
			continue
		}
		t := an.BuildPathTable(c.SSAFunc(f), an.PathOpts{})
		c.Stats["paths_enumerated"] += len(t.Paths)
		ok := false
		for _, p := range t.Paths {
			if len(p.Atoms) == 1 && strings.HasPrefix(p.Atoms[0].Term, "errors.As(") && !p.Atoms[0].Val {
				for _, cl := range p.CallEffects() {
					if strings.HasPrefix(cl, "pkg.Fault(") {
						ok = true
					}
				}
				// the response is built from the fault: by calling itself on it, or field by field
				recursive := len(p.Ret) == 1 && strings.Contains(p.Ret[0], "NewErrorResponse(") && strings.Contains(p.Ret[0], "pkg.Fault(")
				fieldwise := len(p.Ret) == 1
				if fieldwise {
					for _, fld := range []string{"Name", "Fault"} {
						if v, has := p.Field(p.Ret[0], fld); !has || !strings.HasPrefix(v, "pkg.Fault(") {
							fieldwise = false
						}
					}
				}
				if !recursive && !fieldwise {
					ok = false
				}
			}
		}
		c.Check(ok, rule, f.Name+"#non-service-error", f.Decl.Pos(), "errors that are not service errors are re-encoded as goa.Fault",
			"the !errors.As path does not return NewErrorResponse(goa.Fault(...))")
	}
}

func r185ErrInvalidResponse(c *an.Ctx) {
	const rule = "R18.5"
	f := c.MustFunc(rule, "http", "ErrInvalidResponse")
	if f == nil {
		return
	}
	codes := []int{503, 409, 429, 504, 408, 500, 501, 502}
	var atoms []string
	pairs := []string{`^\(p3 == ""\)$`, "emptyBody"}
	for _, k := range codes {
		atoms = append(atoms, fmt.Sprintf("code==%d", k))
		pairs = append(pairs, fmt.Sprintf(`^\(p2 == %d\)$`, k), fmt.Sprintf("code==%d", k))
	}
	atoms = append(atoms, "emptyBody")
	rules := canon(pairs...)
	in := func(e an.Env, ks ...int) bool {
		for _, k := range ks {
			if e[fmt.Sprintf("code==%d", k)] {
				return true
			}
		}
		return false
	}
	feasible := func(e an.Env) bool {
		n := 0
		for _, k := range codes {
			if e[fmt.Sprintf("code==%d", k)] {
				n++
			}
		}
		return n <= 1
	}
	decision(c, rule, f, an.PathOpts{}, rules, atoms, feasible,
		func(e an.Env) string {
			return fmt.Sprintf("temporary=%v timeout=%v fault=%v", in(e, 503, 409, 429, 504), in(e, 408, 504), in(e, 500, 501, 502))
		},
		func(p *an.Path, e an.Env) string {
			if len(p.Ret) != 1 {
				return p.Exit
			}
			get := func(fld string) string {
				v, ok := p.Field(p.Ret[0], fld)
				if !ok {
					return "false"
				}
				b, ok := an.EvalBool(canonTerm(v, rules), e)
				if !ok {
					return "?" + v
				}
				return fmt.Sprint(b)
			}
			return fmt.Sprintf("temporary=%s timeout=%s fault=%s", get("Temporary"), get("Timeout"), get("Fault"))
		}, "client classification of unexpected statuses (temporary: 503,409,429,504; timeout: 408,504; fault: 500,501,502)")
}

// r181HistoryEntries (part of R18.1): the history lists the ORIGINAL errors. The history of an error that has not been
// merged yet is that error, and MergeErrors goes on to rewrite the error it merges into (name, message, flags): an
// entry that is the very pointer of that error shows the merged message under the name of the first original. So each
// operand of the append that builds the new history is either the history field of the error (it was merged
// before) or a fresh one-element slice holding the address of a copy `c := *x` taken before the first store into a
// field of x - never the result of x.History(), which hands back x itself, for an x the function modifies.
func r181HistoryEntries(c *an.Ctx) {
	const rule = "R18.1"
	f := c.MustFunc(rule, "pkg", "MergeErrors")
	if f == nil {
		return
	}
	info := f.Pkg.TypesInfo
	// stores into fields, per base variable
	firstStore := map[types.Object]token.Pos{}
	var histStore *ast.AssignStmt
	ast.Inspect(f.Decl.Body, func(n ast.Node) bool {
		as, ok := n.(*ast.AssignStmt)
		if !ok {
			return true
		}
		for _, l := range as.Lhs {
			se, ok := an.Unparen(l).(*ast.SelectorExpr)
			if !ok || an.FieldOf(info, se) == nil {
				continue
			}
			id, ok := an.Unparen(se.X).(*ast.Ident)
			if !ok {
				continue
			}
			o := an.ObjOf(info, id)
			if an.CanonFieldName(an.FieldOf(info, se)) == "history" {
				histStore = as
				continue
			}
			if p, seen := firstStore[o]; !seen || as.Pos() < p {
				firstStore[o] = as.Pos()
			}
		}
		return true
	})
	if histStore == nil || len(histStore.Rhs) != 1 {
		c.Add(an.Obligation{Rule: rule, Construct: f.Name + "#history-entries", Status: an.LOST, Nontrivial: true, Detail: "no store to the history field found"})
		return
	}
	app, ok := an.Unparen(histStore.Rhs[0]).(*ast.CallExpr)
	if !ok || len(app.Args) < 2 {
		c.Undecidedf(rule, f.Name+"#history-entries", histStore.Pos(), "the history is not built with append(a, b...)")
		return
	}
	var probs []string
	classify := func(e ast.Expr) {
		e = an.Unparen(e)
		// every definition of a local operand
		var defs []ast.Expr
		if id, isId := e.(*ast.Ident); isId {
			o := an.ObjOf(info, id)
			ast.Inspect(f.Decl.Body, func(n ast.Node) bool {
				as, ok := n.(*ast.AssignStmt)
				if !ok {
					return true
				}
				for i, l := range as.Lhs {
					if an.ObjOf(info, l) == o {
						if len(as.Rhs) == len(as.Lhs) {
							defs = append(defs, as.Rhs[i])
						} else if len(as.Rhs) == 1 {
							defs = append(defs, as.Rhs[0])
						}
					}
				}
				return true
			})
		} else {
			defs = []ast.Expr{e}
		}
		if len(defs) == 0 {
			probs = append(probs, "operand "+types.ExprString(e)+" of the history append has no definition in the function")
		}
		for _, d := range defs {
			d = an.Unparen(d)
			switch x := d.(type) {
			case *ast.SelectorExpr:
				if fv := an.FieldOf(info, x); fv != nil && an.CanonFieldName(fv) == "history" {
					continue // the history of an error that was merged before: copies already
				}
				probs = append(probs, "operand "+types.ExprString(d)+" is not a history")
			case *ast.CallExpr:
				if se, ok := an.Unparen(x.Fun).(*ast.SelectorExpr); ok && se.Sel.Name == "History" {
					if id, ok := an.Unparen(se.X).(*ast.Ident); ok {
						if _, modified := firstStore[an.ObjOf(info, id)]; modified {
							probs = append(probs, fmt.Sprintf("the history is built from %s.History(), which returns %s itself when %s was never merged, and %s is then rewritten in place (name, message, flags): that entry shows the merged error, not the original", id.Name, id.Name, id.Name, id.Name))
							continue
						}
					}
					continue
				}
				probs = append(probs, "operand "+types.ExprString(d)+" is not a history")
			case *ast.CompositeLit:
				// []*ServiceError{&c} with c := *x taken before x is modified
				okLit := len(x.Elts) == 1
				if okLit {
					u, isAddr := an.Unparen(x.Elts[0]).(*ast.UnaryExpr)
					okLit = isAddr && u.Op == token.AND
					if okLit {
						cid, isId := an.Unparen(u.X).(*ast.Ident)
						okLit = isId
						if isId {
							src := an.Unparen(an.ResolveLocalOnce(info, f.Decl.Body, cid))
							st, isStar := src.(*ast.StarExpr)
							okLit = isStar
							if isStar {
								if xid, ok := an.Unparen(st.X).(*ast.Ident); ok {
									if p, modified := firstStore[an.ObjOf(info, xid)]; modified && p < x.Pos() {
										probs = append(probs, fmt.Sprintf("the copy of %s that goes into the history is taken after %s was already modified", xid.Name, xid.Name))
									}
								} else {
									okLit = false
								}
							}
						}
					}
				}
				if !okLit {
					probs = append(probs, "operand "+types.ExprString(d)+" is not a one-element slice holding the address of a copy")
				}
			default:
				probs = append(probs, "operand "+types.ExprString(d)+" is not a history")
			}
		}
	}
	classify(app.Args[0])
	classify(app.Args[1])
	c.Check(len(probs) == 0, rule, f.Name+"#history-entries", histStore.Pos(), "each history operand is a history field or a copy of the unmerged error taken before it is modified", strings.Join(dedupStrings(probs), " | "))
}
