package an

import (
	"go/ast"
	"go/token"
	"go/types"

	"golang.org/x/tools/go/cfg"
)

// CFG wraps a go/cfg control-flow graph of one function body with the
// queries used by the ordering, gate and dominance rules (engine E1).
type CFG struct {
	G      *cfg.CFG
	Info   *types.Info
	Body   *ast.BlockStmt
	Parent map[ast.Node]ast.Node
	live   []*cfg.Block
	idom   map[*cfg.Block]*cfg.Block
	order  map[*cfg.Block]int
}

// Loc is a position in a CFG: node Idx of Block (Idx == len(Nodes) means the
// end of the block).
type Loc struct {
	Block *cfg.Block
	Idx   int
}

var noReturnFuncs = map[string]bool{
	"os.Exit": true, "log.Fatal": true, "log.Fatalf": true, "log.Fatalln": true,
	"log.Panic": true, "log.Panicf": true, "runtime.Goexit": true,
}

// NewCFG builds the CFG of a function body.
func NewCFG(info *types.Info, body *ast.BlockStmt) *CFG {
	mayReturn := func(call *ast.CallExpr) bool {
		if id, ok := Unparen(call.Fun).(*ast.Ident); ok && id.Name == "panic" {
			if _, isBuiltin := info.Uses[id].(*types.Builtin); isBuiltin {
				return false
			}
		}
		if n := CalleeName(info, call); noReturnFuncs[n] {
			return false
		}
		return true
	}
	c := &CFG{G: cfg.New(body, mayReturn), Info: info, Body: body, Parent: map[ast.Node]ast.Node{}}
	var stack []ast.Node
	ast.Inspect(body, func(n ast.Node) bool {
		if n == nil {
			stack = stack[:len(stack)-1]
			return false
		}
		if len(stack) > 0 {
			c.Parent[n] = stack[len(stack)-1]
		}
		stack = append(stack, n)
		return true
	})
	c.computeLive()
	c.computeDom()
	return c
}

func (c *CFG) computeLive() {
	seen := map[*cfg.Block]bool{}
	var walk func(b *cfg.Block)
	walk = func(b *cfg.Block) {
		if seen[b] {
			return
		}
		seen[b] = true
		c.live = append(c.live, b)
		for _, s := range b.Succs {
			walk(s)
		}
	}
	if len(c.G.Blocks) > 0 {
		walk(c.G.Blocks[0])
	}
}

// Live returns the blocks reachable from entry.
func (c *CFG) Live() []*cfg.Block { return c.live }

// Entry returns the entry block.
func (c *CFG) Entry() *cfg.Block { return c.G.Blocks[0] }

func (c *CFG) computeDom() {
	// iterative dominators (Cooper-Harvey-Kennedy) over reverse postorder
	var post []*cfg.Block
	seen := map[*cfg.Block]bool{}
	var dfs func(b *cfg.Block)
	dfs = func(b *cfg.Block) {
		seen[b] = true
		for _, s := range b.Succs {
			if !seen[s] {
				dfs(s)
			}
		}
		post = append(post, b)
	}
	if len(c.G.Blocks) == 0 {
		return
	}
	entry := c.G.Blocks[0]
	dfs(entry)
	c.order = map[*cfg.Block]int{}
	for i, b := range post {
		c.order[b] = i
	}
	preds := map[*cfg.Block][]*cfg.Block{}
	for _, b := range post {
		for _, s := range b.Succs {
			preds[s] = append(preds[s], b)
		}
	}
	idom := map[*cfg.Block]*cfg.Block{entry: entry}
	intersect := func(a, b *cfg.Block) *cfg.Block {
		for a != b {
			for c.order[a] < c.order[b] {
				a = idom[a]
			}
			for c.order[b] < c.order[a] {
				b = idom[b]
			}
		}
		return a
	}
	changed := true
	for changed {
		changed = false
		for i := len(post) - 1; i >= 0; i-- {
			b := post[i]
			if b == entry {
				continue
			}
			var nd *cfg.Block
			for _, p := range preds[b] {
				if idom[p] == nil {
					continue
				}
				if nd == nil {
					nd = p
				} else {
					nd = intersect(p, nd)
				}
			}
			if nd != nil && idom[b] != nd {
				idom[b] = nd
				changed = true
			}
		}
	}
	c.idom = idom
}

// Dominates reports whether block a dominates block b.
func (c *CFG) Dominates(a, b *cfg.Block) bool {
	if c.idom[b] == nil {
		return false
	}
	for {
		if a == b {
			return true
		}
		nb := c.idom[b]
		if nb == b || nb == nil {
			return false
		}
		b = nb
	}
}

// LocDominates reports whether location a dominates location b.
func (c *CFG) LocDominates(a, b Loc) bool {
	if a.Block == b.Block {
		return a.Idx <= b.Idx
	}
	return c.Dominates(a.Block, b.Block)
}

// Find returns the locations of the nodes for which pred holds on the node
// itself or any sub-node (function literals excluded).
func (c *CFG) Find(pred func(ast.Node) bool) []Loc {
	var out []Loc
	for _, b := range c.live {
		for i, n := range b.Nodes {
			hit := false
			WalkNoFuncLit(n, func(x ast.Node) bool {
				if hit {
					return false
				}
				if pred(x) {
					hit = true
					return false
				}
				return true
			})
			if hit {
				out = append(out, Loc{b, i})
			}
		}
	}
	return out
}

// FindCalls returns the locations of the calls for which pred holds, with the
// call expressions.
func (c *CFG) FindCalls(pred func(*ast.CallExpr) bool) ([]Loc, []*ast.CallExpr) {
	var locs []Loc
	var calls []*ast.CallExpr
	for _, b := range c.live {
		for i, n := range b.Nodes {
			for _, call := range CallsIn(n) {
				if pred(call) {
					locs = append(locs, Loc{b, i})
					calls = append(calls, call)
				}
			}
		}
	}
	return locs, calls
}

// LocOf returns the location of the CFG node containing the AST node n.
func (c *CFG) LocOf(n ast.Node) (Loc, bool) {
	for _, b := range c.live {
		for i, x := range b.Nodes {
			if x.Pos() <= n.Pos() && n.End() <= x.End() {
				// make sure n is not inside a nested function literal of x
				inLit := false
				for _, fl := range FuncLits(x) {
					if fl.Pos() <= n.Pos() && n.End() <= fl.End() && ast.Node(fl) != n {
						inLit = true
					}
				}
				if !inLit {
					return Loc{b, i}, true
				}
			}
		}
	}
	return Loc{}, false
}

// Reaches reports whether control can flow from just after location a to
// location b (b strictly later on some path), never passing through a block
// location for which avoid returns true.
func (c *CFG) Reaches(a, b Loc, avoid func(Loc) bool) bool {
	if a.Block == b.Block && a.Idx < b.Idx {
		blocked := false
		if avoid != nil {
			for i := a.Idx + 1; i < b.Idx; i++ {
				if avoid(Loc{a.Block, i}) {
					blocked = true
				}
			}
		}
		if !blocked {
			return true
		}
	}
	// leave a's block
	if avoid != nil {
		for i := a.Idx + 1; i < len(a.Block.Nodes); i++ {
			if avoid(Loc{a.Block, i}) {
				return false
			}
		}
	}
	seen := map[*cfg.Block]bool{}
	var walk func(blk *cfg.Block) bool
	walk = func(blk *cfg.Block) bool {
		if seen[blk] {
			return false
		}
		seen[blk] = true
		limit := len(blk.Nodes)
		if blk == b.Block {
			limit = b.Idx
		}
		for i := 0; i < limit; i++ {
			if avoid != nil && avoid(Loc{blk, i}) {
				return false
			}
		}
		if blk == b.Block {
			return true
		}
		for _, s := range blk.Succs {
			if walk(s) {
				return true
			}
		}
		return false
	}
	for _, s := range a.Block.Succs {
		if walk(s) {
			return true
		}
	}
	return false
}

// Branch describes the two-way branch ending a block.
type Branch struct {
	Cond ast.Expr // condition expression (for tagged switches: the case value)
	Tag  ast.Expr // switch tag when the branch is a case comparison, else nil
	True *cfg.Block
	Else *cfg.Block
}

// BranchOf returns the conditional branch ending block b, if any.
func (c *CFG) BranchOf(b *cfg.Block) (Branch, bool) {
	if len(b.Succs) != 2 || len(b.Nodes) == 0 {
		return Branch{}, false
	}
	e, ok := b.Nodes[len(b.Nodes)-1].(ast.Expr)
	if !ok {
		return Branch{}, false
	}
	br := Branch{Cond: e, True: b.Succs[0], Else: b.Succs[1]}
	if cc, ok := c.Parent[e].(*ast.CaseClause); ok {
		if body, ok := c.Parent[cc].(*ast.BlockStmt); ok {
			if sw, ok := c.Parent[body].(*ast.SwitchStmt); ok && sw.Tag != nil {
				br.Tag = sw.Tag
			}
		}
	}
	return br, true
}

// ReturnLocs returns the locations of the return statements and, when the
// function can fall off its end, the end location of those blocks.
func (c *CFG) ReturnLocs() []Loc {
	var out []Loc
	for _, b := range c.live {
		for i, n := range b.Nodes {
			if _, ok := n.(*ast.ReturnStmt); ok {
				out = append(out, Loc{b, i})
			}
		}
		if len(b.Succs) == 0 {
			hasRet := false
			for _, n := range b.Nodes {
				if _, ok := n.(*ast.ReturnStmt); ok {
					hasRet = true
				}
			}
			if !hasRet && !endsInNoReturn(c, b) {
				out = append(out, Loc{b, len(b.Nodes)})
			}
		}
	}
	return out
}

func endsInNoReturn(c *CFG, b *cfg.Block) bool {
	if len(b.Nodes) == 0 {
		return false
	}
	last := b.Nodes[len(b.Nodes)-1]
	es, ok := last.(*ast.ExprStmt)
	if !ok {
		return false
	}
	call, ok := es.X.(*ast.CallExpr)
	if !ok {
		return false
	}
	if id, ok := Unparen(call.Fun).(*ast.Ident); ok && id.Name == "panic" {
		return true
	}
	return noReturnFuncs[CalleeName(c.Info, call)]
}

// NilGate describes a test of variable v against nil ending a block.
type NilGate struct {
	Block  *cfg.Block
	NonNil *cfg.Block // successor taken when v != nil
	Nil    *cfg.Block
}

// NilGates returns the branches that test object v (a variable) against nil.
func (c *CFG) NilGates(v types.Object) []NilGate {
	var out []NilGate
	for _, b := range c.live {
		br, ok := c.BranchOf(b)
		if !ok || br.Tag != nil {
			continue
		}
		x, notNil, ok := NilCompare(c.Info, br.Cond)
		if !ok {
			continue
		}
		if ObjOf(c.Info, x) != v {
			continue
		}
		g := NilGate{Block: b}
		if notNil {
			g.NonNil, g.Nil = br.True, br.Else
		} else {
			g.NonNil, g.Nil = br.Else, br.True
		}
		out = append(out, g)
	}
	return out
}

// AssignsTo reports whether node n assigns (=, :=, op=, ++/--) to object v.
func AssignsTo(info *types.Info, n ast.Node, v types.Object) bool {
	hit := false
	WalkNoFuncLit(n, func(x ast.Node) bool {
		switch s := x.(type) {
		case *ast.AssignStmt:
			for _, l := range s.Lhs {
				if ObjOf(info, l) == v {
					hit = true
				}
			}
		case *ast.IncDecStmt:
			if ObjOf(info, s.X) == v {
				hit = true
			}
		case *ast.RangeStmt:
			if s.Key != nil && ObjOf(info, s.Key) == v || s.Value != nil && ObjOf(info, s.Value) == v {
				hit = true
			}
		}
		return true
	})
	return hit
}

// ErrGated checks the GATE rule for the error variable errVar assigned at
// location def: every path from def to any location in targets passes a nil
// test of errVar and continues on its nil branch; i.e. no target is reachable
// from def while avoiding the gates, and no target is reachable from the
// non-nil successor of a gate without re-executing def. It returns the
// offending target locations.
func (c *CFG) ErrGated(def Loc, errVar types.Object, targets []Loc) []Loc {
	gates := c.NilGates(errVar)
	isGateEnd := func(l Loc) bool {
		for _, g := range gates {
			if l.Block == g.Block && l.Idx == len(g.Block.Nodes)-1 {
				return true
			}
		}
		return false
	}
	var bad []Loc
	for _, t := range targets {
		// (1) bypass: reach t from def without evaluating any gate condition
		if c.Reaches(def, t, isGateEnd) {
			bad = append(bad, t)
			continue
		}
		// (2) through the non-nil branch
		for _, g := range gates {
			if !c.Reaches(def, Loc{g.Block, len(g.Block.Nodes) - 1}, nil) && !(def.Block == g.Block) {
				continue
			}
			start := Loc{g.NonNil, -1}
			avoidDef := func(l Loc) bool { return l == def }
			if (t.Block == g.NonNil) || c.Reaches(start, t, avoidDef) {
				// allowed if errVar is reassigned on the way? conservatively no
				bad = append(bad, t)
				break
			}
		}
	}
	return bad
}

// PosLoc is a helper returning the token position of a location.
func (c *CFG) PosLoc(l Loc) token.Pos {
	if l.Idx >= 0 && l.Idx < len(l.Block.Nodes) {
		return l.Block.Nodes[l.Idx].Pos()
	}
	if len(l.Block.Nodes) > 0 {
		return l.Block.Nodes[len(l.Block.Nodes)-1].End()
	}
	return c.Body.End()
}
