package an

import (
	"fmt"
	"go/constant"
	"go/token"
	"go/types"
	"sort"
	"strings"

	"golang.org/x/tools/go/ssa"
)

// Engine E2: path tables. For a function whose control flow depends on its
// inputs only through comparisons and boolean loads, enumerate the
// entry-to-exit paths of its SSA control-flow graph, resolving phi nodes along
// each path, and record for every path the polarity of each branch atom, the
// ordered effects (calls, stores to non-local memory) and the returned terms.
// Contradictory paths are pruned by two syntactic facts only: the same atom
// with both polarities and `x == c1` together with `x == c2` (c1 != c2).
// No solver. Back edges may be taken at most LoopBound times per path.

// Atom is one branch condition on a path.
type Atom struct {
	Term string
	Val  bool
}

// Effect is a call or a store observed on a path.
type Effect struct {
	Kind string // "call", "store", "mapupdate", "defer", "go", "send"
	Term string // callee(args) or addr = value
	Pos  token.Pos
}

// Path is one enumerated entry-to-exit path.
type Path struct {
	Atoms   []Atom
	Effects []Effect
	Ret     []string
	Exit    string // "return" | "panic"
	Looped  bool   // a back edge was taken
	Pos     token.Pos
	Mem     map[string]string // memory at exit: address term -> value term
}

// Field returns the value term stored in field f of the object whose address
// term is base (e.g. a returned composite literal "&local:complit@t3").
func (p *Path) Field(base, f string) (string, bool) {
	v, ok := p.Mem["&"+strings.TrimPrefix(base, "&")+"."+f]
	return v, ok
}

// EvalBool evaluates a boolean term (constant, atom, negation, equality atom)
// under env. ok is false when the term mentions an atom env does not define.
func EvalBool(term string, env Env) (val bool, ok bool) {
	a, pol := normAtom(term)
	switch a {
	case "true":
		return pol, true
	case "false":
		return !pol, true
	}
	v, has := env[a]
	if !has {
		return false, false
	}
	return v == pol, true
}

// PathTable is the decision table of a function.
type PathTable struct {
	Fn        *ssa.Function
	Paths     []Path
	Truncated bool // path limit hit: table incomplete (UNDECIDED)
}

// PathOpts tunes the enumeration.
type PathOpts struct {
	MaxPaths  int
	LoopBound int // how many times a block may be re-entered on a path (0 = loop-free only)
	// Inline lists callee full names whose bodies are entered (one level) so
	// that their branches and returns appear in the caller's table.
	Inline map[string]bool
	// NoInline lists callee full names that stay opaque calls even when they
	// were introduced after the reference tree.
	NoInline map[string]bool
}

type pstate struct {
	fn      *ssa.Function
	mem     map[string]string // address term -> stored value term
	phi     map[*ssa.Phi]string
	vals    map[ssa.Value]string
	atoms   []Atom
	effects []Effect
	visits  map[*ssa.BasicBlock]int
	looped  bool
	params  map[*ssa.Parameter]string
	epoch   int                    // incremented at every lock/unlock: reads of shared memory in different epochs are different values
	tuples  map[ssa.Value][]string // results of inlined multi-value calls
	depth   int                    // inlining depth
}

func (s *pstate) clone() *pstate {
	n := &pstate{fn: s.fn, mem: map[string]string{}, phi: map[*ssa.Phi]string{}, vals: map[ssa.Value]string{},
		visits: map[*ssa.BasicBlock]int{}, looped: s.looped, params: map[*ssa.Parameter]string{}, epoch: s.epoch, tuples: map[ssa.Value][]string{}, depth: s.depth}
	for k, v := range s.params {
		n.params[k] = v
	}
	for k, v := range s.tuples {
		n.tuples[k] = v
	}
	for k, v := range s.mem {
		n.mem[k] = v
	}
	for k, v := range s.phi {
		n.phi[k] = v
	}
	for k, v := range s.vals {
		n.vals[k] = v
	}
	for k, v := range s.visits {
		n.visits[k] = v
	}
	n.atoms = append([]Atom(nil), s.atoms...)
	n.effects = append([]Effect(nil), s.effects...)
	return n
}

// BuildPathTable enumerates the paths of fn.
func BuildPathTable(fn *ssa.Function, opts PathOpts) *PathTable {
	if opts.MaxPaths == 0 {
		opts.MaxPaths = 4096
	}
	t := &PathTable{Fn: fn}
	if fn == nil || len(fn.Blocks) == 0 {
		t.Truncated = true
		return t
	}
	st := &pstate{fn: fn, mem: map[string]string{}, phi: map[*ssa.Phi]string{}, vals: map[ssa.Value]string{},
		visits: map[*ssa.BasicBlock]int{}, params: map[*ssa.Parameter]string{}, tuples: map[ssa.Value][]string{}}
	for i, p := range fn.Params {
		st.params[p] = fmt.Sprintf("p%d", i)
	}
	// a captured struct whose fields were set once when the closure was made reads field by field like
	// captured single-assignment variables
	for _, fv := range fn.FreeVars {
		if fields := freeStructFields(fv); len(fields) > 0 {
			base := st.term(fv)
			for name, val := range fields {
				st.mem[base+"."+name] = "free:" + val
			}
		}
	}
	type cont func(st *pstate, rets []string)
	var runFrom func(st *pstate, b *ssa.BasicBlock, pred *ssa.BasicBlock, start int, k cont)
	run := func(st *pstate, b *ssa.BasicBlock, pred *ssa.BasicBlock, k cont) { runFrom(st, b, pred, 0, k) }
	runFrom = func(st *pstate, b *ssa.BasicBlock, pred *ssa.BasicBlock, start int, k cont) {
		if t.Truncated {
			return
		}
		if start == 0 {
			st.visits[b]++
			if st.visits[b] > 1 {
				st.looped = true
				if st.visits[b] > 1+opts.LoopBound {
					// abandon this path: it is a further iteration of a loop already
					// summarised by the bounded unrolling
					return
				}
			}
		}
		// phis first (parallel assignment)
		if pred != nil && start == 0 {
			idx := -1
			for i, p := range b.Preds {
				if p == pred {
					idx = i
				}
			}
			newPhi := map[*ssa.Phi]string{}
			for _, ins := range b.Instrs {
				ph, ok := ins.(*ssa.Phi)
				if !ok {
					break
				}
				if idx >= 0 {
					newPhi[ph] = st.term(ph.Edges[idx])
				}
			}
			for k, v := range newPhi {
				st.phi[k] = v
				delete(st.vals, k)
			}
		}
		for idx, ins := range b.Instrs {
			if idx < start {
				continue
			}
			switch x := ins.(type) {
			case *ssa.Phi:
				continue
			case *ssa.Store:
				addr := st.term(x.Addr)
				val := st.term(x.Val)
				st.mem[addr] = val
				if !strings.HasPrefix(addr, "&local") {
					st.effects = append(st.effects, Effect{"store", strings.TrimPrefix(addr, "&") + " = " + val, x.Pos()})
				}
			case *ssa.MapUpdate:
				st.effects = append(st.effects, Effect{"mapupdate", st.term(x.Map) + "[" + st.term(x.Key) + "] = " + st.term(x.Value), x.Pos()})
			case *ssa.Send:
				st.effects = append(st.effects, Effect{"send", st.term(x.Chan) + " <- " + st.term(x.X), x.Pos()})
			case *ssa.Defer:
				st.effects = append(st.effects, Effect{"defer", st.callTerm(&x.Call), x.Pos()})
			case *ssa.Go:
				st.effects = append(st.effects, Effect{"go", st.callTerm(&x.Call), x.Pos()})
			case *ssa.Call:
				if _, op := lockCallInfo(&x.Call); op != "" {
					st.epoch++
				}
				callee := x.Call.StaticCallee()
				viaTable := false
				if callee == nil && !x.Call.IsInvoke() {
					// a function value read from a constant table
					if kf, ok := knownFuncTerms[st.term(x.Call.Value)]; ok && len(kf.Blocks) > 0 && len(kf.Blocks) <= 60 && kf != fn && (kf.Object() == nil || !IsReferenceFunc(kf)) {
						callee, viaTable = kf, true // a literal (or a new function): entered; a reference function stays a call
					}
				}
				if callee != nil && st.depth < 2 && (viaTable || inlinable(callee, fn, opts)) {
					// a helper that did not exist on the reference tree (an extracted function): its body is
					// entered so that the table is the one of the code before the extraction
					for i, prm := range callee.Params {
						if i < len(x.Call.Args) {
							st.params[prm] = st.term(x.Call.Args[i])
						}
					}
					st.depth++
					for _, cb := range callee.Blocks {
						delete(st.visits, cb) // a second call of the same helper is not a loop
					}
					call, blk, next := x, b, idx+1
					run(st, callee.Blocks[0], nil, func(st2 *pstate, rets []string) {
						st2.depth--
						if len(rets) == 1 {
							st2.vals[call] = rets[0]
						} else {
							st2.tuples[call] = rets
						}
						runFrom(st2, blk, pred, next, k)
					})
					return
				}
				ct := st.callTerm(&x.Call)
				st.vals[x] = ct
				st.effects = append(st.effects, Effect{"call", ct, x.Pos()})
			case *ssa.UnOp:
				if x.Op == token.MUL {
					// evaluate loads eagerly so that later stores do not change them
					st.vals[x] = st.term(x)
				}
			case *ssa.Lookup:
				// a lookup in a constant package-level table is the switch it stands for
				if ld, ok := x.X.(*ssa.UnOp); ok && ld.Op == token.MUL {
					if g, ok := ld.X.(*ssa.Global); ok {
						if tab := constTableOf(g); tab != nil {
							if brs := tab.expand(st.term(x.Index), x.Index.Type()); len(brs) > 0 && len(brs) <= 64 {
								look, blk, next := x, b, idx+1
								for _, br := range brs {
									s2 := st.clone()
									feasible := true
									for _, a := range br.atoms {
										if a.Term == "true" || a.Term == "false" {
											if (a.Term == "true") != a.Val {
												feasible = false
											}
											continue
										}
										if v, known := s2.known(a.Term); known {
											if v != a.Val {
												feasible = false
											}
											continue
										}
										s2.atoms = append(s2.atoms, a)
									}
									if !feasible {
										continue
									}
									if look.CommaOk {
										okT := "false"
										if br.found {
											okT = "true"
										}
										s2.tuples[look] = []string{br.val, okT}
									} else {
										s2.vals[look] = br.val
									}
									runFrom(s2, blk, pred, next, k)
								}
								return
							}
						}
					}
				}
				lt := st.term(x)
				st.vals[x] = lt
				if _, isMap := x.X.Type().Underlying().(*types.Map); isMap {
					st.effects = append(st.effects, Effect{"lookup", lt, x.Pos()})
				}
			case *ssa.Return:
				if k != nil {
					var rets []string
					for _, r := range x.Results {
						rets = append(rets, st.term(r))
					}
					k(st, rets)
					return
				}
				p := Path{Atoms: st.atoms, Effects: st.effects, Exit: "return", Looped: st.looped, Pos: x.Pos(), Mem: st.mem}
				for _, r := range x.Results {
					p.Ret = append(p.Ret, st.term(r))
				}
				t.Paths = append(t.Paths, p)
				if len(t.Paths) > opts.MaxPaths {
					t.Truncated = true
				}
				return
			case *ssa.Panic:
				t.Paths = append(t.Paths, Path{Atoms: st.atoms, Effects: st.effects, Exit: "panic", Ret: []string{st.term(x.X)}, Looped: st.looped, Pos: x.Pos(), Mem: st.mem})
				return
			case *ssa.Jump:
				run(st, b.Succs[0], b, k)
				return
			case *ssa.If:
				cond := st.term(x.Cond)
				atom, pol := normAtom(cond)
				if atom == "true" || atom == "false" {
					v := (atom == "true") == pol
					if v {
						run(st, b.Succs[0], b, k)
					} else {
						run(st, b.Succs[1], b, k)
					}
					return
				}
				if v, known := st.known(atom); known {
					if v == pol {
						run(st, b.Succs[0], b, k)
					} else {
						run(st, b.Succs[1], b, k)
					}
					return
				}
				// fork
				s2 := st.clone()
				st.atoms = append(st.atoms, Atom{atom, pol})
				run(st, b.Succs[0], b, k)
				s2.atoms = append(s2.atoms, Atom{atom, !pol})
				run(s2, b.Succs[1], b, k)
				return
			}
		}
	}
	run(st, fn.Blocks[0], nil, nil)
	return t
}

// inlinable: callee is a module function with a body that is not known from the
// reference tree (reffuncs.go) - i.e. a helper introduced since, typically by an
// "extract function" refactoring - or is listed in opts.Inline; it is small and
// is not the function being tabled.
func inlinable(callee, root *ssa.Function, opts PathOpts) bool {
	if callee == root || len(callee.Blocks) == 0 || len(callee.Blocks) > 60 {
		return false
	}
	name := funcName(callee) // the reference name when callee merely renames a reference function
	if opts.Inline[name] {
		return true
	}
	if opts.NoInline[name] {
		return false
	}
	if callee.Pkg == nil || !strings.HasPrefix(callee.Pkg.Pkg.Path(), Mod) {
		return false
	}
	if callee.Object() == nil {
		return false
	}
	_, known := referenceFuncs[name]
	return !known
}

// known reports the value the path already fixes for atom, using the two
// syntactic pruning facts.
func (s *pstate) known(atom string) (bool, bool) {
	for _, a := range s.atoms {
		if a.Term == atom {
			return a.Val, true
		}
	}
	// constructors of errors never return nil
	if l, c, ok := splitEq(atom); ok && c == "nil" && nonNilConstructor(l) {
		return false, true
	}
	// x == c2 is false when x == c1 holds (c1 != c2, both constants)
	if l, c, ok := splitEq(atom); ok {
		for _, a := range s.atoms {
			if !a.Val {
				continue
			}
			if l2, c2, ok2 := splitEq(a.Term); ok2 && l2 == l && c2 != c {
				return false, true
			}
		}
	}
	return false, false
}

// nonNilConstructor: the term is a call of a standard error constructor (gRPC status errors with a
// non-OK code included).
func nonNilConstructor(t string) bool {
	for _, p := range []string{"errors.New(", "fmt.Errorf("} {
		if strings.HasPrefix(t, p) {
			return true
		}
	}
	for _, p := range []string{"google.golang.org/grpc/status.Error(", "google.golang.org/grpc/status.Errorf("} {
		if strings.HasPrefix(t, p) {
			code := t[len(p):]
			if i := strings.IndexAny(code, ",)"); i > 0 {
				code = code[:i]
				return code != "0" && code[0] >= '0' && code[0] <= '9'
			}
		}
	}
	return false
}

// splitEq splits "(lhs == const)" atoms.
func splitEq(atom string) (lhs, c string, ok bool) {
	if !strings.HasPrefix(atom, "(") || !strings.HasSuffix(atom, ")") {
		return "", "", false
	}
	in := atom[1 : len(atom)-1]
	i := strings.LastIndex(in, " == ")
	if i < 0 {
		return "", "", false
	}
	lhs, c = in[:i], in[i+4:]
	if !isConstTerm(c) {
		return "", "", false
	}
	return lhs, c, true
}

// isLiteralTerm reports whether t is a string or numeric literal term.
func isLiteralTerm(t string) bool {
	if t == "" {
		return false
	}
	return t[0] == '"' || (t[0] >= '0' && t[0] <= '9')
}

func isConstTerm(c string) bool {
	if c == "" {
		return false
	}
	if c[0] == '"' || (c[0] >= '0' && c[0] <= '9') || c[0] == '-' || c == "true" || c == "false" || c == "nil" {
		return true
	}
	return false
}

// normAtom strips negations and turns != into == with flipped polarity.
func normAtom(t string) (string, bool) {
	pol := true
	for {
		if strings.HasPrefix(t, "!") {
			t = t[1:]
			pol = !pol
			continue
		}
		if strings.HasPrefix(t, "(") && strings.HasSuffix(t, ")") {
			in := t[1 : len(t)-1]
			if balanced(in) {
				if i := topLevelOp(in, " != "); i >= 0 {
					t = "(" + in[:i] + " == " + in[i+4:] + ")"
					pol = !pol
				} else if i := topLevelOp(in, " <= "); i >= 0 {
					// a <= b  is  !(a > b): one canonical form for the four order comparisons
					t = "(" + in[:i] + " > " + in[i+4:] + ")"
					pol = !pol
				} else if i := topLevelOp(in, " >= "); i >= 0 {
					t = "(" + in[:i] + " < " + in[i+4:] + ")"
					pol = !pol
				}
			}
		}
		break
	}
	// constant on the right
	if l, r, ok := splitTop(t, " == "); ok && isConstTerm(l) && !isConstTerm(r) {
		t = "(" + r + " == " + l + ")"
	}
	if l, r, ok := splitTop(t, " < "); ok && isConstTerm(l) && !isConstTerm(r) {
		t = "(" + r + " > " + l + ")"
	} else if l, r, ok := splitTop(t, " > "); ok && isConstTerm(l) && !isConstTerm(r) {
		t = "(" + r + " < " + l + ")"
	}
	// a length is never negative: len(x) > 0 is !(len(x) == 0), len(x) < 1 is len(x) == 0
	if l, r, ok := splitTop(t, " > "); ok && r == "0" && strings.HasPrefix(l, "len(") && balanced(l) {
		t = "(" + l + " == 0)"
		pol = !pol
	} else if l, r, ok := splitTop(t, " < "); ok && r == "1" && strings.HasPrefix(l, "len(") && balanced(l) {
		t = "(" + l + " == 0)"
	}
	return t, pol
}

func balanced(s string) bool {
	d := 0
	inStr := false
	for i := 0; i < len(s); i++ {
		ch := s[i]
		if inStr {
			if ch == '\\' {
				i++
			} else if ch == '"' {
				inStr = false
			}
			continue
		}
		switch ch {
		case '"':
			inStr = true
		case '(':
			d++
		case ')':
			d--
			if d < 0 {
				return false
			}
		}
	}
	return d == 0
}

func topLevelOp(s, op string) int {
	d := 0
	inStr := false
	for i := 0; i < len(s); i++ {
		ch := s[i]
		if inStr {
			if ch == '\\' {
				i++
			} else if ch == '"' {
				inStr = false
			}
			continue
		}
		switch ch {
		case '"':
			inStr = true
		case '(':
			d++
		case ')':
			d--
		}
		if d == 0 && strings.HasPrefix(s[i:], op) {
			return i
		}
	}
	return -1
}

func splitTop(t, op string) (string, string, bool) {
	if !strings.HasPrefix(t, "(") || !strings.HasSuffix(t, ")") {
		return "", "", false
	}
	in := t[1 : len(t)-1]
	if !balanced(in) {
		return "", "", false
	}
	i := topLevelOp(in, op)
	if i < 0 {
		return "", "", false
	}
	return in[:i], in[i+len(op):], true
}

func (s *pstate) callTerm(c *ssa.CallCommon) string {
	var args []string
	for _, a := range c.Args {
		at := s.term(a)
		if strings.HasPrefix(at, "local:varargs@") && strings.HasSuffix(at, "[:]") {
			base := strings.TrimSuffix(at, "[:]")
			var elems []string
			for i := 0; ; i++ {
				v, ok := s.mem[fmt.Sprintf("&%s[%d]", base, i)]
				if !ok {
					break
				}
				elems = append(elems, v)
			}
			at = "[" + strings.Join(elems, ", ") + "]..."
		}
		args = append(args, at)
	}
	var name string
	if c.IsInvoke() {
		name = s.term(c.Value) + "." + c.Method.Name()
	} else if f := c.StaticCallee(); f != nil {
		name = funcName(f)
	} else if b, ok := c.Value.(*ssa.Builtin); ok {
		name = b.Name()
	} else {
		name = "dyn:" + s.term(c.Value)
		// a function value read from a constant table is that function
		if _, ok := knownFuncTerms[name[4:]]; ok {
			name = name[4:]
		}
	}
	return name + "(" + strings.Join(args, ", ") + ")"
}

func funcName(f *ssa.Function) string {
	if f.Object() != nil {
		if fo, ok := f.Object().(*types.Func); ok {
			name := strings.ReplaceAll(fo.FullName(), Mod+"/", "")
			return canonFuncName(fo, name)
		}
	}
	if f.Parent() != nil {
		return funcName(f.Parent()) + "$" + f.Name()
	}
	return f.String()
}

// term renders an SSA value as a symbolic term under the path state.
func (s *pstate) term(v ssa.Value) string {
	if t, ok := s.vals[v]; ok {
		return t
	}
	switch x := v.(type) {
	case *ssa.Const:
		return constTerm(x)
	case *ssa.Parameter:
		if n, ok := s.params[x]; ok {
			return n
		}
		return "param:" + x.Name()
	case *ssa.FreeVar:
		return "&free:" + canonFreeVar(x, 0)
	case *ssa.Global:
		if x.Pkg != nil {
			name := x.Name()
			if v, ok := x.Object().(*types.Var); ok {
				name = canonGlobal(x.Pkg.Pkg, name, v.Type())
			}
			return "&" + strings.ReplaceAll(x.Pkg.Pkg.Path(), Mod+"/", "") + "." + name
		}
		return "&" + x.Name()
	case *ssa.Function:
		return funcName(x)
	case *ssa.Builtin:
		return x.Name()
	case *ssa.Phi:
		if t, ok := s.phi[x]; ok {
			return t
		}
		return "phi?" + x.Name()
	case *ssa.Alloc:
		return fmt.Sprintf("&local%s", allocName(x))
	case *ssa.FieldAddr:
		return "&" + deref(s.term(x.X)) + "." + fieldName(x.X.Type(), x.Field)
	case *ssa.Field:
		base, fname := s.term(x.X), fieldNameStruct(x.X.Type(), x.Field)
		if v, ok := structField(base, fname, x.Type()); ok {
			return v
		}
		return base + "." + fname
	case *ssa.IndexAddr:
		return "&" + deref(s.term(x.X)) + "[" + s.term(x.Index) + "]"
	case *ssa.Index:
		return s.term(x.X) + "[" + s.term(x.Index) + "]"
	case *ssa.Lookup:
		t := s.term(x.X) + "[" + s.term(x.Index) + "]"
		if s.epoch > 0 {
			if r, _, _ := rootOf(x.X); r != nil {
				if _, isGlobal := r.(*ssa.Global); isGlobal {
					t += fmt.Sprintf("@e%d", s.epoch)
				}
			}
		}
		return t
	case *ssa.UnOp:
		switch x.Op {
		case token.MUL:
			addr := s.term(x.X)
			if val, ok := s.mem[addr]; ok {
				return val
			}
			// a field of a struct value stored as a whole (a by-value parameter or copy)
			if i := strings.LastIndex(addr, "."); i > 0 {
				if pv, ok := s.mem[addr[:i]]; ok {
					if v, ok := structField(pv, addr[i+1:], x.Type()); ok {
						return v
					}
				}
			}
			// a whole struct read from a local whose fields were stored one by one (a composite literal)
			if st, ok := x.Type().Underlying().(*types.Struct); ok && (strings.HasPrefix(addr, "&local") || strings.HasPrefix(addr, "&free:")) {
				var parts []string
				n, _ := x.Type().(*types.Named)
				for i := 0; i < st.NumFields(); i++ {
					fn := canonField(n, st, i)
					if fv, ok := s.mem[addr+"."+fn]; ok {
						parts = append(parts, fn+": "+fv)
					}
				}
				if len(parts) > 0 || strings.HasPrefix(addr, "&local:complit@") {
					return structTypeName(x.Type()) + "{" + strings.Join(parts, ", ") + "}"
				}
			}
			if strings.HasPrefix(addr, "&") {
				if strings.HasPrefix(addr, "&local") {
					return "zero:" + addr[1:]
				}
				return addr[1:]
			}
			return "*" + addr
		case token.NOT:
			switch t := s.term(x.X); {
			case t == "true":
				return "false"
			case t == "false":
				return "true"
			case strings.HasPrefix(t, "!") && !strings.ContainsAny(t[1:], " "):
				return t[1:] // !!x
			default:
				return "!" + t
			}
		case token.SUB:
			return "-" + s.term(x.X)
		case token.ARROW:
			return "<-" + s.term(x.X)
		}
		return x.Op.String() + s.term(x.X)
	case *ssa.BinOp:
		l, r := s.term(x.X), s.term(x.Y)
		if (x.Op == token.EQL || x.Op == token.NEQ) && (l == "nil" || r == "nil") {
			other := l
			if l == "nil" {
				other = r
			}
			switch {
			case other == "nil":
				if x.Op == token.EQL {
					return "true"
				}
				return "false"
			case strings.HasPrefix(other, "fmt.Errorf(") || strings.HasPrefix(other, "errors.New(") || strings.HasPrefix(other, "&local:complit") || strings.HasPrefix(other, "&local:new"):
				// freshly constructed values are never nil
				if x.Op == token.EQL {
					return "false"
				}
				return "true"
			}
		}
		if (x.Op == token.EQL || x.Op == token.NEQ) && isLiteralTerm(l) && isLiteralTerm(r) {
			if (l == r) == (x.Op == token.EQL) {
				return "true"
			}
			return "false"
		}
		return "(" + l + " " + x.Op.String() + " " + r + ")"
	case *ssa.Call:
		return s.callTerm(&x.Call)
	case *ssa.MakeInterface:
		return s.term(x.X)
	case *ssa.ChangeType:
		return s.term(x.X)
	case *ssa.ChangeInterface:
		return s.term(x.X)
	case *ssa.Convert:
		return typeShort(x.Type()) + "(" + s.term(x.X) + ")"
	case *ssa.TypeAssert:
		if x.CommaOk {
			return s.term(x.X) + ".(" + typeShort(x.AssertedType) + ")?"
		}
		return s.term(x.X) + ".(" + typeShort(x.AssertedType) + ")"
	case *ssa.Extract:
		if tup, ok := s.tuples[x.Tuple]; ok && x.Index < len(tup) {
			return tup[x.Index]
		}
		return s.term(x.Tuple) + "#" + fmt.Sprint(x.Index)
	case *ssa.Slice:
		lo, hi := "", ""
		if x.Low != nil {
			lo = s.term(x.Low)
		}
		if x.High != nil {
			hi = s.term(x.High)
		}
		return deref(s.term(x.X)) + "[" + lo + ":" + hi + "]"
	case *ssa.MakeClosure:
		return "closure:" + funcName(x.Fn.(*ssa.Function))
	case *ssa.MakeMap:
		return "makemap:" + typeShort(x.Type())
	case *ssa.MakeSlice:
		return "makeslice:" + typeShort(x.Type())
	case *ssa.MakeChan:
		return "makechan"
	case *ssa.Next:
		return "next(" + s.term(x.Iter) + ")"
	case *ssa.Range:
		return "range(" + s.term(x.X) + ")"
	case *ssa.SliceToArrayPointer:
		return s.term(x.X)
	}
	return "?" + v.Name()
}

// structField reads field name out of a struct-literal term "T{a: x, b: y}"; a field that is not listed has
// the zero value of its type ft. ok is false when term is not a struct-literal term.
func structField(term, name string, ft types.Type) (string, bool) {
	if !strings.HasSuffix(term, "}") {
		return "", false
	}
	// the brace that matches the final one
	open, depth := -1, 0
	for i := len(term) - 1; i >= 0 && open < 0; i-- {
		switch term[i] {
		case '}':
			depth++
		case '{':
			depth--
			if depth == 0 {
				open = i
			}
		}
	}
	if open <= 0 || strings.ContainsAny(term[:open], "( \"{") {
		return "", false
	}
	body := term[open+1 : len(term)-1]
	depth, start, inStr := 0, 0, false
	var fields []string
	for i := 0; i < len(body); i++ {
		c := body[i]
		switch {
		case inStr:
			if c == '\\' {
				i++
			} else if c == '"' {
				inStr = false
			}
		case c == '"':
			inStr = true
		case c == '(' || c == '{' || c == '[':
			depth++
		case c == ')' || c == '}' || c == ']':
			depth--
		case c == ',' && depth == 0:
			fields = append(fields, strings.TrimSpace(body[start:i]))
			start = i + 1
		}
	}
	if strings.TrimSpace(body[start:]) != "" {
		fields = append(fields, strings.TrimSpace(body[start:]))
	}
	for _, f := range fields {
		if strings.HasPrefix(f, name+": ") {
			return f[len(name)+2:], true
		}
	}
	return zeroTerm(ft), true
}

func zeroTerm(t types.Type) string {
	switch u := t.Underlying().(type) {
	case *types.Basic:
		switch {
		case u.Info()&types.IsBoolean != 0:
			return "false"
		case u.Info()&types.IsString != 0:
			return `""`
		case u.Info()&types.IsNumeric != 0:
			return "0"
		}
	case *types.Struct:
		return structTypeName(t) + "{}"
	}
	return "nil"
}

// structTypeName names a struct type in struct-literal terms: the type's name, "struct" for an unnamed one.
func structTypeName(t types.Type) string {
	if _, ok := t.(*types.Named); ok {
		return typeShort(t)
	}
	return "struct"
}

func deref(t string) string {
	// the term of a pointer value p used as base of a field: p.f ; an address
	// term &x used as base: x.f
	return strings.TrimPrefix(t, "&")
}

func allocName(a *ssa.Alloc) string {
	switch a.Comment {
	case "":
		return ":" + a.Name()
	case "varargs", "complit", "new", "slicelit", "makeslice", "arraylit", "maplit":
		return ":" + a.Comment + "@" + a.Name()
	}
	// a named source variable: keep the name only (register numbers are unstable)
	return ":" + a.Comment
}

func fieldName(ptrType types.Type, i int) string {
	t := ptrType.Underlying()
	if p, ok := t.(*types.Pointer); ok {
		t = p.Elem().Underlying()
	}
	if st, ok := t.(*types.Struct); ok && i < st.NumFields() {
		n, _ := namedOf(ptrType)
		return canonField(n, st, i)
	}
	return fmt.Sprintf("f%d", i)
}

func fieldNameStruct(t types.Type, i int) string {
	if st, ok := t.Underlying().(*types.Struct); ok && i < st.NumFields() {
		n, _ := t.(*types.Named)
		return canonField(n, st, i)
	}
	return fmt.Sprintf("f%d", i)
}

func typeShort(t types.Type) string {
	return types.TypeString(t, func(p *types.Package) string { return p.Name() })
}

func constTerm(c *ssa.Const) string {
	if c.Value == nil {
		if _, ok := c.Type().Underlying().(*types.Basic); ok {
			return "zero"
		}
		if _, ok := c.Type().Underlying().(*types.Struct); ok {
			return structTypeName(c.Type()) + "{}" // the zero value of a struct type
		}
		return "nil"
	}
	switch c.Value.Kind() {
	case constant.String:
		return fmt.Sprintf("%q", constant.StringVal(c.Value))
	case constant.Bool:
		if constant.BoolVal(c.Value) {
			return "true"
		}
		return "false"
	}
	return c.Value.ExactString()
}

// AtomSet returns the sorted distinct atom terms used by the table.
func (t *PathTable) AtomSet() []string {
	m := map[string]bool{}
	for _, p := range t.Paths {
		for _, a := range p.Atoms {
			m[a.Term] = true
		}
	}
	var out []string
	for k := range m {
		out = append(out, k)
	}
	sort.Strings(out)
	return out
}

// GuardString renders the atoms of a path.
func (p *Path) GuardString() string {
	var parts []string
	for _, a := range p.Atoms {
		if a.Val {
			parts = append(parts, a.Term)
		} else {
			parts = append(parts, "!"+a.Term)
		}
	}
	if len(parts) == 0 {
		return "true"
	}
	return strings.Join(parts, " ∧ ")
}

// CallEffects returns the call terms of the path in order.
func (p *Path) CallEffects() []string {
	var out []string
	for _, e := range p.Effects {
		if e.Kind == "call" {
			out = append(out, e.Term)
		}
	}
	return out
}

// Env is a total or partial assignment of atoms.
type Env map[string]bool

// CheckDecision compares a path table with a reference decision function.
// atoms is the closed list of atoms the function may branch on; spec gives the
// expected outcome string under a total assignment of those atoms (or "*" for
// "don't care"); outcome extracts the comparable outcome of a path. feasible,
// if non-nil, tells whether a total assignment can occur (e.g. mutually
// exclusive equalities). The returned list holds one message per mismatch.
func (t *PathTable) CheckDecision(atoms []string, feasible func(Env) bool, spec func(Env) string, outcome func(*Path, Env) string) (rows int, problems []string) {
	if t.Truncated {
		return 0, []string{"path table truncated (function outside the decidable fragment)"}
	}
	declared := map[string]bool{}
	for _, a := range atoms {
		declared[a] = true
	}
	covered := map[string]bool{}
	for i := range t.Paths {
		p := &t.Paths[i]
		partial := Env{}
		unknown := ""
		for _, a := range p.Atoms {
			if !declared[a.Term] {
				unknown = a.Term
				break
			}
			partial[a.Term] = a.Val
		}
		if unknown != "" {
			problems = append(problems, fmt.Sprintf("path [%s] branches on an atom outside the decision vocabulary: %s", p.GuardString(), unknown))
			continue
		}
		// enumerate total extensions
		var free []string
		for _, a := range atoms {
			if _, ok := partial[a]; !ok {
				free = append(free, a)
			}
		}
		n := 1 << len(free)
		for m := 0; m < n; m++ {
			env := Env{}
			for k, v := range partial {
				env[k] = v
			}
			for j, a := range free {
				env[a] = m&(1<<j) != 0
			}
			if feasible != nil && !feasible(env) {
				continue
			}
			want := spec(env)
			key := envKey(env, atoms)
			covered[key] = true
			if want == "*" {
				continue
			}
			rows++
			got := outcome(p, env)
			if got != want {
				problems = append(problems, fmt.Sprintf("under [%s] the function yields %s, the reference table says %s", key, got, want))
			}
		}
	}
	// every feasible total assignment must be covered by some path
	n := 1 << len(atoms)
	for m := 0; m < n && len(atoms) <= 12; m++ {
		env := Env{}
		for j, a := range atoms {
			env[a] = m&(1<<j) != 0
		}
		if feasible != nil && !feasible(env) {
			continue
		}
		if spec(env) == "*" {
			continue
		}
		if !covered[envKey(env, atoms)] {
			problems = append(problems, fmt.Sprintf("no path of the function covers [%s]", envKey(env, atoms)))
		}
	}
	problems = dedup(problems)
	return rows, problems
}

func envKey(env Env, atoms []string) string {
	var parts []string
	for _, a := range atoms {
		if env[a] {
			parts = append(parts, a)
		} else {
			parts = append(parts, "!"+a)
		}
	}
	return strings.Join(parts, " ∧ ")
}

func dedup(in []string) []string {
	seen := map[string]bool{}
	var out []string
	for _, s := range in {
		if !seen[s] {
			seen[s] = true
			out = append(out, s)
		}
	}
	return out
}

// Dump renders the table for diagnostics.
func (t *PathTable) Dump() string {
	var b strings.Builder
	for _, p := range t.Paths {
		fmt.Fprintf(&b, "  [%s] -> %s %v", p.GuardString(), p.Exit, p.Ret)
		if len(p.Effects) > 0 {
			var es []string
			for _, e := range p.Effects {
				es = append(es, e.Kind+":"+e.Term)
			}
			fmt.Fprintf(&b, " effects{%s}", strings.Join(es, "; "))
		}
		if p.Looped {
			b.WriteString(" (looped)")
		}
		b.WriteString("\n")
	}
	if t.Truncated {
		b.WriteString("  TRUNCATED\n")
	}
	return b.String()
}

// canonFreeVar names a captured variable by what the enclosing function binds
// it to - "outer.pN" for its N-th parameter, the term of the single value stored
// into it otherwise - so that renaming the captured local does not change the
// closure's table. A variable assigned more than once keeps its source name.
func canonFreeVar(fv *ssa.FreeVar, depth int) string {
	fn := fv.Parent()
	if fn == nil || fn.Parent() == nil || depth > 3 {
		return fv.Name()
	}
	parent := fn.Parent()
	idx := -1
	for i, v := range fn.FreeVars {
		if v == fv {
			idx = i
		}
	}
	if idx < 0 {
		return fv.Name()
	}
	var binding ssa.Value
	for _, b := range parent.Blocks {
		for _, in := range b.Instrs {
			if mc, ok := in.(*ssa.MakeClosure); ok && mc.Fn == ssa.Value(fn) && idx < len(mc.Bindings) {
				binding = mc.Bindings[idx]
			}
		}
	}
	switch b := binding.(type) {
	case *ssa.FreeVar:
		return canonFreeVar(b, depth+1)
	case *ssa.Alloc:
		var stored []ssa.Value
		if refs := b.Referrers(); refs != nil {
			for _, r := range *refs {
				if st, ok := r.(*ssa.Store); ok && st.Addr == ssa.Value(b) {
					stored = append(stored, st.Val)
				}
			}
		}
		// a closure that assigns the variable makes it multi-valued
		for _, af := range parent.AnonFuncs {
			for i, v := range af.FreeVars {
				_ = i
				if assignsFreeVar(af, v) && bindingOf(parent, af, v) == ssa.Value(b) {
					return fv.Name()
				}
			}
		}
		if len(stored) != 1 {
			// a parameter that is given a default when unset: named after the parameter
			var prm *ssa.Parameter
			n := 0
			for _, v := range stored {
				if q, ok := v.(*ssa.Parameter); ok {
					prm = q
					n++
				}
			}
			if n == 1 {
				for i, q := range parent.Params {
					if q == prm {
						return fmt.Sprintf("⟨outer.p%d*⟩", i)
					}
				}
			}
			return fv.Name()
		}
		scratch := outerScratch(parent)
		t := scratch.term(stored[0])
		if len(t) > 160 || strings.Contains(t, "phi?") || strings.Contains(t, "zero:") {
			return fv.Name()
		}
		return "⟨" + t + "⟩"
	}
	return fv.Name()
}

// outerScratch is a path state of the enclosing function in which parameters print as outer.pN and
// single-assignment locals are read through.
func outerScratch(parent *ssa.Function) *pstate {
	scratch := &pstate{fn: parent, mem: map[string]string{}, phi: map[*ssa.Phi]string{}, vals: map[ssa.Value]string{},
		visits: map[*ssa.BasicBlock]int{}, params: map[*ssa.Parameter]string{}, tuples: map[ssa.Value][]string{}}
	for i, p := range parent.Params {
		scratch.params[p] = fmt.Sprintf("outer.p%d", i)
	}
	for _, pb := range parent.Blocks {
		for _, in := range pb.Instrs {
			st, ok := in.(*ssa.Store)
			if !ok {
				continue
			}
			al, ok := st.Addr.(*ssa.Alloc)
			if !ok || al.Referrers() == nil {
				continue
			}
			n := 0
			for _, r := range *al.Referrers() {
				if s2, ok := r.(*ssa.Store); ok && s2.Addr == ssa.Value(al) {
					n++
				}
			}
			if n == 1 {
				scratch.mem[scratch.term(al)] = scratch.term(st.Val)
			}
		}
	}
	return scratch
}

// freeStructFields: when free variable fv is bound (through any chain of closures) to a struct-typed local of
// an enclosing function whose fields are each stored once and which is never stored as a whole, the value of
// each field in the vocabulary of canonFreeVar ("⟨outer term⟩"), by field name.
func freeStructFields(fv *ssa.FreeVar) map[string]string {
	var binding ssa.Value = fv
	var parent *ssa.Function
	for depth := 0; depth < 4; depth++ {
		f, ok := binding.(*ssa.FreeVar)
		if !ok {
			break
		}
		fn := f.Parent()
		if fn == nil || fn.Parent() == nil {
			return nil
		}
		parent = fn.Parent()
		binding = bindingOf(parent, fn, f)
	}
	al, ok := binding.(*ssa.Alloc)
	if !ok || parent == nil || al.Referrers() == nil {
		return nil
	}
	pt, ok := al.Type().Underlying().(*types.Pointer)
	if !ok {
		return nil
	}
	st, ok := pt.Elem().Underlying().(*types.Struct)
	if !ok {
		return nil
	}
	n, _ := pt.Elem().(*types.Named)
	scratch := outerScratch(parent)
	out := map[string]string{}
	for _, r := range *al.Referrers() {
		switch x := r.(type) {
		case *ssa.Store:
			if x.Addr == ssa.Value(al) {
				return nil // assigned as a whole somewhere
			}
		case *ssa.FieldAddr:
			if x.Referrers() == nil {
				continue
			}
			var vals []ssa.Value
			for _, fr := range *x.Referrers() {
				if s2, ok := fr.(*ssa.Store); ok && s2.Addr == ssa.Value(x) {
					vals = append(vals, s2.Val)
				}
			}
			if len(vals) == 0 {
				continue
			}
			name := canonField(n, st, x.Field)
			if len(vals) > 1 {
				return nil
			}
			if _, dup := out[name]; dup {
				return nil
			}
			t := scratch.term(vals[0])
			if len(t) > 160 || strings.Contains(t, "phi?") || strings.Contains(t, "zero:") {
				return nil
			}
			out[name] = "⟨" + t + "⟩"
		}
	}
	// a closure that writes a field makes it multi-valued
	for _, af := range parent.AnonFuncs {
		for _, v := range af.FreeVars {
			if bindingOf(parent, af, v) == ssa.Value(al) {
				for _, b := range af.Blocks {
					for _, in := range b.Instrs {
						if s2, ok := in.(*ssa.Store); ok {
							if fa, ok := s2.Addr.(*ssa.FieldAddr); ok && fa.X == ssa.Value(v) {
								return nil
							}
						}
					}
				}
			}
		}
	}
	return out
}

func assignsFreeVar(fn *ssa.Function, fv *ssa.FreeVar) bool {
	for _, b := range fn.Blocks {
		for _, in := range b.Instrs {
			if st, ok := in.(*ssa.Store); ok && st.Addr == ssa.Value(fv) {
				return true
			}
		}
	}
	return false
}

func bindingOf(parent, fn *ssa.Function, fv *ssa.FreeVar) ssa.Value {
	idx := -1
	for i, v := range fn.FreeVars {
		if v == fv {
			idx = i
		}
	}
	for _, b := range parent.Blocks {
		for _, in := range b.Instrs {
			if mc, ok := in.(*ssa.MakeClosure); ok && mc.Fn == ssa.Value(fn) && idx >= 0 && idx < len(mc.Bindings) {
				return mc.Bindings[idx]
			}
		}
	}
	return nil
}
