package an

import (
	"go/ast"
	"go/token"
	"go/types"
	"sort"
)

// Recursion along user-named links. Expressions of a design refer to each other
// by name (a service names its parent, an endpoint its canonical endpoint …), and
// a DSL program is free to make those references cyclic. A group of mutually
// recursive functions that moves from an expression to the one it names, and
// carries neither a visited set nor a visited flag, recurses without bound on a
// cyclic design: the stack overflows (a fatal error, not even a panic) before
// validation can report the cycle.

// LinkRecursion is one unguarded recursive group.
type LinkRecursion struct {
	Funcs []*Func
	Via   string // the link-following call
	Pos   token.Pos
}

// isNameLookup: one string parameter, returns a pointer or interface, ranges over a collection and compares
// something with the parameter.
func isNameLookup(f *Func) bool {
	sig := f.Obj.Type().(*types.Signature)
	if sig.Params().Len() != 1 || sig.Results().Len() != 1 {
		return false
	}
	if b, ok := sig.Params().At(0).Type().Underlying().(*types.Basic); !ok || b.Kind() != types.String {
		return false
	}
	switch sig.Results().At(0).Type().Underlying().(type) {
	case *types.Pointer, *types.Interface:
	default:
		return false
	}
	info := f.Pkg.TypesInfo
	prm := sig.Params().At(0)
	found := false
	ast.Inspect(f.Decl.Body, func(n ast.Node) bool {
		rs, ok := n.(*ast.RangeStmt)
		if !ok {
			return true
		}
		ast.Inspect(rs.Body, func(m ast.Node) bool {
			if be, ok := m.(*ast.BinaryExpr); ok && be.Op == token.EQL {
				if ObjOf(info, be.X) == types.Object(prm) || ObjOf(info, be.Y) == types.Object(prm) {
					found = true
				}
			}
			return true
		})
		return true
	})
	return found
}

// LinkRecursions finds the pattern among the functions of dir.
func (c *Ctx) LinkRecursions(dir string) (groups int, out []LinkRecursion) {
	funcs := c.AllFuncs(dir)
	byObj := map[types.Object]*Func{}
	for _, f := range funcs {
		byObj[f.Obj] = f
	}
	lookups := map[*Func]bool{}
	for _, f := range funcs {
		if isNameLookup(f) {
			lookups[f] = true
		}
	}
	isRecv := func(f *Func, e ast.Expr) bool {
		id := RootIdent(e)
		if id == nil || f.Decl.Recv == nil {
			return false
		}
		o := ObjOf(f.Pkg.TypesInfo, id)
		for _, fl := range f.Decl.Recv.List {
			for _, n := range fl.Names {
				if f.Pkg.TypesInfo.Defs[n] == o && o != nil {
					return true
				}
			}
		}
		return false
	}
	// link followers: call a name lookup with a field of their receiver (svc.ParentName)
	followers := map[*Func]bool{}
	for _, f := range funcs {
		for _, call := range AllCallsIn(f.Decl.Body) {
			if h := byObj[Callee(f.Pkg.TypesInfo, call)]; h != nil && lookups[h] && len(call.Args) == 1 {
				if _, isSel := Unparen(call.Args[0]).(*ast.SelectorExpr); isSel && isRecv(f, call.Args[0]) {
					followers[f] = true
				}
			}
		}
	}
	// static call graph and its strongly connected components (Tarjan)
	succ := map[*Func][]*Func{}
	for _, f := range funcs {
		seen := map[*Func]bool{}
		for _, call := range AllCallsIn(f.Decl.Body) {
			if h := byObj[Callee(f.Pkg.TypesInfo, call)]; h != nil && !seen[h] {
				seen[h] = true
				succ[f] = append(succ[f], h)
			}
		}
	}
	index, low := map[*Func]int{}, map[*Func]int{}
	onStack := map[*Func]bool{}
	var stack []*Func
	var sccs [][]*Func
	n := 0
	var strong func(v *Func)
	strong = func(v *Func) {
		index[v], low[v] = n, n
		n++
		stack = append(stack, v)
		onStack[v] = true
		for _, w := range succ[v] {
			if _, done := index[w]; !done {
				strong(w)
				if low[w] < low[v] {
					low[v] = low[w]
				}
			} else if onStack[w] && index[w] < low[v] {
				low[v] = index[w]
			}
		}
		if low[v] == index[v] {
			var comp []*Func
			for {
				w := stack[len(stack)-1]
				stack = stack[:len(stack)-1]
				onStack[w] = false
				comp = append(comp, w)
				if w == v {
					break
				}
			}
			sccs = append(sccs, comp)
		}
	}
	for _, f := range funcs {
		if _, done := index[f]; !done {
			strong(f)
		}
	}
	for _, comp := range sccs {
		recursive := len(comp) > 1
		for _, w := range succ[comp[0]] {
			if w == comp[0] {
				recursive = true
			}
		}
		if !recursive {
			continue
		}
		groups++
		via, pos := "", token.NoPos
		guarded := false
		for _, f := range comp {
			info := f.Pkg.TypesInfo
			// follows a named link: calls a follower (or is one)
			if followers[f] {
				via, pos = f.Name, f.Decl.Pos()
			}
			for _, call := range AllCallsIn(f.Decl.Body) {
				if h := byObj[Callee(info, call)]; h != nil && followers[h] {
					via, pos = f.Name+" → "+h.Name, call.Pos()
				}
			}
			// guards: a map parameter (visited set), or a boolean field of the receiver tested and then set
			sig := f.Obj.Type().(*types.Signature)
			for i := 0; i < sig.Params().Len(); i++ {
				if _, isMap := sig.Params().At(i).Type().Underlying().(*types.Map); isMap {
					guarded = true
				}
			}
			tested := map[*types.Var]bool{}
			ast.Inspect(f.Decl.Body, func(x ast.Node) bool {
				switch s := x.(type) {
				case *ast.IfStmt:
					cond := Unparen(s.Cond)
					if fv := FieldOf(info, cond); fv != nil && isRecv(f, cond) {
						if b, ok := fv.Type().Underlying().(*types.Basic); ok && b.Kind() == types.Bool {
							tested[fv] = true
						}
					}
				case *ast.AssignStmt:
					if len(s.Lhs) == 1 && len(s.Rhs) == 1 {
						if fv := FieldOf(info, s.Lhs[0]); fv != nil && tested[fv] && isRecv(f, s.Lhs[0]) {
							if v, ok := ConstBool(info, s.Rhs[0]); ok && v {
								guarded = true
							}
						}
					}
				}
				return true
			})
		}
		if via != "" && !guarded {
			sort.Slice(comp, func(i, j int) bool { return comp[i].Name < comp[j].Name })
			out = append(out, LinkRecursion{comp, via, pos})
		}
	}
	sort.Slice(out, func(i, j int) bool { return out[i].Funcs[0].Name < out[j].Funcs[0].Name })
	return groups, out
}
