package an

import (
	"fmt"
	"go/constant"
	"go/types"
	"os"
	"path/filepath"
	"sort"
	"strings"
	"text/template/parse"
)

// Engine E8 (front end): goa's code-generation templates are source. They are
// read from the repository (template files) or from string constants of the
// type-checked packages and parsed with text/template/parse (function names are
// not checked), never executed.

// Tpl is a parsed template.
type Tpl struct {
	Name string // file path relative to the repo, or pkg.ConstName
	Src  string
	Tree *parse.Tree
	All  map[string]*parse.Tree // including {{define}}d templates
}

// ParseTpl parses template source.
func ParseTpl(name, src string) (*Tpl, error) {
	t := parse.New(name)
	t.Mode = parse.SkipFuncCheck | parse.ParseComments
	set := map[string]*parse.Tree{}
	tree, err := t.Parse(src, "{{", "}}", set)
	if err != nil {
		return nil, err
	}
	return &Tpl{Name: name, Src: src, Tree: tree, All: set}, nil
}

// TplFile parses the template file at the repo-relative path.
func (c *Ctx) TplFile(rel string) (*Tpl, error) {
	b, err := os.ReadFile(filepath.Join(c.Repo, rel))
	if err != nil {
		return nil, err
	}
	c.Stats["templates_parsed"]++
	return ParseTpl(rel, string(b))
}

// TplConst parses the template held by string constant name of package dir.
func (c *Ctx) TplConst(dir, name string) (*Tpl, error) {
	p := c.Pkg(dir)
	if p == nil {
		return nil, fmt.Errorf("package %s not loaded", dir)
	}
	o, ok := p.Types.Scope().Lookup(name).(*types.Const)
	if !ok || o.Val().Kind() != constant.String {
		return nil, fmt.Errorf("%s.%s is not a string constant", dir, name)
	}
	c.Stats["templates_parsed"]++
	return ParseTpl(dir+"."+name, constant.StringVal(o.Val()))
}

// TplDir lists the .tpl files under a repo-relative directory (recursively).
func (c *Ctx) TplDir(rel string) []string {
	var out []string
	filepath.Walk(filepath.Join(c.Repo, rel), func(p string, info os.FileInfo, err error) error {
		if err == nil && !info.IsDir() && strings.HasSuffix(p, ".tpl") {
			r, _ := filepath.Rel(c.Repo, p)
			out = append(out, r)
		}
		return nil
	})
	sort.Strings(out)
	return out
}

// WalkTpl visits every node of a template tree in document order.
func WalkTpl(n parse.Node, f func(parse.Node) bool) {
	if n == nil || !f(n) {
		return
	}
	switch x := n.(type) {
	case *parse.ListNode:
		if x == nil {
			return
		}
		for _, c := range x.Nodes {
			WalkTpl(c, f)
		}
	case *parse.IfNode:
		WalkTpl(x.Pipe, f)
		WalkTpl(x.List, f)
		if x.ElseList != nil {
			WalkTpl(x.ElseList, f)
		}
	case *parse.RangeNode:
		WalkTpl(x.Pipe, f)
		WalkTpl(x.List, f)
		if x.ElseList != nil {
			WalkTpl(x.ElseList, f)
		}
	case *parse.WithNode:
		WalkTpl(x.Pipe, f)
		WalkTpl(x.List, f)
		if x.ElseList != nil {
			WalkTpl(x.ElseList, f)
		}
	case *parse.ActionNode:
		WalkTpl(x.Pipe, f)
	case *parse.TemplateNode:
		if x.Pipe != nil {
			WalkTpl(x.Pipe, f)
		}
	case *parse.PipeNode:
		if x == nil {
			return
		}
		for _, d := range x.Decl {
			WalkTpl(d, f)
		}
		for _, c := range x.Cmds {
			WalkTpl(c, f)
		}
	case *parse.CommandNode:
		for _, a := range x.Args {
			WalkTpl(a, f)
		}
	case *parse.ChainNode:
		WalkTpl(x.Node, f)
	}
}

// TplFields returns the distinct field chains (".A.B") referenced in n.
func TplFields(n parse.Node) []string {
	m := map[string]bool{}
	WalkTpl(n, func(x parse.Node) bool {
		switch f := x.(type) {
		case *parse.FieldNode:
			m["."+strings.Join(f.Ident, ".")] = true
		case *parse.VariableNode:
			m[strings.Join(f.Ident, ".")] = true
		}
		return true
	})
	var out []string
	for k := range m {
		out = append(out, k)
	}
	sort.Strings(out)
	return out
}

// TplText returns the concatenated text nodes of n.
func TplText(n parse.Node) string {
	var b strings.Builder
	WalkTpl(n, func(x parse.Node) bool {
		if t, ok := x.(*parse.TextNode); ok {
			b.Write(t.Text)
		}
		return true
	})
	return b.String()
}

// TplStrings returns the string literals used in n's actions.
func TplStrings(n parse.Node) []string {
	var out []string
	WalkTpl(n, func(x parse.Node) bool {
		if s, ok := x.(*parse.StringNode); ok {
			out = append(out, s.Text)
		}
		return true
	})
	return out
}
