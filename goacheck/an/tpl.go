package an

import (
	"fmt"
	"go/constant"
	"go/types"
	"os"
	"path/filepath"
	"sort"
	"strings"
	"text/template/parse"
)

// Engine E8 (front end): goa's code-generation templates are source. They are
// read from the repository (template files) or from string constants of the
// type-checked packages and parsed with text/template/parse (function names are
// not checked), never executed.

// Tpl is a parsed template.
type Tpl struct {
	Name string // file path relative to the repo, or pkg.ConstName
	Src  string
	Tree *parse.Tree
	All  map[string]*parse.Tree // including {{define}}d templates
}

// ParseTpl parses template source.
func ParseTpl(name, src string) (*Tpl, error) {
	t := parse.New(name)
	t.Mode = parse.SkipFuncCheck | parse.ParseComments
	set := map[string]*parse.Tree{}
	tree, err := t.Parse(src, "{{", "}}", set)
	if err != nil {
		return nil, err
	}
	return &Tpl{Name: name, Src: src, Tree: tree, All: set}, nil
}

// TplFile parses the template file at the repo-relative path.
func (c *Ctx) TplFile(rel string) (*Tpl, error) {
	b, err := os.ReadFile(filepath.Join(c.Repo, rel))
	if err != nil {
		return nil, err
	}
	c.Stats["templates_parsed"]++
	return ParseTpl(rel, string(b))
}

// TplConst parses the template held by string constant name of package dir.
func (c *Ctx) TplConst(dir, name string) (*Tpl, error) {
	p := c.Pkg(dir)
	if p == nil {
		return nil, fmt.Errorf("package %s not loaded", dir)
	}
	o, ok := p.Types.Scope().Lookup(name).(*types.Const)
	if !ok || o.Val().Kind() != constant.String {
		return nil, fmt.Errorf("%s.%s is not a string constant", dir, name)
	}
	c.Stats["templates_parsed"]++
	return ParseTpl(dir+"."+name, constant.StringVal(o.Val()))
}

// TplDir lists the .tpl files under a repo-relative directory (recursively).
func (c *Ctx) TplDir(rel string) []string {
	var out []string
	filepath.Walk(filepath.Join(c.Repo, rel), func(p string, info os.FileInfo, err error) error {
		if err == nil && !info.IsDir() && strings.HasSuffix(p, ".tpl") {
			r, _ := filepath.Rel(c.Repo, p)
			out = append(out, r)
		}
		return nil
	})
	sort.Strings(out)
	return out
}

// WalkTpl visits every node of a template tree in document order.
func WalkTpl(n parse.Node, f func(parse.Node) bool) {
	if n == nil || !f(n) {
		return
	}
	switch x := n.(type) {
	case *parse.ListNode:
		if x == nil {
			return
		}
		for _, c := range x.Nodes {
			WalkTpl(c, f)
		}
	case *parse.IfNode:
		WalkTpl(x.Pipe, f)
		WalkTpl(x.List, f)
		if x.ElseList != nil {
			WalkTpl(x.ElseList, f)
		}
	case *parse.RangeNode:
		WalkTpl(x.Pipe, f)
		WalkTpl(x.List, f)
		if x.ElseList != nil {
			WalkTpl(x.ElseList, f)
		}
	case *parse.WithNode:
		WalkTpl(x.Pipe, f)
		WalkTpl(x.List, f)
		if x.ElseList != nil {
			WalkTpl(x.ElseList, f)
		}
	case *parse.ActionNode:
		WalkTpl(x.Pipe, f)
	case *parse.TemplateNode:
		if x.Pipe != nil {
			WalkTpl(x.Pipe, f)
		}
	case *parse.PipeNode:
		if x == nil {
			return
		}
		for _, d := range x.Decl {
			WalkTpl(d, f)
		}
		for _, c := range x.Cmds {
			WalkTpl(c, f)
		}
	case *parse.CommandNode:
		for _, a := range x.Args {
			WalkTpl(a, f)
		}
	case *parse.ChainNode:
		WalkTpl(x.Node, f)
	}
}

// TplFields returns the distinct field chains (".A.B") referenced in n.
func TplFields(n parse.Node) []string {
	m := map[string]bool{}
	WalkTpl(n, func(x parse.Node) bool {
		switch f := x.(type) {
		case *parse.FieldNode:
			m["."+strings.Join(f.Ident, ".")] = true
		case *parse.VariableNode:
			m[strings.Join(f.Ident, ".")] = true
		}
		return true
	})
	var out []string
	for k := range m {
		out = append(out, k)
	}
	sort.Strings(out)
	return out
}

// TplText returns the concatenated text nodes of n.
func TplText(n parse.Node) string {
	var b strings.Builder
	WalkTpl(n, func(x parse.Node) bool {
		if t, ok := x.(*parse.TextNode); ok {
			b.Write(t.Text)
		}
		return true
	})
	return b.String()
}

// TplStrings returns the string literals used in n's actions.
func TplStrings(n parse.Node) []string {
	var out []string
	WalkTpl(n, func(x parse.Node) bool {
		if s, ok := x.(*parse.StringNode); ok {
			out = append(out, s.Text)
		}
		return true
	})
	return out
}

// ---- scope-resolved references ------------------------------------------------

// TplRef is a reference to data in a template, resolved to an absolute path
// from the root dot: ".Errors[].Errors[].Name". Unresolvable bases are "?".
type TplRef struct {
	Path string
	Node parse.Node
	// InRanges lists the collections (absolute paths) being ranged over at the
	// point of the reference, outermost first.
	InRanges []string
	// ConstIndex is set when the reference is `index Path k` with constant k.
	ConstIndex bool
	Index      string
	Conds      []string // enclosing if/with conditions (source text), outermost first
}

type tplScope struct {
	dot    string
	vars   map[string]string
	ranges []string
	conds  []string
}

func (s tplScope) clone() tplScope {
	n := tplScope{dot: s.dot, vars: map[string]string{}, ranges: append([]string(nil), s.ranges...), conds: append([]string(nil), s.conds...)}
	for k, v := range s.vars {
		n.vars[k] = v
	}
	return n
}

func (s tplScope) resolve(n parse.Node) (string, bool) {
	switch x := n.(type) {
	case *parse.DotNode:
		return s.dot, true
	case *parse.FieldNode:
		return s.dot + "." + strings.Join(x.Ident, "."), true
	case *parse.VariableNode:
		base, ok := s.vars[x.Ident[0]]
		if !ok {
			return "?" + x.Ident[0], false
		}
		if len(x.Ident) > 1 {
			return base + "." + strings.Join(x.Ident[1:], "."), true
		}
		return base, true
	case *parse.ChainNode:
		base, ok := s.resolve(x.Node)
		return base + "." + strings.Join(x.Field, "."), ok
	case *parse.PipeNode:
		if len(x.Cmds) == 1 {
			return s.resolve(x.Cmds[0])
		}
	case *parse.CommandNode:
		if len(x.Args) == 1 {
			return s.resolve(x.Args[0])
		}
		// (index X k)
		if id, ok := x.Args[0].(*parse.IdentifierNode); ok && id.Ident == "index" && len(x.Args) == 3 {
			base, ok := s.resolve(x.Args[1])
			return base + "[" + x.Args[2].String() + "]", ok
		}
	}
	return "?", false
}

// TplRefs resolves every field/variable reference and every `index X k` call
// of the template to absolute paths, tracking range/with scopes.
func TplRefs(t *Tpl) []TplRef {
	var out []TplRef
	var walk func(n parse.Node, s tplScope)
	addRefs := func(n parse.Node, s tplScope) {
		WalkTpl(n, func(x parse.Node) bool {
			switch y := x.(type) {
			case *parse.FieldNode, *parse.VariableNode, *parse.ChainNode:
				if p, _ := s.resolve(y); p != "" {
					out = append(out, TplRef{Path: p, Node: y, InRanges: s.ranges, Conds: s.conds})
				}
				if _, isChain := y.(*parse.ChainNode); isChain {
					return true
				}
			case *parse.CommandNode:
				if len(y.Args) == 3 {
					if id, ok := y.Args[0].(*parse.IdentifierNode); ok && id.Ident == "index" {
						if _, isNum := y.Args[2].(*parse.NumberNode); isNum {
							base, _ := s.resolve(y.Args[1])
							out = append(out, TplRef{Path: base, Node: y, InRanges: s.ranges, ConstIndex: true, Index: y.Args[2].String(), Conds: s.conds})
						}
					}
				}
			}
			return true
		})
	}
	declare := func(p *parse.PipeNode, s *tplScope, elem string, isRange bool) {
		if p == nil {
			return
		}
		switch len(p.Decl) {
		case 1:
			s.vars[p.Decl[0].Ident[0]] = elem
		case 2:
			s.vars[p.Decl[0].Ident[0]] = "?idx"
			s.vars[p.Decl[1].Ident[0]] = elem
		}
		_ = isRange
	}
	walk = func(n parse.Node, s tplScope) {
		switch x := n.(type) {
		case nil:
		case *parse.ListNode:
			if x == nil {
				return
			}
			cur := s
			for _, c := range x.Nodes {
				// variable declarations in actions extend the current scope
				if a, ok := c.(*parse.ActionNode); ok && len(a.Pipe.Decl) > 0 {
					addRefs(a.Pipe, cur)
					val, _ := cur.resolve(a.Pipe)
					cur = cur.clone()
					declare(a.Pipe, &cur, val, false)
					continue
				}
				walk(c, cur)
			}
		case *parse.ActionNode:
			addRefs(x.Pipe, s)
		case *parse.IfNode:
			addRefs(x.Pipe, s)
			in := s.clone()
			in.conds = append(in.conds, x.Pipe.String())
			walk(x.List, in)
			if x.ElseList != nil {
				el := s.clone()
				el.conds = append(el.conds, "not("+x.Pipe.String()+")")
				walk(x.ElseList, el)
			}
		case *parse.WithNode:
			addRefs(x.Pipe, s)
			in := s.clone()
			val, _ := s.resolve(x.Pipe)
			in.dot = val
			in.conds = append(in.conds, x.Pipe.String())
			declare(x.Pipe, &in, val, false)
			walk(x.List, in)
			if x.ElseList != nil {
				walk(x.ElseList, s)
			}
		case *parse.RangeNode:
			addRefs(x.Pipe, s)
			coll, _ := s.resolve(x.Pipe)
			in := s.clone()
			in.dot = coll + "[]"
			in.ranges = append(in.ranges, coll)
			declare(x.Pipe, &in, coll+"[]", true)
			walk(x.List, in)
			if x.ElseList != nil {
				walk(x.ElseList, s)
			}
		case *parse.TemplateNode:
			if x.Pipe != nil {
				addRefs(x.Pipe, s)
			}
		}
	}
	root := tplScope{dot: "", vars: map[string]string{"$": ""}}
	walk(t.Tree.Root, root)
	return out
}

// RangeConstIndexHits returns the references that index, with a constant, a
// collection that is being ranged over at that point: inside `range C` the
// element is the dot; `index C 0` there almost always means every element is
// treated like the first one.
func RangeConstIndexHits(t *Tpl) []TplRef {
	var out []TplRef
	for _, r := range TplRefs(t) {
		if !r.ConstIndex {
			continue
		}
		for _, rg := range r.InRanges {
			if rg == r.Path {
				out = append(out, r)
			}
		}
	}
	return out
}

// TplIfChain is an if / else-if chain: the condition texts in order, and
// whether a final unconditional else exists.
type TplIfChain struct {
	Conds   []string
	HasElse bool
	Line    int
}

// TplIfChains returns every if/else-if chain of the template (a chain is
// reported once, from its first if).
func TplIfChains(t *Tpl) []TplIfChain {
	var out []TplIfChain
	inner := map[*parse.IfNode]bool{}
	WalkTpl(t.Tree.Root, func(n parse.Node) bool {
		in, ok := n.(*parse.IfNode)
		if !ok || inner[in] {
			return true
		}
		ch := TplIfChain{Line: 1 + strings.Count(t.Src[:int(in.Pos)], "\n")}
		cur := in
		for {
			ch.Conds = append(ch.Conds, cur.Pipe.String())
			if cur.ElseList == nil {
				break
			}
			if len(cur.ElseList.Nodes) == 1 {
				if next, ok := cur.ElseList.Nodes[0].(*parse.IfNode); ok && int(next.Pos) > 0 && strings.Contains(t.Src[elseStart(t.Src, int(next.Pos)):int(next.Pos)], "else") {
					inner[next] = true
					cur = next
					continue
				}
			}
			ch.HasElse = true
			break
		}
		out = append(out, ch)
		return true
	})
	return out
}

// elseStart returns the offset of the "{{" opening the action that contains pos.
func elseStart(src string, pos int) int {
	i := strings.LastIndex(src[:pos], "{{")
	if i < 0 {
		return 0
	}
	return i
}

// TplUnusedRangeVar is a `range $i, $v := …` whose element variable is never
// referenced in the body while the index variable is: the body works on
// positions, not on the elements it iterates over.
type TplUnusedRangeVar struct {
	Index, Elem string
	Line        int
}

// TplUnusedRangeVars lists them, and returns the number of two-variable ranges.
func TplUnusedRangeVars(t *Tpl) (int, []TplUnusedRangeVar) {
	n := 0
	var out []TplUnusedRangeVar
	WalkTpl(t.Tree.Root, func(nd parse.Node) bool {
		rn, ok := nd.(*parse.RangeNode)
		if !ok || rn.Pipe == nil || len(rn.Pipe.Decl) != 2 {
			return true
		}
		n++
		idx, el := rn.Pipe.Decl[0].Ident[0], rn.Pipe.Decl[1].Ident[0]
		used := map[string]bool{}
		WalkTpl(rn.List, func(m parse.Node) bool {
			switch v := m.(type) {
			case *parse.VariableNode:
				used[v.Ident[0]] = true
			case *parse.DotNode, *parse.FieldNode:
				used[el] = true // inside the range, dot is the element
			}
			return true
		})
		if used[idx] && !used[el] && el != "$_" {
			out = append(out, TplUnusedRangeVar{idx, el, 1 + strings.Count(t.Src[:int(rn.Pos)], "\n")})
		}
		return true
	})
	return n, out
}

// TplToken is one element of a linearised template body: literal text, or an
// output action with the data fields it reads (directly or through template
// variables defined from them).
type TplToken struct {
	Text   string   // literal text (Fields == nil)
	Fields []string // fields read by an output action
	Action bool
}

// TplLinear flattens n into tokens in document order: the bodies of if/range/
// with are inlined (both branches), control pipelines and variable
// definitions produce no token, and an output action lists the fields it reads
// with template variables replaced by the fields their definitions read.
func TplLinear(n parse.Node) []TplToken {
	vars := map[string][]string{}
	fieldsOf := func(n parse.Node) []string {
		set := map[string]bool{}
		for _, f := range TplFields(n) {
			if strings.HasPrefix(f, "$") {
				for _, g := range vars[f] {
					set[g] = true
				}
				continue
			}
			set[f] = true
		}
		var out []string
		for k := range set {
			out = append(out, k)
		}
		sort.Strings(out)
		return out
	}
	var out []TplToken
	var walk func(n parse.Node)
	walk = func(n parse.Node) {
		switch x := n.(type) {
		case *parse.ListNode:
			if x == nil {
				return
			}
			for _, c := range x.Nodes {
				walk(c)
			}
		case *parse.TextNode:
			out = append(out, TplToken{Text: string(x.Text)})
		case *parse.ActionNode:
			if len(x.Pipe.Decl) > 0 {
				var fs []string
				for _, cmd := range x.Pipe.Cmds {
					fs = append(fs, fieldsOf(cmd)...)
				}
				for _, d := range x.Pipe.Decl {
					name := strings.Join(d.Ident, ".")
					vars[name] = append(vars[name], fs...) // assignments accumulate: either definition may be live
				}
				return
			}
			out = append(out, TplToken{Fields: fieldsOf(x.Pipe), Action: true})
		case *parse.IfNode:
			walk(x.List)
			walk(x.ElseList)
		case *parse.RangeNode:
			walk(x.List)
			walk(x.ElseList)
		case *parse.WithNode:
			walk(x.List)
			walk(x.ElseList)
		}
	}
	walk(n)
	return out
}
