package an

import (
	"go/ast"
	"go/token"
	"go/types"
	"strings"
)

// Name roles of mapped attributes. A mapped attribute knows every child under
// two names: the design attribute name and the transport element name (HTTP
// header, cookie, parameter or gRPC metadata key). WalkMappedAttr hands both to
// its callback (name, elem). The methods of AttributeExpr, MappedAttributeExpr
// and Object that take an attribute name do not know element names and vice
// versa, so inside a callback the second parameter must never be passed where an
// attribute name is expected, nor the first where an element name is expected.

// RoleMisuse is one callback parameter passed in the wrong name role.
type RoleMisuse struct {
	Call   *ast.CallExpr
	Callee string
	Arg    string
	Has    string // role of the argument: "attribute name" or "element name"
	Wants  string
	Pos    token.Pos
}

// attrNameParams: callee (types.Func.FullName with the module prefix cut) ->
// indexes of the parameters that are design attribute names.
var attrNameParams = map[string][]int{
	"(*expr.AttributeExpr).IsRequired":          {0},
	"(*expr.AttributeExpr).IsRequiredNoDefault": {0},
	"(*expr.AttributeExpr).IsPrimitivePointer":  {0},
	"(*expr.AttributeExpr).HasDefaultValue":     {0},
	"(*expr.AttributeExpr).GetDefault":          {0},
	"(*expr.AttributeExpr).Find":                {0},
	"(*expr.AttributeExpr).Delete":              {0},
	"(*expr.MappedAttributeExpr).Delete":        {0},
	"(*expr.MappedAttributeExpr).Map":           {1},
	"(*expr.MappedAttributeExpr).ElemName":      {0},
	"(*expr.MappedAttributeExpr).FindKey":       {0},
	"(*expr.Object).Attribute":                  {0},
	"(*expr.Object).Set":                        {0},
	"(*expr.Object).Delete":                     {0},
}

// elemNameParams: parameters that are transport element names.
var elemNameParams = map[string][]int{
	"(*expr.MappedAttributeExpr).Map":     {0},
	"(*expr.MappedAttributeExpr).KeyName": {0},
}

// elemNameFields: struct fields (reference names) that hold a transport element name.
var elemNameFields = map[string]string{
	"HTTPName": "element name",
}

// RoleSites counts, and RoleMisuses lists, the role-typed argument positions
// inside the WalkMappedAttr callbacks of f.
func RoleMisuses(f *Func) (sites int, out []RoleMisuse) {
	info := f.Pkg.TypesInfo
	ast.Inspect(f.Decl.Body, func(n ast.Node) bool {
		call, ok := n.(*ast.CallExpr)
		if !ok {
			return true
		}
		name := strings.ReplaceAll(CalleeName(info, call), Mod+"/", "")
		if name != "expr.WalkMappedAttr" && name != "codegen.WalkMappedAttr" || len(call.Args) != 2 {
			return true
		}
		lit, ok := call.Args[1].(*ast.FuncLit)
		if !ok || lit.Type.Params == nil {
			return true
		}
		var params []types.Object
		for _, fl := range lit.Type.Params.List {
			for _, id := range fl.Names {
				params = append(params, info.Defs[id])
			}
		}
		if len(params) < 2 {
			return true
		}
		nameP, elemP := params[0], params[1]
		// the 4-parameter walker (codegen.WalkMappedAttr) already tells the callback whether the
		// attribute is required (IsRequired on the walked collection): a callback that asks the
		// collection again, with another predicate, disagrees with its siblings that use the flag
		if name == "codegen.WalkMappedAttr" {
			ast.Inspect(lit.Body, func(m ast.Node) bool {
				c2, ok := m.(*ast.CallExpr)
				if !ok {
					return true
				}
				se, ok := c2.Fun.(*ast.SelectorExpr)
				if !ok || se.Sel.Name != "IsRequiredNoDefault" { // IsRequired is what the walker itself computes: asking again is redundant, not different
					return true
				}
				if SameExpr(info, se.X, call.Args[0]) {
					sites++
					out = append(out, RoleMisuse{c2, se.Sel.Name, Src(f.Pkg.Fset, c2), "recomputed required flag", "the walker's required parameter", c2.Pos()})
				}
				return true
			})
		}
		// struct fields with a name role: the wire name of a transport element is the element name
		ast.Inspect(lit.Body, func(m ast.Node) bool {
			kv, ok := m.(*ast.KeyValueExpr)
			if !ok {
				return true
			}
			k, ok := kv.Key.(*ast.Ident)
			if !ok {
				return true
			}
			fv, _ := info.Uses[k].(*types.Var)
			if fv == nil || !fv.IsField() {
				return true
			}
			role, known := elemNameFields[CanonFieldName(fv)]
			if !known {
				return true
			}
			id, ok := ast.Unparen(kv.Value).(*ast.Ident)
			if !ok {
				return true
			}
			o := info.Uses[id]
			if o != nameP && o != elemP {
				return true
			}
			sites++
			if o == nameP {
				out = append(out, RoleMisuse{nil, "field " + k.Name, id.Name, "attribute name", role, kv.Pos()})
			}
			return true
		})
		ast.Inspect(lit.Body, func(m ast.Node) bool {
			c2, ok := m.(*ast.CallExpr)
			if !ok {
				return true
			}
			callee := strings.ReplaceAll(CalleeName(info, c2), Mod+"/", "")
			check := func(idxs []int, wants string, bad types.Object, has string) {
				for _, i := range idxs {
					if i >= len(c2.Args) {
						continue
					}
					id, ok := ast.Unparen(c2.Args[i]).(*ast.Ident)
					if !ok {
						continue
					}
					o := info.Uses[id]
					if o != nameP && o != elemP {
						continue
					}
					sites++
					if o == bad && bad != nil {
						out = append(out, RoleMisuse{c2, callee, id.Name, has, wants, c2.Pos()})
					}
				}
			}
			check(attrNameParams[callee], "attribute name", elemP, "element name")
			check(elemNameParams[callee], "element name", nameP, "attribute name")
			return true
		})
		return true
	})
	return
}
