package an

import (
	"go/ast"
	"go/token"
	"go/types"
	"os"
	"regexp"
	"sort"
	"strings"
)

// Sibling-word parity. Some concepts of the code base come in pairs that are
// handled by the same code twice over - HTTP headers and cookies, gRPC headers
// and trailers. Within one function, the units (simple statements, loop and
// branch heads, boolean operands, keyed literal fields) that mention one word
// of the pair must match, after the word is blanked, the units that mention
// the other: a unit present for one and absent (or different) for the other is
// an asymmetry.

// ParityAsym is one unmatched unit.
type ParityAsym struct {
	Word string // the word of the pair the unit mentions
	Norm string // normalised unit text
	Src  string
	Pos  token.Pos
}

type parityUnit struct {
	norm, src string
	pos       token.Pos
	named     bool // the unit defines a local that is used once; the consumer's unit contains it
}

func hasFuncLit(n ast.Node) bool {
	found := false
	ast.Inspect(n, func(m ast.Node) bool {
		if _, ok := m.(*ast.FuncLit); ok {
			found = true
		}
		return !found
	})
	return found
}

var srcCache = map[string][]byte{}

func fileBytes(name string) []byte {
	if b, ok := srcCache[name]; ok {
		return b
	}
	b, _ := os.ReadFile(name)
	srcCache[name] = b
	return b
}

// normUnit renders n from its source text with (1) selected struct fields whose
// name matches re blanked, (2) the word blanked inside string literals, (3)
// local variables replaced by "_" (so that renaming a local is not a change).
func normUnit(f *Func, n ast.Node, re *regexp.Regexp) (string, bool) {
	return normUnitDepth(f, n, re, 0)
}

// singleDefOf returns the defining expression of local variable use id when the
// variable has exactly one definition and this one use in f, nil otherwise.
func singleDefOf(f *Func, id *ast.Ident) ast.Expr {
	info := f.Pkg.TypesInfo
	v, ok := info.Uses[id].(*types.Var)
	if !ok || v.IsField() || v.Parent() == nil || v.Parent() == v.Pkg().Scope() {
		return nil
	}
	var probe ast.Expr = id
	def := ResolveLocalOnce(info, f.Decl.Body, probe)
	if def == probe {
		return nil
	}
	// used once: the local only names an intermediate value
	uses := 0
	ast.Inspect(f.Decl.Body, func(n ast.Node) bool {
		if u, ok := n.(*ast.Ident); ok && info.Uses[u] == types.Object(v) {
			uses++
		}
		return true
	})
	if uses != 1 {
		return nil
	}
	return def
}

func normUnitDepth(f *Func, n ast.Node, re *regexp.Regexp, depth int) (string, bool) {
	fset := f.Pkg.Fset
	file := fset.File(n.Pos())
	src := fileBytes(file.Name())
	lo, hi := file.Offset(n.Pos()), file.Offset(n.End())
	if src == nil || hi > len(src) {
		return "", false
	}
	type repl struct {
		lo, hi int
		s      string
	}
	var rs []repl
	blank := func(m string) string {
		if strings.HasSuffix(strings.ToLower(m), "s") {
			return "□s"
		}
		return "□"
	}
	hit := false
	info := f.Pkg.TypesInfo
	ast.Inspect(n, func(m ast.Node) bool {
		switch x := m.(type) {
		case *ast.SelectorExpr:
			if _, ok := info.Uses[x.Sel].(*types.Func); ok && re.MatchString(x.Sel.Name) {
				rs = append(rs, repl{file.Offset(x.Sel.Pos()), file.Offset(x.Sel.End()), re.ReplaceAllStringFunc(x.Sel.Name, blank)})
			}
			if v, ok := info.Uses[x.Sel].(*types.Var); ok && v.IsField() && re.MatchString(x.Sel.Name) {
				hit = true
				rs = append(rs, repl{file.Offset(x.Sel.Pos()), file.Offset(x.Sel.End()), re.ReplaceAllStringFunc(x.Sel.Name, blank)})
			}
		case *ast.KeyValueExpr:
			if id, ok := x.Key.(*ast.Ident); ok {
				if v, ok := info.Uses[id].(*types.Var); ok && v.IsField() && re.MatchString(id.Name) {
					hit = true
					rs = append(rs, repl{file.Offset(id.Pos()), file.Offset(id.End()), re.ReplaceAllStringFunc(id.Name, blank)})
				}
			}
		case *ast.BasicLit:
			if x.Kind == token.STRING && re.MatchString(x.Value) {
				rs = append(rs, repl{file.Offset(x.Pos()), file.Offset(x.End()), re.ReplaceAllStringFunc(x.Value, blank)})
			}
		case *ast.Ident:
			o := info.Uses[x]
			if o == nil {
				o = info.Defs[x]
			}
			if v, ok := o.(*types.Var); ok && !v.IsField() && v.Parent() != nil && v.Parent() != v.Pkg().Scope() {
				// a local that merely names a value computed from a field of the pair reads as that value
				if depth < 2 && info.Uses[x] != nil {
					if def := singleDefOf(f, x); def != nil && !hasFuncLit(def) {
						if s, ok := normUnitDepth(f, def, re, depth+1); ok {
							hit = true
							rs = append(rs, repl{file.Offset(x.Pos()), file.Offset(x.End()), s})
							return true
						}
					}
				}
				rs = append(rs, repl{file.Offset(x.Pos()), file.Offset(x.End()), "_"})
			}
			if _, ok := o.(*types.Func); ok && re.MatchString(x.Name) {
				rs = append(rs, repl{file.Offset(x.Pos()), file.Offset(x.End()), re.ReplaceAllStringFunc(x.Name, blank)})
			}
		}
		return true
	})
	if !hit {
		return "", false
	}
	sort.Slice(rs, func(i, j int) bool { return rs[i].lo < rs[j].lo })
	var b strings.Builder
	at := lo
	for _, r := range rs {
		if r.lo < at {
			continue
		}
		b.Write(src[at:r.lo])
		b.WriteString(r.s)
		at = r.hi
	}
	b.Write(src[at:hi])
	return strings.Join(strings.Fields(b.String()), " "), true
}

// hasSiblingField reports whether the struct t (possibly behind pointers)
// holding field v has another field whose name equals v's once the pair words
// are blanked (Headers/Cookies, HeaderSchemes/CookieSchemes).
func hasSiblingField(t types.Type, v *types.Var, both *regexp.Regexp) bool {
	for {
		if p, ok := t.Underlying().(*types.Pointer); ok {
			t = p.Elem()
			continue
		}
		break
	}
	st, ok := t.Underlying().(*types.Struct)
	if !ok {
		return false
	}
	want := both.ReplaceAllString(v.Name(), "□")
	found := false
	var walk func(st *types.Struct)
	walk = func(st *types.Struct) {
		for i := 0; i < st.NumFields(); i++ {
			fl := st.Field(i)
			if fl != v && both.MatchString(fl.Name()) && both.ReplaceAllString(fl.Name(), "□") == want {
				found = true
			}
			if fl.Embedded() {
				et := fl.Type()
				if p, ok := et.Underlying().(*types.Pointer); ok {
					et = p.Elem()
				}
				if est, ok := et.Underlying().(*types.Struct); ok {
					walk(est)
				}
			}
		}
	}
	walk(st)
	return found
}

// ParentMap maps every node under root to its parent.
func ParentMap(root ast.Node) map[ast.Node]ast.Node {
	parent := map[ast.Node]ast.Node{}
	var stack []ast.Node
	ast.Inspect(root, func(n ast.Node) bool {
		if n == nil {
			stack = stack[:len(stack)-1]
			return true
		}
		if len(stack) > 0 {
			parent[n] = stack[len(stack)-1]
		}
		stack = append(stack, n)
		return true
	})
	return parent
}

// parityUnits: for every selection of a struct field whose name matches re, the
// consumer context of the selection - the selector chain, widened to the call it
// is the receiver or an argument of (two levels), to a negation or a comparison
// with a constant, or to the assignment it is the target of; a keyed literal
// field is its own unit. A bare selection (the value merely read into a local,
// ranged over, passed on) is no unit: how often and where the value is fetched
// is style.
func parityUnits(f *Func, re, both *regexp.Regexp) []parityUnit {
	var out []parityUnit
	info := f.Pkg.TypesInfo
	parent := ParentMap(f.Decl.Body)
	emit := func(n ast.Node) {
		if hasFuncLit(n) {
			return
		}
		if norm, ok := normUnit(f, n, both); ok {
			out = append(out, parityUnit{norm: norm, src: Src(f.Pkg.Fset, n), pos: n.Pos()})
		}
	}
	climb := func(start ast.Node, calls int) (ast.Node, bool, int) {
		cur := start
		widened := false
	climb:
		for {
			p := parent[cur]
			switch px := p.(type) {
			case *ast.SelectorExpr:
				if px.X == cur {
					cur = p
					continue
				}
			case *ast.StarExpr, *ast.ParenExpr:
				if !widened {
					cur = p
					continue
				}
			case *ast.TypeAssertExpr:
				if px.X == cur {
					cur = p
					continue
				}
			case *ast.IndexExpr:
				if px.X == cur {
					cur = p
					widened = true
					continue
				}
			case *ast.CallExpr:
				if calls < 2 {
					calls++
					cur = p
					widened = true
					continue
				}
			case *ast.UnaryExpr:
				if px.Op == token.NOT {
					cur = p
					widened = true
					continue
				}
			case *ast.BinaryExpr:
				other := px.X
				if other == cur {
					other = px.Y
				}
				if tv, ok := info.Types[other]; ok && (tv.Value != nil || tv.IsNil()) {
					cur = p
					widened = true
				}
			case *ast.AssignStmt:
				for _, l := range px.Lhs {
					if l == cur {
						cur = p
						widened = true
					}
				}
			}
			break climb
		}
		return cur, widened, calls
	}
	// namedUses: when cur is the whole right-hand side that defines a local with a single definition, the
	// uses of that local
	namedUses := func(cur ast.Node) []ast.Node {
		as, ok := parent[cur].(*ast.AssignStmt)
		if !ok || len(as.Lhs) != len(as.Rhs) {
			return nil
		}
		for i, r := range as.Rhs {
			if r != cur {
				continue
			}
			id, ok := as.Lhs[i].(*ast.Ident)
			if !ok {
				return nil
			}
			o := ObjOf(info, id)
			var uses []ast.Node
			ast.Inspect(f.Decl.Body, func(n ast.Node) bool {
				if u, ok := n.(*ast.Ident); ok && info.Uses[u] == o && o != nil {
					if singleDefOf(f, u) == nil {
						uses = nil
						return false
					}
					uses = append(uses, u)
				}
				return true
			})
			return uses
		}
		return nil
	}
	ast.Inspect(f.Decl.Body, func(n ast.Node) bool {
		switch x := n.(type) {
		case *ast.KeyValueExpr:
			if id, ok := x.Key.(*ast.Ident); ok {
				if v, ok := info.Uses[id].(*types.Var); ok && v.IsField() && re.MatchString(id.Name) && hasSiblingField(info.TypeOf(parent[x].(ast.Expr)), v, both) {
					// value literals carry their own keyed fields
					if cl, ok := x.Value.(*ast.CompositeLit); !ok || len(cl.Elts) == 0 {
						if u, ok := x.Value.(*ast.UnaryExpr); !ok || func() bool { _, isLit := u.X.(*ast.CompositeLit); return !isLit }() {
							emit(x)
						}
					}
				}
			}
		case *ast.SelectorExpr:
			v, ok := info.Uses[x.Sel].(*types.Var)
			if !ok || !v.IsField() || !re.MatchString(x.Sel.Name) {
				return true
			}
			if v.Pkg() == nil || !strings.HasPrefix(v.Pkg().Path(), Mod) {
				return true // not a field of this module
			}
			if sel := info.Selections[x]; sel == nil || !hasSiblingField(sel.Recv(), v, both) {
				return true // the struct has no counterpart field
			}
			cur, widened, calls := climb(x, 0)
			// the value is merely named (a local used once): its consumer is the consumer of the local; the
			// definition stays a unit of its own, forgiven when the consumer's unit contains it
			named := false
			for _, u := range namedUses(cur) {
				if c2, w2, _ := climb(u, calls); w2 && c2 != u {
					emit(c2)
					named = true
				}
			}
			if widened {
				emit(cur)
				if named {
					out[len(out)-1].named = true
				}
			}
		}
		return true
	})
	return out
}

// Parity compares the units of f mentioning word a with those mentioning word
// b (regular expressions, matched case-insensitively with an optional plural).
func Parity(f *Func, a, b string) []ParityAsym {
	return ParityBetween(f, f, a, b)
}

// ParityBetween compares the units of fa that mention word a with the units of
// fb that mention word b: fa == fb for a function handling both, or a pair of
// sibling functions (headers()/cookies()) each handling one.
func ParityBetween(fa, fb *Func, a, b string) []ParityAsym {
	ra := regexp.MustCompile(`(?i)` + a + `s?`)
	rb := regexp.MustCompile(`(?i)` + b + `s?`)
	both := regexp.MustCompile(`(?i)(` + a + `|` + b + `)s?`)
	ua, ub := parityUnits(fa, ra, both), parityUnits(fb, rb, both)
	inA, inB := map[string]bool{}, map[string]bool{}
	for _, u := range ua {
		inA[u.norm] = true
	}
	for _, u := range ub {
		inB[u.norm] = true
	}
	// a unit that only names an intermediate value is covered by the unit of its consumer
	covered := func(u parityUnit, own []parityUnit) bool {
		if !u.named {
			return false
		}
		for _, o := range own {
			if o.norm != u.norm && strings.Contains(o.norm, u.norm) {
				return true
			}
		}
		return false
	}
	var out []ParityAsym
	for _, u := range ub {
		if !inA[u.norm] && !covered(u, ub) {
			out = append(out, ParityAsym{b, u.norm, u.src, u.pos})
		}
	}
	for _, u := range ua {
		if !inB[u.norm] && !covered(u, ua) {
			out = append(out, ParityAsym{a, u.norm, u.src, u.pos})
		}
	}
	sort.Slice(out, func(i, j int) bool { return out[i].Pos < out[j].Pos })
	return out
}

// ParityUnitCount returns how many units of f mention word (of the pair a/b).
func ParityUnitCount(f *Func, word, a, b string) int {
	re := regexp.MustCompile(`(?i)` + word + `s?`)
	both := regexp.MustCompile(`(?i)(` + a + `|` + b + `)s?`)
	return len(parityUnits(f, re, both))
}

// SeqAsym is a pair of sibling variables (headers/cookies) that receive the same calls in a different order.
type SeqAsym struct {
	VarA, VarB, Method string
	Pos                token.Pos
	SeqA, SeqB         []string
}

// SeqParityWords are the concept pairs whose sibling variables must be fed in the same order.
var SeqParityWords = [][2]string{{"header", "cookie"}, {"header", "param"}, {"cookie", "param"}, {"header", "trailer"}}

// SeqParity compares, for every local variable of f named after word a and its sibling named after word b, the
// order of the calls of one method on them (headers.Merge(x.Headers) … / cookies.Merge(x.Cookies) …): calls on one
// receiver are order-dependent (a later Merge wins), and the two families are meant to be treated alike.
func SeqParity(f *Func, a, b string) []SeqAsym {
	info := f.Pkg.TypesInfo
	type key struct {
		v types.Object
		m string
	}
	type call struct {
		norm string
		pos  token.Pos
	}
	groups := map[key][]call{}
	var order []key
	re := regexp.MustCompile(`(?i)(` + a + `|` + b + `)`)
	ast.Inspect(f.Decl.Body, func(n ast.Node) bool {
		c, ok := n.(*ast.CallExpr)
		if !ok {
			return true
		}
		se, ok := Unparen(c.Fun).(*ast.SelectorExpr)
		if !ok {
			return true
		}
		id, ok := Unparen(se.X).(*ast.Ident)
		if !ok {
			return true
		}
		o := ObjOf(info, id)
		if _, isVar := o.(*types.Var); !isVar {
			return true
		}
		var args []string
		for _, x := range c.Args {
			args = append(args, re.ReplaceAllString(types.ExprString(x), "□"))
		}
		k := key{o, se.Sel.Name}
		if _, seen := groups[k]; !seen {
			order = append(order, k)
		}
		groups[k] = append(groups[k], call{strings.Join(args, ", "), c.Pos()})
		return true
	})
	var out []SeqAsym
	for _, k := range order {
		name := strings.ToLower(k.v.Name())
		if !strings.Contains(name, a) || len(groups[k]) < 2 {
			continue
		}
		want := strings.Replace(name, a, b, 1)
		for _, k2 := range order {
			if k2.m != k.m || strings.ToLower(k2.v.Name()) != want || k2.v == k.v {
				continue
			}
			inB, inA := map[string]int{}, map[string]int{}
			for _, c := range groups[k2] {
				inB[c.norm]++
			}
			for _, c := range groups[k] {
				inA[c.norm]++
			}
			var sa, sb []string
			var firstPos token.Pos
			for _, c := range groups[k] {
				if inB[c.norm] == 1 && inA[c.norm] == 1 {
					sa = append(sa, c.norm)
				}
			}
			for _, c := range groups[k2] {
				if inB[c.norm] == 1 && inA[c.norm] == 1 {
					sb = append(sb, c.norm)
				}
			}
			for i := range sa {
				if sa[i] != sb[i] {
					for _, c := range groups[k] {
						if c.norm == sa[i] {
							firstPos = c.pos
						}
					}
					out = append(out, SeqAsym{k.v.Name(), k2.v.Name(), k.m, firstPos, sa, sb})
					break
				}
			}
		}
	}
	return out
}
