package an

import (
	"go/ast"
	"go/types"
	"sort"
	"strings"
)

// Rename canonicalisation. The reference tree's unexported struct fields and
// package-level variables are recorded (refsyms.go, generated with
// `goacheck -listsyms`). When today's tree has, in the same struct (or
// package), a name the reference does not know and the reference has exactly
// one name of the same type that today's tree lacks, the new name is a rename
// of the old one: path-table terms print the reference name, so that rules
// written against the reference vocabulary keep deciding the same code. The
// same is done for functions through their signatures (referenceFuncs).

// canonField returns the reference name of field i of struct type st (named n).
func canonField(n *types.Named, st *types.Struct, i int) string {
	f := st.Field(i)
	if n == nil || n.Obj().Pkg() == nil || !strings.HasPrefix(n.Obj().Pkg().Path(), Mod) {
		return f.Name()
	}
	key := strings.ReplaceAll(n.Obj().Pkg().Path(), Mod+"/", "") + "." + n.Obj().Name()
	ref, ok := referenceFields[key]
	if !ok {
		return f.Name()
	}
	if _, known := ref[f.Name()]; known {
		return f.Name()
	}
	// candidates: reference fields of the same type that no longer exist
	cur := map[string]bool{}
	for j := 0; j < st.NumFields(); j++ {
		cur[st.Field(j).Name()] = true
	}
	ft := types.TypeString(f.Type(), nil)
	var lost []string
	for name, typ := range ref {
		if !cur[name] && typ == ft {
			lost = append(lost, name)
		}
	}
	// and the new fields of that type (a one-to-one rename only)
	newOfType := 0
	for j := 0; j < st.NumFields(); j++ {
		g := st.Field(j)
		if _, known := ref[g.Name()]; !known && types.TypeString(g.Type(), nil) == ft {
			newOfType++
		}
	}
	if len(lost) == 1 && newOfType == 1 {
		return lost[0]
	}
	return f.Name()
}

func namedOf(t types.Type) (*types.Named, *types.Struct) {
	for i := 0; i < 3; i++ {
		if p, ok := t.(*types.Pointer); ok {
			t = p.Elem()
		}
	}
	n, _ := t.(*types.Named)
	st, _ := t.Underlying().(*types.Struct)
	return n, st
}

// canonGlobal returns the reference name of a package-level variable.
func canonGlobal(pkg *types.Package, name string, typ types.Type) string {
	if pkg == nil || !strings.HasPrefix(pkg.Path(), Mod) {
		return name
	}
	dir := strings.ReplaceAll(pkg.Path(), Mod+"/", "")
	ref, ok := referenceGlobals[dir]
	if !ok {
		return name
	}
	if _, known := ref[name]; known {
		return name
	}
	vt := types.TypeString(typ, nil)
	var lost []string
	for n, t := range ref {
		if t == vt && pkg.Scope().Lookup(n) == nil {
			lost = append(lost, n)
		}
	}
	newOfType := 0
	for _, n := range pkg.Scope().Names() {
		if v, ok := pkg.Scope().Lookup(n).(*types.Var); ok {
			if _, known := ref[n]; !known && types.TypeString(v.Type(), nil) == vt {
				newOfType++
			}
		}
	}
	if len(lost) == 1 && newOfType == 1 {
		return lost[0]
	}
	// several variables of the type were renamed: pair them by initialiser
	if init, ok := currentGlobalInits[dir][name]; ok && init != "" {
		var same []string
		for _, n := range lost {
			if referenceGlobalInits[dir][n] == init {
				same = append(same, n)
			}
		}
		newSame := 0
		for n, in := range currentGlobalInits[dir] {
			if _, known := ref[n]; !known && in == init {
				newSame++
			}
		}
		if len(same) == 1 && newSame == 1 {
			return same[0]
		}
	}
	return name
}

// currentGlobalInits: initialiser text of the package-level variables of the tree under analysis (set by Load).
var currentGlobalInits = map[string]map[string]string{}

// canonFuncName maps a function introduced since the reference tree to the
// reference function it renames: the only reference function of the package
// (same receiver) with the same signature that no longer exists, provided it is
// the only new function with that signature.
func canonFuncName(fn *types.Func, name string) string {
	if fn == nil || fn.Pkg() == nil || !strings.HasPrefix(fn.Pkg().Path(), Mod) {
		return name
	}
	if _, known := referenceFuncs[name]; known {
		return name
	}
	sig := sigString(fn)
	prefix := name[:strings.LastIndex(name, ".")+1] // "pkg." or "(*pkg.T)."
	var lost []string
	for n, sg := range referenceFuncs {
		if sg == sig && strings.HasPrefix(n, prefix) && !strings.Contains(n[len(prefix):], ".") && !funcStillExists(fn.Pkg(), n, prefix) {
			lost = append(lost, n)
		}
	}
	sort.Strings(lost)
	if len(lost) == 1 && countNewWithSig(fn, prefix, sig) == 1 {
		return lost[0]
	}
	// a method turned into a plain function taking the receiver first (or the reverse): same name, same
	// parameters once the receiver is counted as the first one, and the reference form is gone
	short := name[strings.LastIndex(name, ".")+1:]
	pkgDir := strings.ReplaceAll(fn.Pkg().Path(), Mod+"/", "")
	isMethod := strings.HasPrefix(prefix, "(")
	var conv []string
	for n, sg := range referenceFuncs {
		np := n[:strings.LastIndex(n, ".")+1]
		if n[len(np):] != short || strings.HasPrefix(np, "(") == isMethod {
			continue
		}
		_ = sg // the parameters may have been narrowed with the conversion (the router instead of the muxer)
		// same package
		inPkg := np == pkgDir+"." || strings.HasPrefix(np, "(*"+pkgDir+".") || strings.HasPrefix(np, "("+pkgDir+".")
		if inPkg && !funcStillExists(fn.Pkg(), n, np) {
			conv = append(conv, n)
		}
	}
	if len(conv) == 1 {
		return conv[0]
	}
	return name
}

// flatSig rewrites "[R](a, b)(r)" as "(R, a, b)(r)": the signature with the receiver as first parameter.
func flatSig(sig string) string {
	if !strings.HasPrefix(sig, "[") {
		return sig
	}
	end := strings.Index(sig, "](")
	if end < 0 {
		return sig
	}
	recv, rest := sig[1:end], sig[end+2:]
	if strings.HasPrefix(rest, ")") {
		return "(" + recv + rest
	}
	return "(" + recv + ", " + rest
}

func funcStillExists(pkg *types.Package, refName, prefix string) bool {
	short := refName[len(prefix):]
	if !strings.HasPrefix(prefix, "(") {
		_, ok := pkg.Scope().Lookup(short).(*types.Func)
		return ok
	}
	// method: "(*pkg.T)." or "(pkg.T)."
	tn := strings.TrimSuffix(strings.TrimPrefix(strings.TrimPrefix(prefix, "("), "*"), ").")
	tn = tn[strings.LastIndex(tn, ".")+1:]
	obj, ok := pkg.Scope().Lookup(tn).(*types.TypeName)
	if !ok {
		return false
	}
	named, ok := obj.Type().(*types.Named)
	if !ok {
		return false
	}
	for i := 0; i < named.NumMethods(); i++ {
		if named.Method(i).Name() == short {
			return true
		}
	}
	return false
}

func countNewWithSig(fn *types.Func, prefix, sig string) int {
	n := 0
	consider := func(g *types.Func) {
		gn := strings.ReplaceAll(g.FullName(), Mod+"/", "")
		if _, known := referenceFuncs[gn]; !known && strings.HasPrefix(gn, prefix) && sigString(g) == sig {
			n++
		}
	}
	pkg := fn.Pkg()
	if !strings.HasPrefix(prefix, "(") {
		for _, name := range pkg.Scope().Names() {
			if g, ok := pkg.Scope().Lookup(name).(*types.Func); ok {
				consider(g)
			}
		}
		return n
	}
	if recv := fn.Type().(*types.Signature).Recv(); recv != nil {
		if named, _ := namedOf(recv.Type()); named != nil {
			for i := 0; i < named.NumMethods(); i++ {
				consider(named.Method(i))
			}
		}
	}
	return n
}

// CanonGlobalName returns the reference name of package-level variable v.
func CanonGlobalName(v *types.Var) string {
	return canonGlobal(v.Pkg(), v.Name(), v.Type())
}

// LookupGlobal returns the package-level variable of pkg whose reference name
// is refName: the variable of that name, or the one that renames it.
func LookupGlobal(pkg *types.Package, refName string) types.Object {
	if o := pkg.Scope().Lookup(refName); o != nil {
		return o
	}
	for _, n := range pkg.Scope().Names() {
		if v, ok := pkg.Scope().Lookup(n).(*types.Var); ok && canonGlobal(pkg, n, v.Type()) == refName {
			return v
		}
	}
	return nil
}

var canonFieldCache = map[*types.Var]string{}

// CanonFieldName returns the reference name of struct field v: its own name
// unless it renames a field of the reference tree (see canonField).
func CanonFieldName(v *types.Var) string {
	if v == nil || !v.IsField() || v.Pkg() == nil || !strings.HasPrefix(v.Pkg().Path(), Mod) {
		if v == nil {
			return ""
		}
		return v.Name()
	}
	if s, ok := canonFieldCache[v]; ok {
		return s
	}
	name := v.Name()
	sc := v.Pkg().Scope()
	for _, tn := range sc.Names() {
		o, ok := sc.Lookup(tn).(*types.TypeName)
		if !ok {
			continue
		}
		n, _ := o.Type().(*types.Named)
		st, ok := o.Type().Underlying().(*types.Struct)
		if !ok || n == nil {
			continue
		}
		for i := 0; i < st.NumFields(); i++ {
			if st.Field(i) == v {
				name = canonField(n, st, i)
			}
		}
	}
	canonFieldCache[v] = name
	return name
}

// CanonGlobalNameOf returns the reference name of the package-level variable id denotes, "" if it denotes none.
func CanonGlobalNameOf(info *types.Info, id *ast.Ident) string {
	v, ok := info.Uses[id].(*types.Var)
	if !ok || v.Pkg() == nil || v.Parent() != v.Pkg().Scope() {
		return ""
	}
	return CanonGlobalName(v)
}
