package an

import (
	"go/ast"
	"go/token"
	"go/types"
	"strconv"

	"golang.org/x/tools/go/cfg"
)

// Engine E5: nil and bounds rules over go/cfg with edge-dominance facts.

// CondFact is a branch condition known to hold (Holds) or not at a location.
type CondFact struct {
	Cond  ast.Expr
	Tag   ast.Expr // non-nil for `switch tag { case Cond: }` comparisons
	Holds bool
	Block *cfg.Block
}

func (c *CFG) preds() map[*cfg.Block][]*cfg.Block {
	p := map[*cfg.Block][]*cfg.Block{}
	for _, b := range c.live {
		for _, s := range b.Succs {
			p[s] = append(p[s], b)
		}
	}
	return p
}

// DominatingFacts returns the branch conditions whose outcome is fixed at loc:
// for a branch block B with successors T/E, the condition holds at loc when T
// is entered only from B and dominates loc (and symmetrically for E). In
// addition, when one successor of B cannot reach loc at all while B dominates
// loc, the other outcome holds (early-exit guards: `if x == nil { return }`).
func (c *CFG) DominatingFacts(loc Loc) []CondFact {
	preds := c.preds()
	var out []CondFact
	for _, b := range c.live {
		br, ok := c.BranchOf(b)
		if !ok || br.True == br.Else {
			continue
		}
		if b == loc.Block {
			continue
		}
		if !c.Dominates(b, loc.Block) {
			continue
		}
		tDom := len(preds[br.True]) == 1 && c.Dominates(br.True, loc.Block)
		eDom := len(preds[br.Else]) == 1 && c.Dominates(br.Else, loc.Block)
		tReach := br.True == loc.Block || c.blockReaches(br.True, loc.Block)
		eReach := br.Else == loc.Block || c.blockReaches(br.Else, loc.Block)
		switch {
		case tDom && !eDom, tReach && !eReach:
			out = append(out, CondFact{Cond: br.Cond, Tag: br.Tag, Holds: true, Block: b})
		case eDom && !tDom, eReach && !tReach:
			out = append(out, CondFact{Cond: br.Cond, Tag: br.Tag, Holds: false, Block: b})
		}
	}
	return out
}

func (c *CFG) blockReaches(a, b *cfg.Block) bool {
	seen := map[*cfg.Block]bool{}
	var walk func(x *cfg.Block) bool
	walk = func(x *cfg.Block) bool {
		if x == b {
			return true
		}
		if seen[x] {
			return false
		}
		seen[x] = true
		for _, s := range x.Succs {
			if walk(s) {
				return true
			}
		}
		return false
	}
	for _, s := range a.Succs {
		if walk(s) {
			return true
		}
	}
	return false
}

// splitConj flattens a condition known to hold into its conjuncts (a && b) or,
// when known not to hold, its negated disjuncts (!(a || b) = !a && !b).
func splitConj(e ast.Expr, holds bool) []CondFact {
	e = Unparen(e)
	if u, ok := e.(*ast.UnaryExpr); ok && u.Op == token.NOT {
		return splitConj(u.X, !holds)
	}
	if b, ok := e.(*ast.BinaryExpr); ok {
		if (b.Op == token.LAND && holds) || (b.Op == token.LOR && !holds) {
			return append(splitConj(b.X, holds), splitConj(b.Y, holds)...)
		}
	}
	return []CondFact{{Cond: e, Holds: holds}}
}

// NonNilAt reports whether variable v is known non-nil at loc through a
// dominating test (v != nil holds, or v == nil does not hold), or a comma-ok
// success, with no assignment to v between the test and loc.
func (c *CFG) NonNilAt(v types.Object, loc Loc) bool {
	for _, f := range c.DominatingFacts(loc) {
		if f.Tag != nil {
			continue
		}
		for _, a := range splitConj(f.Cond, f.Holds) {
			x, notNil, ok := NilCompare(c.Info, a.Cond)
			if !ok || ObjOf(c.Info, x) != v {
				continue
			}
			if notNil == a.Holds {
				if !c.assignedBetween(v, f.Block, loc) {
					return true
				}
			}
		}
	}
	return false
}

// assignedBetween reports whether v may be assigned on a path from the end of
// block from to loc.
func (c *CFG) assignedBetween(v types.Object, from *cfg.Block, loc Loc) bool {
	start := Loc{from, len(from.Nodes) - 1}
	for _, b := range c.live {
		for i, n := range b.Nodes {
			if !AssignsTo(c.Info, n, v) {
				continue
			}
			l := Loc{b, i}
			if l == loc {
				continue
			}
			if c.Reaches(start, l, nil) && (c.Reaches(l, loc, nil)) {
				// the assignment executes after the test and before loc on some path
				if b == from {
					continue
				}
				return true
			}
		}
	}
	return false
}

// lenFact is a comparison of len(v) with a constant.
type lenFact struct {
	op token.Token
	n  int
}

func (f lenFact) sat(x int, holds bool) bool {
	var r bool
	switch f.op {
	case token.EQL:
		r = x == f.n
	case token.NEQ:
		r = x != f.n
	case token.LSS:
		r = x < f.n
	case token.LEQ:
		r = x <= f.n
	case token.GTR:
		r = x > f.n
	case token.GEQ:
		r = x >= f.n
	default:
		return true
	}
	return r == holds
}

const lenTop = 1 << 20

// lenFactsOf extracts the len(v) comparisons of a branch condition with the
// polarity each has when the condition as a whole holds / does not hold.
func (c *CFG) lenFactsOf(v types.Object, br Branch, holds bool) []struct {
	f     lenFact
	holds bool
} {
	var out []struct {
		f     lenFact
		holds bool
	}
	isLen := func(e ast.Expr) bool {
		call, ok := Unparen(e).(*ast.CallExpr)
		if !ok || len(call.Args) != 1 {
			return false
		}
		id, ok := Unparen(call.Fun).(*ast.Ident)
		return ok && id.Name == "len" && ObjOf(c.Info, call.Args[0]) == v
	}
	if br.Tag != nil {
		if isLen(br.Tag) {
			if n, ok := ConstInt(c.Info, br.Cond); ok {
				out = append(out, struct {
					f     lenFact
					holds bool
				}{lenFact{token.EQL, int(n)}, holds})
			}
		}
		return out
	}
	for _, a := range splitConj(br.Cond, holds) {
		b, ok := Unparen(a.Cond).(*ast.BinaryExpr)
		if !ok {
			continue
		}
		op := b.Op
		var n int64
		var okc bool
		switch {
		case isLen(b.X):
			n, okc = ConstInt(c.Info, b.Y)
		case isLen(b.Y):
			n, okc = ConstInt(c.Info, b.X)
			switch op {
			case token.LSS:
				op = token.GTR
			case token.GTR:
				op = token.LSS
			case token.LEQ:
				op = token.GEQ
			case token.GEQ:
				op = token.LEQ
			}
		default:
			continue
		}
		if okc {
			out = append(out, struct {
				f     lenFact
				holds bool
			}{lenFact{op, int(n)}, a.Holds})
		}
	}
	return out
}

// lenTransfer applies the effect of node n on the lower bound of len(v).
func (c *CFG) lenTransfer(v types.Object, n ast.Node, lb int) int {
	as, ok := n.(*ast.AssignStmt)
	if !ok {
		if AssignsTo(c.Info, n, v) {
			return 0
		}
		return lb
	}
	for i, l := range as.Lhs {
		if ObjOf(c.Info, l) != v {
			continue
		}
		if len(as.Rhs) != len(as.Lhs) {
			return 0
		}
		switch r := Unparen(as.Rhs[i]).(type) {
		case *ast.CompositeLit:
			return len(r.Elts)
		case *ast.CallExpr:
			if id, ok := Unparen(r.Fun).(*ast.Ident); ok && id.Name == "append" && len(r.Args) > 0 && ObjOf(c.Info, r.Args[0]) == v {
				if r.Ellipsis.IsValid() {
					return lb
				}
				return lb + len(r.Args) - 1
			}
			return 0
		case *ast.SliceExpr:
			if ObjOf(c.Info, r.X) != v {
				return 0
			}
			nb := lb
			if r.Low != nil {
				k, ok := ConstInt(c.Info, r.Low)
				if !ok {
					return 0
				}
				nb -= int(k)
			}
			if r.High != nil {
				// v[:len(v)-k]
				b, ok := Unparen(r.High).(*ast.BinaryExpr)
				if !ok || b.Op != token.SUB {
					return 0
				}
				k, okk := ConstInt(c.Info, b.Y)
				call, okc := Unparen(b.X).(*ast.CallExpr)
				if !okk || !okc || len(call.Args) != 1 || ObjOf(c.Info, call.Args[0]) != v {
					return 0
				}
				nb -= int(k)
			}
			if nb < 0 {
				nb = 0
			}
			return nb
		default:
			return 0
		}
	}
	return lb
}

// LenLowerBound returns a lower bound of len(v) at loc: a forward dataflow over
// the CFG (meet = minimum) whose transfer functions know literals, append,
// re-slicing and whose edges are refined by the comparisons of len(v) with
// constants (if/else and switch-on-len).
func (c *CFG) LenLowerBound(v types.Object, loc Loc) int {
	in := map[*cfg.Block]int{}
	for _, b := range c.live {
		in[b] = lenTop
	}
	in[c.Entry()] = 0
	refine := func(lb int, facts []struct {
		f     lenFact
		holds bool
	}) int {
		if lb >= lenTop {
			return lb
		}
		for x := lb; x < lb+64; x++ {
			ok := true
			for _, f := range facts {
				if !f.f.sat(x, f.holds) {
					ok = false
				}
			}
			if ok {
				return x
			}
		}
		return lenTop // edge infeasible
	}
	changed := true
	for iter := 0; changed && iter < 100; iter++ {
		changed = false
		for _, b := range c.live {
			lb := in[b]
			if lb >= lenTop {
				continue
			}
			for _, n := range b.Nodes {
				lb = c.lenTransfer(v, n, lb)
			}
			br, isBr := c.BranchOf(b)
			for i, s := range b.Succs {
				out := lb
				if isBr && br.True != br.Else {
					out = refine(lb, c.lenFactsOf(v, br, i == 0))
				}
				if out < in[s] {
					in[s] = out
					changed = true
				}
			}
		}
	}
	lb := in[loc.Block]
	if lb >= lenTop {
		return lenTop
	}
	for i, n := range loc.Block.Nodes {
		if i >= loc.Idx {
			break
		}
		lb = c.lenTransfer(v, n, lb)
	}
	return lb
}

// IndexNeed describes an index or slice expression on a variable and the
// minimum length it needs.
type IndexNeed struct {
	Expr ast.Expr
	Need int    // minimal len required (-1: not a constant shape)
	What string // rendered
}

// ConstIndexNeeds lists the index/slice expressions on variable v whose index
// is a constant k (needs k+1), len(v)-k (needs k) or a slice bound k (needs k).
func ConstIndexNeeds(info *types.Info, body ast.Node, v types.Object) []IndexNeed {
	var out []IndexNeed
	lenMinus := func(e ast.Expr) (int, bool) {
		b, ok := Unparen(e).(*ast.BinaryExpr)
		if !ok || b.Op != token.SUB {
			return 0, false
		}
		call, ok := Unparen(b.X).(*ast.CallExpr)
		if !ok || len(call.Args) != 1 || ObjOf(info, call.Args[0]) != v {
			return 0, false
		}
		if id, ok := Unparen(call.Fun).(*ast.Ident); !ok || id.Name != "len" {
			return 0, false
		}
		n, ok := ConstInt(info, b.Y)
		return int(n), ok
	}
	ast.Inspect(body, func(n ast.Node) bool {
		switch x := n.(type) {
		case *ast.IndexExpr:
			if ObjOf(info, x.X) != v {
				return true
			}
			if k, ok := ConstInt(info, x.Index); ok {
				out = append(out, IndexNeed{x, int(k) + 1, types.ExprString(x)})
			} else if k, ok := lenMinus(x.Index); ok {
				out = append(out, IndexNeed{x, k, types.ExprString(x)})
			}
		case *ast.SliceExpr:
			if ObjOf(info, x.X) != v {
				return true
			}
			need := 0
			for _, bnd := range []ast.Expr{x.Low, x.High} {
				if bnd == nil {
					continue
				}
				if k, ok := ConstInt(info, bnd); ok && int(k) > need {
					need = int(k)
				} else if k, ok := lenMinus(bnd); ok && k > need {
					need = k
				}
			}
			if need > 0 {
				out = append(out, IndexNeed{x, need, types.ExprString(x)})
			}
		}
		return true
	})
	return out
}

// Itoa is a tiny helper for messages.
func Itoa(i int) string { return strconv.Itoa(i) }

// AtomicFacts returns DominatingFacts(loc) split into conjuncts (tagged switch
// facts are left out).
func (c *CFG) AtomicFacts(loc Loc) []CondFact {
	var out []CondFact
	for _, f := range c.DominatingFacts(loc) {
		if f.Tag != nil {
			continue
		}
		for _, a := range splitConj(f.Cond, f.Holds) {
			a.Block = f.Block
			out = append(out, a)
		}
	}
	return out
}

// NonEmptyFact reports whether fact f says that len(e) is positive: len(e) > 0,
// len(e) != 0, len(e) >= 1, 0 < len(e) hold, or len(e) == 0, len(e) < 1 do not.
func NonEmptyFact(info *types.Info, f CondFact, e ast.Expr) bool {
	cmp, ok := Unparen(f.Cond).(*ast.BinaryExpr)
	if !ok {
		return false
	}
	x, y, op := cmp.X, cmp.Y, cmp.Op
	if _, isK := ConstInt(info, x); isK { // constant on the left: mirror
		x, y = y, x
		switch op {
		case token.LSS:
			op = token.GTR
		case token.GTR:
			op = token.LSS
		case token.LEQ:
			op = token.GEQ
		case token.GEQ:
			op = token.LEQ
		}
	}
	call, ok := Unparen(x).(*ast.CallExpr)
	if !ok || len(call.Args) != 1 {
		return false
	}
	if id, ok := call.Fun.(*ast.Ident); !ok || id.Name != "len" || !SameExpr(info, call.Args[0], e) {
		return false
	}
	k, isK := ConstInt(info, y)
	if !isK {
		return false
	}
	if f.Holds {
		return op == token.GTR && k >= 0 || op == token.NEQ && k == 0 || op == token.GEQ && k >= 1
	}
	return op == token.EQL && k == 0 || op == token.LSS && k <= 1 && k >= 1 || op == token.LEQ && k >= 0
}

// ShortCircuitFacts returns what the evaluation of n implies about the rest of
// the expression it sits in: n in the right operand of `a && …` is evaluated
// only when a holds, in the right operand of `a || …` only when a does not.
// (go/cfg keeps a whole condition as one node, so these facts are not branch
// facts of the graph.)
func (c *CFG) ShortCircuitFacts(n ast.Node) []CondFact {
	var out []CondFact
	cur := n
	for {
		p := c.Parent[cur]
		if p == nil {
			break
		}
		if be, ok := p.(*ast.BinaryExpr); ok && ast.Node(be.Y) == cur {
			switch be.Op {
			case token.LAND:
				out = append(out, splitConj(be.X, true)...)
			case token.LOR:
				out = append(out, splitConj(be.X, false)...)
			}
		}
		if _, isStmt := p.(ast.Stmt); isStmt {
			break
		}
		if _, isLit := p.(*ast.FuncLit); isLit {
			break
		}
		cur = p
	}
	return out
}

// FactsFor returns the conditions whose outcome is fixed when expression n is
// evaluated: the dominating branch facts of its location, split into conjuncts,
// and the short-circuit facts of the expression around it.
func (c *CFG) FactsFor(n ast.Node) ([]CondFact, bool) {
	loc, ok := c.LocOf(n)
	if !ok {
		return nil, false
	}
	out := c.AtomicFacts(loc)
	out = append(out, c.ShortCircuitFacts(n)...)
	return out, true
}

// NonNilAtNode is NonNilAt at the location of expression n, with the
// short-circuit facts of the expression around n.
func (c *CFG) NonNilAtNode(v types.Object, n ast.Node) bool {
	loc, ok := c.LocOf(n)
	if !ok {
		return false
	}
	if c.NonNilAt(v, loc) {
		return true
	}
	for _, a := range c.ShortCircuitFacts(n) {
		if x, notNil, ok := NilCompare(c.Info, a.Cond); ok && ObjOf(c.Info, x) == v && notNil == a.Holds {
			return true
		}
	}
	return false
}

// LenLowerBoundAt is LenLowerBound at the location of expression n, refined by
// the short-circuit facts of the expression around n.
func (c *CFG) LenLowerBoundAt(v types.Object, n ast.Node) (int, bool) {
	loc, ok := c.LocOf(n)
	if !ok {
		return 0, false
	}
	lb := c.LenLowerBound(v, loc)
	if lb >= lenTop {
		return lb, true
	}
	for _, a := range c.ShortCircuitFacts(n) {
		facts := c.lenFactsOf(v, Branch{Cond: a.Cond}, a.Holds)
		for x := lb; x < lb+64; x++ {
			sat := true
			for _, f := range facts {
				if !f.f.sat(x, f.holds) {
					sat = false
				}
			}
			if sat {
				lb = x
				break
			}
		}
	}
	return lb, true
}
