// Package an is the property-independent analysis library of goacheck: loading
// of /repo's packages, function/anchor resolution, obligations and evidence.
package an

import (
	"encoding/json"
	"fmt"
	"go/ast"
	"go/token"
	"go/types"
	"os"
	"path/filepath"
	"sort"
	"strings"
	"time"

	"golang.org/x/tools/go/packages"
	"golang.org/x/tools/go/ssa"
	"golang.org/x/tools/go/ssa/ssautil"
)

// Mod is the module path of the analysed repository.
const Mod = "goa.design/goa/v3"

// P returns the import path of a package of the module given its directory.
func P(dir string) string {
	if dir == "" || dir == "." {
		return Mod
	}
	return Mod + "/" + dir
}

// Status of an obligation.
type Status string

const (
	OK        Status = "OK"
	FAIL      Status = "FAIL"
	UNDECIDED Status = "UNDECIDED"
	LOST      Status = "ANCHOR-LOST"
	INFO      Status = "INFO"
)

// Obligation is one rule instance (rule id + construct) and its verdict.
type Obligation struct {
	Rule       string `json:"rule"`
	Construct  string `json:"construct"`
	Status     Status `json:"status"`
	Detail     string `json:"detail,omitempty"`
	Pos        string `json:"pos,omitempty"`
	Nontrivial bool   `json:"-"`
	Known      string `json:"known,omitempty"`
}

// Ctx is the state of one run of one property's check.
type Ctx struct {
	Repo  string
	Tier  string
	Prop  string
	Fset  *token.FileSet
	Pkgs  map[string]*packages.Package
	Start time.Time

	Obls        []Obligation
	Stats       map[string]int
	Assumptions []string
	Notes       []string
	Extra       map[string]any // extra coverage keys (thorough tier: seeded replay)

	prog    *ssa.Program
	ssaPkgs map[string]*ssa.Package
	funcs   map[string]*Func
	byObj   map[types.Object]*Func
	callers map[types.Object][]callSite
}

// Func is a resolved source function.
type Func struct {
	Pkg  *packages.Package
	Decl *ast.FuncDecl
	Obj  *types.Func
	Name string // pkgdir.Recv.Name
}

// Load type-checks every package of the repository (non-test files, the single
// build configuration the tree has).
func Load(repo, prop, tier string) (*Ctx, error) {
	c := &Ctx{Repo: repo, Prop: prop, Tier: tier, Start: time.Now(), Stats: map[string]int{},
		Pkgs: map[string]*packages.Package{}, funcs: map[string]*Func{}}
	c.Fset = token.NewFileSet()
	cfg := &packages.Config{
		Mode: packages.NeedName | packages.NeedFiles | packages.NeedCompiledGoFiles | packages.NeedImports |
			packages.NeedDeps | packages.NeedTypes | packages.NeedSyntax | packages.NeedTypesInfo |
			packages.NeedTypesSizes | packages.NeedModule,
		Dir:  repo,
		Fset: c.Fset,
		Env: append(os.Environ(), "GOFLAGS=-mod=mod", "GOPROXY=off", "GOSUMDB=off", "GOWORK=off",
			"GOTOOLCHAIN=local"),
		Tests: false,
	}
	pkgs, err := packages.Load(cfg, "./...")
	if err != nil {
		return nil, err
	}
	var errs []string
	for _, p := range pkgs {
		for _, e := range p.Errors {
			errs = append(errs, e.Error())
		}
		c.Pkgs[p.PkgPath] = p
	}
	if len(errs) > 0 {
		return nil, fmt.Errorf("type errors in %s: %s", repo, strings.Join(errs[:min(len(errs), 5)], "; "))
	}
	if len(c.Pkgs) < 27 {
		return nil, fmt.Errorf("only %d packages loaded from %s (expected >= 27)", len(c.Pkgs), repo)
	}
	c.Stats["packages_loaded"] = len(c.Pkgs)
	currentGlobalInits = c.GlobalInits()
	c.registerGlobalInits()
	SortedByCallers = c.sortedByCallers
	constTableCache = map[*ssa.Global]*constTable{}
	return c, nil
}

// GlobalInits returns, per package directory, the initialiser expression (as
// text) of every package-level variable that has one.
func (c *Ctx) GlobalInits() map[string]map[string]string {
	out := map[string]map[string]string{}
	for path, p := range c.Pkgs {
		if !strings.HasPrefix(path, Mod) {
			continue
		}
		dir := strings.TrimPrefix(strings.TrimPrefix(path, Mod), "/")
		for _, file := range p.Syntax {
			for _, d := range file.Decls {
				gd, ok := d.(*ast.GenDecl)
				if !ok || gd.Tok != token.VAR {
					continue
				}
				for _, sp := range gd.Specs {
					vs := sp.(*ast.ValueSpec)
					if len(vs.Values) != len(vs.Names) {
						continue
					}
					for i, nm := range vs.Names {
						if out[dir] == nil {
							out[dir] = map[string]string{}
						}
						txt := types.ExprString(vs.Values[i])
						if len(txt) > 300 {
							txt = txt[:300]
						}
						out[dir][nm.Name] = txt
					}
				}
			}
		}
	}
	return out
}

// SSA builds (once) the SSA form of all module packages.
func (c *Ctx) SSA() *ssa.Program {
	if c.prog != nil {
		return c.prog
	}
	var initial []*packages.Package
	for _, p := range c.Pkgs {
		initial = append(initial, p)
	}
	sort.Slice(initial, func(i, j int) bool { return initial[i].PkgPath < initial[j].PkgPath })
	prog, spkgs := ssautil.Packages(initial, ssa.InstantiateGenerics)
	prog.Build()
	c.prog = prog
	c.ssaPkgs = map[string]*ssa.Package{}
	for i, p := range initial {
		if spkgs[i] != nil {
			c.ssaPkgs[p.PkgPath] = spkgs[i]
		}
	}
	return prog
}

// SSAFunc returns the SSA function for a resolved source function.
func (c *Ctx) SSAFunc(f *Func) *ssa.Function {
	prog := c.SSA()
	return prog.FuncValue(f.Obj)
}

// SSAPkg returns the SSA package for a module directory.
func (c *Ctx) SSAPkg(dir string) *ssa.Package {
	c.SSA()
	return c.ssaPkgs[P(dir)]
}

// Pkg returns the package for a module directory ("http", "expr", ...).
func (c *Ctx) Pkg(dir string) *packages.Package { return c.Pkgs[P(dir)] }

// recvName returns the receiver base type name of a function declaration.
func recvName(d *ast.FuncDecl) string {
	if d.Recv == nil || len(d.Recv.List) == 0 {
		return ""
	}
	t := d.Recv.List[0].Type
	for {
		switch x := t.(type) {
		case *ast.StarExpr:
			t = x.X
			continue
		case *ast.IndexExpr:
			t = x.X
			continue
		case *ast.ParenExpr:
			t = x.X
			continue
		case *ast.Ident:
			return x.Name
		}
		return ""
	}
}

// AllFuncs returns every function declaration (with body) of the package dir.
func (c *Ctx) AllFuncs(dir string) []*Func {
	p := c.Pkg(dir)
	if p == nil {
		return nil
	}
	var out []*Func
	for _, f := range p.Syntax {
		for _, d := range f.Decls {
			fd, ok := d.(*ast.FuncDecl)
			if !ok || fd.Body == nil {
				continue
			}
			obj, _ := p.TypesInfo.Defs[fd.Name].(*types.Func)
			if obj == nil {
				continue
			}
			n := fd.Name.Name
			if r := recvName(fd); r != "" {
				n = r + "." + n
			}
			out = append(out, &Func{Pkg: p, Decl: fd, Obj: obj, Name: dir + "." + n})
		}
	}
	sort.Slice(out, func(i, j int) bool { return out[i].Name < out[j].Name })
	return out
}

// ModuleDirs returns the module-relative directories of all loaded packages.
func (c *Ctx) ModuleDirs() []string {
	var out []string
	for path := range c.Pkgs {
		if path == Mod {
			out = append(out, "")
		} else if strings.HasPrefix(path, Mod+"/") {
			out = append(out, strings.TrimPrefix(path, Mod+"/"))
		}
	}
	sort.Strings(out)
	return out
}

// Func resolves "Recv.Name" or "Name" in package dir. If it is not found there
// the whole module is searched for a unique function of the same name and
// receiver (anchors follow moves); nil if none or ambiguous.
func (c *Ctx) Func(dir, name string) *Func {
	key := dir + "." + name
	if f, ok := c.funcs[key]; ok {
		return f
	}
	find := func(d string) *Func {
		for _, f := range c.AllFuncs(d) {
			if f.Name == d+"."+name {
				return f
			}
		}
		return nil
	}
	f := find(dir)
	if f == nil {
		var cands []*Func
		for _, d := range c.ModuleDirs() {
			if g := find(d); g != nil {
				cands = append(cands, g)
			}
		}
		if len(cands) == 1 {
			f = cands[0]
			c.Notes = append(c.Notes, fmt.Sprintf("anchor %s adopted successor %s", key, f.Name))
		}
	}
	if f == nil {
		// renamed: a function of the package, new since the reference tree, whose canonical
		// (reference) name is the one asked for
		for _, g := range c.AllFuncs(dir) {
			sf := c.SSAFunc(g)
			if sf == nil {
				continue
			}
			cn := funcName(sf) // canonical: the reference name when g renames a reference function
			want := dir + "." + name
			if i := strings.LastIndex(name, "."); i >= 0 {
				want = "" // method: compare receiver type and method names
				if strings.HasSuffix(cn, "."+name[i+1:]) && (strings.Contains(cn, "."+name[:i]+").") || strings.Contains(cn, "*"+dir+"."+name[:i]+").") || strings.Contains(cn, "("+dir+"."+name[:i]+").")) {
					want = cn
				}
			}
			if cn == want && want != "" && g.Name != dir+"."+name {
				f = g
				c.Notes = append(c.Notes, fmt.Sprintf("anchor %s adopted renamed successor %s", key, f.Name))
				break
			}
		}
	}
	c.funcs[key] = f
	return f
}

// MustFunc resolves a function or records an ANCHOR-LOST obligation for rule.
func (c *Ctx) MustFunc(rule, dir, name string) *Func {
	f := c.Func(dir, name)
	if f == nil {
		c.Add(Obligation{Rule: rule, Construct: dir + "." + name, Status: LOST,
			Detail: "anchor function not found in the module (no unique successor)"})
	}
	return f
}

// Position formats a token position relative to the repository.
func (c *Ctx) Position(p token.Pos) string {
	if !p.IsValid() {
		return ""
	}
	pos := c.Fset.Position(p)
	rel, err := filepath.Rel(c.Repo, pos.Filename)
	if err != nil {
		rel = pos.Filename
	}
	return fmt.Sprintf("%s:%d", rel, pos.Line)
}

// Add records an obligation.
func (c *Ctx) Add(o Obligation) { c.Obls = append(c.Obls, o) }

// Okf records a discharged obligation.
func (c *Ctx) Okf(rule, construct, format string, a ...any) {
	c.Add(Obligation{Rule: rule, Construct: construct, Status: OK, Detail: fmt.Sprintf(format, a...), Nontrivial: true})
}

// Failf records a failed obligation.
func (c *Ctx) Failf(rule, construct string, pos token.Pos, format string, a ...any) {
	c.Add(Obligation{Rule: rule, Construct: construct, Status: FAIL, Detail: fmt.Sprintf(format, a...), Pos: c.Position(pos), Nontrivial: true})
}

// Undecidedf records an obligation the analysis cannot decide (fails).
func (c *Ctx) Undecidedf(rule, construct string, pos token.Pos, format string, a ...any) {
	c.Add(Obligation{Rule: rule, Construct: construct, Status: UNDECIDED, Detail: fmt.Sprintf(format, a...), Pos: c.Position(pos), Nontrivial: true})
}

// Infof records an informational line (no verdict).
func (c *Ctx) Infof(rule, construct, format string, a ...any) {
	c.Add(Obligation{Rule: rule, Construct: construct, Status: INFO, Detail: fmt.Sprintf(format, a...)})
}

// Check records OK when cond holds and FAIL otherwise.
func (c *Ctx) Check(cond bool, rule, construct string, pos token.Pos, okDetail, failDetail string) bool {
	if cond {
		c.Okf(rule, construct, "%s", okDetail)
	} else {
		c.Failf(rule, construct, pos, "%s", failDetail)
	}
	return cond
}

// Floor guards a rule against vacuity: want is the number of instances counted
// by hand on the reference tree. The obligation fails when fewer than 70 % of
// them are still matched (the rule has gone blind); a smaller drop - a
// refactoring merged or rewrote a few sites - is recorded, not alarmed on.
func (c *Ctx) Floor(rule string, got, want int, what string) {
	min := (want + 2) / 3 // de-duplication legitimately shrinks counts: alarm only below a third of the confirmed count
	if min < 1 {
		min = 1
	}
	if got >= min && got < want {
		c.Add(Obligation{Rule: rule, Construct: "floor:" + what, Status: OK,
			Detail: fmt.Sprintf("matched %d %s (reference count %d, alarm below %d)", got, what, want, min)})
		return
	}
	if got < want {
		c.Add(Obligation{Rule: rule, Construct: "floor:" + what, Status: LOST,
			Detail: fmt.Sprintf("matched %d %s, floor is %d (confirmed by hand on the pinned tree)", got, what, want), Nontrivial: true})
	} else {
		c.Add(Obligation{Rule: rule, Construct: "floor:" + what, Status: OK,
			Detail: fmt.Sprintf("matched %d %s (floor %d)", got, what, want)})
	}
}

// CountRule returns the number of OK/FAIL obligations recorded for a rule.
func (c *Ctx) CountRule(rule string) int {
	n := 0
	for _, o := range c.Obls {
		if o.Rule == rule && o.Status != INFO {
			n++
		}
	}
	return n
}

// KnownFinding is an entry of /verif/known_findings.json.
type KnownFinding struct {
	Property  string `json:"property"`
	Rule      string `json:"rule"`
	Construct string `json:"construct"`
	Witness   string `json:"witness"`
	Status    string `json:"status"` // known | fixed
	Commit    string `json:"commit,omitempty"`
	What      string `json:"what"`
}

// LoadKnown reads the known-findings file (never written at run time).
func LoadKnown(path string) ([]KnownFinding, error) {
	b, err := os.ReadFile(path)
	if err != nil {
		if os.IsNotExist(err) {
			return nil, nil
		}
		return nil, err
	}
	var k struct {
		Findings []KnownFinding `json:"findings"`
	}
	if err := json.Unmarshal(b, &k); err != nil {
		return nil, err
	}
	return k.Findings, nil
}

// Finish prints the obligations, writes evidence and the replay file and
// returns the process exit code.
func (c *Ctx) Finish(verifDir, explanation string, known []KnownFinding) int {
	sort.SliceStable(c.Obls, func(i, j int) bool {
		if c.Obls[i].Rule != c.Obls[j].Rule {
			return ruleLess(c.Obls[i].Rule, c.Obls[j].Rule)
		}
		return c.Obls[i].Construct < c.Obls[j].Construct
	})
	var viol []Obligation
	obligations, discharged, nontrivial := 0, 0, 0
	perRule := map[string]int{}
	distinct := map[string]bool{}
	knownLines := []string{}
	for i := range c.Obls {
		o := &c.Obls[i]
		if o.Status == INFO {
			fmt.Printf("INFO  %s %s %s %s\n", c.Prop, o.Rule, o.Construct, o.Detail)
			continue
		}
		obligations++
		perRule[o.Rule]++
		if o.Nontrivial && !distinct[o.Rule+"|"+o.Construct] {
			distinct[o.Rule+"|"+o.Construct] = true
			nontrivial++
		}
		if o.Status == OK {
			discharged++
			fmt.Printf("OK    %s %s %s %s\n", c.Prop, o.Rule, o.Construct, o.Detail)
			continue
		}
		// failing: known?
		isKnown := false
		for _, k := range known {
			if k.Status == "known" && k.Property == c.Prop && k.Rule == o.Rule && k.Construct == o.Construct {
				isKnown = true
				o.Known = k.What
				knownLines = append(knownLines, fmt.Sprintf("KNOWN-FINDING: property=%s rule=%s construct=%s %s", c.Prop, o.Rule, o.Construct, k.What))
				break
			}
		}
		tag := string(o.Status)
		if isKnown {
			tag = "KNOWN"
		}
		fmt.Printf("%-5s %s %s %s %s (%s)\n", tag, c.Prop, o.Rule, o.Construct, o.Detail, o.Pos)
		if !isKnown {
			viol = append(viol, *o)
		}
	}
	for _, l := range knownLines {
		fmt.Println(l)
	}
	for _, n := range c.Notes {
		fmt.Printf("NOTE  %s %s\n", c.Prop, n)
	}
	// samples: first few nontrivial obligations in full
	var samples []Obligation
	seenRule := map[string]int{}
	for _, o := range c.Obls {
		if o.Status == INFO || !o.Nontrivial {
			continue
		}
		if seenRule[o.Rule] < 1 && len(samples) < 12 {
			samples = append(samples, o)
			seenRule[o.Rule]++
		}
	}
	wall := time.Since(c.Start).Seconds()
	seed := 0
	fmt.Sscanf(os.Getenv("VERIF_SEED"), "%d", &seed)
	rules := make([]string, 0, len(perRule))
	for r := range perRule {
		rules = append(rules, r)
	}
	sort.Slice(rules, func(i, j int) bool { return ruleLess(rules[i], rules[j]) })
	inst := map[string]int{}
	for _, r := range rules {
		inst[r] = perRule[r]
	}
	cov := map[string]any{
		"explanation":         explanation,
		"obligations":         obligations,
		"discharged":          discharged,
		"evaluations":         obligations,
		"distinct_nontrivial": nontrivial,
		"rule": "one obligation per (rule id, resolved construct) instance of the property's static rules; " +
			"non-trivial = the verdict required analysing at least one path, branch, field or table entry (floor/vacuity obligations are not counted)",
		"instances_per_rule": inst,
		"samples":            samples,
		"exhaustive":         true,
		"known_findings":     len(knownLines),
		"stats":              c.Stats,
		"notes":              c.Notes,
	}
	for k, v := range c.Extra {
		cov[k] = v
	}
	ev := map[string]any{
		"property_id": c.Prop,
		"tier":        c.Tier,
		"seed":        seed,
		"level":       "other",
		"coverage":    cov,
		"assumptions": append([]string{
			"go/packages, go/types, go/cfg, go/ssa and text/template/parse model /repo's sources faithfully",
			"the tree has one build configuration (no build tags on non-test files)",
			"reviewed exception tables in goacheck/props are correct",
		}, c.Assumptions...),
		"wall_s":     wall,
		"violations": len(viol),
	}
	os.MkdirAll(filepath.Join(verifDir, "evidence"), 0o755)
	b, _ := json.MarshalIndent(ev, "", " ")
	if err := os.WriteFile(filepath.Join(verifDir, "evidence", c.Prop+".json"), append(b, '\n'), 0o644); err != nil {
		fmt.Fprintln(os.Stderr, "cannot write evidence:", err)
		return 2
	}
	fmt.Printf("SUMMARY %s tier=%s obligations=%d discharged=%d known=%d violations=%d wall=%.1fs\n",
		c.Prop, c.Tier, obligations, discharged, len(knownLines), len(viol), wall)
	if len(viol) > 0 {
		os.MkdirAll(filepath.Join(verifDir, "out"), 0o755)
		rp := filepath.Join(verifDir, "out", c.Prop+".violations.json")
		vb, _ := json.MarshalIndent(map[string]any{"property": c.Prop, "tier": c.Tier, "violations": viol}, "", " ")
		os.WriteFile(rp, append(vb, '\n'), 0o644)
		fmt.Printf("VIOLATION property=%s replay=%s\n", c.Prop, rp)
		return 1
	}
	return 0
}

func ruleLess(a, b string) bool {
	pa, pb := splitRule(a), splitRule(b)
	for i := 0; i < len(pa) && i < len(pb); i++ {
		if pa[i] != pb[i] {
			var x, y int
			if _, e1 := fmt.Sscanf(pa[i], "%d", &x); e1 == nil {
				if _, e2 := fmt.Sscanf(pb[i], "%d", &y); e2 == nil && x != y {
					return x < y
				}
			}
			return pa[i] < pb[i]
		}
	}
	return len(pa) < len(pb)
}

func splitRule(r string) []string {
	r = strings.TrimPrefix(r, "R")
	return strings.FieldsFunc(r, func(c rune) bool { return c == '.' || c == '/' })
}

// AllSSAFuncNames lists the path-table names of every module function that has
// a source declaration.
func (c *Ctx) AllSSAFuncNames() []string {
	var out []string
	for _, d := range c.ModuleDirs() {
		for _, f := range c.AllFuncs(d) {
			if sf := c.SSAFunc(f); sf != nil {
				out = append(out, funcName(sf)+"\t"+sigString(f.Obj))
			}
		}
	}
	sort.Strings(out)
	return out
}

// sigString renders a function's signature without parameter names.
func sigString(fn *types.Func) string {
	sig := fn.Type().(*types.Signature)
	var b strings.Builder
	tuple := func(t *types.Tuple) {
		b.WriteString("(")
		for i := 0; i < t.Len(); i++ {
			if i > 0 {
				b.WriteString(", ")
			}
			b.WriteString(types.TypeString(t.At(i).Type(), nil))
		}
		b.WriteString(")")
	}
	if r := sig.Recv(); r != nil {
		b.WriteString("[" + types.TypeString(r.Type(), nil) + "]")
	}
	tuple(sig.Params())
	if sig.Variadic() {
		b.WriteString("...")
	}
	tuple(sig.Results())
	return b.String()
}

// IsNewFunc reports whether f was introduced after the reference tree.
func (c *Ctx) IsNewFunc(f *Func) bool {
	sf := c.SSAFunc(f)
	if sf == nil {
		return false
	}
	_, known := referenceFuncs[funcName(sf)]
	return !known
}

// FuncOfObj returns the module function declared by o, or nil.
func (c *Ctx) FuncOfObj(o types.Object) *Func {
	if o == nil {
		return nil
	}
	if c.byObj == nil {
		c.byObj = map[types.Object]*Func{}
		for _, d := range c.ModuleDirs() {
			for _, g := range c.AllFuncs(d) {
				c.byObj[g.Obj] = g
			}
		}
	}
	return c.byObj[o]
}

// WithNewHelpers returns f followed by the functions it calls (two hops) that
// were introduced after the reference tree: the code of f as it was before
// helpers were extracted from it.
func (c *Ctx) WithNewHelpers(f *Func) []*Func {
	byObj := map[types.Object]*Func{}
	for _, d := range c.ModuleDirs() {
		for _, g := range c.AllFuncs(d) {
			byObj[g.Obj] = g
		}
	}
	out := []*Func{f}
	seen := map[*Func]bool{f: true}
	frontier := []*Func{f}
	for hop := 0; hop < 2; hop++ {
		var next []*Func
		for _, g := range frontier {
			ast.Inspect(g.Decl.Body, func(n ast.Node) bool {
				call, ok := n.(*ast.CallExpr)
				if !ok {
					return true
				}
				if h := byObj[Callee(g.Pkg.TypesInfo, call)]; h != nil && !seen[h] && c.IsNewFunc(h) {
					seen[h] = true
					out = append(out, h)
					next = append(next, h)
				}
				return true
			})
		}
		frontier = next
	}
	return out
}

// AllSymbols lists "F\tpkg.Type\tfield\ttype" for every field of every named
// struct of the module and "G\tpkg\tname\ttype" for every package-level variable.
func (c *Ctx) AllSymbols() []string {
	var out []string
	for _, d := range c.ModuleDirs() {
		p := c.Pkg(d)
		if p == nil {
			continue
		}
		sc := p.Types.Scope()
		for _, name := range sc.Names() {
			switch o := sc.Lookup(name).(type) {
			case *types.TypeName:
				if st, ok := o.Type().Underlying().(*types.Struct); ok {
					for i := 0; i < st.NumFields(); i++ {
						out = append(out, "F\t"+d+"."+name+"\t"+st.Field(i).Name()+"\t"+types.TypeString(st.Field(i).Type(), nil))
					}
				}
			case *types.Var:
				out = append(out, "G\t"+d+"\t"+name+"\t"+types.TypeString(o.Type(), nil))
			}
		}
	}
	sort.Strings(out)
	return out
}

// InspectAll walks the body of f and the bodies of the helpers introduced since
// the reference tree that f calls (two hops): the code of f as it read before
// helpers were extracted from it.
func (c *Ctx) InspectAll(f *Func, visit func(*Func, ast.Node) bool) {
	for _, g := range c.WithNewHelpers(f) {
		g := g
		ast.Inspect(g.Decl.Body, func(n ast.Node) bool { return visit(g, n) })
	}
}

// RefName returns the name f has in the reference vocabulary ("dir.Recv.Name"):
// f.Name unless f merely renames a reference function.
func (c *Ctx) RefName(f *Func) string {
	sf := c.SSAFunc(f)
	if sf == nil {
		return f.Name
	}
	cn := funcName(sf)
	if _, known := referenceFuncs[cn]; !known {
		return f.Name
	}
	return strings.NewReplacer("(*", "", "(", "", ")", "").Replace(cn)
}

type callSite struct {
	g    *Func
	call *ast.CallExpr
}

func (c *Ctx) callersOf(o types.Object) []callSite {
	if c.callers == nil {
		c.callers = map[types.Object][]callSite{}
		for _, d := range c.ModuleDirs() {
			for _, g := range c.AllFuncs(d) {
				g := g
				ast.Inspect(g.Decl.Body, func(n ast.Node) bool {
					if call, ok := n.(*ast.CallExpr); ok {
						if callee := Callee(g.Pkg.TypesInfo, call); callee != nil {
							c.callers[callee] = append(c.callers[callee], callSite{g, call})
						}
					}
					return true
				})
			}
		}
	}
	return c.callers[o]
}

type attribution struct {
	root  string
	subst map[types.Object]string
}

// attributions lists, for a function f, the reference functions its code
// belongs to and how f's parameters read there: f itself when f exists on the
// reference tree (or renames a reference function); otherwise every caller of
// f (helpers extracted from reference functions), parameters replaced by the
// arguments of the call, up to two levels.
func (c *Ctx) attributions(f *Func, depth int) []attribution {
	sf := c.SSAFunc(f)
	isNew := false
	if sf != nil {
		_, known := referenceFuncs[funcName(sf)]
		isNew = !known
	}
	callers := c.callersOf(f.Obj)
	if !isNew || depth >= 2 || len(callers) == 0 || len(callers) > 8 {
		return []attribution{{c.RefName(f), nil}}
	}
	var out []attribution
	for _, cs := range callers {
		if cs.g == f {
			continue
		}
		ginfo := cs.g.Pkg.TypesInfo
		for _, at := range c.attributions(cs.g, depth+1) {
			sub := map[types.Object]string{}
			if f.Decl.Recv != nil {
				if sel, ok := Unparen(cs.call.Fun).(*ast.SelectorExpr); ok {
					for _, fl := range f.Decl.Recv.List {
						for _, n := range fl.Names {
							sub[f.Pkg.TypesInfo.Defs[n]] = CanonExpr(ginfo, cs.g.Decl, sel.X, at.subst)
						}
					}
				}
			}
			k := 0
			for _, fl := range f.Decl.Type.Params.List {
				for _, n := range fl.Names {
					if k < len(cs.call.Args) && cs.call.Ellipsis == token.NoPos {
						if _, variadic := fl.Type.(*ast.Ellipsis); !variadic {
							sub[f.Pkg.TypesInfo.Defs[n]] = CanonExpr(ginfo, cs.g.Decl, cs.call.Args[k], at.subst)
						}
					}
					k++
				}
			}
			out = append(out, attribution{at.root, sub})
		}
	}
	if len(out) == 0 {
		return []attribution{{c.RefName(f), nil}}
	}
	return out
}

// SiteKeys names the site of expression e in f in the reference vocabulary:
// "function#expression" with canonical names (see CanonExpr), one key per
// reference function the code of f belongs to (see attributions).
func (c *Ctx) SiteKeys(f *Func, e ast.Expr) []string {
	info := f.Pkg.TypesInfo
	// a site inside a function literal held by a local and called by name reads, like a site in an extracted
	// helper, once per call with the literal's parameters replaced by the arguments
	if lit, holder := enclosingNamedLit(info, f.Decl, e); lit != nil {
		var calls []*ast.CallExpr
		ast.Inspect(f.Decl.Body, func(n ast.Node) bool {
			if call, ok := n.(*ast.CallExpr); ok {
				if id, ok := Unparen(call.Fun).(*ast.Ident); ok && info.Uses[id] == holder {
					calls = append(calls, call)
				}
			}
			return true
		})
		if len(calls) > 0 && len(calls) <= 8 {
			// one key per attribution and call (arguments are rendered in f's vocabulary)
			var keys []string
			seen := map[string]bool{}
			for _, at := range c.attributions(f, 0) {
				for _, call := range calls {
					sub := map[types.Object]string{}
					for o, s := range at.subst {
						sub[o] = s
					}
					k := 0
					for _, fl := range lit.Type.Params.List {
						for _, n := range fl.Names {
							if k < len(call.Args) {
								sub[info.Defs[n]] = CanonExpr(info, f.Decl, call.Args[k], at.subst)
							}
							k++
						}
					}
					key := at.root + "#" + CanonExpr(info, f.Decl, e, sub)
					if !seen[key] {
						seen[key] = true
						keys = append(keys, key)
					}
				}
			}
			return keys
		}
	}
	var keys []string
	seen := map[string]bool{}
	for _, at := range c.attributions(f, 0) {
		k := at.root + "#" + CanonExpr(info, f.Decl, e, at.subst)
		if !seen[k] {
			seen[k] = true
			keys = append(keys, k)
		}
	}
	return keys
}

// enclosingNamedLit returns the innermost function literal of fd that contains e when that literal is the
// single definition of a local variable, with the variable.
func enclosingNamedLit(info *types.Info, fd *ast.FuncDecl, e ast.Expr) (*ast.FuncLit, types.Object) {
	var lit *ast.FuncLit
	var holder types.Object
	ast.Inspect(fd.Body, func(n ast.Node) bool {
		switch x := n.(type) {
		case *ast.AssignStmt:
			for i, r := range x.Rhs {
				if fl, ok := Unparen(r).(*ast.FuncLit); ok && i < len(x.Lhs) && fl.Pos() <= e.Pos() && e.End() <= fl.End() {
					if o := ObjOf(info, x.Lhs[i]); o != nil {
						lit, holder = fl, o
					}
				}
			}
		case *ast.ValueSpec:
			for i, r := range x.Values {
				if fl, ok := Unparen(r).(*ast.FuncLit); ok && i < len(x.Names) && fl.Pos() <= e.Pos() && e.End() <= fl.End() {
					lit, holder = fl, info.Defs[x.Names[i]]
				}
			}
		}
		return true
	})
	return lit, holder
}

// RootNames lists the reference functions the code of f belongs to: f itself
// (under its reference name), or, for a helper introduced since the reference
// tree, the reference functions it is (transitively) called from.
func (c *Ctx) RootNames(f *Func) []string {
	seen := map[string]bool{}
	var out []string
	for _, at := range c.attributions(f, 0) {
		if !seen[at.root] {
			seen[at.root] = true
			out = append(out, at.root)
		}
	}
	return out
}

// sortedByCallers: see SortedByCallers.
func (c *Ctx) sortedByCallers(f *Func, o types.Object) bool {
	info := f.Pkg.TypesInfo
	// which result of f is o?
	res := -1
	allReturn := true
	ast.Inspect(f.Decl.Body, func(n ast.Node) bool {
		if _, isLit := n.(*ast.FuncLit); isLit {
			return false
		}
		rs, ok := n.(*ast.ReturnStmt)
		if !ok {
			return true
		}
		k := -1
		for i, r := range rs.Results {
			if ObjOf(info, r) == o {
				k = i
			}
		}
		if k < 0 || (res >= 0 && k != res) {
			// a return that does not hand out the slice (nil on an error path is fine)
			for _, r := range rs.Results {
				if !IsNilIdent(info, r) && k < 0 {
					if tv, ok := info.Types[r]; !ok || !types.Identical(tv.Type, types.Universe.Lookup("error").Type()) {
						allReturn = false
					}
				}
			}
			return true
		}
		res = k
		return true
	})
	if res < 0 || !allReturn {
		return false
	}
	callers := c.callersOf(f.Obj)
	if len(callers) == 0 {
		return false
	}
	for _, cs := range callers {
		ginfo := cs.g.Pkg.TypesInfo
		parent := ParentMap(cs.g.Decl.Body)
		as, ok := parent[cs.call].(*ast.AssignStmt)
		if !ok || res >= len(as.Lhs) {
			return false
		}
		dst := ObjOf(ginfo, as.Lhs[res])
		if dst == nil {
			return false
		}
		sorted := false
		ast.Inspect(cs.g.Decl.Body, func(n ast.Node) bool {
			call, ok := n.(*ast.CallExpr)
			if !ok || call.Pos() < as.End() || len(call.Args) == 0 || !sortFuncs[CalleeName(ginfo, call)] {
				return true
			}
			if root := RootIdent(call.Args[0]); root != nil && ObjOf(ginfo, root) == dst {
				// the sort runs whenever control goes on after the assignment: its enclosing blocks enclose the
				// assignment too
				okPath := true
				for n := parent[call]; n != nil; n = parent[n] {
					if n.Pos() <= as.Pos() && as.End() <= n.End() {
						break
					}
					switch n.(type) {
					case *ast.IfStmt, *ast.ForStmt, *ast.RangeStmt, *ast.SwitchStmt, *ast.TypeSwitchStmt, *ast.SelectStmt, *ast.FuncLit, *ast.CaseClause:
						okPath = false
					}
				}
				if okPath {
					sorted = true
				}
			}
			return true
		})
		if !sorted {
			return false
		}
	}
	return true
}

// CallSite is one call of a module function, with the function that makes it.
type CallSite struct {
	In   *Func
	Call *ast.CallExpr
}

// CallersOf lists the call sites of module function f.
func (c *Ctx) CallersOf(f *Func) []CallSite {
	var out []CallSite
	for _, cs := range c.callersOf(f.Obj) {
		out = append(out, CallSite{cs.g, cs.call})
	}
	return out
}
