package an

import (
	"go/ast"
	"go/token"
	"go/types"
	"sort"
	"strings"

	"golang.org/x/tools/go/cfg"
)

// Path-sensitive proof of a single-value type assertion X.(T). Over the
// go/cfg graph of the function, every path from the entry to the assertion is
// walked while tracking what the comma-ok assertions of the same operand
// (`v, ok := X.(T')` followed by a branch on ok) have established about X's
// dynamic type. A path on which two tests of the same type disagree is
// infeasible. The assertion is proved when, on every feasible path, X.(T) is
// known to succeed when it is reached. Any assignment to X (or to the variable
// X starts with) forgets everything. Conditions other than the ok variables
// are not interpreted (both branches are followed).

// AssertionProved reports whether ta is proved, and if not, a description of a
// path (the facts known on it) that reaches ta without establishing it.
func (c *CFG) AssertionProved(ta *ast.TypeAssertExpr) (bool, string) {
	info := c.Info
	loc, ok := c.LocOf(ta)
	if !ok {
		return false, "assertion not found in the control-flow graph"
	}
	wantT := info.TypeOf(ta.Type)
	root := RootIdent(ta.X)
	var rootObj types.Object
	if root != nil {
		rootObj = ObjOf(info, root)
	}
	typeKey := func(t types.Type) string { return types.TypeString(t, nil) }
	// facts: type key -> known outcome; oks: ok variable -> type key it reports on
	type state struct {
		facts map[string]bool
		oks   map[types.Object]string
	}
	clone := func(s state) state {
		n := state{map[string]bool{}, map[types.Object]string{}}
		for k, v := range s.facts {
			n.facts[k] = v
		}
		for k, v := range s.oks {
			n.oks[k] = v
		}
		return n
	}
	key := func(b *cfg.Block, s state) string {
		var parts []string
		for k, v := range s.facts {
			if v {
				parts = append(parts, "+"+k)
			} else {
				parts = append(parts, "-"+k)
			}
		}
		for o, k := range s.oks {
			parts = append(parts, o.Name()+"@"+itoa(int(o.Pos()))+"="+k)
		}
		sort.Strings(parts)
		return itoa(int(b.Index)) + "|" + strings.Join(parts, ",")
	}
	// transfer over one node; returns false when the node is the target
	apply := func(s *state, n ast.Node) {
		ast.Inspect(n, func(m ast.Node) bool {
			if _, isLit := m.(*ast.FuncLit); isLit {
				return false
			}
			as, ok := m.(*ast.AssignStmt)
			if !ok {
				return true
			}
			// comma-ok test of the same operand
			if len(as.Lhs) == 2 && len(as.Rhs) == 1 {
				if ta2, ok := Unparen(as.Rhs[0]).(*ast.TypeAssertExpr); ok && ta2.Type != nil && SameExpr(info, ta2.X, ta.X) {
					if o := ObjOf(info, as.Lhs[1]); o != nil {
						s.oks[o] = typeKey(info.TypeOf(ta2.Type))
					}
					return true
				}
			}
			for _, l := range as.Lhs {
				if SameExpr(info, l, ta.X) {
					s.facts = map[string]bool{}
					s.oks = map[types.Object]string{}
				} else if id, ok := Unparen(l).(*ast.Ident); ok && rootObj != nil && ObjOf(info, id) == rootObj && as.Tok != token.DEFINE {
					s.facts = map[string]bool{}
					s.oks = map[types.Object]string{}
				} else if o := ObjOf(info, l); o != nil {
					delete(s.oks, o)
				}
			}
			return true
		})
	}
	// interpret a branch condition: returns (type key, polarity when cond is true, interpreted)
	var interp func(e ast.Expr) (string, bool, bool)
	interp = func(e ast.Expr) (string, bool, bool) {
		e = Unparen(e)
		if u, ok := e.(*ast.UnaryExpr); ok && u.Op == token.NOT {
			k, pol, ok := interp(u.X)
			return k, !pol, ok
		}
		return "", false, false
	}
	seen := map[string]bool{}
	witness := ""
	var walk func(b *cfg.Block, from int, s state) bool
	walk = func(b *cfg.Block, from int, s state) bool {
		if from == 0 {
			k := key(b, s)
			if seen[k] {
				return true
			}
			seen[k] = true
		}
		for i := from; i < len(b.Nodes); i++ {
			if b == loc.Block && i == loc.Idx {
				if s.facts[typeKey(wantT)] {
					return true
				}
				var known []string
				for k, v := range s.facts {
					known = append(known, k+"="+map[bool]string{true: "ok", false: "failed"}[v])
				}
				sort.Strings(known)
				witness = "a path reaches the assertion knowing only {" + strings.Join(known, ", ") + "}"
				return false
			}
			apply(&s, b.Nodes[i])
		}
		if br, ok := c.BranchOf(b); ok && br.Tag == nil {
			cond := Unparen(br.Cond)
			pol := true
			for {
				u, isNot := cond.(*ast.UnaryExpr)
				if !isNot || u.Op != token.NOT {
					break
				}
				cond = Unparen(u.X)
				pol = !pol
			}
			if id, isID := cond.(*ast.Ident); isID {
				if tk, tracked := s.oks[ObjOf(info, id)]; tracked {
					for _, side := range []struct {
						blk *cfg.Block
						val bool
					}{{br.True, pol}, {br.Else, !pol}} {
						if prev, known := s.facts[tk]; known && prev != side.val {
							continue // infeasible: contradicts an earlier test of the same type
						}
						ns := clone(s)
						ns.facts[tk] = side.val
						if !walk(side.blk, 0, ns) {
							return false
						}
					}
					return true
				}
			}
		}
		for _, succ := range b.Succs {
			if !walk(succ, 0, clone(s)) {
				return false
			}
		}
		return true
	}
	_ = interp
	ok = walk(c.Entry(), 0, state{map[string]bool{}, map[types.Object]string{}})
	return ok, witness
}

func itoa(i int) string { return Itoa(i) }
