package an

import (
	"go/ast"
	"go/token"
	"go/types"
	"sort"
	"strings"

	"golang.org/x/tools/go/cfg"
)

// Path-sensitive proof of a single-value type assertion X.(T). Over the
// go/cfg graph of the function, every path from the entry to the assertion is
// walked while tracking what the comma-ok assertions of the same operand
// (`v, ok := X.(T')` followed by a branch on ok) have established about X's
// dynamic type. A path on which two tests of the same type disagree is
// infeasible. The assertion is proved when, on every feasible path, X.(T) is
// known to succeed when it is reached. Any assignment to X (or to the variable
// X starts with) forgets everything. Conditions other than the ok variables
// are not interpreted (both branches are followed).

// AssertionProved reports whether ta is proved, and if not, a description of a
// path (the facts known on it) that reaches ta without establishing it.
func (c *CFG) AssertionProved(ta *ast.TypeAssertExpr) (bool, string) {
	info := c.Info
	loc, ok := c.LocOf(ta)
	if !ok {
		return false, "assertion not found in the control-flow graph"
	}
	wantT := info.TypeOf(ta.Type)
	root := RootIdent(ta.X)
	var rootObj types.Object
	if root != nil {
		rootObj = ObjOf(info, root)
	}
	typeKey := func(t types.Type) string { return types.TypeString(t, nil) }
	// facts: type key -> known outcome; oks: ok variable -> type key it reports on
	type state struct {
		facts map[string]bool
		oks   map[types.Object]string
		oneOf map[string]bool // when non-nil: the operand's type is one of these (the arm of a type switch listing several)
	}
	clone := func(s state) state {
		n := state{map[string]bool{}, map[types.Object]string{}, nil}
		for k, v := range s.facts {
			n.facts[k] = v
		}
		for k, v := range s.oks {
			n.oks[k] = v
		}
		if s.oneOf != nil {
			n.oneOf = map[string]bool{}
			for k := range s.oneOf {
				n.oneOf[k] = true
			}
		}
		return n
	}
	// reduce: drop the alternatives known to have failed; a single one left is established. Reports false when no
	// alternative is left (the path is infeasible).
	reduce := func(s *state) bool {
		if s.oneOf == nil {
			return true
		}
		for k := range s.oneOf {
			if v, known := s.facts[k]; known && !v {
				delete(s.oneOf, k)
			}
		}
		if len(s.oneOf) == 0 {
			return false
		}
		if len(s.oneOf) == 1 {
			for k := range s.oneOf {
				s.facts[k] = true
			}
		}
		return true
	}
	key := func(b *cfg.Block, s state) string {
		var parts []string
		for k, v := range s.facts {
			if v {
				parts = append(parts, "+"+k)
			} else {
				parts = append(parts, "-"+k)
			}
		}
		for o, k := range s.oks {
			parts = append(parts, o.Name()+"@"+itoa(int(o.Pos()))+"="+k)
		}
		for k := range s.oneOf {
			parts = append(parts, "|"+k)
		}
		sort.Strings(parts)
		return itoa(int(b.Index)) + "|" + strings.Join(parts, ",")
	}
	// transfer over one node; returns false when the node is the target
	apply := func(s *state, n ast.Node) {
		ast.Inspect(n, func(m ast.Node) bool {
			if _, isLit := m.(*ast.FuncLit); isLit {
				return false
			}
			as, ok := m.(*ast.AssignStmt)
			if !ok {
				return true
			}
			// comma-ok test of the same operand
			if len(as.Lhs) == 2 && len(as.Rhs) == 1 {
				if ta2, ok := Unparen(as.Rhs[0]).(*ast.TypeAssertExpr); ok && ta2.Type != nil && SameExpr(info, ta2.X, ta.X) {
					if o := ObjOf(info, as.Lhs[1]); o != nil {
						s.oks[o] = typeKey(info.TypeOf(ta2.Type))
					}
					return true
				}
			}
			for _, l := range as.Lhs {
				if SameExpr(info, l, ta.X) {
					s.facts = map[string]bool{}
					s.oks = map[types.Object]string{}
					s.oneOf = nil
				} else if id, ok := Unparen(l).(*ast.Ident); ok && rootObj != nil && ObjOf(info, id) == rootObj && as.Tok != token.DEFINE {
					s.facts = map[string]bool{}
					s.oks = map[types.Object]string{}
					s.oneOf = nil
				} else if o := ObjOf(info, l); o != nil {
					delete(s.oks, o)
				}
			}
			return true
		})
	}
	seen := map[string]bool{}
	witness := ""
	var walk func(b *cfg.Block, from int, s state) bool
	walk = func(b *cfg.Block, from int, s state) bool {
		if from == 0 && b.Kind == cfg.KindSwitchCaseBody {
			// the arm of a type switch over the same operand: its case list is what the operand is (the default arm:
			// what it is not)
			if cc, ok := b.Stmt.(*ast.CaseClause); ok {
				if body, ok := c.Parent[cc].(*ast.BlockStmt); ok {
					if ts, ok := c.Parent[body].(*ast.TypeSwitchStmt); ok {
						var ta2 *ast.TypeAssertExpr
						switch a := ts.Assign.(type) {
						case *ast.ExprStmt:
							ta2, _ = Unparen(a.X).(*ast.TypeAssertExpr)
						case *ast.AssignStmt:
							if len(a.Rhs) == 1 {
								ta2, _ = Unparen(a.Rhs[0]).(*ast.TypeAssertExpr)
							}
						}
						if ta2 != nil && SameExpr(info, ta2.X, ta.X) {
							s = clone(s)
							if cc.List == nil {
								for _, other := range ts.Body.List {
									for _, e := range other.(*ast.CaseClause).List {
										if ct := info.TypeOf(e); ct != nil {
											if v, known := s.facts[typeKey(ct)]; known && v {
												return true // infeasible: the type is known, its arm would have been taken
											}
											s.facts[typeKey(ct)] = false
										}
									}
								}
							} else {
								alts := map[string]bool{}
								for _, e := range cc.List {
									if ct := info.TypeOf(e); ct != nil {
										alts[typeKey(ct)] = true
									}
								}
								if len(alts) == len(cc.List) {
									s.oneOf = alts
								}
							}
							if !reduce(&s) {
								return true // infeasible
							}
						}
					}
				}
			}
		}
		if from == 0 {
			k := key(b, s)
			if seen[k] {
				return true
			}
			seen[k] = true
		}
		for i := from; i < len(b.Nodes); i++ {
			if b == loc.Block && i == loc.Idx {
				if s.facts[typeKey(wantT)] {
					return true
				}
				var known []string
				for k, v := range s.facts {
					known = append(known, k+"="+map[bool]string{true: "ok", false: "failed"}[v])
				}
				sort.Strings(known)
				witness = "a path reaches the assertion knowing only {" + strings.Join(known, ", ") + "}"
				return false
			}
			apply(&s, b.Nodes[i])
		}
		if br, ok := c.BranchOf(b); ok && br.Tag == nil {
			// the condition as a formula over the tracked ok variables (!, &&, ||); anything else is unknown.
			// The ok variables were computed before the branch, so splitting on their values is sound
			// whatever part of the condition is actually evaluated.
			var atoms []string
			seenAtom := map[string]bool{}
			var collect func(e ast.Expr)
			collect = func(e ast.Expr) {
				switch x := Unparen(e).(type) {
				case *ast.UnaryExpr:
					if x.Op == token.NOT {
						collect(x.X)
					}
				case *ast.BinaryExpr:
					if x.Op == token.LAND || x.Op == token.LOR {
						collect(x.X)
						collect(x.Y)
					}
				case *ast.Ident:
					if tk, tracked := s.oks[ObjOf(info, x)]; tracked && !seenAtom[tk] {
						seenAtom[tk] = true
						atoms = append(atoms, tk)
					}
				}
			}
			collect(br.Cond)
			if len(atoms) > 0 && len(atoms) <= 4 {
				// three-valued evaluation: 1 true, 0 false, -1 unknown
				var eval func(e ast.Expr, asg map[string]bool) int
				eval = func(e ast.Expr, asg map[string]bool) int {
					switch x := Unparen(e).(type) {
					case *ast.UnaryExpr:
						if x.Op == token.NOT {
							if v := eval(x.X, asg); v >= 0 {
								return 1 - v
							}
							return -1
						}
					case *ast.BinaryExpr:
						l, r := eval(x.X, asg), -1
						if x.Op == token.LAND || x.Op == token.LOR {
							r = eval(x.Y, asg)
						}
						switch x.Op {
						case token.LAND:
							if l == 0 || r == 0 {
								return 0
							}
							if l == 1 && r == 1 {
								return 1
							}
						case token.LOR:
							if l == 1 || r == 1 {
								return 1
							}
							if l == 0 && r == 0 {
								return 0
							}
						}
						return -1
					case *ast.Ident:
						if tk, tracked := s.oks[ObjOf(info, x)]; tracked {
							if asg[tk] {
								return 1
							}
							return 0
						}
					}
					return -1
				}
				for m := 0; m < 1<<len(atoms); m++ {
					asg := map[string]bool{}
					feasible := true
					for j, a := range atoms {
						asg[a] = m&(1<<j) != 0
						if prev, known := s.facts[a]; known && prev != asg[a] {
							feasible = false // contradicts an earlier test of the same type
						}
					}
					if !feasible {
						continue
					}
					ns := clone(s)
					for a, v := range asg {
						ns.facts[a] = v
					}
					if !reduce(&ns) {
						continue // no alternative of the enclosing type-switch arm is left: infeasible
					}
					v := eval(br.Cond, asg)
					if v != 0 {
						if !walk(br.True, 0, clone(ns)) {
							return false
						}
					}
					if v != 1 {
						if !walk(br.Else, 0, clone(ns)) {
							return false
						}
					}
				}
				return true
			}
		}
		for _, succ := range b.Succs {
			if !walk(succ, 0, clone(s)) {
				return false
			}
		}
		return true
	}
	ok = walk(c.Entry(), 0, state{map[string]bool{}, map[types.Object]string{}, nil})
	return ok, witness
}

func itoa(i int) string { return Itoa(i) }
