package an

import (
	"go/ast"
	"go/types"
)

// StaleFlag is a boolean search flag that is set inside an inner loop, tested
// in an enclosing loop after that inner loop, and never reset inside the
// enclosing loop: once set it stays set for every later iteration.
type StaleFlag struct {
	Var   types.Object
	Outer ast.Stmt
	Set   ast.Node
	Read  ast.Node
}

func loopBody(n ast.Node) *ast.BlockStmt {
	switch x := n.(type) {
	case *ast.ForStmt:
		return x.Body
	case *ast.RangeStmt:
		return x.Body
	}
	return nil
}

func within(n ast.Node, outer ast.Node) bool {
	return outer != nil && n.Pos() >= outer.Pos() && n.End() <= outer.End()
}

// StaleFlags finds stale loop flags in f.
func StaleFlags(f *Func) []StaleFlag {
	info := f.Pkg.TypesInfo
	var loops []ast.Stmt
	ast.Inspect(f.Decl.Body, func(n ast.Node) bool {
		switch n.(type) {
		case *ast.ForStmt, *ast.RangeStmt:
			loops = append(loops, n.(ast.Stmt))
		}
		return true
	})
	if len(loops) < 2 {
		return nil
	}
	type site struct {
		n ast.Node
	}
	sets := map[types.Object][]ast.Node{}
	resets := map[types.Object][]ast.Node{}
	reads := map[types.Object][]ast.Node{}
	isBoolVar := func(o types.Object) bool {
		v, ok := o.(*types.Var)
		if !ok || v.IsField() || v.Pkg() == nil || v.Parent() == v.Pkg().Scope() {
			return false
		}
		b, ok := v.Type().Underlying().(*types.Basic)
		return ok && b.Kind() == types.Bool
	}
	lhsIdents := map[*ast.Ident]bool{}
	ast.Inspect(f.Decl.Body, func(n ast.Node) bool {
		switch s := n.(type) {
		case *ast.FuncLit:
			return false
		case *ast.AssignStmt:
			for i, l := range s.Lhs {
				id, ok := Unparen(l).(*ast.Ident)
				if !ok {
					continue
				}
				lhsIdents[id] = true
				o := ObjOf(info, id)
				if o == nil || !isBoolVar(o) {
					continue
				}
				var rhs ast.Expr
				if len(s.Rhs) == len(s.Lhs) {
					rhs = s.Rhs[i]
				}
				if rhs != nil {
					if b, ok := ConstBool(info, rhs); ok {
						if b {
							sets[o] = append(sets[o], s)
						} else {
							resets[o] = append(resets[o], s)
						}
						continue
					}
				}
				// any other assignment (comma-ok, expression) re-initialises the flag
				resets[o] = append(resets[o], s)
			}
		case *ast.ValueSpec:
			for _, nm := range s.Names {
				if o := info.Defs[nm]; o != nil && isBoolVar(o) {
					resets[o] = append(resets[o], s)
				}
			}
		}
		return true
	})
	ast.Inspect(f.Decl.Body, func(n ast.Node) bool {
		if _, ok := n.(*ast.FuncLit); ok {
			return false
		}
		id, ok := n.(*ast.Ident)
		if !ok || lhsIdents[id] {
			return true
		}
		if o := info.Uses[id]; o != nil && isBoolVar(o) {
			reads[o] = append(reads[o], id)
		}
		return true
	})
	var out []StaleFlag
	for o, ss := range sets {
		for _, outer := range loops {
			ob := loopBody(outer)
			if within(declNode(o, f), ob) {
				continue // declared per iteration
			}
			resetInside := false
			for _, r := range resets[o] {
				if within(r, ob) {
					resetInside = true
				}
			}
			if resetInside {
				continue
			}
			for _, s := range ss {
				if !within(s, ob) {
					continue
				}
				// the set must be in a strictly inner loop
				var inner ast.Stmt
				for _, l := range loops {
					if l != outer && within(l, ob) && within(s, loopBody(l)) {
						inner = l
					}
				}
				if inner == nil {
					continue
				}
				for _, r := range reads[o] {
					if within(r, ob) && !within(r, inner) && r.Pos() > inner.End() {
						if terminatingRead(f.Decl.Body, r) {
							continue // `if flag { break }`: the enclosing loop stops once the flag is set
						}
						out = append(out, StaleFlag{Var: o, Outer: outer, Set: s, Read: r})
					}
				}
			}
		}
	}
	return out
}

// terminatingRead reports whether identifier r is exactly the condition of an
// if statement whose body ends by leaving the loop (break/return/goto).
func terminatingRead(body ast.Node, r ast.Node) bool {
	term := false
	ast.Inspect(body, func(n ast.Node) bool {
		is, ok := n.(*ast.IfStmt)
		if !ok {
			return true
		}
		if Unparen(is.Cond) != r || len(is.Body.List) == 0 {
			return true
		}
		switch last := is.Body.List[len(is.Body.List)-1].(type) {
		case *ast.BranchStmt:
			term = last.Tok.String() == "break" || last.Tok.String() == "goto"
		case *ast.ReturnStmt:
			term = true
		}
		return true
	})
	return term
}

func declNode(o types.Object, f *Func) ast.Node {
	var found ast.Node
	ast.Inspect(f.Decl.Body, func(n ast.Node) bool {
		if id, ok := n.(*ast.Ident); ok && f.Pkg.TypesInfo.Defs[id] == o {
			found = id
		}
		return found == nil
	})
	if found == nil {
		return f.Decl.Name // parameters / named results: outside every loop
	}
	return found
}

// SelfRecursionDrops lists self-recursive calls of f that do not pass one of
// f's memo parameters (map-typed, or a variadic parameter named seen*) through.
func SelfRecursionDrops(f *Func) []string {
	info := f.Pkg.TypesInfo
	sig := f.Obj.Type().(*types.Signature)
	var memo []int
	for i := 0; i < sig.Params().Len(); i++ {
		p := sig.Params().At(i)
		_, isMap := p.Type().Underlying().(*types.Map)
		isSeen := len(p.Name()) >= 4 && p.Name()[:4] == "seen"
		if isMap && isSeen || (sig.Variadic() && i == sig.Params().Len()-1 && isSeen) {
			memo = append(memo, i)
		}
	}
	if len(memo) == 0 {
		return nil
	}
	var out []string
	for _, call := range AllCallsIn(f.Decl.Body) {
		if Callee(info, call) != types.Object(f.Obj) {
			continue
		}
		for _, i := range memo {
			p := sig.Params().At(i)
			passed := false
			derived := derivedFrom(f, p)
			if i < len(call.Args) {
				for _, a := range call.Args[i:] {
					if mentions(info, a, p) {
						passed = true
					}
					for d := range derived {
						if mentions(info, a, d) {
							passed = true
						}
					}
				}
			}
			if !passed {
				out = append(out, "recursive call "+types.ExprString(call)+" does not pass the recursion guard "+p.Name())
			}
		}
	}
	return out
}

// derivedFrom returns the locals of f assigned from an expression mentioning p.
func derivedFrom(f *Func, p types.Object) map[types.Object]bool {
	info := f.Pkg.TypesInfo
	out := map[types.Object]bool{}
	ast.Inspect(f.Decl.Body, func(n ast.Node) bool {
		as, ok := n.(*ast.AssignStmt)
		if !ok {
			return true
		}
		for i, l := range as.Lhs {
			if i < len(as.Rhs) && mentions(info, as.Rhs[i], p) {
				if o := ObjOf(info, l); o != nil {
					out[o] = true
				}
			}
		}
		return true
	})
	return out
}

// MemoKeyMismatch is a set/memo map whose membership test and insertion use
// different key expressions in the same function.
type MemoKeyMismatch struct {
	Map    types.Object
	Lookup ast.Expr
	Store  ast.Expr
}

// MemoKeyMismatches finds, in f, "seen"-style maps (value type struct{} or
// bool) that are tested with a comma-ok lookup and filled by an indexed store
// where no store key equals a lookup key.
func MemoKeyMismatches(f *Func) []MemoKeyMismatch {
	if ReviewedLint("memo", f) {
		return nil
	}
	return memoKeyMismatches(f)
}

func memoKeyMismatches(f *Func) []MemoKeyMismatch {
	info := f.Pkg.TypesInfo
	type use struct {
		lookups, stores         []ast.Expr
		lookupNodes, storeNodes []ast.Node
	}
	parent := ParentMap(f.Decl.Body)
	loopOf := func(n ast.Node) ast.Node {
		for p := parent[n]; p != nil; p = parent[p] {
			switch p.(type) {
			case *ast.ForStmt, *ast.RangeStmt:
				return p
			}
		}
		return nil
	}
	uses := map[types.Object]*use{}
	nearOnly := map[types.Object]bool{}
	isSet := func(e ast.Expr) (types.Object, bool) {
		o := ObjOf(info, e)
		if o == nil {
			// a set held in a struct field (data.ServerTypeNames): keyed by the field
			if se, ok := Unparen(e).(*ast.SelectorExpr); ok {
				if v, ok := info.Uses[se.Sel].(*types.Var); ok && v.IsField() {
					o = v
				}
			}
		}
		if o == nil {
			return nil, false
		}
		m, ok := o.Type().Underlying().(*types.Map)
		if !ok {
			return nil, false
		}
		if _, isField := Unparen(e).(*ast.SelectorExpr); isField {
			// sets held in fields: only those keyed by a name/ID (basic key type); a set of
			// object identities (pointer keys) legitimately tests one object and inserts another
			if _, basic := m.Key().Underlying().(*types.Basic); !basic {
				return nil, false
			}
		}
		switch v := m.Elem().Underlying().(type) {
		case *types.Struct:
			return o, v.NumFields() == 0
		case *types.Basic:
			return o, v.Kind() == types.Bool
		}
		// memo tables (name/ID/hash -> computed value): only near-miss keys are reported for them
		if k, ok := m.Key().Underlying().(*types.Basic); ok && k.Kind() == types.String {
			switch m.Elem().Underlying().(type) {
			case *types.Pointer, *types.Interface:
				nearOnly[o] = true
				return o, true
			}
		}
		return nil, false
	}
	get := func(o types.Object) *use {
		if uses[o] == nil {
			uses[o] = &use{}
		}
		return uses[o]
	}
	ast.Inspect(f.Decl.Body, func(n ast.Node) bool {
		if _, isLit := n.(*ast.FuncLit); isLit {
			return false // closures receive their keys as parameters: compared separately, if ever
		}
		as, ok := n.(*ast.AssignStmt)
		if !ok {
			return true
		}
		if len(as.Lhs) == 2 && len(as.Rhs) == 1 {
			if ix, ok := Unparen(as.Rhs[0]).(*ast.IndexExpr); ok {
				if o, ok := isSet(ix.X); ok {
					get(o).lookups = append(get(o).lookups, ix.Index)
					get(o).lookupNodes = append(get(o).lookupNodes, as)
				}
			}
		}
		for _, l := range as.Lhs {
			if ix, ok := Unparen(l).(*ast.IndexExpr); ok {
				if o, ok := isSet(ix.X); ok {
					get(o).stores = append(get(o).stores, ix.Index)
					get(o).storeNodes = append(get(o).storeNodes, as)
				}
			}
		}
		return true
	})
	var out []MemoKeyMismatch
	for o, u := range uses {
		if len(u.lookups) == 0 || len(u.stores) == 0 {
			continue
		}
		for si, s := range u.stores {
			match, near := false, ast.Expr(nil)
			// a visited set is tested and filled for the same entity in the same iteration (or, without
			// loops, in the same recursive function); a table filled by one loop and consulted by another
			// (names of one list looked up while walking another) is not a visited set
			sameLoop := false
			for li := range u.lookups {
				if loopOf(u.lookupNodes[li]) == loopOf(u.storeNodes[si]) {
					sameLoop = true
				}
			}
			if !sameLoop {
				continue
			}
			for _, l := range u.lookups {
				identInfo = info
				d := identDiffs(s, l)
				identInfo = nil
				if SameExpr(info, s, l) || d == 0 || (!nearOnly[o] && sameShape(info, s, l)) {
					match = true
				}
				if d == 1 {
					near = l
				}
			}
			if match {
				continue
			}
			if nearOnly[o] {
				// a table, not a visited set: only a key that differs from a lookup key in exactly one identifier
				if near != nil {
					out = append(out, MemoKeyMismatch{Map: o, Lookup: near, Store: s})
				}
				continue
			}
			out = append(out, MemoKeyMismatch{Map: o, Lookup: u.lookups[0], Store: s})
		}
	}
	return out
}

// SliceReuse is a slice that is truncated with x = x[:0] inside a loop and
// whose header is also stored (struct field, composite literal, map or slice
// element) inside that loop: every stored value shares one backing array, so
// later iterations overwrite what earlier iterations stored.
type SliceReuse struct {
	Var   types.Object
	Reset ast.Node
	Store ast.Node
}

// SliceReuses finds the pattern in f.
func SliceReuses(f *Func) []SliceReuse {
	info := f.Pkg.TypesInfo
	var out []SliceReuse
	ast.Inspect(f.Decl.Body, func(n ast.Node) bool {
		body := loopBody(n)
		if body == nil {
			return true
		}
		resets := map[types.Object]ast.Node{}
		ast.Inspect(body, func(x ast.Node) bool {
			as, ok := x.(*ast.AssignStmt)
			if !ok || len(as.Lhs) != 1 || len(as.Rhs) != 1 {
				return true
			}
			se, ok := Unparen(as.Rhs[0]).(*ast.SliceExpr)
			if !ok || se.Low != nil || se.High == nil {
				return true
			}
			if k, ok := ConstInt(info, se.High); !ok || k != 0 {
				return true
			}
			o := ObjOf(info, as.Lhs[0])
			if o != nil && o == ObjOf(info, se.X) && !within(declNode(o, f), body) {
				resets[o] = as
			}
			return true
		})
		if len(resets) == 0 {
			return true
		}
		ast.Inspect(body, func(x ast.Node) bool {
			switch s := x.(type) {
			case *ast.KeyValueExpr:
				if o := ObjOf(info, s.Value); o != nil && resets[o] != nil {
					out = append(out, SliceReuse{Var: o, Reset: resets[o], Store: s})
				}
			case *ast.AssignStmt:
				for i, l := range s.Lhs {
					if i >= len(s.Rhs) {
						continue
					}
					o := ObjOf(info, s.Rhs[i])
					if o == nil || resets[o] == nil {
						continue
					}
					switch Unparen(l).(type) {
					case *ast.SelectorExpr, *ast.IndexExpr:
						out = append(out, SliceReuse{Var: o, Reset: resets[o], Store: s})
					}
				}
			}
			return true
		})
		return true
	})
	return out
}

// StaleVar is a (non-boolean) variable declared outside a loop that is only
// conditionally assigned inside the loop body and read later in the same body:
// when the condition does not hold, the value of a previous iteration is used.
type StaleVar struct {
	Var  types.Object
	Loop ast.Stmt
	Set  ast.Node
	Read ast.Node
}

// StaleLoopVars finds the pattern in f. Accumulators (assignments that mention
// the variable itself, op-assignments, ++/--) are not reported, nor are
// variables that receive an unconditional assignment at the top level of the
// loop body before the read.
func StaleLoopVars(f *Func) []StaleVar {
	info := f.Pkg.TypesInfo
	var out []StaleVar
	var loops []ast.Stmt
	ast.Inspect(f.Decl.Body, func(n ast.Node) bool {
		switch n.(type) {
		case *ast.ForStmt, *ast.RangeStmt:
			loops = append(loops, n.(ast.Stmt))
		}
		return true
	})
	for _, loop := range loops {
		body := loopBody(loop)
		type asg struct {
			n           ast.Node
			topLevel    bool
			accumulator bool
		}
		assigns := map[types.Object][]asg{}
		for _, st := range body.List {
			top := ast.Node(st)
			// the init statement of a top-level if/switch always executes
			var topInit ast.Node
			switch x := st.(type) {
			case *ast.IfStmt:
				topInit = x.Init
			case *ast.SwitchStmt:
				topInit = x.Init
			case *ast.TypeSwitchStmt:
				topInit = x.Init
			}
			ast.Inspect(st, func(n ast.Node) bool {
				if _, isLit := n.(*ast.FuncLit); isLit {
					return false
				}
				if topInit != nil && n == topInit {
					top = n
				}
				as, ok := n.(*ast.AssignStmt)
				if !ok {
					if inc, isInc := n.(*ast.IncDecStmt); isInc {
						if o := ObjOf(info, inc.X); o != nil {
							assigns[o] = append(assigns[o], asg{n, n == top, true})
						}
					}
					return true
				}
				for i, l := range as.Lhs {
					id, ok := Unparen(l).(*ast.Ident)
					if !ok {
						continue
					}
					o := ObjOf(info, id)
					v, isVar := o.(*types.Var)
					if !isVar || v.IsField() || within(declNode(o, f), body) {
						continue
					}
					if b, isBasic := v.Type().Underlying().(*types.Basic); isBasic && b.Kind() == types.Bool {
						continue // booleans are StaleFlags' business
					}
					acc := as.Tok.String() != "=" && as.Tok.String() != ":="
					if i < len(as.Rhs) && mentions(info, as.Rhs[i], o) {
						acc = true
					}
					if len(as.Rhs) == 1 && len(as.Lhs) > 1 && mentions(info, as.Rhs[0], o) {
						acc = true
					}
					if guardedBySelf(info, st, as, o) {
						acc = true // lazy initialisation: `if x == nil { x = … }` keeps state on purpose
					}
					assigns[o] = append(assigns[o], asg{as, n == top || totalSwitchAssign(info, st, o), acc})
				}
				return true
			})
		}
		for o, as := range assigns {
			// parameters and named results are not loop-local state we reason about
			conditional := false
			var firstCond ast.Node
			accumulates := false
			for _, a := range as {
				if a.accumulator {
					accumulates = true
				}
				if !a.topLevel && !a.accumulator {
					conditional = true
					if firstCond == nil {
						firstCond = a.n
					}
				}
			}
			if !conditional || accumulates {
				continue
			}
			// reads in the loop body, outside the conditional assignment's own statement, after it
			var read ast.Node
			for _, st := range body.List {
				if st.End() <= firstCond.Pos() && !(st.Pos() <= firstCond.Pos() && firstCond.End() <= st.End()) {
					continue
				}
				ast.Inspect(st, func(n ast.Node) bool {
					if _, isLit := n.(*ast.FuncLit); isLit {
						return false
					}
					id, ok := n.(*ast.Ident)
					if !ok || info.Uses[id] != o || id.Pos() < firstCond.End() {
						return true
					}
					// not an assignment target
					isLHS := false
					for _, a := range as {
						if asn, ok := a.n.(*ast.AssignStmt); ok {
							for _, l := range asn.Lhs {
								if l == ast.Expr(id) {
									isLHS = true
								}
							}
						}
					}
					if !isLHS && read == nil {
						read = id
					}
					return true
				})
			}
			if read == nil {
				continue
			}
			// an unconditional top-level assignment before the read resets the variable each iteration
			reset := false
			for _, a := range as {
				if a.topLevel && !a.accumulator && a.n.Pos() < read.Pos() {
					reset = true
				}
			}
			if reset {
				continue
			}
			// the loop must be able to iterate again after the read (no unconditional exit)
			out = append(out, StaleVar{Var: o, Loop: loop, Set: firstCond, Read: read})
		}
	}
	return out
}

// guardedBySelf reports whether assignment as (inside statement st) sits in the
// body of an if whose condition mentions the assigned variable itself.
func guardedBySelf(info *types.Info, st ast.Stmt, as *ast.AssignStmt, o types.Object) bool {
	found := false
	ast.Inspect(st, func(n ast.Node) bool {
		switch is := n.(type) {
		case *ast.IfStmt:
			inBody := within(as, is.Body) || (is.Else != nil && within(as, is.Else))
			if inBody && mentions(info, is.Cond, o) {
				found = true
			}
		case *ast.SwitchStmt:
			// the switch form of the same chain: the tag or a case expression tests the variable
			if !within(as, is.Body) {
				return true
			}
			if is.Tag != nil && mentions(info, is.Tag, o) {
				found = true
			}
			for _, cl := range is.Body.List {
				for _, e := range cl.(*ast.CaseClause).List {
					if mentions(info, e, o) {
						found = true
					}
				}
			}
		}
		return true
	})
	return found
}

// totalSwitchAssign reports whether st is a switch with a default clause in
// which every clause assigns o at its top level (so o is assigned on every path).
func totalSwitchAssign(info *types.Info, st ast.Stmt, o types.Object) bool {
	var clauses []ast.Stmt
	switch x := st.(type) {
	case *ast.SwitchStmt:
		clauses = x.Body.List
	case *ast.TypeSwitchStmt:
		clauses = x.Body.List
	default:
		return false
	}
	hasDefault := false
	for _, cl := range clauses {
		cc := cl.(*ast.CaseClause)
		if cc.List == nil {
			hasDefault = true
		}
		assigned := false
		for _, s := range cc.Body {
			if as, ok := s.(*ast.AssignStmt); ok {
				for _, l := range as.Lhs {
					if ObjOf(info, l) == o {
						assigned = true
					}
				}
			}
		}
		if !assigned {
			return false
		}
	}
	return hasDefault
}

// sameShape: two key expressions that differ only in the identifier at their
// root, when both roots have the same type (x.Name vs y.Name).
// strictMemoCalls (experiment switch) makes x.ID() and y.ID() different keys.
var strictMemoCalls = false

func sameShape(info *types.Info, a, b ast.Expr) bool {
	a, b = Unparen(a), Unparen(b)
	switch x := a.(type) {
	case *ast.Ident:
		y, ok := b.(*ast.Ident)
		if !ok {
			return false
		}
		ox, oy := ObjOf(info, x), ObjOf(info, y)
		return ox != nil && oy != nil && types.Identical(ox.Type(), oy.Type()) && ox != oy && isLocalVar(ox) && isLocalVar(oy) && false
	case *ast.SelectorExpr:
		y, ok := b.(*ast.SelectorExpr)
		if !ok || x.Sel.Name != y.Sel.Name {
			return false
		}
		if _, ok := Unparen(x.X).(*ast.Ident); ok {
			if _, ok := Unparen(y.X).(*ast.Ident); ok {
				// like-named fields of the same type on two variables (x.Name vs y.Name) play the same role
				tx, okx := info.Types[x]
				ty, oky := info.Types[y]
				return okx && oky && types.Identical(tx.Type, ty.Type)
			}
		}
		return sameShape(info, x.X, y.X)
	case *ast.CallExpr:
		y, ok := b.(*ast.CallExpr)
		if !ok || len(x.Args) != len(y.Args) || len(x.Args) != 0 {
			return false
		}
		if strictMemoCalls {
			return false
		}
		return sameShape(info, x.Fun, y.Fun)
	}
	return false
}

func isLocalVar(o types.Object) bool {
	v, ok := o.(*types.Var)
	return ok && !v.IsField() && v.Pkg() != nil && v.Parent() != v.Pkg().Scope()
}

// identDiffs walks two expressions in parallel: -1 when their shapes differ,
// otherwise the number of identifier leaves whose names differ.
// identInfo, when set, makes identDiffs compare identifiers by the object they denote: two variables of the
// same name in different scopes (shadowing) are different identifiers.
var identInfo *types.Info

func identDiffs(a, b ast.Expr) int {
	a, b = Unparen(a), Unparen(b)
	switch x := a.(type) {
	case *ast.Ident:
		y, ok := b.(*ast.Ident)
		if !ok {
			return -1
		}
		if x.Name == y.Name {
			if identInfo != nil {
				if ox, oy := identInfo.Uses[x], identInfo.Uses[y]; ox != nil && oy != nil && ox != oy {
					return 1
				}
			}
			return 0
		}
		return 1
	case *ast.SelectorExpr:
		y, ok := b.(*ast.SelectorExpr)
		if !ok {
			return -1
		}
		d := identDiffs(x.X, y.X)
		if d < 0 {
			return -1
		}
		if x.Sel.Name != y.Sel.Name {
			d++
		}
		return d
	case *ast.CallExpr:
		y, ok := b.(*ast.CallExpr)
		if !ok || len(x.Args) != len(y.Args) {
			return -1
		}
		d := identDiffs(x.Fun, y.Fun)
		if d < 0 {
			return -1
		}
		for i := range x.Args {
			di := identDiffs(x.Args[i], y.Args[i])
			if di < 0 {
				return -1
			}
			d += di
		}
		return d
	case *ast.BinaryExpr:
		y, ok := b.(*ast.BinaryExpr)
		if !ok || x.Op != y.Op {
			return -1
		}
		d1, d2 := identDiffs(x.X, y.X), identDiffs(x.Y, y.Y)
		if d1 < 0 || d2 < 0 {
			return -1
		}
		return d1 + d2
	case *ast.BasicLit:
		y, ok := b.(*ast.BasicLit)
		if !ok || x.Value != y.Value {
			return -1
		}
		return 0
	case *ast.UnaryExpr:
		y, ok := b.(*ast.UnaryExpr)
		if !ok || x.Op != y.Op {
			return -1
		}
		return identDiffs(x.X, y.X)
	case *ast.StarExpr:
		y, ok := b.(*ast.StarExpr)
		if !ok {
			return -1
		}
		return identDiffs(x.X, y.X)
	case *ast.IndexExpr:
		y, ok := b.(*ast.IndexExpr)
		if !ok {
			return -1
		}
		d1, d2 := identDiffs(x.X, y.X), identDiffs(x.Index, y.Index)
		if d1 < 0 || d2 < 0 {
			return -1
		}
		return d1 + d2
	}
	return -1
}
