package an

import (
	"golang.org/x/tools/go/ssa"
)

// Engine E12 (reachability): functions reachable from entry points through
// static calls, closures and function values mentioned as operands (function
// values stored in tables or passed as arguments count as reachable). Dynamic
// interface dispatch is not followed in this (quick) form.
func Reachable(entries ...*ssa.Function) map[*ssa.Function]bool {
	seen := map[*ssa.Function]bool{}
	var visit func(f *ssa.Function)
	visit = func(f *ssa.Function) {
		if f == nil || seen[f] {
			return
		}
		seen[f] = true
		for _, a := range f.AnonFuncs {
			visit(a)
		}
		for _, b := range f.Blocks {
			for _, in := range b.Instrs {
				if call, ok := in.(ssa.CallInstruction); ok {
					if sc := call.Common().StaticCallee(); sc != nil {
						visit(sc)
					}
				}
				for _, op := range in.Operands(nil) {
					if op == nil || *op == nil {
						continue
					}
					switch x := (*op).(type) {
					case *ssa.Function:
						visit(x)
					case *ssa.MakeClosure:
						if fn, ok := x.Fn.(*ssa.Function); ok {
							visit(fn)
						}
					}
				}
			}
		}
	}
	for _, e := range entries {
		visit(e)
	}
	return seen
}
