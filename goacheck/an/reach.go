package an

import (
	"golang.org/x/tools/go/ssa"
)

// Engine E12 (reachability): functions reachable from entry points through
// static calls, closures and function values mentioned as operands (function
// values stored in tables or passed as arguments count as reachable). Dynamic
// interface dispatch is not followed in this (quick) form.
func Reachable(entries ...*ssa.Function) map[*ssa.Function]bool {
	seen := map[*ssa.Function]bool{}
	var visit func(f *ssa.Function)
	visit = func(f *ssa.Function) {
		if f == nil || seen[f] {
			return
		}
		seen[f] = true
		for _, a := range f.AnonFuncs {
			visit(a)
		}
		for _, b := range f.Blocks {
			for _, in := range b.Instrs {
				if call, ok := in.(ssa.CallInstruction); ok {
					if sc := call.Common().StaticCallee(); sc != nil {
						visit(sc)
					}
				}
				for _, op := range in.Operands(nil) {
					if op == nil || *op == nil {
						continue
					}
					switch x := (*op).(type) {
					case *ssa.Function:
						visit(x)
					case *ssa.MakeClosure:
						if fn, ok := x.Fn.(*ssa.Function); ok {
							visit(fn)
						}
					}
				}
			}
		}
	}
	for _, e := range entries {
		visit(e)
	}
	return seen
}

// FieldsReadBy returns the names of the fields of struct type named that are
// read (Field/FieldAddr followed by a load, or passed on) by the functions of
// reach that belong to one of the packages pkgs (import paths).
func FieldsReadBy(reach map[*ssa.Function]bool, typeName string, pkgs map[string]bool) map[string]bool {
	out := map[string]bool{}
	for fn := range reach {
		if fn.Pkg == nil || !pkgs[fn.Pkg.Pkg.Path()] {
			// closures carry their parent's package
			p := fn
			for p.Parent() != nil {
				p = p.Parent()
			}
			if p.Pkg == nil || !pkgs[p.Pkg.Pkg.Path()] {
				continue
			}
		}
		for _, b := range fn.Blocks {
			for _, in := range b.Instrs {
				switch x := in.(type) {
				case *ssa.FieldAddr:
					if NamedTypeName(x.X.Type()) == typeName {
						out[fieldName(x.X.Type(), x.Field)] = true
					}
				case *ssa.Field:
					if NamedTypeName(x.X.Type()) == typeName {
						out[fieldNameStruct(x.X.Type(), x.Field)] = true
					}
				}
			}
		}
	}
	return out
}
