package an

import (
	"fmt"
	"sort"
	"strings"
	"text/template/parse"
)

// Engine E8 (variants): abstract expansion of a template under an assignment
// of its boolean atoms. Text is emitted verbatim; actions in output position
// become placeholders (‹field chain›); if/with conditions are evaluated over
// the atoms (field chains, eq-comparisons with literals, and/or/not); ranges
// are unrolled the number of times the variant says. Nothing is executed.

// Variant fixes the abstract inputs of one expansion.
type Variant struct {
	Bools   map[string]bool   // atom text -> value (".isPointer", "eq .Type.Name \"int\"", ...)
	Strings map[string]string // field chain -> literal value (for eq comparisons)
	Ranges  map[string]int    // range pipeline text -> iterations (default 1)
	Partial map[string]*parse.Tree
}

// ExpandResult is the text of a variant and the atoms it consulted.
type ExpandResult struct {
	Text      string
	Consulted []string
	Unknown   []string // atoms consulted that the variant does not define (treated as false)
}

type expander struct {
	v         Variant
	consulted map[string]bool
	unknown   map[string]bool
	vars      map[string]string
	idx       map[string]int // loop index variables
	depth     int
	// condVars: variables defined from a pipeline ({{ $v := ne $i 0 }}); a test of the variable is a test of
	// the pipeline, evaluated with the loop indexes of the definition
	condVars map[string]condVar
	// textVars: variables defined by printf with a constant format: their value is program text with
	// placeholders for the arguments, and printing the variable prints that text
	textVars map[string]string
}

type condVar struct {
	pipe *parse.PipeNode
	dot  string
	idx  map[string]int
}

// ExpandTree expands one parsed tree.
func ExpandTree(tree *parse.Tree, v Variant) ExpandResult {
	e := &expander{v: v, consulted: map[string]bool{}, unknown: map[string]bool{}, vars: map[string]string{}, idx: map[string]int{}}
	var b strings.Builder
	e.list(&b, tree.Root, "")
	res := ExpandResult{Text: b.String()}
	for k := range e.consulted {
		res.Consulted = append(res.Consulted, k)
	}
	for k := range e.unknown {
		res.Unknown = append(res.Unknown, k)
	}
	sort.Strings(res.Consulted)
	sort.Strings(res.Unknown)
	return res
}

func (e *expander) list(b *strings.Builder, l *parse.ListNode, dot string) {
	if l == nil {
		return
	}
	for _, n := range l.Nodes {
		e.node(b, n, dot)
	}
}

func placeholder(s string) string {
	s = strings.TrimSpace(s)
	return "‹" + s + "›"
}

func (e *expander) node(b *strings.Builder, n parse.Node, dot string) {
	switch x := n.(type) {
	case *parse.TextNode:
		b.Write(x.Text)
	case *parse.CommentNode:
	case *parse.ActionNode:
		if len(x.Pipe.Decl) > 0 {
			// variable declaration: remember a readable name and the defining pipeline, emit nothing
			name := x.Pipe.Decl[0].Ident[0]
			e.vars[name] = e.describe(x.Pipe, dot)
			if e.textVars == nil {
				e.textVars = map[string]string{}
			}
			delete(e.textVars, name)
			if txt, ok := e.printfText(x.Pipe, dot); ok {
				e.textVars[name] = txt
			}
			snap := map[string]int{}
			for k, v := range e.idx {
				snap[k] = v
			}
			if e.condVars == nil {
				e.condVars = map[string]condVar{}
			}
			e.condVars[name] = condVar{&parse.PipeNode{NodeType: parse.NodePipe, Cmds: x.Pipe.Cmds}, dot, snap}
			return
		}
		b.WriteString(e.output(x.Pipe, dot))
	case *parse.IfNode:
		if e.cond(x.Pipe, dot) {
			e.list(b, x.List, dot)
		} else {
			e.list(b, x.ElseList, dot)
		}
	case *parse.WithNode:
		if e.cond(x.Pipe, dot) {
			e.list(b, x.List, e.describe(x.Pipe, dot))
		} else {
			e.list(b, x.ElseList, dot)
		}
	case *parse.RangeNode:
		key := x.Pipe.String()
		n, ok := e.v.Ranges[key]
		if !ok {
			n = 1
		}
		e.consulted["range "+key] = true
		if n == 0 {
			e.list(b, x.ElseList, dot)
			return
		}
		coll := e.describe(x.Pipe, dot)
		for i := 0; i < n; i++ {
			elem := fmt.Sprintf("%s[%d]", coll, i)
			switch len(x.Pipe.Decl) {
			case 1:
				e.vars[x.Pipe.Decl[0].Ident[0]] = elem
			case 2:
				e.vars[x.Pipe.Decl[0].Ident[0]] = fmt.Sprint(i)
				e.idx[x.Pipe.Decl[0].Ident[0]] = i
				e.vars[x.Pipe.Decl[1].Ident[0]] = elem
			}
			e.list(b, x.List, elem)
		}
	case *parse.TemplateNode:
		if t, ok := e.v.Partial[x.Name]; ok && e.depth < 4 {
			nd := dot
			if x.Pipe != nil {
				nd = e.describe(x.Pipe, dot)
			}
			e.depth++
			e.list(b, t.Root, nd)
			e.depth--
		} else {
			b.WriteString(placeholder("template " + x.Name))
		}
	}
}

// describe renders a pipeline as a readable path (for placeholders).
func (e *expander) describe(p *parse.PipeNode, dot string) string {
	if p == nil {
		return dot
	}
	if len(p.Cmds) == 1 && len(p.Cmds[0].Args) == 1 {
		return e.arg(p.Cmds[0].Args[0], dot)
	}
	s := p.String()
	if i := strings.Index(s, ":="); i >= 0 {
		s = strings.TrimSpace(s[i+2:])
	}
	return s
}

func (e *expander) arg(a parse.Node, dot string) string {
	switch x := a.(type) {
	case *parse.DotNode:
		return dot
	case *parse.FieldNode:
		return dot + "." + strings.Join(x.Ident, ".")
	case *parse.VariableNode:
		base := x.Ident[0]
		if x.Ident[0] == "$" {
			base = ""
		} else if v, ok := e.vars[x.Ident[0]]; ok {
			base = v
		}
		if len(x.Ident) > 1 {
			return base + "." + strings.Join(x.Ident[1:], ".")
		}
		return base
	case *parse.PipeNode:
		return e.describe(x, dot)
	case *parse.ChainNode:
		return e.arg(x.Node, dot) + "." + strings.Join(x.Field, ".")
	}
	return a.String()
}

// printfText evaluates `printf "<constant format>" args…` to program text with one placeholder per argument
// (an argument that is itself a text variable contributes its text).
func (e *expander) printfText(p *parse.PipeNode, dot string) (string, bool) {
	if len(p.Cmds) != 1 || len(p.Cmds[0].Args) < 2 {
		return "", false
	}
	c := p.Cmds[0]
	id, ok := c.Args[0].(*parse.IdentifierNode)
	f, ok2 := c.Args[1].(*parse.StringNode)
	if !ok || !ok2 || id.Ident != "printf" {
		return "", false
	}
	var b strings.Builder
	argi := 2
	for i := 0; i < len(f.Text); i++ {
		if f.Text[i] != '%' || i+1 >= len(f.Text) {
			b.WriteByte(f.Text[i])
			continue
		}
		i++
		switch f.Text[i] {
		case '%':
			b.WriteByte('%')
		case 's', 'v', 'd', 'q':
			if argi >= len(c.Args) {
				return "", false
			}
			arg := ""
			if vn, isVar := c.Args[argi].(*parse.VariableNode); isVar && len(vn.Ident) == 1 {
				if t, has := e.textVars[vn.Ident[0]]; has {
					arg = t
				}
			}
			if arg == "" {
				arg = placeholder(e.arg(c.Args[argi], dot))
			}
			if f.Text[i] == 'q' {
				arg = `"` + arg + `"`
			}
			b.WriteString(arg)
			argi++
		default:
			return "", false
		}
	}
	return b.String(), true
}

// output renders an action in output position.
func (e *expander) output(p *parse.PipeNode, dot string) string {
	if len(p.Cmds) == 0 {
		return ""
	}
	first := p.Cmds[0]
	if len(p.Cmds) == 1 && len(first.Args) == 1 {
		if vn, ok := first.Args[0].(*parse.VariableNode); ok && len(vn.Ident) == 1 {
			if t, has := e.textVars[vn.Ident[0]]; has {
				return t
			}
		}
	}
	// printf "%q" X  → "‹X›"
	if id, ok := first.Args[0].(*parse.IdentifierNode); ok && id.Ident == "printf" && len(first.Args) >= 3 {
		if f, ok := first.Args[1].(*parse.StringNode); ok && f.Text == "%q" {
			return `"` + placeholder(e.arg(first.Args[2], dot)) + `"`
		}
	}
	// last command "comment" → a Go comment
	if last := p.Cmds[len(p.Cmds)-1]; len(last.Args) == 1 {
		if id, ok := last.Args[0].(*parse.IdentifierNode); ok && id.Ident == "comment" {
			return "// " + placeholder(e.describe(&parse.PipeNode{Cmds: p.Cmds[:len(p.Cmds)-1]}, dot))
		}
	}
	if len(p.Cmds) == 1 && len(first.Args) == 1 {
		return placeholder(e.arg(first.Args[0], dot))
	}
	// function call: name(args)
	var parts []string
	for _, c := range p.Cmds {
		var as []string
		for _, a := range c.Args {
			as = append(as, e.arg(a, dot))
		}
		parts = append(parts, strings.Join(as, " "))
	}
	return placeholder(strings.Join(parts, " | "))
}

// cond evaluates a condition pipeline over the variant's atoms.
func (e *expander) cond(p *parse.PipeNode, dot string) bool {
	if p == nil || len(p.Cmds) == 0 {
		return false
	}
	if len(p.Cmds) > 1 {
		return e.atom(p.String())
	}
	return e.cmd(p.Cmds[0], dot)
}

func (e *expander) atom(text string) bool {
	e.consulted[text] = true
	v, ok := e.v.Bools[text]
	if !ok {
		e.unknown[text] = true
	}
	return v
}

func (e *expander) cmd(c *parse.CommandNode, dot string) bool {
	if len(c.Args) == 1 {
		switch x := c.Args[0].(type) {
		case *parse.PipeNode:
			return e.cond(x, dot)
		case *parse.BoolNode:
			return x.True
		case *parse.VariableNode:
			// a variable declared from a condition: evaluate the condition as it stood at the definition
			if cv, ok := e.condVars[x.Ident[0]]; ok && len(x.Ident) == 1 && e.depth < 8 {
				saved := e.idx
				e.idx = cv.idx
				e.depth++
				r := e.cond(cv.pipe, cv.dot)
				e.depth--
				e.idx = saved
				return r
			}
			return e.atom(strings.Join(x.Ident, "."))
		default:
			return e.atom(c.Args[0].String())
		}
	}
	id, ok := c.Args[0].(*parse.IdentifierNode)
	if !ok {
		return e.atom(c.String())
	}
	sub := func(a parse.Node) bool {
		if p, ok := a.(*parse.PipeNode); ok {
			return e.cond(p, dot)
		}
		return e.cmd(&parse.CommandNode{NodeType: parse.NodeCommand, Args: []parse.Node{a}}, dot)
	}
	switch id.Ident {
	case "not":
		return !sub(c.Args[1])
	case "and":
		r := true
		for _, a := range c.Args[1:] {
			if !sub(a) {
				r = false
			}
		}
		return r
	case "or":
		r := false
		for _, a := range c.Args[1:] {
			if sub(a) {
				r = true
			}
		}
		return r
	case "eq", "ne":
		if len(c.Args) == 3 {
			if vn, ok := c.Args[1].(*parse.VariableNode); ok && len(vn.Ident) == 1 {
				if i, isIdx := e.idx[vn.Ident[0]]; isIdx {
					if num, ok := c.Args[2].(*parse.NumberNode); ok && num.IsInt {
						return (int64(i) == num.Int64) == (id.Ident == "eq")
					}
				}
			}
			if s, ok := c.Args[2].(*parse.StringNode); ok {
				key := c.Args[1].String()
				e.consulted["string "+key] = true
				if val, known := e.v.Strings[key]; known {
					return (val == s.Text) == (id.Ident == "eq")
				}
			}
		}
	}
	return e.atom(c.String())
}

// TplAtoms lists the condition atoms of a tree (text of the leaves the
// expander would consult), for variant enumeration.
func TplAtoms(tree *parse.Tree) []string {
	m := map[string]bool{}
	defs := map[string][]*parse.PipeNode{}
	WalkTpl(tree.Root, func(n parse.Node) bool {
		if a, ok := n.(*parse.ActionNode); ok && len(a.Pipe.Decl) > 0 {
			name := a.Pipe.Decl[0].Ident[0]
			defs[name] = append(defs[name], &parse.PipeNode{NodeType: parse.NodePipe, Cmds: a.Pipe.Cmds})
		}
		return true
	})
	resolving := map[string]bool{}
	var visitCond func(p *parse.PipeNode)
	var visitCmd func(c *parse.CommandNode)
	visitCond = func(p *parse.PipeNode) {
		if p == nil {
			return
		}
		if len(p.Cmds) != 1 {
			m[p.String()] = true
			return
		}
		visitCmd(p.Cmds[0])
	}
	visitCmd = func(c *parse.CommandNode) {
		if len(c.Args) == 1 {
			if p, ok := c.Args[0].(*parse.PipeNode); ok {
				visitCond(p)
				return
			}
			if _, ok := c.Args[0].(*parse.BoolNode); ok {
				return
			}
			if vn, ok := c.Args[0].(*parse.VariableNode); ok && len(vn.Ident) == 1 && len(defs[vn.Ident[0]]) > 0 && !resolving[vn.Ident[0]] {
				resolving[vn.Ident[0]] = true
				for _, dp := range defs[vn.Ident[0]] {
					visitCond(dp)
				}
				resolving[vn.Ident[0]] = false
				return
			}
			m[c.Args[0].String()] = true
			return
		}
		if id, ok := c.Args[0].(*parse.IdentifierNode); ok {
			switch id.Ident {
			case "not", "and", "or":
				for _, a := range c.Args[1:] {
					if p, ok := a.(*parse.PipeNode); ok {
						visitCond(p)
					} else {
						visitCmd(&parse.CommandNode{NodeType: parse.NodeCommand, Args: []parse.Node{a}})
					}
				}
				return
			}
		}
		m[c.String()] = true
	}
	WalkTpl(tree.Root, func(n parse.Node) bool {
		switch x := n.(type) {
		case *parse.IfNode:
			visitCond(x.Pipe)
		case *parse.WithNode:
			visitCond(x.Pipe)
		}
		return true
	})
	var out []string
	for k := range m {
		out = append(out, k)
	}
	sort.Strings(out)
	return out
}
