package an

import (
	"go/ast"
	"go/importer"
	"go/parser"
	"go/token"
	"go/types"
	"sort"

	"golang.org/x/tools/go/packages"
)

// Positive examples. The deviance lints expect zero hits on goa; a rule that
// matches nothing passes vacuously forever, so every run first shows that each
// lint still fires on a tiny function written to contain exactly its pattern.

const selfTestSrc = `package zz

import (
	"bytes"
	"sort"
	"strings"
	"sync"
)

type T struct{ Headers, Cookies []string; A, B, C, D string }

func fStaleFlag(xs, ys []string) int {
	n := 0
	found := false
	for _, x := range xs {
		for _, y := range ys {
			if x == y {
				found = true
				break
			}
		}
		if !found {
			n++
		}
	}
	return n
}

func fBareBreak(xs []string) int {
	n := 0
	for _, x := range xs {
		if x == "" {
			break
		}
		n++
	}
	return n
}

func swapped(timeout, temporary bool) bool { return timeout && !temporary }
func fSwap(t *T, timeout, temporary bool) bool { return swapped(temporary, timeout) }

func fGuardField(v, o *T) {
	if v.A == "" {
		v.B = o.B
	}
}

func exists(string) bool { return false }
func fRetryOnce(n string) string {
	i := 1
	if exists(n) {
		i++
		n = n + string(rune(i))
	}
	return n
}

func read() []byte { return nil }
func fGuardVar(b []byte) []byte {
	var out []byte
	rb := read()
	if len(b) > 0 {
		out = append(out, rb...)
	}
	return out
}

func (t *T) IsRequired(string) bool { return true }
func fRaw(t *T, name string) bool {
	att := strings.Split(name, ":")[0]
	if t.IsRequired(att) {
		return t.IsRequired(name)
	}
	return false
}

func strip(*T, []string) {}
func fInvariant(t *T, vs []*T) {
	for _, v := range vs {
		_ = v
		strip(t, t.Cookies)
	}
}

func fMapStore(m map[string]*T, ks, ls []string) {
	for _, k := range ks {
		if _, ok := m[k]; !ok {
			m[k] = &T{}
		}
	}
	for _, l := range ls {
		m[l] = &T{}
	}
}

func (t *T) Dup() *T {
	return &T{Headers: t.Headers, Cookies: t.Cookies, A: t.A, B: t.B, C: t.C}
}

func fParity(t *T) int {
	n := 0
	if len(t.Headers) > 0 {
		n++
	}
	return n
}

func use(string) {}
func fStaleVar(xs []*T) {
	var view string
	for _, x := range xs {
		if x.A != "" {
			view = x.A
		}
		use(view)
	}
}

func fMemo(t *T, seen map[string]struct{}) {
	if _, ok := seen[t.A]; ok {
		return
	}
	seen[t.B] = struct{}{}
}

func fRec(ts []*T, seen map[string]bool) bool {
	for _, t := range ts {
		if seen[t.A] {
			continue
		}
		seen[t.A] = true
		if fRec(nil, map[string]bool{}) {
			return true
		}
	}
	return false
}

func fSlice(xs [][]string, m map[int][]string) {
	var rs []string
	for i, x := range xs {
		rs = rs[:0]
		rs = append(rs, x...)
		m[i] = rs
	}
}

func fDupBranch(in string, h, q []string) ([]string, []string) {
	switch in {
	case "header":
		h = append(h, in)
	case "query":
		h = append(h, in)
	}
	return h, q
}

func fSelfSearch(xs []string) bool {
	for _, a := range xs {
		found := false
		for _, b := range xs {
			if a == b {
				found = true
			}
		}
		if !found {
			return false
		}
	}
	return true
}

func set([]string) {}
func fTwinGuard(hdr, trlr []string) {
	if len(hdr) > 0 {
		set(hdr)
	}
	if len(hdr) > 0 {
		set(trlr)
	}
}

type V struct{ Required []string }

func (v *V) Add(...string) {}

type W struct{ Validation *V }

func fLazyInit(a, parent *W) {
	if a.Validation == nil {
		a.Validation = &V{}
		a.Validation.Add(parent.Validation.Required...)
	}
}

type S struct{ Name string }
type R struct{ Schemes []*S }

func DupS(s *S) *S { return &S{Name: s.Name} }
func DupR(r *R) *R {
	d := &R{Schemes: make([]*S, len(r.Schemes))}
	copy(d.Schemes, r.Schemes)
	return d
}

type N struct{ Kids []*N }

func fLateGuard(n *N, seen map[*N]bool) {
	if seen[n] {
		return
	}
	for _, k := range n.Kids {
		fLateGuard(k, seen)
	}
	seen[n] = true
}

var pool = sync.Pool{New: func() any { return &bytes.Buffer{} }}

func sink([]byte) {}
var leakyPool = sync.Pool{New: func() any { return new(bytes.Buffer) }}

func fPoolGet(s string) *bytes.Buffer {
	b := leakyPool.Get().(*bytes.Buffer)
	b.WriteString(s)
	return b
}

func fPoolPut(b *bytes.Buffer) { leakyPool.Put(b) }

type creds struct {
	UserAttr, PassAttr         string
	UserPointer, PassPointer   bool
	UserRequired, PassRequired bool
}

func fCopySlip(userAtt, passAtt string, ptr, req func(string) bool) creds {
	return creds{
		UserAttr:     userAtt,
		UserPointer:  ptr(userAtt),
		UserRequired: req(userAtt),
		PassAttr:     passAtt,
		PassPointer:  ptr(userAtt),
		PassRequired: req(passAtt),
	}
}

func fIdxSpace(xs []int) int {
	n := 0
	for i, a := range xs {
		for j, b := range xs[i+1:] {
			if i != j && a == b {
				n++
			}
		}
	}
	return n
}

type bag struct{ Headers, Cookies []string }

type acc struct{ xs []string }

func (a *acc) Merge(xs []string) { a.xs = append(a.xs, xs...) }

func fSeqParity(api, svc bag) (*acc, *acc) {
	headers := &acc{}
	headers.Merge(svc.Headers)
	headers.Merge(api.Headers)
	cookies := &acc{}
	cookies.Merge(api.Cookies)
	cookies.Merge(svc.Cookies)
	return headers, cookies
}

func fCloneCond(kind int, in []string) []string {
	var out []string
	switch kind {
	case 0:
		if len(in) > 0 {
			out = make([]string, len(in))
			copy(out, in)
		}
	case 1:
		if len(in) > 1 {
			out = make([]string, len(in))
			copy(out, in)
		}
	default:
		if len(in) > 0 {
			out = make([]string, len(in))
			copy(out, in)
		}
	}
	return out
}

type shelf struct {
	names []string
	sub   map[string]*shelf
}

func (s *shelf) Part(n string) *shelf { return s.sub[n] }

func (s *shelf) Has(n string) bool {
	for _, x := range s.names {
		if x == n {
			return true
		}
	}
	return false
}

func fBypass(s *shelf, part, name string) bool {
	p := s.Part(part)
	if p == nil {
		return false
	}
	return s.Has(name)
}

type rec struct {
	Name  string
	Bases []string
}

func cloneRec(r *rec) *rec { return &rec{Name: r.Name, Bases: r.Bases} }

func fAliasStore(r *rec) *rec {
	res := cloneRec(r)
	for i, b := range res.Bases {
		res.Bases[i] = b + "'"
	}
	return res
}

func takeBody(bodies map[int][]string, code int) []string {
	b := bodies[code]
	delete(bodies, code)
	return b
}

func fConsumedArg(routes []string, bodies map[int][]string) [][]string {
	var out [][]string
	for range routes {
		out = append(out, takeBody(bodies, 200))
	}
	return out
}

type wire struct{ SkipRequestBody, SkipResponseBody bool }

type fakeResponse struct{ ct string }

func (r *fakeResponse) fWrongSide(w *wire) bool { return r.ct == "text/plain" && !w.SkipRequestBody }

func fLastWins(xs []string) bool {
	found := false
	for _, x := range xs {
		found = x == "abs"
	}
	return found
}

func fGuardIdx(xs []string) {
	at := -1
	for i, x := range xs {
		if x == "" {
			at = i
		}
	}
	if at >= 0 && at < len(xs)-1 {
		xs[0], xs[len(xs)-1] = xs[len(xs)-1], xs[0]
	}
}

type flagsA struct{ Timeout, Temporary bool }

type flagsB struct{ Temporary, Timeout bool }

func fPositional(a flagsA) flagsB { return flagsB{a.Timeout, a.Temporary} }

func fSwallow(xs []string, visit func(string) error) error {
	for _, x := range xs {
		if err := visit(x); err != nil {
			return nil
		}
	}
	return nil
}

func fAfterPut() {
	buf := pool.Get().(*bytes.Buffer)
	dump := buf.Bytes()
	pool.Put(buf)
	sink(dump)
}

func fSortCond(m map[string]int) []string {
	var keys []string
	for k := range m {
		keys = append(keys, k)
	}
	if len(keys) > 2 {
		sort.Strings(keys)
	}
	return keys
}
`

// SelfTestResult maps a lint kind to whether it fired on its positive example.
func LintSelfTest() (map[string]bool, error) {
	fset := token.NewFileSet()
	srcCache["zzselftest.go"] = []byte(selfTestSrc)
	file, err := parser.ParseFile(fset, "zzselftest.go", selfTestSrc, 0)
	if err != nil {
		return nil, err
	}
	info := &types.Info{Types: map[ast.Expr]types.TypeAndValue{}, Defs: map[*ast.Ident]types.Object{}, Uses: map[*ast.Ident]types.Object{},
		Selections: map[*ast.SelectorExpr]*types.Selection{}, Implicits: map[ast.Node]types.Object{}, Scopes: map[ast.Node]*types.Scope{}}
	conf := types.Config{Importer: importer.ForCompiler(fset, "source", nil)}
	tp, err := conf.Check(Mod+"/zzselftest", fset, []*ast.File{file}, info)
	if err != nil {
		return nil, err
	}
	pkg := &packages.Package{PkgPath: Mod + "/zzselftest", Fset: fset, Types: tp, TypesInfo: info, Syntax: []*ast.File{file}}
	got := map[string]bool{}
	var all []*Func
	for _, d := range file.Decls {
		if fd, ok := d.(*ast.FuncDecl); ok && fd.Body != nil {
			obj, _ := info.Defs[fd.Name].(*types.Func)
			all = append(all, &Func{Pkg: pkg, Decl: fd, Obj: obj, Name: "zzselftest." + fd.Name.Name})
		}
	}
	if _, leaks := PoolLeaks(all); len(leaks) > 0 {
		got["poolleak"] = true
	}
	for _, d := range file.Decls {
		fd, ok := d.(*ast.FuncDecl)
		if !ok || fd.Body == nil {
			continue
		}
		obj, _ := info.Defs[fd.Name].(*types.Func)
		f := &Func{Pkg: pkg, Decl: fd, Obj: obj, Name: "zzselftest." + fd.Name.Name}
		for _, h := range AllLints(f) {
			got[h.Kind] = true
		}
		for _, sc := range SelfCopies(f) {
			if len(sc.Missing) > 0 {
				got["selfcopy"] = true
			}
		}
		if len(Parity(f, "header", "cookie")) > 0 {
			got["parity"] = true
		}
		for _, mr := range MapRanges(f, nil) {
			if mr.Class == "order-sensitive" {
				got["maporder"] = true
			}
		}
	}
	return got, nil
}

// SelfTestKinds lists the lint kinds that must fire in the self-test.
var SelfTestKinds = []string{"lateguard", "afterput", "dupbranch", "selfsearch", "twinguard", "lazyinit", "shallow", "var", "memo", "recursion", "slice", "flag", "break", "swap", "guardfield", "retryonce", "guardvar", "rawname", "invariant", "mapstore", "selfcopy", "parity", "maporder", "swallow", "poolleak", "copyslip", "idxspace", "seqparity", "clonecond", "bypass", "aliasstore", "consumedarg", "wrongside", "posfield", "lastwins", "guardidx"}

func init() { sort.Strings(SelfTestKinds) }
