package an

import (
	"bytes"
	"fmt"
	"go/ast"
	"go/constant"
	"go/printer"
	"go/token"
	"go/types"
	"strings"

	"golang.org/x/tools/go/packages"
	"golang.org/x/tools/go/types/typeutil"
)

// Callee returns the statically resolved callee of a call (function, method or
// builtin), or nil for dynamic calls.
func Callee(info *types.Info, call *ast.CallExpr) types.Object {
	return typeutil.Callee(info, call)
}

// FullName returns "pkgpath.Name" or "(pkgpath.Recv).Name" of a function object.
func FullName(o types.Object) string {
	if o == nil {
		return ""
	}
	if f, ok := o.(*types.Func); ok {
		full := f.FullName()
		if f.Pkg() != nil && strings.HasPrefix(f.Pkg().Path(), Mod) {
			// a function that renames a reference function goes by the reference name
			short := strings.ReplaceAll(full, Mod+"/", "")
			if c := canonFuncName(f, short); c != short {
				// the reference name, with the module path put back
				switch {
				case strings.HasPrefix(c, "(*"):
					return "(*" + Mod + "/" + c[2:]
				case strings.HasPrefix(c, "("):
					return "(" + Mod + "/" + c[1:]
				}
				return Mod + "/" + c
			}
		}
		return full
	}
	if o.Pkg() != nil {
		return o.Pkg().Path() + "." + o.Name()
	}
	return o.Name()
}

// CalleeName returns the full name of the static callee of call, "" if dynamic.
func CalleeName(info *types.Info, call *ast.CallExpr) string {
	return FullName(Callee(info, call))
}

// IsCallTo reports whether call statically calls one of the named functions
// (full names as printed by types.Func.FullName, e.g. "sort.Strings",
// "(*sync.Mutex).Lock", "(net/http.Header).Set").
func IsCallTo(info *types.Info, call *ast.CallExpr, names ...string) bool {
	n := CalleeName(info, call)
	if n == "" {
		return false
	}
	for _, m := range names {
		if n == m {
			return true
		}
	}
	return false
}

// WalkNoFuncLit walks n without descending into function literals.
func WalkNoFuncLit(n ast.Node, f func(ast.Node) bool) {
	if n == nil {
		return
	}
	ast.Inspect(n, func(x ast.Node) bool {
		if x == nil {
			return false
		}
		if _, ok := x.(*ast.FuncLit); ok && x != n {
			return false
		}
		return f(x)
	})
}

// CallsIn returns the call expressions inside n in source order, not
// descending into function literals.
func CallsIn(n ast.Node) []*ast.CallExpr {
	var out []*ast.CallExpr
	WalkNoFuncLit(n, func(x ast.Node) bool {
		if c, ok := x.(*ast.CallExpr); ok {
			out = append(out, c)
		}
		return true
	})
	return out
}

// AllCallsIn returns every call expression in n, including those in nested
// function literals.
func AllCallsIn(n ast.Node) []*ast.CallExpr {
	var out []*ast.CallExpr
	ast.Inspect(n, func(x ast.Node) bool {
		if c, ok := x.(*ast.CallExpr); ok {
			out = append(out, c)
		}
		return true
	})
	return out
}

// Src renders an expression or statement as source text.
func Src(fset *token.FileSet, n ast.Node) string {
	if n == nil {
		return ""
	}
	var b bytes.Buffer
	printer.Fprint(&b, fset, n)
	s := b.String()
	if len(s) > 200 {
		s = s[:200] + "…"
	}
	return strings.Join(strings.Fields(s), " ")
}

// ConstString returns the constant string value of e, if it has one.
func ConstString(info *types.Info, e ast.Expr) (string, bool) {
	tv, ok := info.Types[e]
	if !ok || tv.Value == nil || tv.Value.Kind() != constant.String {
		return "", false
	}
	return constant.StringVal(tv.Value), true
}

// ConstInt returns the constant integer value of e, if it has one.
func ConstInt(info *types.Info, e ast.Expr) (int64, bool) {
	tv, ok := info.Types[e]
	if !ok || tv.Value == nil {
		return 0, false
	}
	v := constant.ToInt(tv.Value)
	if v.Kind() != constant.Int {
		return 0, false
	}
	i, exact := constant.Int64Val(v)
	return i, exact
}

// ConstBool returns the constant boolean value of e, if it has one.
func ConstBool(info *types.Info, e ast.Expr) (bool, bool) {
	tv, ok := info.Types[e]
	if !ok || tv.Value == nil || tv.Value.Kind() != constant.Bool {
		return false, false
	}
	return constant.BoolVal(tv.Value), true
}

// Unparen strips parentheses.
func Unparen(e ast.Expr) ast.Expr {
	for {
		p, ok := e.(*ast.ParenExpr)
		if !ok {
			return e
		}
		e = p.X
	}
}

// FieldOf returns the struct field selected by a selector expression, nil if
// the selector is not a field selection.
func FieldOf(info *types.Info, e ast.Expr) *types.Var {
	se, ok := Unparen(e).(*ast.SelectorExpr)
	if !ok {
		return nil
	}
	if sel, ok := info.Selections[se]; ok && sel.Kind() == types.FieldVal {
		if v, ok := sel.Obj().(*types.Var); ok {
			return v
		}
	}
	return nil
}

// ObjOf returns the object an identifier expression denotes (use or def).
func ObjOf(info *types.Info, e ast.Expr) types.Object {
	id, ok := Unparen(e).(*ast.Ident)
	if !ok {
		return nil
	}
	if o := info.Uses[id]; o != nil {
		return o
	}
	return info.Defs[id]
}

// RootIdent returns the identifier at the root of a selector/index/star/call
// chain (x in x.a.b[i].c, (*x).f), nil if the root is not an identifier.
func RootIdent(e ast.Expr) *ast.Ident {
	for {
		switch x := e.(type) {
		case *ast.Ident:
			return x
		case *ast.SelectorExpr:
			e = x.X
		case *ast.IndexExpr:
			e = x.X
		case *ast.StarExpr:
			e = x.X
		case *ast.ParenExpr:
			e = x.X
		case *ast.UnaryExpr:
			e = x.X
		case *ast.SliceExpr:
			e = x.X
		case *ast.TypeAssertExpr:
			e = x.X
		default:
			return nil
		}
	}
}

// FieldPath returns the names of the fields selected along a pure selector
// chain rooted at an identifier ("a.B.C" -> root a, ["B","C"]); ok=false when
// the expression has another shape.
func FieldPath(e ast.Expr) (root *ast.Ident, path []string, ok bool) {
	e = Unparen(e)
	switch x := e.(type) {
	case *ast.Ident:
		return x, nil, true
	case *ast.SelectorExpr:
		r, p, ok := FieldPath(x.X)
		if !ok {
			return nil, nil, false
		}
		return r, append(p, x.Sel.Name), true
	case *ast.StarExpr:
		return FieldPath(x.X)
	}
	return nil, nil, false
}

// NamedTypeName returns the name of the (pointer to) named type of t, with
// package path: "goa.design/goa/v3/expr.AttributeExpr".
func NamedTypeName(t types.Type) string {
	if t == nil {
		return ""
	}
	if p, ok := t.Underlying().(*types.Pointer); ok {
		t = p.Elem()
	}
	if p, ok := t.(*types.Pointer); ok {
		t = p.Elem()
	}
	if n, ok := t.(*types.Named); ok {
		if n.Obj().Pkg() != nil {
			return n.Obj().Pkg().Path() + "." + n.Obj().Name()
		}
		return n.Obj().Name()
	}
	return t.String()
}

// LookupType finds a named type in a package.
func LookupType(p *packages.Package, name string) *types.Named {
	if p == nil {
		return nil
	}
	o := p.Types.Scope().Lookup(name)
	if o == nil {
		return nil
	}
	n, _ := o.Type().(*types.Named)
	return n
}

// StructFields returns the fields of the struct underlying a named type.
func StructFields(n *types.Named) []*types.Var {
	if n == nil {
		return nil
	}
	st, ok := n.Underlying().(*types.Struct)
	if !ok {
		return nil
	}
	var out []*types.Var
	for i := 0; i < st.NumFields(); i++ {
		out = append(out, st.Field(i))
	}
	return out
}

// IsNilIdent reports whether e is the predeclared nil.
func IsNilIdent(info *types.Info, e ast.Expr) bool {
	id, ok := Unparen(e).(*ast.Ident)
	if !ok || id.Name != "nil" {
		return false
	}
	_, isNil := info.Uses[id].(*types.Nil)
	return isNil
}

// NilCompare decomposes `x == nil` / `x != nil` (either operand order).
// It returns the compared expression and whether the test is "!= nil".
func NilCompare(info *types.Info, e ast.Expr) (x ast.Expr, notNil bool, ok bool) {
	b, isBin := Unparen(e).(*ast.BinaryExpr)
	if !isBin || (b.Op != token.EQL && b.Op != token.NEQ) {
		return nil, false, false
	}
	switch {
	case IsNilIdent(info, b.Y):
		return Unparen(b.X), b.Op == token.NEQ, true
	case IsNilIdent(info, b.X):
		return Unparen(b.Y), b.Op == token.NEQ, true
	}
	return nil, false, false
}

// FuncLits returns the function literals directly or indirectly inside n.
func FuncLits(n ast.Node) []*ast.FuncLit {
	var out []*ast.FuncLit
	ast.Inspect(n, func(x ast.Node) bool {
		if f, ok := x.(*ast.FuncLit); ok {
			out = append(out, f)
		}
		return true
	})
	return out
}

// EnclosingFile returns the syntax file of a package containing pos.
func EnclosingFile(p *packages.Package, pos token.Pos) *ast.File {
	for _, f := range p.Syntax {
		if f.Pos() <= pos && pos <= f.End() {
			return f
		}
	}
	return nil
}

// SameExpr reports whether two expressions are syntactically identical
// selector/ident/star/index chains that resolve to the same objects.
func SameExpr(info *types.Info, a, b ast.Expr) bool {
	a, b = Unparen(a), Unparen(b)
	switch x := a.(type) {
	case *ast.Ident:
		y, ok := b.(*ast.Ident)
		if !ok {
			return false
		}
		ox, oy := ObjOf(info, x), ObjOf(info, y)
		if ox == nil || oy == nil {
			return x.Name == y.Name
		}
		return ox == oy
	case *ast.SelectorExpr:
		y, ok := b.(*ast.SelectorExpr)
		return ok && x.Sel.Name == y.Sel.Name && SameExpr(info, x.X, y.X)
	case *ast.StarExpr:
		y, ok := b.(*ast.StarExpr)
		return ok && SameExpr(info, x.X, y.X)
	case *ast.IndexExpr:
		y, ok := b.(*ast.IndexExpr)
		return ok && SameExpr(info, x.X, y.X) && SameExpr(info, x.Index, y.Index)
	case *ast.BasicLit:
		y, ok := b.(*ast.BasicLit)
		return ok && x.Kind == y.Kind && x.Value == y.Value
	case *ast.CallExpr:
		y, ok := b.(*ast.CallExpr)
		if !ok || len(x.Args) != len(y.Args) || !SameExpr(info, x.Fun, y.Fun) {
			return false
		}
		for i := range x.Args {
			if !SameExpr(info, x.Args[i], y.Args[i]) {
				return false
			}
		}
		return true
	case *ast.UnaryExpr:
		y, ok := b.(*ast.UnaryExpr)
		return ok && x.Op == y.Op && SameExpr(info, x.X, y.X)
	case *ast.BinaryExpr:
		y, ok := b.(*ast.BinaryExpr)
		return ok && x.Op == y.Op && SameExpr(info, x.X, y.X) && SameExpr(info, x.Y, y.Y)
	}
	return false
}

// ResolveLocal follows a local variable that has exactly one definition
// (`x := e` / `var x = e`) in body back to the defining expression, at most
// three steps; other expressions are returned as they are.
func ResolveLocal(info *types.Info, body ast.Node, e ast.Expr) ast.Expr {
	return resolveLocalSteps(info, body, e, 3)
}

// ResolveLocalOnce is ResolveLocal limited to one step.
func ResolveLocalOnce(info *types.Info, body ast.Node, e ast.Expr) ast.Expr {
	return resolveLocalSteps(info, body, e, 1)
}

func resolveLocalSteps(info *types.Info, body ast.Node, e ast.Expr, steps int) ast.Expr {
	for step := 0; step < steps; step++ {
		id, ok := Unparen(e).(*ast.Ident)
		if !ok {
			return e
		}
		o := info.Uses[id]
		if o == nil {
			return e
		}
		var defs []ast.Expr
		ast.Inspect(body, func(n ast.Node) bool {
			switch x := n.(type) {
			case *ast.AssignStmt:
				for i, l := range x.Lhs {
					if ObjOf(info, l) == o {
						if len(x.Rhs) == len(x.Lhs) {
							defs = append(defs, x.Rhs[i])
						} else {
							defs = append(defs, nil)
						}
					}
				}
			case *ast.ValueSpec:
				for i, n := range x.Names {
					if info.Defs[n] == o && i < len(x.Values) {
						defs = append(defs, x.Values[i])
					}
				}
			case *ast.IncDecStmt:
				if ObjOf(info, x.X) == o {
					defs = append(defs, nil)
				}
			}
			return true
		})
		if len(defs) != 1 || defs[0] == nil {
			return e
		}
		e = defs[0]
	}
	return e
}

// CanonExpr renders e, an expression of function fd, in a vocabulary that does
// not depend on local naming: the receiver prints as "recv", parameters as
// p0, p1, … (or as subst says), a local with a single definition prints as its
// definition, any other local as ‹type›. Fields, functions, constants and package names print as they are.
func CanonExpr(info *types.Info, fd *ast.FuncDecl, e ast.Expr, subst map[types.Object]string) string {
	names := map[types.Object]string{}
	if fd.Recv != nil {
		for _, fl := range fd.Recv.List {
			for _, n := range fl.Names {
				names[info.Defs[n]] = "recv"
			}
		}
	}
	i := 0
	for _, fl := range fd.Type.Params.List {
		if len(fl.Names) == 0 {
			i++
		}
		for _, n := range fl.Names {
			names[info.Defs[n]] = fmt.Sprintf("p%d", i)
			i++
		}
	}
	for o, s := range subst {
		names[o] = s
	}
	// ordinal of opaque locals by type
	ord := map[types.Object]string{}
	ast.Inspect(fd.Body, func(n ast.Node) bool {
		if id, ok := n.(*ast.Ident); ok {
			if o, isVar := info.Defs[id].(*types.Var); isVar && o != nil && !o.IsField() {
				if _, done := ord[o]; !done {
					t := types.TypeString(o.Type(), func(p *types.Package) string { return p.Name() })
					ord[o] = "‹" + t + "›"
				}
			}
		}
		return true
	})
	var pr func(e ast.Expr, depth int) string
	pr = func(e ast.Expr, depth int) string {
		switch x := e.(type) {
		case *ast.ParenExpr:
			return pr(x.X, depth)
		case *ast.Ident:
			o := info.Uses[x]
			if o == nil {
				o = info.Defs[x]
			}
			if s, ok := names[o]; ok {
				return s
			}
			if v, isVar := o.(*types.Var); isVar && !v.IsField() && v.Parent() != nil && v.Parent() != v.Pkg().Scope() {
				if depth < 3 {
					if def := ResolveLocal(info, fd.Body, x); def != ast.Expr(x) {
						opaque := false
						switch d := Unparen(def).(type) {
						case *ast.CompositeLit, *ast.FuncLit:
							opaque = true
						case *ast.CallExpr:
							if id, ok := d.Fun.(*ast.Ident); ok && (id.Name == "make" || id.Name == "new" || id.Name == "append") {
								opaque = true
							}
						}
						if !opaque {
							return pr(def, depth+1)
						}
					}
				}
				if s, ok := ord[o]; ok {
					return s
				}
			}
			return x.Name
		case *ast.SelectorExpr:
			return pr(x.X, depth) + "." + x.Sel.Name
		case *ast.StarExpr:
			return "*" + pr(x.X, depth)
		case *ast.UnaryExpr:
			return x.Op.String() + pr(x.X, depth)
		case *ast.BinaryExpr:
			return pr(x.X, depth) + " " + x.Op.String() + " " + pr(x.Y, depth)
		case *ast.IndexExpr:
			return pr(x.X, depth) + "[" + pr(x.Index, depth) + "]"
		case *ast.TypeAssertExpr:
			if x.Type == nil {
				return pr(x.X, depth) + ".(type)"
			}
			return pr(x.X, depth) + ".(" + types.ExprString(x.Type) + ")"
		case *ast.CallExpr:
			var args []string
			for _, a := range x.Args {
				args = append(args, pr(a, depth))
			}
			return pr(x.Fun, depth) + "(" + strings.Join(args, ", ") + ")"
		}
		return types.ExprString(e)
	}
	return pr(e, 0)
}
