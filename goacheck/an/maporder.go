package an

import (
	"go/ast"
	"go/token"
	"go/types"
	"golang.org/x/tools/go/packages"
	"strings"
)

// Engines E4 (map iteration order) and E7 (sort comparators).

// MapRange is one `range` statement over a map and its classification.
type MapRange struct {
	Fn      *Func
	Stmt    *ast.RangeStmt
	Class   string // commutative | collected-then-sorted | single-entry | order-sensitive
	Reason  string
	Reasons []string // the individual order-sensitive findings
}

var sortFuncs = map[string]bool{
	"sort.Strings": true, "sort.Ints": true, "sort.Float64s": true, "sort.Sort": true, "sort.Stable": true,
	"sort.Slice": true, "sort.SliceStable": true, "slices.Sort": true, "slices.SortFunc": true, "slices.SortStableFunc": true,
}

var pureCalls = map[string]bool{
	"len": true, "cap": true, "strings.HasPrefix": true, "strings.HasSuffix": true, "strings.Contains": true,
	"strings.ToLower": true, "strings.ToUpper": true, "strings.TrimPrefix": true, "strings.TrimSuffix": true,
	"strings.Split": true, "strings.SplitN": true, "strings.Join": true, "strings.TrimSpace": true, "strings.Index": true,
	"strings.Title": true, "strings.Replace": true, "strings.ReplaceAll": true, "strings.EqualFold": true, "strings.Fields": true,
	"fmt.Sprintf": true, "fmt.Sprint": true, "strconv.Itoa": true, "strconv.Quote": true, "make": true, "new": true,
	"append": true, "delete": true, "copy": true, "strconv.Atoi": true, "strconv.ParseInt": true, "strconv.ParseBool": true,
	"strconv.ParseFloat": true, "strconv.ParseUint": true, "strconv.FormatInt": true, "min": true, "max": true,
	"path/filepath.Rel": true, "path/filepath.Join": true, "path/filepath.Base": true, "path.Join": true, "path.Base": true,
	"strings.Compare": true, "errors.New": true, "fmt.Errorf": true,
}

// MapRanges finds and classifies every range-over-map statement of f.
// extraPure lists additional callee full names known to be free of
// order-dependent effects.
func MapRanges(f *Func, extraPure map[string]bool) []MapRange {
	var out []MapRange
	info := f.Pkg.TypesInfo
	ast.Inspect(f.Decl.Body, func(n ast.Node) bool {
		rs, ok := n.(*ast.RangeStmt)
		if !ok {
			return true
		}
		tv, ok := info.Types[rs.X]
		if !ok {
			return true
		}
		if _, isMap := tv.Type.Underlying().(*types.Map); !isMap {
			return true
		}
		mr := MapRange{Fn: f, Stmt: rs}
		mr.Class, mr.Reasons = classifyMapRange(f, rs, extraPure)
		mr.Reason = strings.Join(mr.Reasons, "; ")
		out = append(out, mr)
		return true
	})
	return out
}

func classifyMapRange(f *Func, rs *ast.RangeStmt, extraPure map[string]bool) (string, []string) {
	info := f.Pkg.TypesInfo
	// single-entry literal
	if cl, ok := Unparen(rs.X).(*ast.CompositeLit); ok && len(cl.Elts) <= 1 {
		return "single-entry", []string{"map literal with at most one entry"}
	}
	var collected []types.Object // slices appended to in the loop
	var sensitive []string
	isPure := func(call *ast.CallExpr) bool {
		if id, ok := Unparen(call.Fun).(*ast.Ident); ok {
			if _, isBuiltin := info.Uses[id].(*types.Builtin); isBuiltin {
				return pureCalls[id.Name]
			}
		}
		// conversions
		if tv, ok := info.Types[call.Fun]; ok && tv.IsType() {
			return true
		}
		name := CalleeName(info, call)
		if pureCalls[name] || extraPure[name] {
			return true
		}
		// a helper of the same package that did not exist on the reference tree (an extracted
		// function) and that only computes: no assignment outside its locals, no call but pure ones
		if fn, isFn := Callee(info, call).(*types.Func); isFn && fn != nil && fn.Pkg() == f.Pkg.Types && !isReferenceFunc(strings.ReplaceAll(fn.FullName(), Mod+"/", "")) {
			if decl := declOf(f.Pkg, fn); decl != nil && computesOnly(f.Pkg.TypesInfo, decl) {
				return true
			}
		}
		return false
	}
	// every call inside the loop must be pure (or classified below)
	var checkExpr func(e ast.Expr)
	checkExpr = func(e ast.Expr) {
		if e == nil {
			return
		}
		ast.Inspect(e, func(n ast.Node) bool {
			switch x := n.(type) {
			case *ast.FuncLit:
				sensitive = append(sensitive, "function literal in loop body")
				return false
			case *ast.CallExpr:
				if !isPure(x) {
					name := CalleeName(info, x)
					if name == "" {
						name = types.ExprString(x.Fun)
					}
					sensitive = append(sensitive, "call with unknown effects: "+name)
				}
			}
			return true
		})
	}
	outerVar := func(e ast.Expr) types.Object {
		id := RootIdent(e)
		if id == nil {
			return nil
		}
		o := ObjOf(info, id)
		if o == nil {
			return nil
		}
		// declared inside the loop body?
		if o.Pos() >= rs.Body.Pos() && o.Pos() <= rs.Body.End() {
			return nil
		}
		if rs.Key != nil && ObjOf(info, rs.Key) == o || rs.Value != nil && ObjOf(info, rs.Value) == o {
			return nil
		}
		return o
	}
	isConst := func(e ast.Expr) bool {
		tv, ok := info.Types[e]
		if ok && tv.Value != nil {
			return true
		}
		return IsNilIdent(info, e)
	}
	pinned := 0 // >0 while inside a branch that fixes the map key to one constant
	keyObj := types.Object(nil)
	if rs.Key != nil {
		keyObj = ObjOf(info, rs.Key)
	}
	isKey := func(e ast.Expr) bool { return keyObj != nil && ObjOf(info, e) == keyObj }
	// pinsKey: cond is `key == const` possibly and-ed with other terms
	var pinsKey func(e ast.Expr) bool
	pinsKey = func(e ast.Expr) bool {
		b, ok := Unparen(e).(*ast.BinaryExpr)
		if !ok {
			return false
		}
		switch b.Op {
		case token.EQL:
			return (isKey(b.X) && isConst(b.Y)) || (isKey(b.Y) && isConst(b.X))
		case token.LAND:
			return pinsKey(b.X) || pinsKey(b.Y)
		}
		return false
	}
	var walkStmts func(list []ast.Stmt)
	var walkStmt func(s ast.Stmt)
	walkStmts = func(list []ast.Stmt) {
		for _, s := range list {
			walkStmt(s)
		}
	}
	walkStmt = func(s ast.Stmt) {
		switch x := s.(type) {
		case nil:
		case *ast.BlockStmt:
			walkStmts(x.List)
		case *ast.IfStmt:
			walkStmt(x.Init)
			checkExpr(x.Cond)
			if pinsKey(x.Cond) {
				pinned++
				walkStmt(x.Body)
				pinned--
			} else {
				walkStmt(x.Body)
			}
			walkStmt(x.Else)
		case *ast.SwitchStmt:
			walkStmt(x.Init)
			checkExpr(x.Tag)
			for _, cc := range x.Body.List {
				list := cc.(*ast.CaseClause).List
				for _, e := range list {
					checkExpr(e)
				}
				pin := x.Tag != nil && isKey(x.Tag) && len(list) == 1 && isConst(list[0])
				if x.Tag == nil && len(list) == 1 && pinsKey(list[0]) {
					pin = true
				}
				if pin {
					pinned++
				}
				walkStmts(cc.(*ast.CaseClause).Body)
				if pin {
					pinned--
				}
			}
		case *ast.TypeSwitchStmt:
			walkStmt(x.Init)
			for _, cc := range x.Body.List {
				walkStmts(cc.(*ast.CaseClause).Body)
			}
		case *ast.ForStmt:
			walkStmt(x.Init)
			checkExpr(x.Cond)
			walkStmt(x.Post)
			walkStmt(x.Body)
		case *ast.RangeStmt:
			checkExpr(x.X)
			walkStmt(x.Body)
		case *ast.BranchStmt:
			if x.Tok == token.BREAK || x.Tok == token.GOTO {
				// leaving the loop early: which element was seen first matters only if
				// something order-sensitive was stored; the stores are judged separately
			}
		case *ast.ReturnStmt:
			for _, r := range x.Results {
				if !isConst(r) && pinned == 0 {
					if o := outerVar(r); o != nil && !dependsOnLoopVars(info, r, rs) {
						continue
					}
					sensitive = append(sensitive, "returns a value that depends on the element visited: "+types.ExprString(r))
				}
			}
		case *ast.IncDecStmt:
			checkExpr(x.X)
		case *ast.DeclStmt:
			if gd, ok := x.Decl.(*ast.GenDecl); ok {
				for _, sp := range gd.Specs {
					if vs, ok := sp.(*ast.ValueSpec); ok {
						for _, v := range vs.Values {
							checkExpr(v)
						}
					}
				}
			}
		case *ast.ExprStmt:
			if call, ok := x.X.(*ast.CallExpr); ok {
				if id, ok := Unparen(call.Fun).(*ast.Ident); ok && id.Name == "delete" {
					for _, a := range call.Args {
						checkExpr(a)
					}
					return
				}
			}
			checkExpr(x.X)
		case *ast.AssignStmt:
			for _, r := range x.Rhs {
				checkExpr(r)
			}
			for i, l := range x.Lhs {
				l = Unparen(l)
				if id, ok := l.(*ast.Ident); ok && id.Name == "_" {
					continue
				}
				o := outerVar(l)
				if o == nil {
					continue // loop-local
				}
				// map or set store
				if ix, ok := l.(*ast.IndexExpr); ok {
					if tv, ok := info.Types[ix.X]; ok {
						if _, isMap := tv.Type.Underlying().(*types.Map); isMap {
							checkExpr(ix.Index)
							// a store under a key that does not depend on the element, of a value
							// that does: whichever element is visited last wins
							if pinned == 0 && !dependsOnIteration(info, rs, ix.Index) && i < len(x.Rhs) && dependsOnIteration(info, rs, x.Rhs[i]) && !singleEntryGuard(f, rs) {
								sensitive = append(sensitive, "store of an element-dependent value under a key that is the same for every element ("+types.ExprString(ix)+"): the element visited last wins")
							}
							continue
						}
					}
					if _, isIdent := Unparen(ix.X).(*ast.Ident); isIdent {
						if _, isSlice := info.Types[ix.X].Type.Underlying().(*types.Slice); isSlice {
							collected = append(collected, o) // s[i] = v: order erased only if s is sorted afterwards
							continue
						}
					}
					sensitive = append(sensitive, "store into a slice/array element of "+o.Name())
					continue
				}
				var rhs ast.Expr
				if len(x.Rhs) == len(x.Lhs) {
					rhs = x.Rhs[i]
				} else if len(x.Rhs) == 1 {
					rhs = x.Rhs[0]
				}
				// append to an outer slice
				if call, ok := Unparen(rhs).(*ast.CallExpr); ok {
					if id, ok := Unparen(call.Fun).(*ast.Ident); ok && id.Name == "append" && len(call.Args) > 0 && SameExpr(info, call.Args[0], l) {
						if _, isIdent := l.(*ast.Ident); isIdent {
							collected = append(collected, o)
						} else {
							sensitive = append(sensitive, "append to "+types.ExprString(l)+" in map order")
						}
						continue
					}
				}
				tv := info.Types[l]
				switch {
				case x.Tok == token.ADD_ASSIGN || x.Tok == token.SUB_ASSIGN || x.Tok == token.MUL_ASSIGN || x.Tok == token.OR_ASSIGN || x.Tok == token.AND_ASSIGN:
					if b, ok := tv.Type.Underlying().(*types.Basic); ok && b.Info()&types.IsNumeric != 0 {
						continue // commutative accumulation
					}
					sensitive = append(sensitive, "non-numeric accumulation into "+types.ExprString(l)+" in map order")
				case rhs != nil && isConst(rhs):
					continue // flag
				case rhs != nil && !dependsOnLoopVars(info, rhs, rs):
					continue
				case pinned > 0:
					continue // at most one key equals the constant: a single deterministic assignment
				default:
					sensitive = append(sensitive, "assignment of an element-dependent value to "+types.ExprString(l)+" (last or first match wins)")
				}
			}
		case *ast.GoStmt, *ast.DeferStmt, *ast.SendStmt, *ast.SelectStmt, *ast.LabeledStmt:
			sensitive = append(sensitive, "statement kind not classified")
		}
	}
	walkStmt(rs.Body)
	if len(sensitive) > 0 {
		return "order-sensitive", dedupStr(sensitive)
	}
	if len(collected) > 0 {
		// every collected slice must be sorted after the loop before any other use
		for _, o := range collected {
			if !sortedAfter(f, rs, o) && !(SortedByCallers != nil && SortedByCallers(f, o)) {
				return "order-sensitive", []string{"slice " + o.Name() + " is filled in map order and not sorted afterwards"}
			}
		}
		return "collected-then-sorted", []string{"elements are appended to a slice that is sorted after the loop"}
	}
	return "commutative", []string{"only map/set stores, counters, constant flags and loop-local work"}
}

func dedupStr(in []string) []string {
	seen := map[string]bool{}
	var out []string
	for _, s := range in {
		if !seen[s] {
			seen[s] = true
			out = append(out, s)
		}
	}
	return out
}

// dependsOnLoopVars reports whether e mentions the key/value variables of the
// range statement or anything declared in its body.
func dependsOnLoopVars(info *types.Info, e ast.Expr, rs *ast.RangeStmt) bool {
	dep := false
	ast.Inspect(e, func(n ast.Node) bool {
		id, ok := n.(*ast.Ident)
		if !ok {
			return true
		}
		o := info.Uses[id]
		if o == nil {
			return true
		}
		if rs.Key != nil && ObjOf(info, rs.Key) == o || rs.Value != nil && ObjOf(info, rs.Value) == o {
			dep = true
		}
		if o.Pos() >= rs.Body.Pos() && o.Pos() <= rs.Body.End() {
			dep = true
		}
		return true
	})
	return dep
}

// sortedAfter reports whether slice variable o is passed to a sort function
// after the range statement rs, in the same function, before the function's
// end (the first use after the loop that is not a sort call is tolerated only
// if it is a nil/len test).
// SortedByCallers, when set (by Load), reports whether slice o, filled by f, is returned by f and sorted by
// every caller of f before any other use: the collecting half of a collect-then-sort was moved into a helper.
var SortedByCallers func(f *Func, o types.Object) bool

func sortedAfter(f *Func, rs *ast.RangeStmt, o types.Object) bool {
	info := f.Pkg.TypesInfo
	found := false
	ast.Inspect(f.Decl.Body, func(n ast.Node) bool {
		call, ok := n.(*ast.CallExpr)
		if !ok || call.Pos() < rs.End() {
			return true
		}
		if !sortFuncs[CalleeName(info, call)] || len(call.Args) == 0 {
			return true
		}
		root := RootIdent(call.Args[0])
		if root != nil && ObjOf(info, root) == o && unconditionalAfter(f, rs, call, o) {
			found = true
		}
		return true
	})
	return found
}

// unconditionalAfter reports whether call, which follows rs, runs whenever
// control leaves rs normally: none of its ancestors that do not also enclose rs
// is a branch or a loop, except a guard `if len(o) > 0|> 1|>= 1|>= 2|!= 0` (a
// slice of fewer than two elements is sorted already).
func unconditionalAfter(f *Func, rs *ast.RangeStmt, call *ast.CallExpr, o types.Object) bool {
	info := f.Pkg.TypesInfo
	parent := ParentMap(f.Decl.Body)
	for n := parent[call]; n != nil; n = parent[n] {
		if n.Pos() <= rs.Pos() && rs.End() <= n.End() {
			return true // common ancestor reached
		}
		switch x := n.(type) {
		case *ast.IfStmt:
			if !trivialLenGuard(info, x.Cond, o) || x.Else != nil {
				return false
			}
		case *ast.ForStmt, *ast.RangeStmt, *ast.SwitchStmt, *ast.TypeSwitchStmt, *ast.SelectStmt, *ast.FuncLit, *ast.CaseClause:
			return false
		}
	}
	return true
}

func trivialLenGuard(info *types.Info, cond ast.Expr, o types.Object) bool {
	b, ok := ast.Unparen(cond).(*ast.BinaryExpr)
	if !ok {
		return false
	}
	call, ok := b.X.(*ast.CallExpr)
	if !ok || len(call.Args) != 1 {
		return false
	}
	if id, ok := call.Fun.(*ast.Ident); !ok || id.Name != "len" {
		return false
	}
	root := RootIdent(call.Args[0])
	if root == nil || ObjOf(info, root) != o {
		return false
	}
	tv, ok := info.Types[b.Y]
	if !ok || tv.Value == nil {
		return false
	}
	v := tv.Value.ExactString()
	switch b.Op {
	case token.GTR:
		return v == "0" || v == "1"
	case token.GEQ:
		return v == "1" || v == "2"
	case token.NEQ:
		return v == "0"
	}
	return false
}

// SortCall is a call of sort.Slice-like functions with a comparator literal.
type SortCall struct {
	Fn      *Func
	Call    *ast.CallExpr
	Problem string // "" when the comparator indexes the sorted slice only
}

// SortComparators checks engine E7 on f: inside the less function of
// sort.Slice/SliceStable(s, less) every index expression that uses less's
// parameters must index s itself.
func SortComparators(f *Func) []SortCall {
	info := f.Pkg.TypesInfo
	var out []SortCall
	ast.Inspect(f.Decl.Body, func(n ast.Node) bool {
		call, ok := n.(*ast.CallExpr)
		if !ok || len(call.Args) != 2 {
			return true
		}
		name := CalleeName(info, call)
		if name != "sort.Slice" && name != "sort.SliceStable" {
			return true
		}
		fl, ok := Unparen(call.Args[1]).(*ast.FuncLit)
		if !ok {
			return true
		}
		sc := SortCall{Fn: f, Call: call}
		params := map[types.Object]bool{}
		for _, fld := range fl.Type.Params.List {
			for _, nm := range fld.Names {
				params[info.Defs[nm]] = true
			}
		}
		indexed := 0
		ast.Inspect(fl.Body, func(x ast.Node) bool {
			ix, ok := x.(*ast.IndexExpr)
			if !ok {
				return true
			}
			id, ok := Unparen(ix.Index).(*ast.Ident)
			if !ok || !params[info.Uses[id]] {
				return true
			}
			indexed++
			if !SameExpr(info, ix.X, call.Args[0]) {
				sc.Problem = "less() indexes " + types.ExprString(ix.X) + " while the slice being sorted is " + types.ExprString(call.Args[0])
			}
			return true
		})
		if indexed == 0 && sc.Problem == "" {
			sc.Problem = "less() never indexes the slice being sorted with its parameters"
		}
		out = append(out, sc)
		return true
	})
	return out
}

// dependsOnIteration reports whether e mentions the loop's key or value
// variable or a variable declared inside the loop body.
func dependsOnIteration(info *types.Info, rs *ast.RangeStmt, e ast.Expr) bool {
	dep := false
	ast.Inspect(e, func(n ast.Node) bool {
		id, ok := n.(*ast.Ident)
		if !ok {
			return true
		}
		o := info.Uses[id]
		if o == nil {
			return true
		}
		if rs.Key != nil && ObjOf(info, rs.Key) == o || rs.Value != nil && ObjOf(info, rs.Value) == o {
			dep = true
		}
		if _, isVar := o.(*types.Var); isVar && o.Pos() >= rs.Body.Pos() && o.Pos() <= rs.Body.End() {
			dep = true
		}
		return !dep
	})
	return dep
}

// singleEntryGuard reports whether rs sits in the then-branch of an
// `if len(X) == 1` on the very expression it ranges over.
func singleEntryGuard(f *Func, rs *ast.RangeStmt) bool {
	info := f.Pkg.TypesInfo
	parent := ParentMap(f.Decl.Body)
	for p := parent[rs]; p != nil; p = parent[p] {
		is, ok := p.(*ast.IfStmt)
		if !ok || !(rs.Pos() >= is.Body.Pos() && rs.End() <= is.Body.End()) {
			continue
		}
		cmp, ok := Unparen(is.Cond).(*ast.BinaryExpr)
		if !ok || cmp.Op != token.EQL {
			continue
		}
		call, ok := Unparen(cmp.X).(*ast.CallExpr)
		if !ok || len(call.Args) != 1 {
			continue
		}
		if id, ok := call.Fun.(*ast.Ident); !ok || id.Name != "len" {
			continue
		}
		if v, ok := ConstInt(info, cmp.Y); ok && v == 1 && SameExpr(info, call.Args[0], rs.X) {
			return true
		}
	}
	return false
}

// declOf finds the declaration of fn in pkg.
func declOf(pkg *packages.Package, fn *types.Func) *ast.FuncDecl {
	for _, file := range pkg.Syntax {
		for _, d := range file.Decls {
			if fd, ok := d.(*ast.FuncDecl); ok && pkg.TypesInfo.Defs[fd.Name] == fn {
				return fd
			}
		}
	}
	return nil
}

// computesOnly: the function body assigns only variables it declares, does not
// send, go or defer, and calls only builtins, conversions and the known pure
// functions (one level: callees are not followed).
func computesOnly(info *types.Info, fd *ast.FuncDecl) bool {
	if fd.Body == nil {
		return false
	}
	ok := true
	local := func(e ast.Expr) bool {
		id, isID := Unparen(e).(*ast.Ident)
		if !isID {
			return false
		}
		o := ObjOf(info, id)
		return o != nil && o.Pos() >= fd.Pos() && o.Pos() <= fd.End()
	}
	ast.Inspect(fd.Body, func(n ast.Node) bool {
		switch x := n.(type) {
		case *ast.AssignStmt:
			for _, l := range x.Lhs {
				if id, isID := l.(*ast.Ident); isID && id.Name == "_" {
					continue
				}
				if !local(l) {
					ok = false
				}
			}
		case *ast.IncDecStmt:
			if !local(x.X) {
				ok = false
			}
		case *ast.SendStmt, *ast.GoStmt, *ast.DeferStmt, *ast.FuncLit:
			ok = false
		case *ast.CallExpr:
			if tv, isT := info.Types[x.Fun]; isT && tv.IsType() {
				return true
			}
			if id, isID := Unparen(x.Fun).(*ast.Ident); isID {
				if _, isBuiltin := info.Uses[id].(*types.Builtin); isBuiltin && pureCalls[id.Name] {
					return true
				}
			}
			name := CalleeName(info, x)
			if pureCalls[name] {
				return true
			}
			// interface methods that name things are treated as pure accessors when they take no argument
			if len(x.Args) == 0 {
				if se, isSel := x.Fun.(*ast.SelectorExpr); isSel && info.Selections[se] != nil {
					return true
				}
			}
			ok = false
		}
		return ok
	})
	return ok
}

func isReferenceFunc(name string) bool {
	_, ok := referenceFuncs[name]
	return ok
}
