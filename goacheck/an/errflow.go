package an

import (
	"go/ast"
	"go/types"

	"golang.org/x/tools/go/cfg"
)

// Engine E10 (error discipline): every error value obtained from a call must be
// tested (and the test must have the polarity that leaves on failure) or
// returned before the function exits or the variable is reused.

// ErrDef is an assignment of a call's error result to a variable.
type ErrDef struct {
	Loc  Loc
	Var  types.Object
	Call *ast.CallExpr
	Stmt ast.Node
}

var errorType = types.Universe.Lookup("error").Type()

func isErrorType(t types.Type) bool {
	return t != nil && types.Identical(t, errorType)
}

// ErrDefs lists the error definitions of the function.
func (c *CFG) ErrDefs() []ErrDef {
	var out []ErrDef
	for _, b := range c.live {
		for i, n := range b.Nodes {
			as, ok := n.(*ast.AssignStmt)
			if !ok || len(as.Rhs) != 1 {
				continue
			}
			call, ok := Unparen(as.Rhs[0]).(*ast.CallExpr)
			if !ok {
				continue
			}
			tv, ok := c.Info.Types[call]
			if !ok {
				continue
			}
			var last types.Type
			switch t := tv.Type.(type) {
			case *types.Tuple:
				if t.Len() == 0 || t.Len() != len(as.Lhs) {
					continue
				}
				last = t.At(t.Len() - 1).Type()
			default:
				if len(as.Lhs) != 1 {
					continue
				}
				last = tv.Type
			}
			if !isErrorType(last) {
				continue
			}
			lhs := as.Lhs[len(as.Lhs)-1]
			id, ok := Unparen(lhs).(*ast.Ident)
			if !ok || id.Name == "_" {
				continue
			}
			v := ObjOf(c.Info, id)
			if v == nil {
				continue
			}
			out = append(out, ErrDef{Loc: Loc{b, i}, Var: v, Call: call, Stmt: as})
		}
	}
	return out
}

func mentions(info *types.Info, n ast.Node, v types.Object) bool {
	hit := false
	WalkNoFuncLit(n, func(x ast.Node) bool {
		if id, ok := x.(*ast.Ident); ok && (info.Uses[id] == v || info.Defs[id] == v) {
			hit = true
		}
		return true
	})
	return hit
}

// ErrChecked decides the discipline for one definition. It returns "" when
// the error is tested with the right polarity or returned on every path, and a
// description of the problem otherwise.
func (c *CFG) ErrChecked(d ErrDef) string {
	gates := c.NilGates(d.Var)
	isGateEnd := func(l Loc) bool {
		for _, g := range gates {
			if l.Block == g.Block && l.Idx == len(g.Block.Nodes)-1 {
				return true
			}
		}
		return false
	}
	// other definitions/assignments of the variable
	isRedef := func(l Loc) bool {
		if l == d.Loc || l.Idx < 0 || l.Idx >= len(l.Block.Nodes) {
			return false
		}
		n := l.Block.Nodes[l.Idx]
		if n == d.Stmt {
			return false
		}
		return AssignsTo(c.Info, n, d.Var)
	}
	// uses that count as handling without a test: returning the variable, or
	// passing it to a call (wrapping, merging, recording)
	handles := func(l Loc) bool {
		if l.Idx < 0 || l.Idx >= len(l.Block.Nodes) {
			return false
		}
		n := l.Block.Nodes[l.Idx]
		if n == d.Stmt {
			return false
		}
		switch s := n.(type) {
		case *ast.ReturnStmt:
			return mentions(c.Info, s, d.Var)
		}
		used := false
		for _, call := range CallsIn(n) {
			for _, a := range call.Args {
				if mentions(c.Info, a, d.Var) {
					used = true
				}
			}
		}
		return used
	}
	avoid := func(l Loc) bool { return isGateEnd(l) || handles(l) }
	// (1) no exit or redefinition reachable without a test or a handling use
	for _, r := range c.ReturnLocs() {
		if r.Idx < len(r.Block.Nodes) {
			if rs, ok := r.Block.Nodes[r.Idx].(*ast.ReturnStmt); ok && mentions(c.Info, rs, d.Var) {
				continue
			}
		}
		if c.Reaches(d.Loc, r, avoid) {
			return "the error can reach a return without being tested or returned (return at " + posString(c, r) + ")"
		}
	}
	for _, b := range c.live {
		for i := range b.Nodes {
			l := Loc{b, i}
			if isRedef(l) && c.Reaches(d.Loc, l, avoid) {
				return "the error variable is overwritten before being tested"
			}
		}
	}
	// (2) inverted gates: the nil branch returns the (nil) error while the
	// non-nil branch carries on
	for _, g := range gates {
		if !c.Reaches(d.Loc, Loc{g.Block, len(g.Block.Nodes) - 1}, isRedef) && d.Loc.Block != g.Block {
			continue
		}
		nilReturns := blockReturnsVar(c, g.Nil, d.Var)
		nonNilReturns := blockLeaves(c, g.NonNil)
		if nilReturns && !nonNilReturns {
			return "the test has the wrong polarity: the error is returned when it is nil and ignored when it is set"
		}
	}
	return ""
}

func posString(c *CFG, l Loc) string {
	_ = c
	if l.Idx >= 0 && l.Idx < len(l.Block.Nodes) {
		if rs, ok := l.Block.Nodes[l.Idx].(*ast.ReturnStmt); ok && len(rs.Results) > 0 {
			return "`return " + types.ExprString(rs.Results[0]) + ", …`"
		}
	}
	return "the end of the function"
}

// blockReturnsVar reports whether block b (the branch target) contains a
// return statement that mentions v.
func blockReturnsVar(c *CFG, b *cfg.Block, v types.Object) bool {
	for _, n := range b.Nodes {
		if rs, ok := n.(*ast.ReturnStmt); ok && mentions(c.Info, rs, v) {
			return true
		}
	}
	return false
}

// blockLeaves reports whether block b ends the function (return, panic or a
// call that does not return) without falling through to later code.
func blockLeaves(c *CFG, b *cfg.Block) bool {
	for _, n := range b.Nodes {
		if _, ok := n.(*ast.ReturnStmt); ok {
			return true
		}
	}
	return len(b.Succs) == 0
}
