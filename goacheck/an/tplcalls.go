package an

import (
	"go/types"
	"regexp"
	"strings"
)

// Calls in template text. The Go code a template emits calls runtime helpers
// (goa.NewServiceError(err, name, timeout, temporary, fault)); the arguments
// are template actions. TplCalls recovers, from the raw template source with
// every action kept as one token, the calls to functions of the given package
// qualifiers and their argument texts; it executes nothing.

// TplCall is one call found in template text.
type TplCall struct {
	Qual, Func string
	Args       []string // raw argument texts, actions as ‹…›
	Line       int
}

var actionRe = regexp.MustCompile(`(?s)\{\{-?\s*(.*?)\s*-?\}\}`)
var controlRe = regexp.MustCompile(`^(if|else|end|range|with|define|template|block|break|continue|/\*)\b`)

// TplCalls scans template source src for calls qual.Func( … ).
func TplCalls(src string, quals ...string) []TplCall {
	flat := actionRe.ReplaceAllStringFunc(src, func(m string) string {
		body := actionRe.FindStringSubmatch(m)[1]
		nl := strings.Repeat("\n", strings.Count(m, "\n"))
		if controlRe.MatchString(body) || strings.HasPrefix(body, "/*") {
			return nl
		}
		return "‹" + strings.ReplaceAll(body, "\n", " ") + "›" + nl
	})
	callRe := regexp.MustCompile(`\b(` + strings.Join(quals, "|") + `)\.([A-Z]\w*)\(`)
	var out []TplCall
	for _, loc := range callRe.FindAllStringSubmatchIndex(flat, -1) {
		qual, fn := flat[loc[2]:loc[3]], flat[loc[4]:loc[5]]
		i := loc[1]
		depth, start := 1, i
		var args []string
		inStr, inAct := byte(0), false
		rs := []rune(flat[i:])
		pos := 0
		cur := strings.Builder{}
		done := false
		for pos < len(rs) && !done {
			r := rs[pos]
			switch {
			case inAct:
				cur.WriteRune(r)
				if r == '›' {
					inAct = false
				}
			case inStr != 0:
				cur.WriteRune(r)
				if r == '\\' && pos+1 < len(rs) {
					pos++
					cur.WriteRune(rs[pos])
				} else if byte(r) == inStr {
					inStr = 0
				}
			case r == '‹':
				inAct = true
				cur.WriteRune(r)
			case r == '"' || r == '`' || r == '\'':
				inStr = byte(r)
				cur.WriteRune(r)
			case r == '(' || r == '[' || r == '{':
				depth++
				cur.WriteRune(r)
			case r == ')' || r == ']' || r == '}':
				depth--
				if depth == 0 {
					args = append(args, strings.TrimSpace(cur.String()))
					done = true
				} else {
					cur.WriteRune(r)
				}
			case r == ',' && depth == 1:
				args = append(args, strings.TrimSpace(cur.String()))
				cur.Reset()
			default:
				cur.WriteRune(r)
			}
			pos++
		}
		if !done {
			continue
		}
		if len(args) == 1 && args[0] == "" {
			args = nil
		}
		out = append(out, TplCall{qual, fn, args, 1 + strings.Count(flat[:start], "\n")})
	}
	return out
}

var actionFieldRe = regexp.MustCompile(`\.([A-Za-z_]\w*)\s*›$`)

// TplArgField returns the final field name of an argument that is a single
// action ending in a field reference (‹.Timeout›, ‹printf "%v" .Timeout›).
func TplArgField(arg string) string {
	if !strings.HasPrefix(arg, "‹") || strings.Count(arg, "‹") != 1 {
		return ""
	}
	m := actionFieldRe.FindStringSubmatch(arg)
	if m == nil {
		return ""
	}
	return m[1]
}

// TplSwappedArgs checks the calls against the signatures of pkg's functions:
// two action arguments named after each other's parameters. It returns the
// number of arguments whose field name equals some parameter name of the callee
// (the rule's instances) and the swaps.
func TplSwappedArgs(calls []TplCall, scope *types.Scope) (int, []string) {
	n := 0
	var out []string
	for _, c := range calls {
		fn, ok := scope.Lookup(c.Func).(*types.Func)
		if !ok {
			continue
		}
		sig := fn.Type().(*types.Signature)
		if sig.Params().Len() != len(c.Args) {
			continue
		}
		pn := func(i int) string { return strings.ToLower(sig.Params().At(i).Name()) }
		for i := range c.Args {
			fi := strings.ToLower(TplArgField(c.Args[i]))
			if fi == "" {
				continue
			}
			for j := range c.Args {
				if fi == pn(j) {
					n++
				}
				if j <= i {
					continue
				}
				fj := strings.ToLower(TplArgField(c.Args[j]))
				if fi == pn(j) && fj == pn(i) && fi != fj {
					out = append(out, c.Qual+"."+c.Func+": "+c.Args[i]+" is passed as parameter "+pn(i)+" and "+c.Args[j]+" as parameter "+pn(j))
				}
			}
		}
	}
	return n, out
}
