package an

import (
	"go/ast"
	"go/token"
	"go/types"
	"strings"
)

// Nil map arguments. A function that stores into a map parameter (m[k] = v)
// without first making sure the map exists panics when a caller hands it nil.
// For every such (function, parameter) and every call that passes the nil
// literal for it, the store must be unreachable for that call: one of the
// conditions that dominate the store in the callee, rewritten with the call's
// arguments in place of the parameters, must be contradicted by a condition that
// dominates the call in the caller. Conditions are compared in canonical form;
// a flag set by a comma-ok type assertion reads as "ok⟨X.(T)⟩".

// NilMapArg is one call that can reach the store.
type NilMapArg struct {
	Caller *Func
	Call   *ast.CallExpr
	Callee *Func
	Param  string
	Store  ast.Node
}

type canonFact struct {
	text  string
	holds bool
}

// okFlagAssert returns the comma-ok type assertion that defines identifier id (as its second result) in body.
func okFlagAssert(info *types.Info, body ast.Node, id *ast.Ident) *ast.TypeAssertExpr {
	o := info.Uses[id]
	if o == nil {
		return nil
	}
	var out *ast.TypeAssertExpr
	n := 0
	ast.Inspect(body, func(x ast.Node) bool {
		switch d := x.(type) {
		case *ast.AssignStmt:
			if len(d.Lhs) == 2 && len(d.Rhs) == 1 && ObjOf(info, d.Lhs[1]) == o {
				n++
				out, _ = Unparen(d.Rhs[0]).(*ast.TypeAssertExpr)
			}
		case *ast.ValueSpec:
			if len(d.Names) == 2 && len(d.Values) == 1 && info.Defs[d.Names[1]] == o {
				n++
				out, _ = Unparen(d.Values[0]).(*ast.TypeAssertExpr)
			}
		}
		return true
	})
	if n != 1 {
		return nil
	}
	return out
}

// canonFacts renders atomic facts of f in canonical form under subst.
func canonFacts(f *Func, facts []CondFact, subst map[types.Object]string) []canonFact {
	info := f.Pkg.TypesInfo
	var out []canonFact
	for _, fc := range facts {
		e, holds := Unparen(fc.Cond), fc.Holds
		for {
			u, ok := e.(*ast.UnaryExpr)
			if !ok || u.Op != token.NOT {
				break
			}
			e, holds = Unparen(u.X), !holds
		}
		if id, ok := e.(*ast.Ident); ok {
			if ta := okFlagAssert(info, f.Decl.Body, id); ta != nil && ta.Type != nil {
				out = append(out, canonFact{"ok⟨" + CanonExpr(info, f.Decl, ta.X, subst) + ".(" + types.ExprString(ta.Type) + ")⟩", holds})
				continue
			}
		}
		out = append(out, canonFact{CanonExpr(info, f.Decl, e, subst), holds})
	}
	return out
}

// NilMapArgs finds the pattern among the functions of the given directories.
func (c *Ctx) NilMapArgs(dirs []string) (stores int, out []NilMapArg) {
	type target struct {
		f     *Func
		param int
		obj   types.Object
		store ast.Node
		facts []CondFact
	}
	var targets []target
	for _, d := range dirs {
		for _, f := range c.AllFuncs(d) {
			info := f.Pkg.TypesInfo
			var params []types.Object
			for _, fl := range f.Decl.Type.Params.List {
				for _, n := range fl.Names {
					params = append(params, info.Defs[n])
				}
			}
			var g *CFG
			for i, p := range params {
				if p == nil {
					continue
				}
				if _, isMap := p.Type().Underlying().(*types.Map); !isMap {
					continue
				}
				reassigned := false
				var storesHere []ast.Node
				ast.Inspect(f.Decl.Body, func(x ast.Node) bool {
					as, ok := x.(*ast.AssignStmt)
					if !ok {
						return true
					}
					for _, l := range as.Lhs {
						if ObjOf(info, l) == p {
							reassigned = true // `m = make(…)` style repair: not decided here
						}
						if ix, ok := Unparen(l).(*ast.IndexExpr); ok && ObjOf(info, ix.X) == p {
							storesHere = append(storesHere, as)
						}
					}
					return true
				})
				if reassigned {
					continue
				}
				for _, st := range storesHere {
					if g == nil {
						g = NewCFG(info, f.Decl.Body)
					}
					facts, ok := g.FactsFor(st)
					if !ok {
						continue
					}
					guarded := false
					for _, fc := range facts {
						if x, notNil, ok := NilCompare(info, fc.Cond); ok && ObjOf(info, x) == p && notNil == fc.Holds {
							guarded = true
						}
					}
					if !guarded {
						targets = append(targets, target{f, i, p, st, facts})
					}
				}
			}
		}
	}
	stores = len(targets)
	for _, t := range targets {
		for _, cs := range c.callersOf(t.f.Obj) {
			if t.param >= len(cs.call.Args) || !IsNilIdent(cs.g.Pkg.TypesInfo, cs.call.Args[t.param]) {
				continue
			}
			ginfo := cs.g.Pkg.TypesInfo
			gcfg := NewCFG(ginfo, cs.g.Decl.Body)
			local, ok := gcfg.FactsFor(cs.call)
			if !ok {
				local = nil // a call inside a function literal: no facts
			}
			// decide under a substitution of the caller's own parameters (nil: the caller's vocabulary)
			decide := func(outer map[types.Object]string, extra []canonFact) bool {
				subst := map[types.Object]string{}
				k := 0
				for _, fl := range t.f.Decl.Type.Params.List {
					for _, n := range fl.Names {
						if k < len(cs.call.Args) {
							subst[t.f.Pkg.TypesInfo.Defs[n]] = CanonExpr(ginfo, cs.g.Decl, cs.call.Args[k], outer)
						}
						k++
					}
				}
				need := canonFacts(t.f, t.facts, subst)
				got := append(canonFacts(cs.g, local, outer), extra...)
				for _, n := range need {
					for _, h := range got {
						if n.text == h.text && n.holds != h.holds && !strings.Contains(n.text, "‹") {
							return true
						}
					}
				}
				return false
			}
			unreachable := decide(nil, nil)
			if !unreachable && c.IsNewFunc(cs.g) {
				// the caller is a helper extracted since the reference tree: the conditions under which it is
				// called count too, for every one of its own callers
				outers := c.callersOf(cs.g.Obj)
				all := len(outers) > 0
				for _, oc := range outers {
					oinfo := oc.g.Pkg.TypesInfo
					outer := map[types.Object]string{}
					k := 0
					for _, fl := range cs.g.Decl.Type.Params.List {
						for _, n := range fl.Names {
							if k < len(oc.call.Args) {
								outer[ginfo.Defs[n]] = CanonExpr(oinfo, oc.g.Decl, oc.call.Args[k], nil)
							}
							k++
						}
					}
					ocfg := NewCFG(oinfo, oc.g.Decl.Body)
					ofacts, _ := ocfg.FactsFor(oc.call)
					if !decide(outer, canonFacts(oc.g, ofacts, nil)) {
						all = false
					}
				}
				unreachable = all
			}
			if !unreachable {
				out = append(out, NilMapArg{cs.g, cs.call, t.f, t.obj.Name(), t.store})
			}
		}
	}
	return stores, out
}
