package an

import (
	"go/token"
	"strings"

	"fmt"
	"go/ast"
	"go/types"
	"golang.org/x/tools/go/cfg"
	"sort"
)

// fieldStores returns, per (base object, struct type), the fields of the struct stored through that base in f
// (assignments `x.F = …`, tuple assignments included), with one store node per field.
func fieldStores(f *Func) map[types.Object]map[string][]ast.Node {
	info := f.Pkg.TypesInfo
	out := map[types.Object]map[string][]ast.Node{}
	ast.Inspect(f.Decl.Body, func(n ast.Node) bool {
		as, ok := n.(*ast.AssignStmt)
		if !ok {
			return true
		}
		for _, l := range as.Lhs {
			se, ok := Unparen(l).(*ast.SelectorExpr)
			if !ok {
				continue
			}
			id, ok := Unparen(se.X).(*ast.Ident)
			if !ok {
				continue
			}
			if FieldOf(info, se) == nil {
				continue
			}
			o := ObjOf(info, id)
			if o == nil {
				continue
			}
			if out[o] == nil {
				out[o] = map[string][]ast.Node{}
			}
			out[o][se.Sel.Name] = append(out[o][se.Sel.Name], as)
		}
		return true
	})
	return out
}

func structName(t types.Type) string {
	if p, ok := t.(*types.Pointer); ok {
		t = p.Elem()
	}
	return NamedTypeName(t)
}

// DiscoverFieldPairs prints the candidates of the paired-store rule: fields A, B of one struct type such that every
// function that stores A through some variable also stores B through the same variable, and the reverse, at least
// three times. Discovery only: the rule instances are confirmed by reading and frozen in package props.
func DiscoverFieldPairs(c *Ctx) {
	type key struct{ typ, a, b string }
	both, alone := map[key]int{}, map[key]int{}
	for _, d := range c.ModuleDirs() {
		for _, f := range c.AllFuncs(d) {
			for o, fs := range fieldStores(f) {
				tn := structName(o.Type())
				if tn == "" {
					continue
				}
				var names []string
				for n := range fs {
					names = append(names, n)
				}
				sort.Strings(names)
				st, _ := o.Type().Underlying().(*types.Struct)
				if p, ok := o.Type().Underlying().(*types.Pointer); ok {
					st, _ = p.Elem().Underlying().(*types.Struct)
				}
				if st == nil {
					continue
				}
				for i := 0; i < st.NumFields(); i++ {
					for j := 0; j < st.NumFields(); j++ {
						a, b := st.Field(i).Name(), st.Field(j).Name()
						if a >= b {
							continue
						}
						_, ha := fs[a]
						_, hb := fs[b]
						switch {
						case ha && hb:
							both[key{tn, a, b}]++
						case ha || hb:
							alone[key{tn, a, b}]++
						}
					}
				}
			}
		}
	}
	var ks []key
	for k, n := range both {
		if n >= 2 && alone[k] == 0 {
			ks = append(ks, k)
		}
	}
	sort.Slice(ks, func(i, j int) bool { return fmt.Sprint(ks[i]) < fmt.Sprint(ks[j]) })
	for _, k := range ks {
		fmt.Printf("PAIR %s %s+%s together=%d alone=0\n", k.typ, k.a, k.b, both[k])
	}
}

// UnpairedStore is a store to one field of a pair that can be reached, and left, without the other field of the
// same variable being stored.
type UnpairedStore struct {
	Store ast.Node
	Base  string
	Has   string
	Lacks string
}

// PairedStores checks the pairing invariant "whoever stores x.A also stores x.B before x is used by anyone else" for
// the struct type whose qualified name ends in typ: for every store to x.A that is not a store to x.B as well, some
// store to x.B lies on every path from where x starts to exist (function entry, or the start of the loop body that
// declares x) to the store, or on every path from the store to where x stops being this function's business (a
// return, the end of that loop iteration). A call for which opaque answers true and that mentions x counts as a
// store to both fields. Function literals are checked as functions of their own. sites counts
// the stores examined.
func PairedStores(f *Func, typ, a, b string, opaque func(*ast.CallExpr) bool) (sites int, out []UnpairedStore) {
	info := f.Pkg.TypesInfo
	bodies := []*ast.BlockStmt{f.Decl.Body}
	for _, fl := range FuncLits(f.Decl.Body) {
		bodies = append(bodies, fl.Body)
	}
	for _, body := range bodies {
		type store struct {
			n      ast.Node
			fields map[string]bool
		}
		byBase := map[types.Object][]store{}
		WalkNoFuncLit(body, func(n ast.Node) bool {
			as, ok := n.(*ast.AssignStmt)
			if !ok {
				return true
			}
			per := map[types.Object]map[string]bool{}
			for _, l := range as.Lhs {
				se, ok := Unparen(l).(*ast.SelectorExpr)
				if !ok {
					continue
				}
				fv := FieldOf(info, se)
				if fv == nil {
					continue
				}
				fname := CanonFieldName(fv) // the field's name on the reference tree (fields get renamed)
				if fname != a && fname != b {
					continue
				}
				id, ok := Unparen(se.X).(*ast.Ident)
				if !ok {
					continue
				}
				o := ObjOf(info, id)
				if o == nil || !strings.HasSuffix(structName(o.Type()), typ) {
					continue
				}
				if per[o] == nil {
					per[o] = map[string]bool{}
				}
				per[o][fname] = true
			}
			for o, fs := range per {
				byBase[o] = append(byBase[o], store{as, fs})
			}
			return true
		})
		if len(byBase) == 0 {
			continue
		}
		g := NewCFG(info, body)
		for o, stores := range byBase {
			// the region in which o lives: the innermost loop body of this function body that contains o's declaration
			var lo, hi token.Pos
			WalkNoFuncLit(body, func(n ast.Node) bool {
				var lb *ast.BlockStmt
				switch x := n.(type) {
				case *ast.ForStmt:
					lb = x.Body
				case *ast.RangeStmt:
					lb = x.Body
				}
				if lb != nil && n.Pos() <= o.Pos() && o.Pos() < lb.End() {
					lo, hi = lb.Pos(), lb.End()
				}
				return true
			})
			inRegion := func(p token.Pos) bool { return lo == token.NoPos || (lo <= p && p < hi) }
			// start block: the block holding the earliest node of the region
			start := Loc{g.Entry(), 0}
			if lo != token.NoPos {
				best := token.NoPos
				for _, blk := range g.Live() {
					for i, n := range blk.Nodes {
						if inRegion(n.Pos()) && (best == token.NoPos || n.Pos() < best) {
							best, start = n.Pos(), Loc{blk, i}
						}
					}
				}
			}
			isStoreOf := func(n ast.Node, field string) bool {
				// a call that hands the variable to a function the reference tree does not know may store anything
				handed := false
				if opaque != nil {
					WalkNoFuncLit(n, func(m ast.Node) bool {
						call, ok := m.(*ast.CallExpr)
						if !ok || !opaque(call) {
							return true
						}
						ast.Inspect(call, func(k ast.Node) bool {
							if id, ok := k.(*ast.Ident); ok && ObjOf(info, id) == o {
								handed = true
							}
							return true
						})
						return true
					})
				}
				if handed {
					return true
				}
				for _, s := range stores {
					if s.fields[field] && s.n.Pos() <= n.Pos() && n.End() <= s.n.End() || s.fields[field] && n.Pos() <= s.n.Pos() && s.n.End() <= n.End() {
						return true
					}
				}
				return false
			}
			type st struct {
				b *cfg.Block
				i int
			}
			contains := func(n, m ast.Node) bool { return n.Pos() <= m.Pos() && m.End() <= n.End() }
			// explore walks forward from (blk, idx); visit returns 1 to answer true, -1 to cut the path, 0 to go on;
			// atEnd is the answer when a path falls off the function
			explore := func(from st, visit func(st, ast.Node) int, atEnd bool) bool {
				seen := map[st]bool{}
				work := []st{from}
				for len(work) > 0 {
					cur := work[len(work)-1]
					work = work[:len(work)-1]
					if seen[cur] {
						continue
					}
					seen[cur] = true
					cut := false
					for i := cur.i; i < len(cur.b.Nodes) && !cut; i++ {
						switch visit(st{cur.b, i}, cur.b.Nodes[i]) {
						case 1:
							return true
						case -1:
							cut = true
						}
					}
					if cut {
						continue
					}
					if len(cur.b.Succs) == 0 {
						if atEnd && !endsInNoReturn(g, cur.b) {
							return true
						}
						continue
					}
					for _, nx := range cur.b.Succs {
						work = append(work, st{nx, 0})
					}
				}
				return false
			}
			reachedBare := func(target ast.Node, other string) bool {
				return explore(st{start.Block, start.Idx}, func(_ st, n ast.Node) int {
					if contains(n, target) || contains(target, n) {
						return 1
					}
					if isStoreOf(n, other) {
						return -1
					}
					return 0
				}, false)
			}
			leftBare := func(loc Loc, other string) bool {
				return explore(st{loc.Block, loc.Idx + 1}, func(at st, n ast.Node) int {
					if isStoreOf(n, other) {
						return -1
					}
					if !inRegion(n.Pos()) || (lo != token.NoPos && at.b == start.Block && at.i == start.Idx) {
						return 1
					}
					return 0
				}, true)
			}
			for _, s := range stores {
				sites++
				for _, pr := range [][2]string{{a, b}, {b, a}} {
					if !s.fields[pr[0]] || s.fields[pr[1]] {
						continue
					}
					loc, ok := g.LocOf(s.n)
					if !ok {
						continue
					}
					if reachedBare(s.n, pr[1]) && leftBare(loc, pr[1]) {
						out = append(out, UnpairedStore{s.n, o.Name(), pr[0], pr[1]})
					}
				}
			}
		}
	}
	sort.Slice(out, func(i, j int) bool { return out[i].Store.Pos() < out[j].Store.Pos() })
	return sites, out
}
