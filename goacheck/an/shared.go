package an

import (
	"go/token"
	"go/types"
	"strings"

	"golang.org/x/tools/go/ssa"
)

// Engine E6: shared-location writes and the locks held at them.

// SharedWrite is a store to a package-level variable, to a variable captured
// by a closure, or through such a variable.
type SharedWrite struct {
	Fn     *ssa.Function
	Kind   string // "global" | "captured" | "via-global" | "via-captured"
	Target string // rendered location
	Pos    token.Pos
	Locked string // mutex term held at the write ("" if none)
	Atomic bool   // performed by a sync/atomic call
	Instr  ssa.Instruction
}

// rootOf follows address computations back to their root value.
func rootOf(v ssa.Value) (root ssa.Value, through bool, path string) {
	for {
		switch x := v.(type) {
		case *ssa.FieldAddr:
			path = "." + fieldName(x.X.Type(), x.Field) + path
			v = x.X
		case *ssa.IndexAddr:
			path = "[i]" + path
			v = x.X
		case *ssa.UnOp:
			if x.Op != token.MUL {
				return v, through, path
			}
			through = true
			v = x.X
		case *ssa.ChangeType:
			v = x.X
		default:
			return v, through, path
		}
	}
}

func lockCallInfo(c *ssa.CallCommon) (mutex ssa.Value, op string) {
	f := c.StaticCallee()
	if f == nil || f.Object() == nil {
		return nil, ""
	}
	fo, ok := f.Object().(*types.Func)
	if !ok {
		return nil, ""
	}
	switch fo.FullName() {
	case "(*sync.Mutex).Lock", "(*sync.RWMutex).Lock":
		return c.Args[0], "lock"
	case "(*sync.RWMutex).RLock":
		return c.Args[0], "rlock"
	case "(*sync.Mutex).Unlock", "(*sync.RWMutex).Unlock", "(*sync.RWMutex).RUnlock":
		return c.Args[0], "unlock"
	}
	return nil, ""
}

func valueKey(v ssa.Value) string {
	r, _, path := rootOf(v)
	switch x := r.(type) {
	case *ssa.Global:
		return x.Pkg.Pkg.Path() + "." + x.Name() + path
	case *ssa.FreeVar:
		return "captured:" + x.Name() + path
	case *ssa.Parameter:
		return "param:" + x.Name() + path
	case *ssa.Alloc:
		return "local:" + x.Comment + path
	}
	return r.Name() + path
}

// heldAt returns the key of a lock definitely held at instruction ins: a
// forward must-hold dataflow (meet = intersection) over the function's blocks
// where Lock adds the mutex and Unlock removes it; deferred unlocks do not
// release before the function returns. With exclusiveOnly, RLock does not count.
// HeldAt is the exported form of heldAt.
func HeldAt(fn *ssa.Function, ins ssa.Instruction, exclusiveOnly bool) string {
	return heldAt(fn, ins, exclusiveOnly)
}

func heldAt(fn *ssa.Function, ins ssa.Instruction, exclusiveOnly bool) string {
	type set map[string]bool
	apply := func(st set, in ssa.Instruction) {
		call, ok := in.(*ssa.Call)
		if !ok {
			return
		}
		m, op := lockCallInfo(&call.Call)
		switch op {
		case "lock":
			st[valueKey(m)] = true
		case "rlock":
			if !exclusiveOnly {
				st[valueKey(m)] = true
			}
		case "unlock":
			delete(st, valueKey(m))
		}
	}
	in := map[*ssa.BasicBlock]set{}
	var top set // nil = top (all locks) for unvisited blocks
	_ = top
	visited := map[*ssa.BasicBlock]bool{}
	if len(fn.Blocks) == 0 {
		return ""
	}
	in[fn.Blocks[0]] = set{}
	visited[fn.Blocks[0]] = true
	changed := true
	for changed {
		changed = false
		for _, b := range fn.Blocks {
			if !visited[b] {
				continue
			}
			out := set{}
			for k := range in[b] {
				out[k] = true
			}
			for _, i := range b.Instrs {
				apply(out, i)
			}
			for _, s := range b.Succs {
				if !visited[s] {
					visited[s] = true
					ns := set{}
					for k := range out {
						ns[k] = true
					}
					in[s] = ns
					changed = true
					continue
				}
				for k := range in[s] {
					if !out[k] {
						delete(in[s], k)
						changed = true
					}
				}
			}
		}
	}
	b := ins.Block()
	st := set{}
	for k := range in[b] {
		st[k] = true
	}
	for _, i := range b.Instrs {
		if i == ins {
			break
		}
		apply(st, i)
	}
	for k := range st {
		return k
	}
	return ""
}

// SharedWrites lists the writes to shared locations in fn (not its closures).
func SharedWrites(fn *ssa.Function) []SharedWrite {
	var out []SharedWrite
	classify := func(addr ssa.Value) (string, string, bool) {
		r, through, path := rootOf(addr)
		switch x := r.(type) {
		case *ssa.Global:
			if through {
				return "via-global", x.Pkg.Pkg.Path() + "." + x.Name() + path, true
			}
			return "global", x.Pkg.Pkg.Path() + "." + x.Name() + path, true
		case *ssa.FreeVar:
			if through {
				return "via-captured", x.Name() + path, true
			}
			return "captured", x.Name() + path, true
		}
		return "", "", false
	}
	for _, b := range fn.Blocks {
		for _, in := range b.Instrs {
			switch x := in.(type) {
			case *ssa.Store:
				if k, t, ok := classify(x.Addr); ok {
					out = append(out, SharedWrite{Fn: fn, Kind: k, Target: t, Pos: x.Pos(), Locked: heldAt(fn, in, true), Instr: in})
				}
			case *ssa.MapUpdate:
				if k, t, ok := classify(x.Map); ok {
					if !strings.HasPrefix(k, "via-") {
						k = "via-" + k
					}
					out = append(out, SharedWrite{Fn: fn, Kind: k, Target: t + "[k]", Pos: x.Pos(), Locked: heldAt(fn, in, true), Instr: in})
				}
			case *ssa.Call:
				if f := x.Call.StaticCallee(); f != nil && f.Pkg != nil && f.Pkg.Pkg.Path() == "sync/atomic" && len(x.Call.Args) > 0 {
					name := f.Name()
					if strings.HasPrefix(name, "Store") || strings.HasPrefix(name, "Add") || strings.HasPrefix(name, "Swap") || strings.HasPrefix(name, "CompareAndSwap") {
						if k, t, ok := classify(x.Call.Args[0]); ok {
							out = append(out, SharedWrite{Fn: fn, Kind: k, Target: t, Pos: x.Pos(), Atomic: true, Instr: in})
						}
					}
				}
			}
		}
	}
	return out
}

// AllFunctions returns fn and all its (transitively) nested closures.
func AllFunctions(fn *ssa.Function) []*ssa.Function {
	out := []*ssa.Function{fn}
	for _, a := range fn.AnonFuncs {
		out = append(out, AllFunctions(a)...)
	}
	return out
}

// FuncDisplayName names an SSA function relative to the module.
func FuncDisplayName(f *ssa.Function) string { return funcName(f) }

// FuncValueOf strips interface and type conversions from v and returns the
// function it denotes (a named function, a method value wrapper or the body of
// a closure); nil when v is not a function value known statically.
func FuncValueOf(v ssa.Value) *ssa.Function {
	for i := 0; i < 6 && v != nil; i++ {
		switch x := v.(type) {
		case *ssa.Function:
			return x
		case *ssa.MakeClosure:
			fn, _ := x.Fn.(*ssa.Function)
			return fn
		case *ssa.MakeInterface:
			v = x.X
		case *ssa.ChangeType:
			v = x.X
		case *ssa.Convert:
			v = x.X
		case *ssa.ChangeInterface:
			v = x.X
		default:
			return nil
		}
	}
	return nil
}

// IsReferenceFunc reports whether f (by canonical name) exists on the reference tree.
func IsReferenceFunc(f *ssa.Function) bool {
	_, known := referenceFuncs[funcName(f)]
	return known
}
